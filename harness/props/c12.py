"""C12 -- Mangle window functions decide point membership exactly as the caps define."""
import math
from fractions import Fraction as Fr

import os

from harness import common as C
from translate import c12 as T

ID = 'C12'
PROPS_V = 'C12/Props.v'
COQCHK = 'norec'   # closure rests on Reals (and Interval): full coqchk takes tens of minutes
LEVEL = 'proof'
TRUSTED = [
    'translate/c12.py + translate/pyexpr.py: Python ast -> Gallina for the decision expressions of cap_distance, is_in_cap, '
    'angles_to_x, is_cap_used, is_in_polygon, is_in_window, set_use_caps and the balkans slices of window_read '
    '(Generated/Mangle.v, Generated/MangleR.v); C12/RBase.v gives np.degrees / np.radians / np.clip their real meaning',
    'loop skeletons of C12/Model.v around the generated expressions: since round 5 the whole bodies of set_use_caps, '
    'is_in_polygon (one point) and is_in_window (one point, fuelled while loop) are compiled statement by statement '
    '(translate/c12.py class Body) and proved equal to the skeletons (C12/Loops.v: C12_set_use_caps_body_is_model, '
    'C12_is_in_polygon_body_is_model, C12_is_in_window_body_is_model); the per-point reading of the vectorised '
    'is_in_window body, array indexing (polygon.x[i, :], polygon.cm[i], p[x][icap, :]) and cap_distance as a black box '
    'inside these bodies are tied by exact correspondence on every run',
    'C12/Arccos.v ties the code formula arccos(1-|cm|) - arccos(x.p) >= 0 to the algebraic test over Coq Reals '
    '(stdlib axioms: ClassicalDedekindReals.sig_forall_dec, sig_not_dec, functional_extensionality_dep, Classical_Prop.classic); '
    'numpy arccos/dot rounding is outside: generated points keep |1 - x.p - |cm|| > 1e-11',
    'astropy FITS/Table I/O, the .ply text reader and numpy angles_to_x are exercised, not modelled (the model is given the '
    'exact rational values of the doubles the implementation holds)',
    'harness/impl/c12_impl.py writes the .ply / FITS / window_blist+window_bcaps files the readers are run on',
    'round 6: calls with 6.5e4 .. 2e6 points are judged through C12_in_window_pointwise / _copies / _split / _same_point: the '
    'points are copies of <= 40 points whose answers the model computes; harness/impl/c12_impl.py (expand_index, summarise) '
    'checks with numpy that every position carries the answer of its point and reports first / last occurrence to Coq; '
    'for RA/Dec input of the large-N and reused-array families the Cartesian vector given to the model is computed by the '
    'harness (math module), independently of angles_to_x',
]
ASSUMPTIONS = [
    'points exactly on a cap boundary (1 - x.p = |cm|) count as inside for cm and -cm alike (code convention, proved: '
    'C12_boundary_in_both_R; "complement" holds off the boundary: C12_neg_cap_is_complement_R); such ties and near-ties are '
    'tested only where the implementation arithmetic is exact (axis centres, grid points, 1 - |cm| representable); elsewhere '
    'points keep 1e-11 from every boundary',
    'nested lists / tuples of points are not documented input (ndarray is): an exception is accepted for them, an answer is '
    'judged; in-place edits of a polygon\'s own x / cm arrays are judged against the caps the polygon then reports',
    '|cm| <= 2, unit-length x and p up to rounding; float32 cap tables, polygons with zero caps in .ply files and negative '
    'or >= 63 index-list entries are outside the generated inputs',
    'set_use_caps: every tolerance comparison is driven over a ladder of absolute (tol * {0, 1e-3, 0.5, 0.999, 1.001, 2, '
    '1e2, 1e4, 1e6}) and relative (1e-4 .. 1e-12) differences, axis and cm separately and jointly, both signs and '
    'magnitudes 1e-6 .. 2 of cm, tol in {1e-10, 1e-7, 1e-5, 1e-12, 2^-20}; a rung is used only when each pairwise '
    'comparison keeps a relative distance of 1e-9 from its threshold (float rounding is ~1e-16), except exact ties at '
    'power-of-two tol with short dyadic values, where every float operation is checked to be exact; tol <= 0 is outside',
]

HEADER = '''From Coq Require Import ZArith QArith List. Import ListNotations.
From PV Require Import C12.Spec C12.Model. Open Scope Z_scope.'''

def translate(ctx):
    """Regenerate coq/Generated/Mangle.v and MangleR.v from the repository under test (fail-closed)."""
    ztext, rtext, info = T.generate(C.REPO)
    if ztext is not None:
        info['changed'] = [C.write_if_changed(os.path.join(C.COQ, 'Generated', 'Mangle.v'), ztext),
                           C.write_if_changed(os.path.join(C.COQ, 'Generated', 'MangleR.v'), rtext)]
    else:
        # do not keep whatever an earlier run (possibly of another tree) left behind: fall back to the baseline text
        from translate import c12_baseline as B
        info['changed'] = [C.write_if_changed(os.path.join(C.COQ, 'Generated', 'Mangle.v'), B.MANGLE_V),
                           C.write_if_changed(os.path.join(C.COQ, 'Generated', 'MangleR.v'), B.MANGLER_V)]
        info['note'] = ('source shape not recognised; Generated/Mangle.v and MangleR.v are set to the baseline (reference '
                        'source) text and the correspondence run alone ties model to code')
    return {'Mangle': info}


MARGIN = Fr(1, 10 ** 11)
SIG_NAN = 'C12:membership:dot-product-outside-[-1,1]:arccos=NaN:impl=outside:property'
SIG_IDX = 'C12:set_use_caps:index_list[i]-lookup:property'
SIG_NEGSUM = 'C12:set_use_caps:cm-sum-test-without-abs:distinct-caps-dropped:property'
SIG_RAW1 = 'C12:route=fits_raw:single-cap-slot-table:impl=IndexError:property'
SIG_PLY0 = 'C12:route=ply:zero-cap-polygon:impl=AssertionError:property'


# ---------------------------------------------------------------- literals

def me(x):
    """double -> (m, e) with x = m * 2^-e exactly, e >= 0"""
    fr = Fr(x)
    return fr.numerator, fr.denominator.bit_length() - 1


def q(x):
    m, e = me(x)
    return '(qd %s %d)' % (C.zlit(m), e)


def vec_t(v):
    return '(v3 %s)' % ' '.join('%s %d' % (C.zlit(m), e) for m, e in (me(c) for c in v))


def cap_t(x, cm):
    return '(mkcap %s %s)' % (vec_t(x), q(cm))


def poly_t(p):
    return '(mkpoly %d%%nat %s %s)' % (p['ncaps'] if 'ncaps' in p else len(p['cm']), C.zlit(p['use_caps']),
                                      C.coq_list([cap_t(x, cm) for x, cm in zip(p['x'], p['cm'])]))


def boolist(bs):
    return C.coq_list([C.boollit(b) for b in bs])


def zlist(zs):
    return C.coq_list([C.zlit(z) for z in zs])


# ---------------------------------------------------------------- geometry helpers (harness side)

def unit(v):
    n = math.sqrt(v[0] * v[0] + v[1] * v[1] + v[2] * v[2])
    return [v[0] / n, v[1] / n, v[2] / n]


def axis_unit(rng):
    """Direction at RA exactly 0/90/180/270 (and sometimes Dec +-90): a component is ~6e-17 or ~1e-16, not 0,
    because cos(radians(90)) is not exactly zero -- such values are written in exponent notation in text files."""
    ra = math.radians(rng.choice([90.0, 90.0, 180.0, 270.0, 0.0]))
    dec = math.radians(rng.choice([0.0, 90.0, -90.0, 30.0, -45.0, C.dyadic(rng, -80, 80, 3)]))
    return [math.cos(ra) * math.cos(dec), math.sin(ra) * math.cos(dec), math.sin(dec)]


def tiny_cm(rng):
    """cap size between 1e-9 and 1e-4 (sub-degree caps), of either sign"""
    c = rng.choice([1.0, 2.5, 9.5, 3.0517578125]) * 10.0 ** (-rng.randint(5, 9)) * (1 + rng.randrange(1 << 20) / (1 << 20))
    c = min(max(c, 1e-9), 1e-4)
    return -c if rng.random() < 0.6 else c


def rand_unit(rng):
    t = rng.random()
    if t > 0.9:
        return axis_unit(rng)
    if t < 0.08:
        v = [0.0, 0.0, 0.0]
        v[rng.randrange(3)] = rng.choice([1.0, -1.0])
        return v
    while True:
        v = [C.dyadic(rng, -1, 1, 8) for _ in range(3)]
        if v[0] * v[0] + v[1] * v[1] + v[2] * v[2] > 0.05:
            return unit(v)


def near(rng, f, spread):
    return unit([f[k] + spread * C.dyadic(rng, -1, 1, 8) for k in range(3)])


def dotf(a, b):
    return a[0] * b[0] + a[1] * b[1] + a[2] * b[2]


def exact_omd(x, p):
    """1 - x.p as an exact fraction of the doubles."""
    return 1 - sum(Fr(a) * Fr(b) for a, b in zip(x, p))


def _rep(fr):
    """is the rational exactly a double?"""
    try:
        return Fr(float(fr)) == fr
    except OverflowError:
        return False


def exact_regime_ok(x, cm, p):
    """(cap, point) pair closer to the boundary than the margin, but decided by the implementation's floating
    point arithmetic exactly as by exact arithmetic: the dot product and 1 - |cm| are computed without rounding,
    and the two arccos arguments are either equal (a tie: the boundary itself) or far enough apart for arccos."""
    prods = [Fr(a) * Fr(b) for a, b in zip(x, p)]
    sums = [prods[0] + prods[1], prods[0] + prods[2], prods[1] + prods[2], sum(prods)]
    if not all(_rep(q) for q in prods + sums):
        return False
    d = sum(prods)
    c1 = 1.0 - abs(cm)
    if Fr(c1) != 1 - abs(Fr(cm)):
        return False
    dc = min(1.0, max(-1.0, float(d)))
    if Fr(dc) != d and abs(float(d)) <= 1.0:
        return False
    if c1 == dc:
        return True
    return abs(math.acos(c1) - math.acos(dc)) > 1e-10


def margin_ok(x, cm, p):
    return abs(exact_omd(x, p) - abs(Fr(cm))) > MARGIN or exact_regime_ok(x, cm, p)


def perp(rng, x):
    while True:
        r = rand_unit(rng)
        d = dotf(r, x)
        u = [r[k] - d * x[k] for k in range(3)]
        if dotf(u, u) > 0.01:
            return unit(u)


def boundary_point(rng, x, cm, rel):
    """Point with 1 - x.p = |cm| * (1 + rel)."""
    c = abs(cm) * (1.0 + rel)
    d = 1.0 - c
    if not (-1.0 < d < 1.0):
        return None
    u = perp(rng, x)
    s = math.sqrt(1.0 - d * d)
    return unit([d * x[k] + s * u[k] for k in range(3)])


def radec_of(p):
    ra = math.degrees(math.atan2(p[1], p[0])) % 360.0
    dec = math.degrees(math.asin(max(-1.0, min(1.0, p[2]))))
    return [ra, dec]


def rand_cm(rng):
    t = rng.random()
    if t < 0.25:
        c = C.dyadic(rng, 1 / 512, 1 / 16, 12)
    elif t < 0.75:
        c = C.dyadic(rng, 1 / 16, 1.5, 10)
    elif t < 0.9:
        c = C.dyadic(rng, 1.5, 2.0 - 1 / 256, 10)
    elif t < 0.97:
        c = 1.0
    else:
        c = 2.0
    if c == 0:
        c = 0.5
    return c if rng.random() < 0.55 else -c


def cap_around(rng, f):
    """A cap that contains the focus f (most of the time), of either sign."""
    x = rand_unit(rng)
    t = 1.0 - dotf(x, f)          # in [0, 2]
    r = rng.random()
    if r < 0.45 and t < 1.9:       # positive cap containing f
        cm = min(2.0, max(t * (1.0 + C.dyadic(rng, 1 / 64, 1, 8)), t + 1 / 512))
    elif r < 0.8 and t > 1 / 128:  # negative cap (complement) containing f
        cm = -max(t * (1.0 - C.dyadic(rng, 1 / 64, 1 - 1 / 64, 8)), 1 / 1024)
    else:
        cm = rand_cm(rng)
    return x, float(cm)


def gen_poly(rng, focus, ncaps, k):
    xs, cms = [], []
    for _ in range(ncaps):
        x, cm = cap_around(rng, focus) if rng.random() < 0.85 else (rand_unit(rng), rand_cm(rng))
        xs.append(x)
        cms.append(cm)
    return {'x': xs, 'cm': cms, 'id': 100 + k, 'pixel': rng.randint(0, 50), 'weight': C.dyadic(rng, 0, 1, 4),
            'str': C.dyadic(rng, 0, 4, 6)}


def derived_routes(routes, empty=False):
    """round 6 (class H): polygon lists DERIVED from the keyword-constructed one (pickle round trip, deepcopy, copy.copy per
    polygon, list slices re-joined, copy constructor) and a slice of the raw FITS table must answer as their originals"""
    out = ['pickle', 'deepcopy', 'copy.copy', 'list_slices']
    if not empty and 'copy' in routes:
        out.append('copy_ctor')        # ManglePolygon(whole-sky polygon) has no arrays to copy (as for route 'copy')
    if 'fits_raw' in routes:
        out.append('fits_slice')
    return out


def gen_window_job(rng, allcaps, onecap, empty=False, nopoly=False):
    """empty: one polygon of the list has no caps (whole sky); nopoly: the list itself is empty"""
    npoly = 0 if nopoly else rng.randint(1, 5)
    foci = [rand_unit(rng) for _ in range(rng.randint(1, 2))]
    polys = []
    for k in range(npoly):
        n = 1 if onecap else rng.randint(1, 6)
        p = gen_poly(rng, rng.choice(foci), n, k)
        if allcaps:
            p['use_caps'] = (1 << n) - 1
        else:
            t = rng.random()
            if t < 0.15:
                u = (1 << n) - 1
            elif t < 0.22:
                u = 0
            else:
                u = rng.getrandbits(n)
            if rng.random() < 0.3:
                u |= rng.getrandbits(3) << n       # stray bits above ncaps must be ignored
            p['use_caps'] = u
        polys.append(p)
    if polys and rng.random() < 0.8:
        # at least one cap whose text form needs exponent notation: axis centre (component ~6e-17) and/or tiny cm
        p = rng.choice(polys)
        c = rng.randrange(len(p['cm']))
        t = rng.random()
        if t < 0.7:
            p['x'][c] = axis_unit(rng)
        if t > 0.3:
            p['cm'][c] = tiny_cm(rng)
    if empty:
        polys.insert(rng.randint(0, len(polys)), {'x': [], 'cm': [], 'use_caps': 0, 'id': 99, 'pixel': -1, 'weight': 1.0,
                                                   'str': 4.0 * math.pi})
        npoly += 1
    pts, kinds = [], []

    def add(p, kind):
        pts.append(p)
        kinds.append(kind)
    for _ in range(6):
        add(rand_unit(rng), 'random')
    for f in foci:
        add(f, 'focus')
        for _ in range(6):
            add(near(rng, f, rng.choice([0.05, 0.3, 1.0])), 'near-focus')
    allc = [(x, cm) for p in polys for x, cm in zip(p['x'], p['cm'])]
    for x, cm in allc:
        add(list(x), 'centre')
        add([-x[0], -x[1], -x[2]], 'antipode')
    for x, cm in [xc for xc in allc if abs(xc[1]) <= 1e-4]:
        for rel in (1e-2, -1e-2):
            b = boundary_point(rng, x, cm, rel)
            if b is not None:
                add(b, 'boundary%+.0e' % rel)
    for x, cm in rng.sample(allc, min(len(allc), 6)):
        for rel in (1e-6, -1e-6):
            b = boundary_point(rng, x, cm, rel)
            if b is not None:
                add(b, 'boundary%+.0e' % rel)
    # keep only points away from every cap boundary (exact arithmetic on the doubles)
    keep = [i for i, p in enumerate(pts) if all(margin_ok(x, cm, p) for x, cm in allc)]
    pts = [pts[i] for i in keep]
    kinds = [kinds[i] for i in keep]
    if nopoly:
        routes = ['kwargs']
    elif empty:
        # no copy()/add_caps() (they need cap arrays); a whole-sky polygon in a Mangle text file is "polygon N ( 0 caps, ...):"
        routes = ['kwargs', 'fits_raw', 'fits_conv'] + (['kwargs_default', 'balkans', 'ply'] if allcaps else ['ply_assign'])
    else:
        routes = ['kwargs', 'copy', 'add_caps', 'fits_raw', 'fits_conv']
        routes += ['kwargs_default', 'ply', 'balkans'] if allcaps else ['ply_assign']
        if onecap:
            routes += ['fits1_raw', 'fits1_conv']
    routes += derived_routes(routes, empty)
    pad = []
    for _ in range(6):
        x, cm = cap_around(rng, rng.choice(foci))
        pad.append({'x': x, 'cm': -abs(cm) if rng.random() < 0.5 else cm})
    t = rng.random()
    job = {'f': 'window', 'polys': polys, 'pad': pad, 'ncaps': 0 if t < 0.6 else (-rng.randint(1, 3) if t < 0.65 else rng.randint(1, 7)),
           'pts': pts, 'radec': [radec_of(p) for p in pts], 'routes': routes, 'inpoly': True,
           'kinds': kinds, 'allcaps': allcaps, 'onecap': onecap, 'ply_fmt': rng.choice(['repr', 'repr', 'e', 'g']),
           'ply_layout': rng.choice(['std', 'minimal', 'spaced', 'header'])}
    if allcaps and not nopoly:
        # cap table with filler rows and the polygons' runs in shuffled order
        order = list(range(npoly))
        rng.shuffle(order)
        bcaps, icap = [], [0] * npoly
        for k in order:
            for _ in range(rng.randint(0, 2)):
                x, cm = cap_around(rng, rng.choice(foci))
                bcaps.append({'x': x, 'cm': cm})
            icap[k] = len(bcaps)
            for x, cm in zip(polys[k]['x'], polys[k]['cm']):
                bcaps.append({'x': x, 'cm': cm})
        for _ in range(rng.randint(0, 2)):
            x, cm = cap_around(rng, rng.choice(foci))
            bcaps.append({'x': x, 'cm': cm})
        job['balkans'] = {'bcaps': bcaps, 'icap': icap}
    return job


def gen_cap_job(rng):
    x = rand_unit(rng)
    cm = rand_cm(rng) if rng.random() < 0.85 else tiny_cm(rng)
    pts, kinds = [], []
    for _ in range(4):
        pts.append(rand_unit(rng))
        kinds.append('random')
    pts.append(list(x))
    kinds.append('centre')
    pts.append([-x[0], -x[1], -x[2]])
    kinds.append('antipode')
    for rel in (1e-6, -1e-6, 1e-3, -1e-3, 1e-2, -1e-2):
        b = boundary_point(rng, x, cm, rel)
        if b is not None:
            pts.append(b)
            kinds.append('boundary%+.0e' % rel)
    keep = [i for i, p in enumerate(pts) if margin_ok(x, cm, p)]
    pts = [pts[i] for i in keep]
    kinds = [kinds[i] for i in keep]
    return {'f': 'cap', 'x': x, 'cm': cm, 'pts': pts, 'radec': [radec_of(p) for p in pts], 'kinds': kinds}


def gen_sweep_job(rng, n):
    """One polygon with n caps around a focus: every use-mask x every ncaps in -1..n+1."""
    f = rand_unit(rng)
    p = gen_poly(rng, f, n, 0)
    pts, kinds = [f], ['focus']
    for _ in range(5):
        pts.append(near(rng, f, rng.choice([0.05, 0.3, 1.0])))
        kinds.append('near-focus')
    for _ in range(3):
        pts.append(rand_unit(rng))
        kinds.append('random')
    for x in p['x']:
        pts.append(list(x))
        kinds.append('centre')
    keep = [i for i, pt in enumerate(pts) if all(margin_ok(x, cm, pt) for x, cm in zip(p['x'], p['cm']))]
    return {'f': 'sweep', 'x': p['x'], 'cm': p['cm'], 'pts': [pts[i] for i in keep], 'kinds': [kinds[i] for i in keep],
            'masks': list(range(1 << n)), 'ncaps_list': list(range(-1, n + 2))}


# ---------------------------------------------------------------- wave 4: boundary values of cm, exact ties

TWO_MINUS = math.nextafter(2.0, 0.0)
SPECIAL_CM = [0.0, -0.0, 5e-324, -5e-324, 1e-300, -1e-300, 2.0, -2.0, TWO_MINUS, -TWO_MINUS, 1.0, -1.0,
              0.5, -0.5, 0.25, -0.25, 1.5, -1.5, 1.0 + 2.0 ** -30, 1.0 - 2.0 ** -30, -(1.0 + 2.0 ** -30)]


def grid_point(rng):
    """near-unit vector with coordinates on the 1/64 grid (dot products with axis vectors are exact)"""
    u = rand_unit(rng)
    return [round(c * 64) / 64 for c in u]


def boundary_cm(rng, x, p):
    """cm on / just above / just below the boundary through point p (exact arithmetic decides)"""
    t = float(exact_omd(x, p))          # 1 - x.p, exact for grid points and axis centres
    t = t * rng.choice([1.0, 1.0, 1.0 + 2.0 ** -30, 1.0 - 2.0 ** -30])
    t = min(t, 2.0)                      # |cm| <= 2 (assumption of the check: Mangle caps)
    return rng.choice([1.0, -1.0]) * t


def gen_exact_caps(rng, n, pts):
    xs, cms = [], []
    for _ in range(n):
        x = list(rng.choice(AXES))
        t = rng.random()
        if t < 0.3:
            cm = rng.choice(SPECIAL_CM[:10])     # +-0, denormal, +-1e-300, +-2, +-(2 - ulp)
        elif t < 0.45:
            cm = rng.choice(SPECIAL_CM)
        elif t < 0.8 and pts:
            cm = boundary_cm(rng, x, rng.choice(pts))
        else:
            cm = rng.choice([1, -1]) * C.dyadic(rng, 1 / 64, 1.9, 6)
        xs.append(x)
        cms.append(float(cm))
    return xs, cms


def gen_exact_window_job(rng, allcaps):
    """Polygons mixing boundary-valued caps (cm = +-0, denormal, +-1e-300, +-2, 2 - ulp, ties and near-ties with the
    points) with ordinary ones; axis centres and grid points, so that the implementation's arithmetic is exact."""
    pts = [list(a) for a in AXES] + [grid_point(rng) for _ in range(14)]
    kinds = ['centre/antipode'] * 6 + ['grid'] * 14
    polys = []
    for k in range(rng.randint(1, 4)):
        n = rng.randint(1, 4)
        xs, cms = gen_exact_caps(rng, n, pts)
        u = (1 << n) - 1 if (allcaps or rng.random() < 0.4) else (rng.getrandbits(n) or 1)
        polys.append({'x': xs, 'cm': cms, 'use_caps': u, 'id': 200 + k, 'pixel': k, 'weight': 1.0, 'str': 1.0})
    allc = [(x, cm) for p in polys for x, cm in zip(p['x'], p['cm'])]
    keep = [i for i, p in enumerate(pts) if all(margin_ok(x, cm, p) for x, cm in allc)]
    pts = [pts[i] for i in keep]
    kinds = [kinds[i] for i in keep]
    routes = ['kwargs', 'copy', 'add_caps', 'fits_raw', 'fits_conv'] + (['kwargs_default', 'ply', 'balkans'] if allcaps else ['ply_assign'])
    routes += derived_routes(routes)
    pad = [{'x': list(rng.choice(AXES)), 'cm': rng.choice(SPECIAL_CM)} for _ in range(4)]
    t = rng.random()
    job = {'f': 'window', 'polys': polys, 'pad': pad, 'ncaps': 0 if t < 0.7 else rng.randint(1, 4), 'pts': pts,
           'radec': [radec_of(unit(p)) for p in pts], 'routes': routes, 'inpoly': True, 'kinds': kinds, 'allcaps': allcaps,
           'onecap': False, 'ply_fmt': rng.choice(['repr', 'e', 'g']), 'exact': True,
           'ply_layout': rng.choice(['std', 'minimal', 'spaced', 'header'])}
    if allcaps:
        bcaps, icap = [], []
        for p in polys:
            if rng.random() < 0.5:
                bcaps.append({'x': list(rng.choice(AXES)), 'cm': rng.choice(SPECIAL_CM)})
            icap.append(len(bcaps))
            bcaps += [{'x': x, 'cm': cm} for x, cm in zip(p['x'], p['cm'])]
        job['balkans'] = {'bcaps': bcaps, 'icap': icap}
    return job


def gen_exact_cap_job(rng):
    pts = [list(a) for a in AXES] + [grid_point(rng) for _ in range(10)]
    xs, cms = gen_exact_caps(rng, 1, pts)
    x, cm = xs[0], cms[0]
    kinds = ['centre/antipode'] * 6 + ['grid'] * 10
    keep = [i for i, p in enumerate(pts) if margin_ok(x, cm, p)]
    pts = [pts[i] for i in keep]
    return {'f': 'cap', 'x': x, 'cm': cm, 'pts': pts, 'radec': [radec_of(unit(p)) for p in pts], 'kinds': [kinds[i] for i in keep],
            'exact': True}


# ---------------------------------------------------------------- wave 3: storage types and call histories

def f32(v):
    import struct
    return struct.unpack('f', struct.pack('f', v))[0]


TOLERANT_VARIANTS = ('list', 'tuple')
MARGIN32 = Fr(1, 10 ** 4)      # float32 arithmetic inside the implementation: stay 1e-4 from every boundary


def margin32_ok(x, cm, p):
    return abs(exact_omd(x, p) - abs(Fr(cm))) > MARGIN32


def xyz_of_radec(rd):
    ra, dec = math.radians(rd[0]), math.radians(rd[1])
    return [math.cos(ra) * math.cos(dec), math.sin(ra) * math.cos(dec), math.sin(dec)]


AXES = [[1.0, 0.0, 0.0], [-1.0, 0.0, 0.0], [0.0, 1.0, 0.0], [0.0, -1.0, 0.0], [0.0, 0.0, 1.0], [0.0, 0.0, -1.0]]


def gen_types_job(rng, k):
    """The same numbers (all exactly representable in float32) in several storage types."""
    caps_integral = (k % 4 == 1)
    pts_integral = (k % 4 in (0, 1))
    n = rng.randint(1, 3)
    xs, cms = [], []
    for _ in range(n):
        if caps_integral:
            xs.append(list(rng.choice(AXES)))
            cms.append(float(rng.choice([1, 2, -1, 1])))
        else:
            x = rand_unit(rng)
            xs.append([f32(c) for c in x])
            c = rng.choice([1, -1]) * C.dyadic(rng, 1 / 32, 1.75, 7)
            cms.append(float(c) if c != 0 else 0.5)
    if pts_integral:
        radec = [[float(rng.choice([0, 37, 90, 123, 180, 222, 270, 301, 359])), float(rng.randint(-90, 90))] for _ in range(14)]
        cart = [list(a) for a in AXES]
    else:
        radec = [[C.dyadic(rng, 0, 359, 3), C.dyadic(rng, -90, 90, 3)] for _ in range(12)]
        cart = [[f32(c) for c in rand_unit(rng)] for _ in range(10)] + [list(xs[0])]
    allc = list(zip(xs, cms))
    radec = [rd for rd in radec if all(margin32_ok(x, cm, xyz_of_radec(rd)) for x, cm in allc)]
    cart = [p for p in cart if all(margin32_ok(x, cm, p) for x, cm in allc)]
    variants = {'f8': ['f8', 'f8', 'f8'], 'f4': ['f4', 'f4', 'f4'], 'f4pts': ['f8', 'f8', 'f4'], 'be': ['be', 'be', 'be'],
                'nc': ['nc', 'nc', 'nc'], 'fo': ['f8', 'f8', 'fo'],
                # round 6 (memory layout): (3, N) array transposed, reversed strides (rows; rows and columns), Fortran caps
                'tv': ['f8', 'f8', 'tv'], 'tvcaps': ['tv', 'tv', 'tv'], 'rv': ['rv', 'rv', 'rv'], 'cr': ['cr', 'cr', 'cr'],
                'focaps': ['fo', 'f8', 'nc'],
                # round 6 (argument variety): nested lists / tuples of points -- pydl documents ndarray input, so an exception is
                # accepted for these two, but an ANSWER must be the caps' answer
                'list': ['f8', 'f8', 'list'], 'tuple': ['f8', 'f8', 'tuple']}
    if pts_integral:
        variants['ipts'] = ['f8', 'f8', 'i8']
    if caps_integral:
        variants['icaps'] = ['i8', 'i8', 'f8']
    t = rng.random()
    return {'f': 'types', 'x': xs, 'cm': cms, 'use_caps': rng.getrandbits(n) | 1 if rng.random() < 0.7 else (1 << n) - 1,
            'ncaps': 0 if t < 0.7 else rng.randint(1, 3), 'cart': cart, 'radec': radec, 'variants': variants,
            'cm_form': rng.choice([None, 'pyfloat', 'zero_d', 'one_elem']), 'ncaps_form': rng.choice([None, 'npint', 'npint32'])}


def gen_file_polys(rng, allcaps):
    f = rand_unit(rng)
    out = []
    for k in range(rng.randint(1, 3)):
        n = rng.randint(1, 4)
        p = gen_poly(rng, f, n, k)
        p['use_caps'] = (1 << n) - 1 if allcaps else (rng.getrandbits(n) or 1)
        out.append(p)
    return out


def gen_history_job(rng):
    f = rand_unit(rng)
    polys = []
    for k in range(rng.randint(2, 3)):
        n = rng.randint(2, 5)
        p = gen_poly(rng, f, n, k)
        for c in range(1, n):       # doubles, so that set_use_caps has something to remove
            if rng.random() < 0.35:
                i = rng.randrange(c)
                p['x'][c] = list(p['x'][i])
                p['cm'][c] = p['cm'][i] if rng.random() < 0.6 else -p['cm'][i]
        p['use_caps'] = rng.getrandbits(n)
        polys.append(p)
    files = {'a.ply': [gen_file_polys(rng, True) for _ in range(2)], 'b.fits': [gen_file_polys(rng, False) for _ in range(2)]}
    allc = [(x, cm) for p in polys for x, cm in zip(p['x'], p['cm'])]
    allc += [(x, cm) for v in files.values() for lst in v for p in lst for x, cm in zip(p['x'], p['cm'])]
    pts = [f] + [near(rng, f, rng.choice([0.05, 0.3, 1.0])) for _ in range(8)] + [rand_unit(rng) for _ in range(4)]
    pts += [list(p['x'][0]) for p in polys]
    pts = [p for p in pts if all(margin_ok(x, cm, p) for x, cm in allc)]
    ops = []

    def setuse():
        k = rng.randrange(len(polys))
        n = len(polys[k]['cm'])
        il = rng.sample(range(n), rng.randint(0, n))
        o = {}
        if rng.random() < 0.3:
            o['add'] = True
        if rng.random() < 0.2:
            o['allow_neg_doubles'] = True
        if rng.random() < 0.15:
            o['allow_doubles'] = True
        op = {'op': 'setuse', 'k': k, 'il': il, 'opts': o}
        if il and rng.random() < 0.3:
            op['as_array'] = True
        return op

    def inpoly():
        return {'op': 'inpoly', 'k': rng.randrange(len(polys)), 'ncaps': 0 if rng.random() < 0.7 else rng.randint(1, 5)}

    def window():
        return {'op': 'window', 'ncaps': 0 if rng.random() < 0.8 else rng.randint(1, 5)}
    ops += [inpoly(), setuse(), inpoly(), window(), setuse(), setuse(), window(), {'op': 'copy', 'k': rng.randrange(len(polys))}]
    ops += [{'op': 'mutate_caller'}, inpoly(), window(), setuse(), inpoly()]
    fileops = []
    for fname, conv in (('a.ply', False), ('b.fits', rng.random() < 0.5)):
        c0, c1 = files[fname]
        fmt = rng.choice(['repr', 'e', 'g'])
        fileops.append([{'op': 'write', 'file': fname, 'content': c0, 'fmt': fmt},
                        {'op': 'read', 'file': fname, 'slot': fname + '#0', 'convert': conv},
                        {'op': 'window_slot', 'slot': fname + '#0', 'ncaps': 0},
                        {'op': 'write', 'file': fname, 'content': c1, 'fmt': fmt},       # the same path, rewritten
                        {'op': 'read', 'file': fname, 'slot': fname + '#1', 'convert': conv},
                        {'op': 'window_slot', 'slot': fname + '#1', 'ncaps': 0},
                        {'op': 'window_slot', 'slot': fname + '#0', 'ncaps': 0}])       # the object read first is unchanged
    # interleave the two file stories with the object story
    a, b = fileops
    merged = []
    ia = ib = 0
    while ia < len(a) or ib < len(b):
        if ib >= len(b) or (ia < len(a) and rng.random() < 0.5):
            merged.append(a[ia])
            ia += 1
        else:
            merged.append(b[ib])
            ib += 1
    cut = rng.randint(3, len(ops) - 2)
    ops = ops[:cut] + merged + ops[cut:]
    pad = []
    for _ in range(4):
        x, cm = cap_around(rng, f)
        pad.append({'x': x, 'cm': cm})
    return {'f': 'history', 'polys': polys, 'pts': pts, 'ops': ops, 'pad': pad}


# ---------------------------------------------------------------- round 6: sizes beyond small, reused arrays, layouts

def strict_ok(x, cm, p):
    """away from the boundary by the margin, without the exact-arithmetic exception (the Cartesian vector of an RA/Dec
    point is computed here with the math module, which may differ from numpy's in the last bit)"""
    return abs(exact_omd(x, p) - abs(Fr(cm))) > MARGIN


def small_points(rng, polys, foci, nrand=6, nnear=5):
    """small point set (Cartesian, RA/Dec of the same directions) decided away from every cap boundary in both forms"""
    allc = [(x, cm) for p in polys for x, cm in zip(p['x'], p['cm'])]
    cand, kinds = [], []
    for _ in range(nrand):
        cand.append(rand_unit(rng))
        kinds.append('random')
    for f in foci:
        cand.append(list(f))
        kinds.append('focus')
        for _ in range(nnear):
            cand.append(near(rng, f, rng.choice([0.05, 0.3, 1.0])))
            kinds.append('near-focus')
    for x, cm in allc[:8]:
        cand.append(list(x))
        kinds.append('centre')
        cand.append([-x[0], -x[1], -x[2]])
        kinds.append('antipode')
    pts, rds, ks = [], [], []
    for p, k in zip(cand, kinds):
        rd = radec_of(p)
        p2 = xyz_of_radec(rd)
        if all(strict_ok(x, cm, p) and strict_ok(x, cm, p2) for x, cm in allc):
            pts.append(p)
            rds.append(rd)
            ks.append(k)
    return pts, rds, ks


def gen_masked_polys(rng, foci, npoly, maxcaps=5):
    polys = []
    for k in range(npoly):
        n = rng.randint(1, maxcaps)
        p = gen_poly(rng, rng.choice(foci), n, k)
        t = rng.random()
        p['use_caps'] = (1 << n) - 1 if t < 0.4 else (rng.getrandbits(n) or 1)
        polys.append(p)
    return polys


LARGE_QUICK = ['2^18+k', '600000', '2^16+k']
LARGE_THOROUGH = ['2^18-1', '2^18', '2^18+1', '2^18+k', '2*2^18+k', '3*2^18', '600000', '2^20+k', '1000003', '2^15+k', '2^16',
                  '2^17+k', '2^18+k', '2^19+k', '2^21+5', '2^18+k']


def large_n(rng, name):
    k = rng.randint(1, 5000)
    return {'2^18-1': (1 << 18) - 1, '2^18': 1 << 18, '2^18+1': (1 << 18) + 1, '2^18+k': (1 << 18) + k, '2*2^18+k': (2 << 18) + k,
            '3*2^18': 3 << 18, '600000': 600000, '2^20+k': (1 << 20) + k, '1000003': 1000003, '2^15+k': (1 << 15) + k,
            '2^16': 1 << 16, '2^16+k': (1 << 16) + k, '2^17+k': (1 << 17) + k, '2^19+k': (1 << 19) + k, '2^21+5': (1 << 21) + 5}[name]


def gen_large_job(rng, k, name):
    """One call with n points, n beyond internal block sizes / 16-bit counters; the points are copies of a small point
    set (tiled, at random positions, or in long runs), so the answer must be the small answer at every position."""
    foci = [rand_unit(rng) for _ in range(rng.randint(1, 2))]
    for _ in range(20):
        polys = gen_masked_polys(rng, foci, rng.randint(2, 4))
        pts, rds, kinds = small_points(rng, polys, foci)
        if len(pts) >= 8:
            break
    n = large_n(rng, name)
    t = rng.random()
    with_caps = [i for i, p in enumerate(polys) if p['cm']]
    c0 = polys[with_caps[0]]
    ci = rng.randrange(len(c0['cm']))
    return {'f': 'large', 'polys': polys, 'pts': pts, 'radec': rds, 'kinds': kinds, 'n': n, 'size_class': name,
            'pattern': ['tile', 'random', 'runs'][k % 3], 'seed': rng.randrange(1 << 30),
            'split': rng.choice([n // 2, n - 1, 1, min(n - 1, 1 << 18), rng.randint(1, n - 1)]),
            'ncaps': 0 if t < 0.7 else rng.randint(1, 4), 'inpoly': sorted(set([0, len(polys) - 1])),
            'cap': {'x': c0['x'][ci], 'cm': c0['cm'][ci]}}


REFILL = {'radec': ['assign', 'assign', 'assign_rows', 'shift', 'flipdec', 'roll', 'out'],
          'cart': ['assign', 'assign', 'assign_rows', 'negate', 'roll', 'swapcols', 'out']}


def gen_reuse_job(rng, k):
    """Calls in one process with ONE coordinate array per input form that the caller refills in place between the
    calls (and a second array of the same shape, and fresh views of the same memory), on polygons whose own x / cm
    arrays are edited in place between calls."""
    f = rand_unit(rng)
    polys = gen_masked_polys(rng, [f], rng.randint(2, 3), maxcaps=4)
    npts = 0 if k % 12 == 11 else rng.choice([1, 2, 3, 5, 8])     # also: a single point, no point at all
    nsets = 5

    def one_set():
        out = []
        for _ in range(npts):
            t = rng.random()
            out.append(list(f) if t < 0.1 else (near(rng, f, rng.choice([0.05, 0.3, 1.0])) if t < 0.7 else rand_unit(rng)))
        return out
    cart_sets = [one_set() for _ in range(nsets)]
    radec_sets = [[radec_of(p) for p in one_set()] for _ in range(nsets)]
    steps = []
    forms = ['radec', 'radec', 'cart'] if k % 3 else ['radec', 'cart', 'cart']
    for si in range(rng.randint(14, 20)):
        if si > 2 and rng.random() < 0.15:
            pk = rng.randrange(len(polys))
            c = rng.randrange(len(polys[pk]['cm']))
            e = rng.choice(['cm_neg', 'cm_set', 'x_set', 'use_set'])
            st = {'edit': e, 'k': pk, 'c': c}
            if e == 'cm_set':
                st['v'] = float(rand_cm(rng))
            elif e == 'x_set':
                st['v'] = rand_unit(rng)
            elif e == 'use_set':
                st['v'] = rng.getrandbits(len(polys[pk]['cm'])) or 1
            steps.append(st)
            continue
        form = rng.choice(forms)
        st = {'form': form, 'buf': 'A' if rng.random() < 0.8 else 'B', 'call': rng.choice(['cap', 'dist', 'poly', 'poly', 'window'])}
        if si > 0 and rng.random() < 0.8:
            how = rng.choice(REFILL[form])
            st['fill'] = {'how': how}
            if how in ('assign', 'assign_rows', 'out'):
                st['fill']['set'] = rng.randrange(nsets)
            elif how == 'shift':
                st['fill']['d'] = float(rng.choice([90.0, 180.0, 45.0, -30.0, C.dyadic(rng, -170, 170, 3)]))
        if rng.random() < 0.15:
            st['view'] = True
        st['k'] = rng.randrange(len(polys))
        st['c'] = rng.randrange(len(polys[st['k']]['cm']))
        if rng.random() < 0.25:
            st['ncaps'] = rng.randint(1, 4)
        steps.append(st)
    return {'f': 'reuse', 'polys': polys, 'cart_sets': cart_sets, 'radec_sets': radec_sets, 'steps': steps}


# ---------------------------------------------------------------- set_use_caps jobs

def gen_setuse_job(rng):
    n = rng.choice([1, 2, 3, 3, 4, 4, 5, 6])
    xs, cms, dupkinds = [], [], set()
    for j in range(n):
        t = rng.random()
        if j > 0 and t < 0.5:
            i = rng.randrange(j)
            x = list(xs[i])
            cm = cms[i]
            kind = rng.choice(['exact', 'exact', 'neg', 'tiny', 'samex-poscm', 'samex-negcm'])
            if kind == 'neg':
                cm = -cm
            elif kind == 'tiny':
                x = [x[0] + 1e-13, x[1] - 1e-13, x[2]]
                cm = cm + 1e-13
            elif kind == 'samex-poscm':        # same centre, clearly different positive size: not a double
                cm = abs(cm) + 0.125
            elif kind == 'samex-negcm':        # same centre, both negative, clearly different size: not a double
                cms[i] = -abs(cms[i])
                cm = -abs(cm) - 0.125
                if cm < -2:
                    cm = -abs(cms[i]) / 2 - 1 / 256
            dupkinds.add(kind)
        else:
            x, cm = rand_unit(rng), rand_cm(rng)
        xs.append(x)
        cms.append(float(cm))
    t = rng.random()
    if t < 0.2:
        il, ilk = list(range(n)), 'identity'
    elif t < 0.5:
        il, ilk = rng.sample(range(n), n), 'permutation'
    elif t < 0.8:
        il, ilk = rng.sample(range(n), rng.randint(0, n)), 'subset'
    elif t < 0.9:
        il, ilk = [rng.randrange(n) for _ in range(rng.randint(1, 4))], 'repeats'
    else:
        il, ilk = [rng.randrange(n)], 'single'
    if il == list(range(len(il))):
        ilk = 'identity-prefix'
    opts = {}
    if rng.random() < 0.2:
        opts['add'] = True
    if rng.random() < 0.15:
        opts['allow_doubles'] = True
    if rng.random() < 0.2:
        opts['allow_neg_doubles'] = True
    if rng.random() < 0.15:
        opts['tol'] = 1.0e-7
    use0 = rng.getrandbits(n + 1) if rng.random() < 0.7 else (1 << n) - 1
    form = rng.choice(['list', 'list', 'tuple', 'array'])
    job = {'f': 'setuse', 'poly': {'x': xs, 'cm': cms, 'use_caps': use0}, 'index_list': il, 'opts': opts,
           'ilk': ilk, 'dupkinds': sorted(dupkinds)}
    if form == 'tuple':
        job['as_tuple'] = True
    elif form == 'array' and il:
        job['as_array'] = True
    return job


# ---- tolerance ladder (round 5): every tolerance comparison of set_use_caps -- |x_i - x_j|^2 < tol^2, |cm_i - cm_j| < tol,
# |cm_i + cm_j| < tol -- is driven through differences on a logarithmic ladder around its threshold (absolute rungs =
# multiples of tol, relative rungs = multiples of the value itself), for the axis and for cm separately and jointly, with
# cm of both signs and |cm| from 1e-6 to 2, for several tol.  The specification decides by exact rational comparison on
# the doubles; a rung is kept only if every pairwise comparison of the polygon is at least 1e-9 (relative) away from its
# threshold, which is 10^6 times the rounding error of the implementation's float evaluation.
LADDER_ABS = [0.0, 1e-3, 0.5, 0.999, 1.001, 2.0, 1e2, 1e4, 1e6]
LADDER_REL = [1e-4, 1e-5, 1e-6, 1e-7, 1e-8, 1e-9, 1e-10, 1e-11, 1e-12]
LADDER_CM = [1e-6, 1e-3, 0.03125, 0.5, 1.0, 1.5, 1.9990234375, 2.0]
LADDER_TOL = [None, None, None, 1.0e-7, 1.0e-5, 1.0e-12, 2.0 ** -20]
LADDER_MODES = ['axis', 'cm', 'joint', 'rel-axis', 'rel-cm', 'rel-joint', 'chain-axis', 'chain-cm', 'tie']


def tol_exact_ok(xs, cms, tol):
    """every pairwise tolerance comparison is evaluated WITHOUT rounding by the implementation's float arithmetic
    (differences, squares, the running sum of np.sum over three terms, tol**2, cm_i -+ cm_j): then even an exact tie
    (difference == tol) is decided by the code as by exact arithmetic."""
    def same(fl, fr):
        return Fr(fl) == fr
    if not same(tol * tol, Fr(tol) ** 2):
        return False
    for i in range(len(cms)):
        for j in range(i + 1, len(cms)):
            acc_f, acc_q = 0.0, Fr(0)
            for a, b in zip(xs[i], xs[j]):
                d_f, d_q = a - b, Fr(a) - Fr(b)
                if not same(d_f, d_q) or not same(d_f * d_f, d_q * d_q):
                    return False
                acc_f, acc_q = acc_f + d_f * d_f, acc_q + d_q * d_q
                if not same(acc_f, acc_q):
                    return False
            if not same(cms[i] - cms[j], Fr(cms[i]) - Fr(cms[j])) or not same(cms[i] + cms[j], Fr(cms[i]) + Fr(cms[j])):
                return False
    return True


def tol_margin_ok(xs, cms, tol, rel=Fr(1, 10 ** 9)):
    """every pairwise tolerance comparison is decided by float arithmetic as by exact arithmetic"""
    T = Fr(tol)
    T2 = T * T
    X = [[Fr(v) for v in x] for x in xs]
    CM = [Fr(v) for v in cms]
    for i in range(len(CM)):
        for j in range(i + 1, len(CM)):
            d2 = sum((a - b) ** 2 for a, b in zip(X[i], X[j]))
            if abs(d2 - T2) <= T2 * rel:
                return False
            for v in (abs(CM[i] - CM[j]), abs(CM[i] + CM[j])):
                if abs(v - T) <= T * rel:
                    return False
    return True


def ladder_base_axis(rng):
    t = rng.random()
    if t < 0.25:
        v = [0.0, 0.0, 0.0]
        v[rng.randrange(3)] = rng.choice([1.0, -1.0])
        return v
    if t < 0.5:       # all components clearly non-zero
        return unit([rng.choice([-1, 1]) * C.dyadic(rng, 0.25, 1, 8) for _ in range(3)])
    if t < 0.6:
        return axis_unit(rng)
    return rand_unit(rng)


def gen_tol_ladder_job(rng, k):
    """One set_use_caps call whose duplicate decision sits on rung k of the ladder (k walks modes x rungs)."""
    mode = LADDER_MODES[k % len(LADDER_MODES)]
    for _attempt in range(50):
        tolv = rng.choice(LADDER_TOL)
        tol = 1.0e-10 if tolv is None else tolv
        x0 = ladder_base_axis(rng)
        cm0 = rng.choice(LADDER_CM) * rng.choice([1.0, -1.0])
        if rng.random() < 0.3:
            cm0 = float(rand_cm(rng))
        s = rng.choice([1.0, 1.0, -1.0])                 # partner has the same / the opposite sign of cm
        u = rng.choice([perp(rng, x0), list(x0), rand_unit(rng)])
        rung_x = rung_c = None
        caps = [(list(x0), cm0)]
        if mode == 'tie':
            # exact ties and near-ties at a power-of-two tolerance with short dyadic values: all float operations exact
            tolv = tol = rng.choice([2.0 ** -20, 2.0 ** -10, 2.0 ** -30])
            x0 = [C.dyadic(rng, -1, 1, 6) for _ in range(3)] if rng.random() < 0.6 else ladder_base_axis(rng)[:]
            if rng.random() < 0.5:
                x0 = [float(round(c * 64) / 64) for c in x0]
            cm0 = C.dyadic(rng, 1 / 64, 1.5, 8) * rng.choice([1.0, -1.0])
            if cm0 == 0:
                cm0 = 0.5
            f1 = rng.choice([1.0, 1.0, 1.0 - 2.0 ** -8, 1.0 + 2.0 ** -8, 0.5, 0.0])
            f2 = rng.choice([1.0, 1.0, 1.0 - 2.0 ** -8, 1.0 + 2.0 ** -8, 0.5, 0.0])
            which = rng.choice(['axis', 'cm', 'both'])
            x1, cm1 = list(x0), s * cm0
            if which in ('axis', 'both'):
                m = rng.randrange(3)
                x1[m] = x0[m] + rng.choice([1.0, -1.0]) * f1 * tol
                rung_x = 'tie*%g' % f1
            if which in ('cm', 'both'):
                cm1 = s * cm0 + rng.choice([1.0, -1.0]) * f2 * tol
                rung_c = 'tie*%g' % f2
            caps = [(list(x0), cm0), (x1, cm1)]
        elif mode.startswith('rel'):
            r1, r2 = rng.choice(LADDER_REL), rng.choice(LADDER_REL)
            sg1, sg2 = rng.choice([1.0, -1.0]), rng.choice([1.0, -1.0])
            x1, cm1 = list(x0), s * cm0
            if mode in ('rel-axis', 'rel-joint'):
                x1 = [c * (1.0 + sg1 * r1) for c in x0]
                rung_x = 'rel%g' % r1
            if mode in ('rel-cm', 'rel-joint'):
                cm1 = s * cm0 * (1.0 + sg2 * r2)
                rung_c = 'rel%g' % r2
            caps.append((x1, cm1))
        elif mode.startswith('chain'):
            # non-transitive doubles: cap1 = cap0 + d, cap2 = cap0 + 2 d with tol/2 < d < tol
            f = rng.choice([0.6, 0.75, 0.999])
            d = f * tol
            for m in (1, 2):
                if mode == 'chain-axis':
                    caps.append(([x0[c] + m * d * u[c] for c in range(3)], s * cm0))
                    rung_x = 'chain%g' % f
                else:
                    caps.append((list(x0), s * cm0 + m * d))
                    rung_c = 'chain%g' % f
        else:
            f1, f2 = rng.choice(LADDER_ABS), rng.choice(LADDER_ABS)
            x1, cm1 = list(x0), s * cm0
            if mode in ('axis', 'joint'):
                x1 = [x0[c] + f1 * tol * u[c] for c in range(3)]
                rung_x = 'tol*%g' % f1
            if mode in ('cm', 'joint'):
                cm1 = s * cm0 + rng.choice([1.0, -1.0]) * f2 * tol
                rung_c = 'tol*%g' % f2
            caps.append((x1, cm1))
        if any(abs(c) > 2.0 for _, c in caps):
            continue
        # unrelated caps around the ladder caps, random position of the pair
        n_extra = rng.choice([0, 0, 1, 1, 2])
        extra = [(rand_unit(rng), float(rand_cm(rng))) for _ in range(n_extra)]
        if mode == 'tie':     # keep every pairwise operation exact: short dyadic extras
            extra = [([C.dyadic(rng, -1, 1, 5) for _ in range(3)], float(C.dyadic(rng, 1 / 8, 1.5, 5) or 0.5) * rng.choice([1.0, -1.0]))
                     for _ in range(n_extra)]
        order = caps + extra
        if rng.random() < 0.5:
            # keep the relative order of the ladder caps (which one is "later" matters), shuffle the others in between
            slots = sorted(rng.sample(range(len(order)), len(caps)))
            merged, ci, ei = [], 0, 0
            for pos in range(len(order)):
                if pos in slots:
                    merged.append(caps[ci])
                    ci += 1
                else:
                    merged.append(extra[ei])
                    ei += 1
            order = merged
        if rng.random() < 0.25:
            order = order[::-1]        # the perturbed cap first, the base cap later
        xs = [list(map(float, x)) for x, _ in order]
        cms = [float(c) for _, c in order]
        if tol_exact_ok(xs, cms, tol) if mode == 'tie' else tol_margin_ok(xs, cms, tol):
            break
    else:
        raise RuntimeError('tolerance ladder: no admissible case in 50 attempts')
    n = len(cms)
    t = rng.random()
    if t < 0.6:
        il, ilk = list(range(n)), 'identity'
    elif t < 0.8:
        il, ilk = rng.sample(range(n), n), 'permutation'
    else:
        il, ilk = rng.sample(range(n), rng.randint(1, n)), 'subset'
    if il == list(range(len(il))):
        ilk = 'identity-prefix'
    opts = {}
    if tolv is not None:
        opts['tol'] = tolv
    if rng.random() < 0.3:
        opts['allow_neg_doubles'] = True
    if rng.random() < 0.1:
        opts['add'] = True
    if rng.random() < 0.04:
        opts['allow_doubles'] = True
    use0 = rng.getrandbits(n + 1) if rng.random() < 0.5 else (1 << n) - 1
    job = {'f': 'setuse', 'poly': {'x': xs, 'cm': cms, 'use_caps': use0}, 'index_list': il, 'opts': opts,
           'ilk': ilk, 'dupkinds': ['ladder:' + mode],
           'ladder': {'mode': mode, 'axis': rung_x, 'cm': rung_c, 'cm_sign': 'same' if s > 0 else 'opposite',
                      'cm0': ('<0' if cm0 < 0 else '>=0') + (':small' if abs(cm0) < 0.01 else ':large'),
                      'tol': tol}}
    form = rng.choice(['list', 'list', 'tuple', 'array'])
    if form == 'tuple':
        job['as_tuple'] = True
    elif form == 'array' and il:
        job['as_array'] = True
    return job


def py_set_use_caps(job, index_bug=False, no_abs=False):
    """Reference transliteration used ONLY to label a failure with its cause (never to decide one)."""
    p, il, o = job['poly'], job['index_list'], job.get('opts', {})
    tol = Fr(o.get('tol', 1.0e-10))
    u = p['use_caps'] if o.get('add') else 0
    try:
        for i in il:
            u |= 1 << (il[i] if index_bug else i)
    except IndexError:
        return 'IndexError'
    if not o.get('allow_doubles'):
        n = len(p['cm'])
        X = [[Fr(v) for v in x] for x in p['x']]
        CM = [Fr(v) for v in p['cm']]
        for i in range(n):
            if u >> i & 1:
                for j in range(i + 1, n):
                    if u >> j & 1 and sum((a - b) ** 2 for a, b in zip(X[i], X[j])) < tol * tol:
                        s = CM[i] + CM[j]
                        if abs(CM[i] - CM[j]) < tol or ((s if no_abs else abs(s)) < tol and not o.get('allow_neg_doubles')):
                            u -= 1 << j
    return u


# ---------------------------------------------------------------- the correspondence run

def opts_t(o):
    return '(mkopts %s %s %s %s)' % (C.boollit(o.get('add', False)), q(o.get('tol', 1.0e-10)),
                                     C.boollit(o.get('allow_doubles', False)), C.boollit(o.get('allow_neg_doubles', False)))


def stored_equal(intended, got):
    """Exact comparison of what a route holds with what the harness wrote."""
    if len(intended) != len(got):
        return 'number of polygons %d != %d' % (len(got), len(intended))
    for k, (a, b) in enumerate(zip(intended, got)):
        if 'err' in b:
            return 'polygon %d: %s %s' % (k, b['err'], b.get('msg', ''))
        if b['ncaps'] != len(a['cm']):
            return 'polygon %d: ncaps %d != %d' % (k, b['ncaps'], len(a['cm']))
        if b['use_caps'] != a['use_caps']:
            return 'polygon %d: use_caps %d != %d' % (k, b['use_caps'], a['use_caps'])
        if [list(map(float, x)) for x in a['x']] != b['x'] or list(map(float, a['cm'])) != b['cm']:
            return 'polygon %d: cap data differ' % k
    return None


def nan_cause(r, mode, i):
    """Label only: did the implementation's cap_distance return NaN for point i (against some cap of the job)?"""
    flags = r.get(mode + '_nan')
    return bool(flags and 0 <= i < len(flags) and flags[i])


def correspond(ctx, proof_ok=True):
    ok, log = C.coq_make(['C12/Model.vo'])
    if not ok:
        raise RuntimeError('C12/Model.v does not build:\n' + log[-2000:])
    rng = ctx.rng
    jobs = []
    for k in range(ctx.n(22, 300)):
        jobs.append(gen_window_job(rng, allcaps=(k % 5 in (0, 1)), onecap=(k % 10 in (0, 7)), empty=(k % 11 in (3, 5))))
    jobs.append(gen_window_job(rng, allcaps=False, onecap=False, nopoly=True))
    for k in range(ctx.n(2, 12)):
        jobs.append(gen_sweep_job(rng, 3 if k % 2 == 0 else (2 if not ctx.thorough else 4)))
    for _ in range(ctx.n(100, 2000)):
        jobs.append(gen_cap_job(rng))
    for _ in range(ctx.n(200, 3000)):
        jobs.append(gen_setuse_job(rng))
    for k in range(ctx.n(405, 4500)):
        jobs.append(gen_tol_ladder_job(rng, k))
    for k in range(ctx.n(12, 120)):
        jobs.append(gen_types_job(rng, k))
    for k in range(ctx.n(8, 100)):
        jobs.append(gen_exact_window_job(rng, allcaps=(k % 2 == 0)))
    for _ in range(ctx.n(40, 600)):
        jobs.append(gen_exact_cap_job(rng))
    for _ in range(ctx.n(10, 100)):
        jobs.append(gen_history_job(rng))
    for k in range(ctx.n(12, 120)):
        jobs.append(gen_reuse_job(rng, k))
    # large inputs first in their own batches (they take ~1-3 s each): put them at the front of the job list
    rot = rng.randrange(3)      # every pattern (tile / random / runs) occurs in every run; which size gets which rotates
    big = [gen_large_job(rng, k + rot, nm) for k, nm in enumerate(LARGE_THOROUGH if ctx.thorough else LARGE_QUICK)]
    jobs = big + jobs
    nb = C.NPROC
    batches = [jobs[i::nb] for i in range(nb)]
    strip = ('kinds', 'allcaps', 'onecap', 'ilk', 'dupkinds', 'exact', 'ladder', 'size_class')
    outs = C.run_impl_parallel('c12_impl.py', [[{k: v for k, v in j.items() if k not in strip} for j in b] for b in batches])
    results = [None] * len(jobs)
    for bi, o in enumerate(outs):
        for k, r in enumerate(o['results']):
            results[bi + k * nb] = r
    ctx.coverage['pydl_file'] = outs[0]['pydl_file']

    terms = []      # (job index, info dict, coq term)
    direct = []     # (job index, signature, summary, replay extra)
    dist = {}

    def count(key, n=1):
        dist[key] = dist.get(key, 0) + n

    for ji, (j, r) in enumerate(zip(jobs, results)):
        if 'err' in r and j['f'] != 'setuse':
            direct.append((ji, 'C12:%s:job-failed:%s' % (j['f'], r['err']), 'implementation runner failed: %s' % r, {}, False))
            continue
        if j['f'] == 'types':
            V = r['variants']
            names = list(j['variants'])
            base = V.get('f8', {})
            for name in names:
                v = V[name]
                if name in TOLERANT_VARIANTS:
                    continue
                if 'err' in v:
                    direct.append((ji, 'C12:storage-type:%s:impl=%s' % ('/'.join(j['variants'][name]), v['err']),
                                   'storage variant %s (x, cm, points as %s) raised %s %s' % (name, j['variants'][name], v['err'], v.get('msg', '')),
                                   {'variant': name}, True))
                for pr in (v.get('problems') or []):
                    direct.append((ji, 'C12:caller-data:%s' % pr.split(': ')[1].split(' ')[0:2][-1], 'storage variant %s: %s' % (name, pr),
                                   {'variant': name}, True))
            good = [nm for nm in names if 'err' not in V[nm]]
            P = {'x': j['x'], 'cm': j['cm'], 'use_caps': j['use_caps']}
            P1 = {'x': j['x'][:1], 'cm': j['cm'][:1], 'use_caps': 1}
            allc = list(zip(j['x'], j['cm']))
            for form in ('cart', 'radec'):
                pts = j['cart'] if form == 'cart' else r['radec_xyz']
                keep = [i for i, pt in enumerate(pts) if all(margin32_ok(x, cm, pt) for x, cm in allc)]
                ptt = C.coq_list([vec_t(pts[i]) for i in keep])

                def exps(key, conv):
                    # -> (variant names judged, their expected lists); a tolerant variant (list / tuple input) that raised is
                    # left out and counted, one that answered is judged like every other
                    out, used = [], []
                    for nm in good:
                        row = V[nm][key + '_' + form]
                        if isinstance(row, dict) and nm in TOLERANT_VARIANTS:
                            count('storage-type:%s:%s:rejected-with-%s' % (nm, 'RA/Dec' if form == 'radec' else 'cartesian', row.get('err')))
                            continue
                        used.append(nm)
                        out.append('[]' if isinstance(row, dict) else conv([row[i] for i in keep]))
                    return used, C.coq_list(out)
                info = {'mode': form, 'keep': keep, 'pts': pts, 'types': True}
                used, ex = exps('cap', boolist)
                terms.append((ji, dict(info, what='is_in_cap', routes=used), '(CPoly %s 0 %s %s)' % (poly_t(P1), ptt, ex)))
                used, ex = exps('poly', boolist)
                terms.append((ji, dict(info, what='is_in_polygon', poly=0, routes=used),
                              '(CPoly %s %s %s %s)' % (poly_t(P), C.zlit(j['ncaps']), ptt, ex)))
                used, ex = exps('win', zlist)
                terms.append((ji, dict(info, what='is_in_window', routes=used),
                              '(CWindow [%s] %s %s %s)' % (poly_t(P), C.zlit(j['ncaps']), ptt, ex)))
                for nm in used:
                    count('storage-type:%s:%s' % (nm, 'RA/Dec' if form == 'radec' else 'cartesian'), 3 * len(keep))
            continue
        if j['f'] == 'history':
            H = r['history']
            state = [dict(p) for p in j['polys']]
            slots = {}
            files = {}
            for oi, (op, rec) in enumerate(zip(j['ops'], H)):
                kind = op['op']
                res = rec['res']
                count('history:%s' % kind)
                for pr in rec.get('problems') or []:
                    direct.append((ji, 'C12:caller-data:%s' % ('modified' if 'modified' in pr else 'aliasing'),
                                   'call %d (%s) of a history: %s' % (oi, kind, pr), {'op_index': oi}, True))
                cur = [dict(p, use_caps=u) for p, u in zip(state, rec['pre'])]
                raised = isinstance(res, dict) and 'err' in res
                info = {'what': 'history', 'op_index': oi, 'op': kind}
                if kind == 'inpoly':
                    terms.append((ji, info, '(CPoly %s %s %s [%s])' % (poly_t(cur[op['k']]), C.zlit(op.get('ncaps', 0)),
                                                                     C.coq_list([vec_t(p) for p in j['pts']]),
                                                                     '[]' if raised else boolist(res))))
                elif kind == 'window':
                    terms.append((ji, info, '(CWindow %s %s %s [%s])' % (C.coq_list([poly_t(p) for p in cur]), C.zlit(op.get('ncaps', 0)),
                                                                       C.coq_list([vec_t(p) for p in j['pts']]),
                                                                       '[]' if raised else zlist(res))))
                elif kind == 'setuse':
                    P = cur[op['k']]
                    width = max([len(P['cm']), P['use_caps'].bit_length()] + [i + 1 for i in op['il']]) + 2
                    terms.append((ji, info, '(CSetUse %s %s %s %d%%nat %s)' % (
                        poly_t(P), zlist(op['il']), opts_t(op['opts']), width, 'None' if raised else '(Some %s)' % C.zlit(res))))
                    if not raised:
                        want_post = list(rec['pre'])
                        want_post[op['k']] = res
                        if rec['post'] != want_post:
                            direct.append((ji, 'C12:history:set_use_caps:polygon-state', 'call %d: use_caps of the polygons after set_use_caps is %s, '
                                           'expected %s (returned value in slot %d, others untouched)' % (oi, rec['post'], want_post, op['k']),
                                           {'op_index': oi}, True))
                elif kind == 'copy':
                    if res is not True:
                        direct.append((ji, 'C12:history:copy', 'call %d: copy() of a polygon %s' % (oi, res), {'op_index': oi}, True))
                elif kind == 'write':
                    files[op['file']] = op['content']
                elif kind == 'read':
                    content = files[op['file']]
                    slots[op['slot']] = content
                    why = 'raised %s' % res if raised else stored_equal(content, res)
                    if why:
                        direct.append((ji, 'C12:history:read-after-rewrite' if op['slot'].endswith('#1') else 'C12:history:read',
                                       'call %d: reading %s does not give the polygons last written to that path: %s' % (oi, op['file'], why),
                                       {'op_index': oi}, True))
                elif kind == 'window_slot':
                    content = slots[op['slot']]
                    terms.append((ji, info, '(CWindow %s %s %s [%s])' % (C.coq_list([poly_t(p) for p in content]), C.zlit(op.get('ncaps', 0)),
                                                                       C.coq_list([vec_t(p) for p in j['pts']]),
                                                                       '[]' if raised else zlist(res))))
                if kind not in ('setuse',) and rec['post'] != rec['pre']:
                    direct.append((ji, 'C12:caller-data:modified', 'call %d (%s) changed use_caps of a polygon: %s -> %s' % (oi, kind, rec['pre'], rec['post']),
                                   {'op_index': oi}, True))
            continue
        if j['f'] == 'large':
            n, m = j['n'], len(j['pts'])
            why = stored_equal([dict(p) for p in j['polys']], r['polys'])
            if why:
                direct.append((ji, 'C12:large-N:stored-polygon-differs', 'keyword-constructed polygons differ from what was passed: %s' % why, {}, True))
            for form in ('cart', 'radec'):
                o = r[form]
                pts = j['pts'] if form == 'cart' else [xyz_of_radec(rd) for rd in j['radec']]
                if o.get('modified'):
                    direct.append((ji, 'C12:caller-data:modified', 'a call with %d points changed the caller\'s point array' % n, {'input': form}, True))
                entries = [('is_in_window', o['window'], None)] + [('is_in_polygon', e, e['k']) for e in o['inpoly']]
                if 'cap' in o:
                    entries.append(('is_in_cap', o['cap'], None))
                for fn, e, pk in entries:
                    routes, expects = [], []
                    present = None
                    for part in ('whole', 'split'):
                        sm = e[part]
                        if 'err' in sm:
                            direct.append((ji, 'C12:large-N:%s:impl=%s' % (fn, sm['err']),
                                           '%s on %d points (%s%s) raised %s %s' % (fn, n, form, ', passed as two calls' if part == 'split' else '',
                                                                                   sm['err'], sm.get('msg', '')), {'input': form, 'n': n}, True))
                            continue
                        want_dt = 'int32' if fn == 'is_in_window' else 'bool'
                        if sm['dtype'] != want_dt:
                            direct.append((ji, 'C12:large-N:%s:result-dtype' % fn, '%s on %d points returns dtype %s, not %s' % (fn, n, sm['dtype'], want_dt),
                                           {'input': form, 'n': n}, True))
                        if sm['n_nonuniform']:
                            nu = sm['nonuniform']
                            direct.append((ji, 'C12:large-N:%s:same-point-different-answers-within-one-call' % fn,
                                           '%s on %d points (%s input, pattern %s%s): %d positions do not get the answer that the same point gets at '
                                           'its first position; e.g. position %d holds small point #%d %s and gets %d, position %d holds the same '
                                           'point and gets %d' % (fn, n, form, j['pattern'], ', passed as two calls split at %d' % j['split'] if part == 'split' else '',
                                                                  sm['n_nonuniform'], nu['position'], nu['point'], pts[nu['point']], nu['answer'],
                                                                  nu['first_position'], nu['answer_at_first_position']),
                                           {'input': form, 'n': n, 'detail': nu, 'polygon_index': pk}, True))
                        present = sm['present'] if present is None else [i for i in present if i in set(sm['present'])]
                        for occ in ('first', 'last'):
                            routes.append('%s:%s-occurrence' % (part, occ))
                            expects.append(sm[occ])
                    if e.get('same') and e['same']['n_differ']:
                        d = e['same']
                        direct.append((ji, 'C12:large-N:%s:one-call-differs-from-two-calls' % fn,
                                       '%s on %d points (%s input) differs at %d positions from the same points passed as [:%d] and [%d:]; e.g. '
                                       'position %d (small point #%d %s): %d in one call, %d in two' % (fn, n, form, d['n_differ'], j['split'], j['split'],
                                                                                                      d['position'], d['point'], pts[d['point']], d['whole'], d['split']),
                                       {'input': form, 'n': n, 'detail': d, 'polygon_index': pk}, True))
                    if fn == 'is_in_window' and e.get('flag_ok') is not True:
                        direct.append((ji, 'C12:is_in_window:flag-vs-index', 'flag vector is not (index >= 0) for %d points: %s' % (n, e.get('flag_ok')),
                                       {'input': form, 'n': n}, True))
                    if not routes:
                        continue
                    keep = sorted(present)
                    ptt = C.coq_list([vec_t(pts[i]) for i in keep])
                    info = {'what': 'large', 'fn': fn, 'mode': form, 'keep': keep, 'pts': pts, 'routes': routes, 'poly': pk}
                    if fn == 'is_in_window':
                        term = '(CWindow %s %s %s %s)' % (C.coq_list([poly_t(p) for p in j['polys']]), C.zlit(j['ncaps']), ptt,
                                                         C.coq_list([zlist([ex[i] for i in keep]) for ex in expects]))
                    else:
                        P = j['polys'][pk] if fn == 'is_in_polygon' else {'x': [j['cap']['x']], 'cm': [j['cap']['cm']], 'use_caps': 1}
                        term = '(CPoly %s %s %s %s)' % (poly_t(P), C.zlit(j['ncaps'] if fn == 'is_in_polygon' else 0), ptt,
                                                       C.coq_list([boolist([bool(ex[i]) for i in keep]) for ex in expects]))
                    terms.append((ji, info, term))
                    count('large-N:%s:%s:n=%s:%s' % (fn, 'RA/Dec' if form == 'radec' else 'cartesian', j['size_class'], j['pattern']), 2 * n)
            continue
        if j['f'] == 'reuse':
            seen_buf = set()
            for si, (st, rec) in enumerate(zip(j['steps'], r['reuse'])):
                res = rec['res']
                raised = isinstance(res, dict) and 'err' in res
                if 'edit' in st:
                    count('reuse:polygon-edited-in-place:%s' % st['edit'])
                    if raised:
                        direct.append((ji, 'C12:reuse:runner', 'in-place edit %s failed: %s' % (st, res), {'step': si}, False))
                    continue
                cur = rec.get('polys')
                if cur is None or any('err' in g for g in cur):
                    direct.append((ji, 'C12:reuse:runner', 'step %d: polygon state unavailable: %s' % (si, res), {'step': si}, False))
                    continue
                form = st['form']
                content = rec['content']
                pts = content if form == 'cart' else [xyz_of_radec(rd) for rd in content]
                call = st['call']
                if rec.get('modified'):
                    direct.append((ji, 'C12:caller-data:modified', 'step %d (%s) changed the caller\'s coordinate array' % (si, call), {'step': si}, True))
                if call == 'window' and not raised and rec.get('flag_ok') is not True:
                    direct.append((ji, 'C12:is_in_window:flag-vs-index', 'flag vector is not (index >= 0) at step %d of a reuse sequence' % si, {'step': si}, True))
                bufkey = form + st['buf']
                situation = ('refilled:' + st['fill']['how']) if st.get('fill') else ('same-content-again' if bufkey in seen_buf else 'first-use')
                seen_buf.add(bufkey)
                info = {'what': 'reuse', 'step': si, 'call': call, 'mode': form, 'pts': pts, 'content': content, 'situation': situation}
                ncaps = st.get('ncaps', 0)
                if call in ('cap', 'dist'):
                    P = cur[st['k']]
                    P = {'x': [P['x'][st['c']]], 'cm': [P['cm'][st['c']]], 'use_caps': 1}
                    caps_here, nc_t = list(zip(P['x'], P['cm'])), 0
                elif call == 'poly':
                    P = cur[st['k']]
                    caps_here, nc_t = list(zip(P['x'], P['cm'])), ncaps
                else:
                    caps_here, nc_t = [(x, cm) for g in cur for x, cm in zip(g['x'], g['cm'])], ncaps
                keep = [i for i, pt in enumerate(pts) if all(strict_ok(x, cm, pt) for x, cm in caps_here)]
                info['keep'] = keep
                ptt = C.coq_list([vec_t(pts[i]) for i in keep])
                if call == 'window':
                    term = '(CWindow %s %s %s [%s])' % (C.coq_list([poly_t(g) for g in cur]), C.zlit(nc_t), ptt,
                                                       '[]' if raised else zlist([res[i] for i in keep]))
                else:
                    term = '(CPoly %s %s %s [%s])' % (poly_t(P), C.zlit(nc_t), ptt, '[]' if raised else boolist([res[i] for i in keep]))
                terms.append((ji, info, term))
                count('reuse:points-per-call=%s' % (len(content) if len(content) < 2 else '>=2'))
                count('reuse:%s:%s:%s%s' % ({'cap': 'is_in_cap', 'dist': 'cap_distance', 'poly': 'is_in_polygon', 'window': 'is_in_window'}[call],
                                            'RA/Dec' if form == 'radec' else 'cartesian', situation, ':new-view' if st.get('view') else ''), len(keep))
            continue
        if j['f'] == 'cap':
            for mode in ('cart', 'radec'):
                pts = j['pts'] if mode == 'cart' else r['radec_xyz']
                keep = [i for i, p in enumerate(pts) if margin_ok(j['x'], j['cm'], p)]
                exp = r[mode]
                if isinstance(exp, dict):
                    exp_t, keep = '[]', list(range(len(pts)))
                else:
                    exp_t = boolist([exp[i] for i in keep])
                terms.append((ji, {'what': 'is_in_cap', 'mode': mode, 'keep': keep, 'pts': pts},
                              '(CCap %s %s %s)' % (cap_t(j['x'], j['cm']), C.coq_list([vec_t(pts[i]) for i in keep]), exp_t)))
                count('is_in_cap:%s:cm%s%s' % (mode, '>=0' if j['cm'] >= 0 else '<0', ':boundary-values' if j.get('exact') else ''), len(keep))
        elif j['f'] == 'sweep':
            keep = list(range(len(j['pts'])))
            for mi, mask in enumerate(j['masks']):
                P = {'x': j['x'], 'cm': j['cm'], 'use_caps': mask}
                for ni, nc in enumerate(j['ncaps_list']):
                    row = r['sweep'][mi][ni]
                    exp_t = '[]' if isinstance(row, dict) else boolist(row)
                    terms.append((ji, {'what': 'is_in_polygon', 'mode': 'cart', 'keep': keep, 'pts': j['pts'], 'routes': ['kwargs'],
                                       'poly': 0, 'sweep': (mi, ni)},
                                  '(CPoly %s %s %s [%s])' % (poly_t(P), C.zlit(nc), C.coq_list([vec_t(pt) for pt in j['pts']]), exp_t)))
                    count('is_in_polygon:mask-x-ncaps-sweep', len(keep))
        elif j['f'] == 'setuse':
            p = j['poly']
            width = max([len(p['cm']), p['use_caps'].bit_length()] + [i + 1 for i in j['index_list']]) + 2
            P = {'x': p['x'], 'cm': p['cm'], 'use_caps': p['use_caps']}
            exp = 'None' if 'err' in r else '(Some %s)' % C.zlit(r['ok'])
            if 'ok' in r and r['ok'] != r['after']:
                direct.append((ji, 'C12:set_use_caps:return-differs-from-polygon.use_caps',
                               'set_use_caps returned %d but left polygon.use_caps = %d' % (r['ok'], r['after']), {}, True))
            terms.append((ji, {'what': 'set_use_caps'}, '(CSetUse %s %s %s %d%%nat %s)' % (
                poly_t(P), zlist(j['index_list']), opts_t(j['opts']), width, exp)))
            count('set_use_caps:index_list=%s:%s' % (j['ilk'], 'ok' if 'ok' in r else r['err']))
            for dk in (j['dupkinds'] or ['none']):
                count('set_use_caps:doubles=%s' % dk)
            for ok_ in sorted(j['opts']):
                count('set_use_caps:option=%s' % ok_)
            if 'ladder' in j:
                L = j['ladder']
                for part in ('axis', 'cm'):
                    if L[part] is not None:
                        count('set_use_caps:tolerance-ladder:%s:%s' % (part, L[part]))
                count('set_use_caps:tolerance-ladder:mode=%s' % L['mode'])
                count('set_use_caps:tolerance-ladder:cm0%s:partner-sign-%s' % (L['cm0'], L['cm_sign']))
                count('set_use_caps:tolerance-ladder:tol=%g' % L['tol'])
                if 'ok' in r:
                    sel = (p['use_caps'] if j['opts'].get('add') else 0)
                    for i_ in j['index_list']:
                        sel |= 1 << i_
                    count('set_use_caps:tolerance-ladder:%s' % ('a-selected-cap-dropped' if r['ok'] != sel else 'all-selected-kept'))
        elif j['f'] == 'window':
            routes = j['routes']
            intended = j['polys']
            for mode in ('cart', 'radec'):
                pts = j['pts'] if mode == 'cart' else r['radec_xyz']
                allc = [(x, cm) for p in intended for x, cm in zip(p['x'], p['cm'])]
                keep = [i for i, p in enumerate(pts) if all(margin_ok(x, cm, p) for x, cm in allc)]
                expects = []
                for rt in routes:
                    rr = r['routes'][rt]
                    w = rr.get('win_' + mode) if 'err' not in rr else None
                    if w is None or 'err' in w:
                        expects.append('[]')       # an exception: differs from every model answer
                    else:
                        idx = w['idx']
                        # the returned flag must be idx >= 0 (checked here; the index list goes to Coq)
                        if [v >= 0 for v in idx] != w['flag'] or w['idx_dtype'] != 'int32' or w['flag_dtype'] != 'bool':
                            direct.append((ji, 'C12:is_in_window:flag-vs-index', 'flag vector is not (index >= 0) on route %s' % rt,
                                           {'route': rt}, True))
                        expects.append(zlist([idx[i] for i in keep]))
                terms.append((ji, {'what': 'is_in_window', 'mode': mode, 'keep': keep, 'pts': pts, 'routes': routes},
                              '(CWindow %s %s %s %s)' % (C.coq_list([poly_t(p) for p in intended]), C.zlit(j['ncaps']),
                                                         C.coq_list([vec_t(pts[i]) for i in keep]), C.coq_list(expects))))
                count('is_in_window:%s:ncaps%s%s' % (mode, '<=0' if j['ncaps'] <= 0 else '>0', (':with-whole-sky-polygon' if any(len(p['cm']) == 0 for p in intended) else '') + (':boundary-values' if j.get('exact') else '')), len(keep) * len(routes))
            if 'ply' in routes or 'ply_assign' in routes:
                count('route=ply:layout=%s:numbers=%s' % (j.get('ply_layout', 'std'), j.get('ply_fmt', 'repr')))
            # is_in_polygon, polygon by polygon, on two routes (ManglePolygon objects and raw FITS rows)
            pts = j['pts']
            prts = [rt for rt in ('kwargs', 'fits_raw') if rt in routes and 'err' not in r['routes'][rt]]
            for k, p in enumerate(intended):
                keep = [i for i, pt in enumerate(pts) if all(margin_ok(x, cm, pt) for x, cm in zip(p['x'], p['cm']))]
                expects = []
                for rt in prts:
                    row = r['routes'][rt]['inpoly'][k]
                    expects.append('[]' if isinstance(row, dict) else boolist([row[i] for i in keep]))
                if prts:
                    terms.append((ji, {'what': 'is_in_polygon', 'mode': 'cart', 'keep': keep, 'pts': pts, 'routes': prts, 'poly': k},
                                  '(CPoly %s %s %s %s)' % (poly_t(p), C.zlit(j['ncaps']),
                                                           C.coq_list([vec_t(pts[i]) for i in keep]), C.coq_list(expects))))
                    count('is_in_polygon', len(keep) * len(prts))
            # what each route holds must be what was written
            for rt in routes:
                rr = r['routes'][rt]
                if 'err' in rr:
                    sig = 'C12:route=%s:impl=%s' % (rt, rr['err'])
                    direct.append((ji, sig, 'route %s failed: %s %s' % (rt, rr['err'], rr.get('msg', '')), {'route': rt}, True))
                    continue
                want = intended
                if rt == 'kwargs_default':
                    want = [dict(p, use_caps=(1 << len(p['cm'])) - 1) for p in intended]
                why = stored_equal(want, rr['polys'])
                if why:
                    direct.append((ji, 'C12:route=%s:stored-polygon-differs' % rt,
                                   'route %s does not hold the polygons that were written: %s' % (rt, why), {'route': rt}, True))
            if 'balkans' in routes and 'err' not in r['routes']['balkans']:
                b = j['balkans']
                got = r['routes']['balkans']['polys']
                if all('err' not in g for g in got):
                    terms.append((ji, {'what': 'balkans'}, '(CBalkans %s %s %s)' % (
                        C.coq_list([cap_t(c['x'], c['cm']) for c in b['bcaps']]),
                        C.coq_list(['(%d, %d)%%nat' % (ic, len(p['cm'])) for ic, p in zip(b['icap'], intended)]),
                        C.coq_list([poly_t(g) for g in got]))))
                    count('balkans')

    # heavy cases (whole polygon lists) in shards of bounded text size, the rest 120 per shard; one pool of
    # NPROC coqc processes over all shards, heaviest first
    verdicts = [None] * len(terms)
    heavy = [k for k, (_, info, _) in enumerate(terms) if info['what'] in ('is_in_window', 'is_in_polygon', 'balkans')]
    hs = set(heavy)
    light = [k for k in range(len(terms)) if k not in hs]
    groups, cur, size = [], [], 0
    limit = max(30000, sum(len(terms[k][2]) for k in heavy) // max(1, C.NPROC - 3) + 1) if not ctx.thorough else 60000
    for k in heavy:
        if cur and size + len(terms[k][2]) > limit:
            groups.append(cur)
            cur, size = [], 0
        cur.append(k)
        size += len(terms[k][2])
    if cur:
        groups.append(cur)
    groups += [light[i:i + 120] for i in range(0, len(light), 120)]
    import os
    import time as _time
    from concurrent.futures import ThreadPoolExecutor

    def run_group(gi_g):
        gi, g = gi_g
        path = os.path.join(ctx.work, 'shard_%04d.v' % gi)
        with open(path, 'w') as f:
            f.write(HEADER + '\nDefinition cases_0 := [\n  ' + ';\n  '.join(terms[k][2] for k in g) + '\n].\n')
            f.write('Eval vm_compute in (run_cases cases_0).\n')
        rc, out = C.coqc_file(path, 900)
        if rc != 0:
            raise C.CoqEvalError('coqc failed on %s:\n%s' % (path, out[-3000:]))
        lst = C.parse_nat_list(out)
        if lst is None or len(lst) != len(g):
            raise C.CoqEvalError('unparsable answer from %s (%r)' % (path, out[-500:]))
        return lst
    t0 = _time.time()
    order = sorted(range(len(groups)), key=lambda gi: -sum(len(terms[k][2]) for k in groups[gi]))
    with ThreadPoolExecutor(max_workers=C.NPROC) as ex:
        for gi, lst in zip(order, ex.map(run_group, [(gi, groups[gi]) for gi in order])):
            for k, v in zip(groups[gi], lst):
                verdicts[k] = v

    class _T:
        coq_seconds = _time.time() - t0
    cc = _T
    ctx.coverage['coq_eval_s'] = round(cc.coq_seconds, 1)
    evaluations = 0
    for (ji, info, t) in terms:
        if 'keep' in info:
            evaluations += len(info['keep']) * (len(info['routes']) if 'routes' in info else 1)
        else:
            evaluations += 1
    bad = [(ji, info, t, v) for (ji, info, t), v in zip(terms, verdicts) if v != 0]
    samples = []
    for want in ('cap', 'window', 'setuse'):
        for ji, j in enumerate(jobs):
            if j['f'] == want:
                rr = results[ji]
                if want == 'window' and 'routes' in rr:
                    rr = {'routes': {k: (v.get('win_cart') if isinstance(v, dict) else v) for k, v in rr['routes'].items()}}
                samples.append({'job': {k: v for k, v in j.items() if k not in ('pad',)}, 'impl': rr})
                break
    by_form = {'cartesian (n x 3 unit vectors)': 0, 'RA/Dec (n x 2 degrees, through angles_to_x(latitude=True))': 0}
    by_route = {}
    for (ji, info, t) in terms:
        if 'keep' not in info:
            continue
        nk = len(info['keep'])
        key = 'RA/Dec (n x 2 degrees, through angles_to_x(latitude=True))' if info.get('mode') == 'radec' else 'cartesian (n x 3 unit vectors)'
        by_form[key] += nk * (len(info['routes']) if 'routes' in info else 1)
        for rt in info.get('routes', ['direct call']):
            by_route[rt] = by_route.get(rt, 0) + nk
    ctx.coverage.update({
        'evaluations': evaluations,
        'membership_answers_by_input_form': by_form,
        'membership_answers_by_route': by_route,
        'distinct_nontrivial': len(set(t for _, _, t in terms)),
        'rule': 'one evaluation = one (point, cap|polygon|polygon list, route) membership answer of the implementation, or one '
                'set_use_caps / balkans assembly result, compared inside Coq with the algorithmic model and with the '
                'specification; distinct = distinct Coq case terms',
        'cases_by_kind': dist,
        'coq_cases': len(terms),
        'model_disagreements': sum(1 for b in bad if b[3] & 1),
        'spec_violations': sum(1 for b in bad if b[3] & 2),
        'direct_check_failures': len(direct),
        'samples': samples,
    })

    seen = set()

    def report(sig, summary, replay, found):
        if sig in seen:
            return
        seen.add(sig)
        ctx.violation(sig, summary, replay, found)

    prio = {'is_in_cap': 0, 'is_in_polygon': 1, 'is_in_window': 2}
    for ji, info, t, v in sorted(bad, key=lambda b: (prio.get(b[1]['what'], 3), len(b[2]))):
        j, r = jobs[ji], results[ji]
        pos = v // 4
        found = bool(v & 2)
        what = info['what']
        rep = {'kind': 'failing-input' if found else 'broken-correspondence', 'what': what, 'verdict': v,
               'meaning': 'verdict bit 2: implementation contradicts the specification S (C12_in_polygon_spec / '
                          'C12_in_window_first / C12_set_use_caps_spec / C12_balkans_slice_spec); bit 1: differs from the model M'}
        if not found:
            rep['item'] = 'C12.Model.run_case (%s)' % what
        if what == 'history':
            oi = info['op_index']
            sig = 'C12:history:%s:%s:%s' % (info['op'], 'impl-raised' if isinstance(r['history'][oi]['res'], dict) else 'wrong-answer',
                                            'property' if found else 'model')
            rep.update({'job': j, 'failing_call_index': oi, 'failing_call': j['ops'][oi], 'calls_before': j['ops'][:oi],
                        'impl_record': r['history'][oi], 'coq_case': t[:20000]})
            report(sig, 'call %d (%s) of a multi-call history on the same objects / file paths gave %s, which is not the model\'s '
                   'answer for the state the call started from (%s)' % (oi, j['ops'][oi], str(r['history'][oi]['res'])[:80], r['history'][oi]['pre']),
                   rep, found)
            continue
        if what == 'large':
            keep, pts = info['keep'], info['pts']
            stride = len(keep) + 1
            route = info['routes'][(pos - 1) // stride] if pos else None
            pi = (pos - 1) % stride
            si = keep[pi] if 0 <= pi < len(keep) else None
            pt = pts[si] if si is not None else None
            o = r[info['mode']]
            e = o['window'] if info['fn'] == 'is_in_window' else (o['cap'] if info['fn'] == 'is_in_cap' else
                                                                  [x for x in o['inpoly'] if x['k'] == info['poly']][0])
            part, occ = (route or 'whole:first-occurrence').split(':')
            got = e[part][occ.split('-')[0]][si] if si is not None else None
            sig = 'C12:large-N:%s:wrong-answer:%s' % (info['fn'], 'property' if found else 'model')
            rep.update({'job': {k: v_ for k, v_ in j.items() if k != 'kinds'}, 'input': info['mode'], 'n': j['n'], 'route': route,
                        'small_point_index': si, 'point': pt, 'point_radec': j['radec'][si] if si is not None else None,
                        'point_kind': j['kinds'][si] if si is not None else None, 'impl_answer': got,
                        'impl_summary': {k_: v_ for k_, v_ in e.items() if k_ != 'k'}, 'polygon_index': info.get('poly'), 'coq_case': t[:20000],
                        'how_to_build_the_input': 'points = small[expand_index(m, n, pattern, seed)] (harness/impl/c12_impl.py expand_index)'})
            report(sig, '%s on %d points (%s input; copies of %d small points, pattern %s): the answer %s at the %s of small point #%s %s '
                   '(%s) is not what the caps define' % (info['fn'], j['n'], info['mode'], len(pts), j['pattern'], got, route, si, pt,
                                                        rep['point_kind']), rep, found)
            continue
        if what == 'reuse':
            keep, pts = info['keep'], info['pts']
            si = info['step']
            pi = (pos - 1) % (len(keep) + 1) if pos else None
            ix = keep[pi] if pi is not None and 0 <= pi < len(keep) else None
            rec = r['reuse'][si]
            raised = isinstance(rec['res'], dict)
            fn = {'cap': 'is_in_cap', 'dist': 'cap_distance', 'poly': 'is_in_polygon', 'window': 'is_in_window'}[info['call']]
            sig = 'C12:reuse:%s:%s-input:%s:%s:%s' % (fn, 'RA/Dec' if info['mode'] == 'radec' else 'cartesian',
                                                     info['situation'].split(':')[0], 'impl=' + rec['res']['err'] if raised else 'wrong-answer',
                                                     'property' if found else 'model')
            rep.update({'job': j, 'failing_step_index': si, 'failing_step': j['steps'][si], 'steps_before': j['steps'][:si],
                        'array_content_at_the_call': info['content'], 'polygons_at_the_call': rec.get('polys'),
                        'point': info['content'][ix] if ix is not None else None, 'point_xyz': pts[ix] if ix is not None else None,
                        'impl_record': {k_: v_ for k_, v_ in rec.items() if k_ != 'polys'}, 'coq_case': t[:20000]})
            report(sig, 'step %d of a sequence on ONE coordinate array (%s, %s input, array %s): %s gave %s for the contents %s, which is '
                   'not what the caps define%s' % (si, info['situation'], info['mode'], j['steps'][si]['buf'], fn, str(rec['res'])[:80],
                                                  str(info['content'])[:120], ' (first wrong point %s)' % info['content'][ix] if ix is not None else ''),
                   rep, found)
            continue
        if info.get('types'):
            keep, pts = info['keep'], info['pts']
            stride = len(keep) + 1
            vname = info['routes'][(pos - 1) // stride] if pos else None
            pi = (pos - 1) % stride
            pt = pts[keep[pi]] if 0 <= pi < len(keep) else None
            st = j['variants'].get(vname)
            sig = 'C12:storage-type:x=%s,cm=%s,points=%s:%s-input:wrong-answer:%s' % (
                st[0], st[1], st[2], 'RA/Dec' if info['mode'] == 'radec' else 'cartesian', 'property' if found else 'model') \
                if st else 'C12:storage-type:?:%s' % what
            rep.update({'job': j, 'variant': vname, 'storage': st, 'input': info['mode'], 'point': pt, 'coq_case': t[:20000],
                        'impl_result': r['variants'].get(vname), 'float64_result': r['variants'].get('f8')})
            report(sig, '%s with x, cm, points stored as %s (%s input) differs from the answer for the same numbers in float64 at point %s'
                   % (what, st, info['mode'], pt), rep, found)
            continue
        if what == 'set_use_caps':
            ref = py_set_use_caps(j)
            got = r.get('ok', r.get('err'))
            if got == py_set_use_caps(j, index_bug=True) and got != ref:
                sig = SIG_IDX
            elif got == py_set_use_caps(j, no_abs=True) and got != ref:
                sig = SIG_NEGSUM
            elif got == py_set_use_caps(j, index_bug=True, no_abs=True) and got != ref:
                sig = SIG_IDX
            else:
                sig = 'C12:set_use_caps:%s:%s' % ('wrong-bits' if 'ok' in r else 'impl=' + r['err'], 'property' if found else 'model')
            rep.update({'job': j, 'impl_result': r, 'expected_use_caps': ref, 'coq_case': t})
            report(sig, 'set_use_caps(%d caps, index_list=%s, %s) gave %s, the selected bits minus later doubles are %s'
                   % (len(j['poly']['cm']), j['index_list'], j['opts'], got, ref), rep, found)
            continue
        if what == 'balkans':
            rep.update({'job': {k: j[k] for k in ('polys', 'balkans')}, 'impl_polys': r['routes']['balkans']['polys'], 'coq_case': t})
            report('C12:balkans:assembled-polygons-differ:%s' % ('property' if found else 'model'),
                   'window_read(balkans=True) does not hold caps ICAP..ICAP+NCAPS-1 with all caps in use', rep, found)
            continue
        keep, pts = info['keep'], info['pts']
        route = None
        if what in ('is_in_window', 'is_in_polygon'):
            stride = len(keep) + 1
            route = info['routes'][(pos - 1) // stride] if pos else None
            pi = (pos - 1) % stride
        else:
            pi = pos - 1
        pt = pts[keep[pi]] if 0 <= pi < len(keep) else None
        kind = j['kinds'][keep[pi]] if pt is not None else 'none'
        if what == 'is_in_cap':
            polys_here = [{'x': [j['x']], 'cm': [j['cm']]}]
            exp = r[info['mode']]
            raised = isinstance(exp, dict)
        elif 'sweep' in info:
            mi, ni = info['sweep']
            exp = r['sweep'][mi][ni]
            raised = isinstance(exp, dict)
            sig = 'C12:is_in_polygon:%s:%s' % ('route=kwargs:impl=' + exp['err'] if raised else 'wrong-answer',
                                               'property' if found else 'model')
            if not raised and pt is not None and nan_cause(r, 'cart', keep[pi]):
                sig = SIG_NAN
            rep.update({'job': dict({k: j[k] for k in ('f', 'x', 'cm', 'pts')}, masks=[j['masks'][mi]], ncaps_list=[j['ncaps_list'][ni]]),
                        'impl_result': exp, 'point': pt, 'point_kind': kind, 'coq_case': t})
            report(sig, 'is_in_polygon(use_caps=%d, ncaps=%d) differs from the caps\' definition at point %s (%s)' % (
                j['masks'][mi], j['ncaps_list'][ni], pt, kind), rep, found)
            continue
        else:
            polys_here = j['polys'] if what == 'is_in_window' else [j['polys'][info['poly']]]
            rr = r['routes'].get(route, {}) if route else {}
            raised = 'err' in rr or (what == 'is_in_window' and 'err' in (rr.get('win_' + info['mode']) or {})) or \
                (what == 'is_in_polygon' and isinstance(rr.get('inpoly', [None] * 99)[info['poly']], dict))
        if raised:
            e = (exp if what == 'is_in_cap' else (rr if 'err' in rr else (rr.get('win_' + info['mode']) if what == 'is_in_window' else rr['inpoly'][info['poly']])))
            if route in ('fits_raw', 'fits1_raw') and e.get('err') == 'IndexError' and max(len(p['cm']) for p in j['polys']) == 1:
                sig = SIG_RAW1
            elif route in ('ply', 'ply_assign') and e.get('err') == 'AssertionError' and any(len(p['cm']) == 0 for p in j['polys']):
                sig = SIG_PLY0
            else:
                sig = 'C12:%s:route=%s:impl=%s:%s' % (what, route, e.get('err'), 'property' if found else 'model')
            summary = '%s raised %s (%s) on route %s' % (what, e.get('err'), e.get('msg', ''), route)
        elif pt is not None and nan_cause(r, info['mode'], keep[pi]):
            sig = SIG_NAN
            summary = ('%s: point (%s, kind %s) has a float dot product outside [-1,1] with a cap centre; arccos gives NaN and the '
                       'point is reported outside a cap that contains it' % (what, pt, kind))
        else:
            sig = 'C12:%s:wrong-answer:%s' % (what, 'property' if found else 'model')
            summary = '%s answer differs from the caps\' definition at point %s (kind %s, route %s, input %s)' % (
                what, pt, kind, route, info['mode'])
        rep.update({'point': pt, 'point_kind': kind, 'route': route, 'input': info['mode'], 'coq_case': t[:20000]})
        if what == 'is_in_cap':
            rep.update({'job': {k: j[k] for k in ('f', 'x', 'cm')},
                        'impl_result': exp[keep[pi]] if (isinstance(exp, list) and pt is not None) else exp})
            rep['job']['pts'] = [pt] if pt is not None else j['pts']
            rep['job']['radec'] = [radec_of(pt)] if pt is not None else j['radec']
        else:
            rep.update({'job': {k: v for k, v in j.items() if k not in ('kinds',)},
                        'impl_result': (r['routes'].get(route) if route else None), 'polygon_index': info.get('poly')})
        report(sig, summary, rep, found)

    for ji, sig, summary, extra, found in direct:
        j, r = jobs[ji], results[ji]
        if sig.startswith('C12:route=ply') and sig.endswith('impl=AssertionError') and j['f'] == 'window' and \
                any(len(p['cm']) == 0 for p in j['polys']):
            sig = SIG_PLY0
        if sig.startswith('C12:route=fits') and sig.endswith('impl=IndexError') and j['f'] == 'window' and \
                max(len(p['cm']) for p in j['polys']) == 1 and 'raw' in sig:
            sig = SIG_RAW1
        rep = {'kind': 'failing-input' if found else 'broken-correspondence', 'job': {k: v for k, v in j.items() if k != 'kinds'},
               'impl_result': r if j['f'] != 'window' else r.get('routes', {}).get(extra.get('route'), r)}
        if not found:
            rep['item'] = 'harness/impl/c12_impl.py'
        rep.update(extra)
        report(sig, summary, rep, found)


def replay(ctx, rep):
    j = rep.get('job')
    if not j or 'f' not in j:
        print('replay file has no runnable job (kind=%s, item=%s)' % (rep.get('kind'), rep.get('item')))
        return 2
    strip = ('kinds', 'allcaps', 'onecap', 'ilk', 'dupkinds', 'exact', 'ladder', 'size_class')
    out = C.run_impl('c12_impl.py', [{k: v for k, v in j.items() if k not in strip}])
    r = out['results'][0]
    print('signature:', rep.get('signature'))
    print('summary  :', rep.get('summary'))
    if j['f'] == 'window':
        route = rep.get('route')
        print('route    :', route, ' point:', rep.get('point'), rep.get('point_kind'))
        rr = r.get('routes', {})
        for k, v in rr.items():
            if isinstance(v, dict) and 'err' in v:
                print('  %-14s %s %s' % (k, v['err'], v.get('msg', '')))
            else:
                print('  %-14s cart %s' % (k, v.get('win_cart', {}).get('idx', v.get('win_cart'))))
    else:
        print('now      :', r)
    print('recorded :', str(rep.get('impl_result'))[:2000])
    if 'expected_use_caps' in rep:
        print('expected use_caps:', rep['expected_use_caps'])
    return 0
