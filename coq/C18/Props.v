(* C18 -- Great-circle distance and SDSS great-circle coordinates are geometrically exact.
   Property theorems only; each is closed by `exact` and followed by Print Assumptions.
   gcirc_gen, gcirc_h, m2r_vec, r2m_vec, stripe_to_incl_gen, angles_to_x_gen, x_to_angles_gen are
   GENERATED from /repo on every run (Generated/Gcirc.v, Generated/Coord.v). *)
From Coq Require Import Reals ZArith QArith List.
Import ListNotations.
From PV Require Import C18.Spec C18.SpecProofs Generated.Gcirc Generated.Coord C18.Model C18.Proofs C18.Angles C18.RoundTrip C18.FloatModel.
Open Scope R_scope.

(* ---- gcirc ---- *)

(* the source's square-root argument is the haversine = (1 - p.q)/2 of the two unit vectors (pt_S: the caller's
   coordinates as a unit vector, per unit convention) *)
Theorem C18_hav_is_chord : forall units ra1 dec1 ra2 dec2, In units gcirc_valid_units ->
  gcirc_h units ra1 dec1 ra2 dec2 = (1 - dot (pt_S units ra1 dec1) (pt_S units ra2 dec2)) / 2.
Proof. exact gcirc_h_is_chord. Qed.
Print Assumptions C18_hav_is_chord.

(* asin argument legal for all real inputs: never NaN in exact arithmetic *)
Theorem C18_hav_range : forall units ra1 dec1 ra2 dec2, In units gcirc_valid_units ->
  0 <= gcirc_h units ra1 dec1 ra2 dec2 <= 1.
Proof. exact gcirc_h_range. Qed.
Print Assumptions C18_hav_range.

(* the result is 2 asin sqrt of that argument, converted to the output unit *)
Theorem C18_gcirc_is_asin_sqrt : forall units ra1 dec1 ra2 dec2,
  gcirc_gen units ra1 dec1 ra2 dec2 = gcirc_out units (2 * asin (sqrt (gcirc_h units ra1 dec1 ra2 dec2))).
Proof. exact gcirc_gen_eq. Qed.
Print Assumptions C18_gcirc_is_asin_sqrt.

(* the generated function is the documented one in all three unit conventions (15 deg/hour, 3600 arcsec/deg) *)
Theorem C18_gcirc_is_spec : forall units ra1 dec1 ra2 dec2, In units gcirc_valid_units ->
  gcirc_gen units ra1 dec1 ra2 dec2 = gcirc_S units ra1 dec1 ra2 dec2.
Proof. exact gcirc_gen_is_S. Qed.
Print Assumptions C18_gcirc_is_spec.

(* equal to the independent vector formula acos(p.q) *)
Theorem C18_gcirc_is_vector_formula : forall ra1 dec1 ra2 dec2,
  gcirc_gen 0 ra1 dec1 ra2 dec2 = acos (dot (vec dec1 ra1) (vec dec2 ra2)).
Proof. exact gcirc_gen_is_vector_formula. Qed.
Print Assumptions C18_gcirc_is_vector_formula.

Theorem C18_gcirc_sym : forall units ra1 dec1 ra2 dec2, In units gcirc_valid_units ->
  gcirc_gen units ra1 dec1 ra2 dec2 = gcirc_gen units ra2 dec2 ra1 dec1.
Proof. exact gcirc_gen_sym. Qed.
Print Assumptions C18_gcirc_sym.

Theorem C18_gcirc_refl_zero : forall units ra dec, In units gcirc_valid_units -> gcirc_gen units ra dec ra dec = 0.
Proof. exact gcirc_gen_refl_zero. Qed.
Print Assumptions C18_gcirc_refl_zero.

(* within [0, 180 deg] = [0, PI] rad = [0, 648000] arcsec *)
Theorem C18_gcirc_range : forall units ra1 dec1 ra2 dec2, In units gcirc_valid_units ->
  0 <= gcirc_gen units ra1 dec1 ra2 dec2 <= (if (units =? 0)%Z then PI else 648000).
Proof. exact gcirc_gen_range. Qed.
Print Assumptions C18_gcirc_range.

Theorem C18_gcirc_units_agree : forall ra1 dec1 ra2 dec2,
  gcirc_gen 2 ra1 dec1 ra2 dec2 = arcsec_of_rad (gcirc_gen 0 (deg ra1) (deg dec1) (deg ra2) (deg dec2)) /\
  gcirc_gen 1 ra1 dec1 ra2 dec2 = gcirc_gen 2 (15 * ra1) dec1 (15 * ra2) dec2.
Proof. exact gcirc_gen_units_agree. Qed.
Print Assumptions C18_gcirc_units_agree.

(* antipodal points are exactly PI apart; evaluation form used by the enclosure cases *)
Theorem C18_gcirc_antipodal : forall a d, gcirc_rad a d (a + PI) (- d) = PI.
Proof. exact gcirc_antipodal. Qed.
Print Assumptions C18_gcirc_antipodal.

Theorem C18_gcirc_atan_form : forall h, 0 <= h < 1 -> 2 * asin (sqrt h) = atan_form h.
Proof. exact asin_sqrt_atan. Qed.
Print Assumptions C18_gcirc_atan_form.

(* ---- SDSS great-circle coordinates ---- *)

(* the generated component formulas are the rotation by +incl / -incl about the node direction *)
Theorem C18_munu_to_radec_is_rotation : forall mu nu incl node,
  m2r_vec mu nu incl node = rotx incl (vec nu (mu - node)).
Proof. exact m2r_vec_is_S. Qed.
Print Assumptions C18_munu_to_radec_is_rotation.

Theorem C18_radec_to_munu_is_rotation : forall ra dec incl node,
  r2m_vec ra dec incl node = rotx (- incl) (vec dec (ra - node)).
Proof. exact r2m_vec_is_S. Qed.
Print Assumptions C18_radec_to_munu_is_rotation.

(* (mu,nu) -> ICRS -> (mu,nu) and ICRS -> (mu,nu) -> ICRS return the starting direction *)
Theorem C18_munu_radec_inverse : forall mu nu incl node ra dec,
  vec dec (ra - node) = m2r_vec mu nu incl node -> r2m_vec ra dec incl node = vec nu (mu - node).
Proof. exact munu_radec_inverse. Qed.
Print Assumptions C18_munu_radec_inverse.

Theorem C18_radec_munu_inverse : forall ra dec incl node mu nu,
  vec nu (mu - node) = r2m_vec ra dec incl node -> m2r_vec mu nu incl node = vec dec (ra - node).
Proof. exact radec_munu_inverse. Qed.
Print Assumptions C18_radec_munu_inverse.

(* angular separations are preserved *)
Theorem C18_rotation_preserves_dot_m2r : forall mu1 nu1 mu2 nu2 incl node,
  dot (m2r_vec mu1 nu1 incl node) (m2r_vec mu2 nu2 incl node) = dot (vec nu1 (mu1 - node)) (vec nu2 (mu2 - node)).
Proof. exact m2r_preserves_dot. Qed.
Print Assumptions C18_rotation_preserves_dot_m2r.

Theorem C18_rotation_preserves_dot_r2m : forall ra1 dec1 ra2 dec2 incl node,
  dot (r2m_vec ra1 dec1 incl node) (r2m_vec ra2 dec2 incl node) = dot (vec dec1 (ra1 - node)) (vec dec2 (ra2 - node)).
Proof. exact r2m_preserves_dot. Qed.
Print Assumptions C18_rotation_preserves_dot_r2m.

(* the latitude returned is arcsin of the z component, which lies in [-1, 1]: never NaN in exact arithmetic *)
Theorem C18_latitude_legal : forall a b incl node,
  (let v := m2r_vec a b incl node in m2r_lat v = asin (snd v) /\ -1 <= snd v <= 1) /\
  (let v := r2m_vec a b incl node in r2m_lat v = asin (snd v) /\ -1 <= snd v <= 1).
Proof. exact latitude_legal. Qed.
Print Assumptions C18_latitude_legal.

(* ---- the same at the level of ANGLES: m2r_angles / r2m_angles are (generated longitude, generated latitude) of the
   generated vectors, i.e. (atan2 y x + node, asin z) with atan2 := Spec.atan2 ---- *)

(* (mu, nu) -> ICRS -> (mu, nu) returns the starting point, mu reduced to node + (-PI, PI] ("mu mod 360"), for |nu| < 90 deg,
   every inclination (stripe) and node *)
Theorem C18_munu_radec_munu_angles : forall mu0 nu incl node k,
  - (PI / 2) < nu < PI / 2 -> - PI < mu0 - node <= PI ->
  let '(ra, dec) := m2r_angles (mu0 + 2 * IZR k * PI) nu incl node in
  r2m_angles ra dec incl node = (mu0, nu).
Proof. exact munu_radec_munu_angles. Qed.
Print Assumptions C18_munu_radec_munu_angles.

(* ICRS -> (mu, nu) -> ICRS, for |dec| < 90 deg *)
Theorem C18_radec_munu_radec_angles : forall ra0 dec incl node k,
  - (PI / 2) < dec < PI / 2 -> - PI < ra0 - node <= PI ->
  let '(mu, nu) := r2m_angles (ra0 + 2 * IZR k * PI) dec incl node in
  m2r_angles mu nu incl node = (ra0, dec).
Proof. exact radec_munu_radec_angles. Qed.
Print Assumptions C18_radec_munu_radec_angles.

(* the returned angles represent the rotated unit vector for EVERY input, poles included *)
Theorem C18_angles_represent_vector : forall a b incl node,
  (let '(ra, dec) := m2r_angles a b incl node in vec dec (ra - node) = m2r_vec a b incl node) /\
  (let '(mu, nu) := r2m_angles a b incl node in vec nu (mu - node) = r2m_vec a b incl node).
Proof. exact angles_represent_vector. Qed.
Print Assumptions C18_angles_represent_vector.

(* separations are preserved at the level of gcirc: the great-circle distance of the images equals that of the originals *)
Theorem C18_gcirc_preserved_m2r : forall mu1 nu1 mu2 nu2 incl node,
  let '(ra1, dec1) := m2r_angles mu1 nu1 incl node in
  let '(ra2, dec2) := m2r_angles mu2 nu2 incl node in
  gcirc_rad ra1 dec1 ra2 dec2 = gcirc_rad mu1 nu1 mu2 nu2.
Proof. exact gcirc_preserved_m2r. Qed.
Print Assumptions C18_gcirc_preserved_m2r.

Theorem C18_gcirc_preserved_r2m : forall ra1 dec1 ra2 dec2 incl node,
  let '(mu1, nu1) := r2m_angles ra1 dec1 incl node in
  let '(mu2, nu2) := r2m_angles ra2 dec2 incl node in
  gcirc_rad mu1 nu1 mu2 nu2 = gcirc_rad ra1 dec1 ra2 dec2.
Proof. exact gcirc_preserved_r2m. Qed.
Print Assumptions C18_gcirc_preserved_r2m.

(* nu = 0 traces the great circle whose normal is tilted by incl from the pole, through RA = node, Dec = 0 *)
Theorem C18_nu0_great_circle : forall mu incl node,
  dot (m2r_vec mu 0 incl node) (gc_normal incl) = 0 /\ m2r_vec node 0 incl node = vec 0 0.
Proof. exact nu0_great_circle. Qed.
Print Assumptions C18_nu0_great_circle.

Theorem C18_incl_of_stripe : forall s, (stripe_to_incl_gen s == incl_doc s)%Q.
Proof. exact incl_of_stripe. Qed.
Print Assumptions C18_incl_of_stripe.

Theorem C18_node_is_95 : (sdss_node_default_deg == 95)%Q.
Proof. exact node_is_95. Qed.
Print Assumptions C18_node_is_95.

(* ---- floating-point statement in an ABSTRACT rounding model (every operation = exact result * (1 + d), |d| <= eps = 2^-52;
   a model of the arithmetic, not of numpy): the repaired haversine (differences first) has relative error <= 12 eps at every
   separation, and the distance 2 asin sqrt h relative error <= 32 eps up to 90 degrees ---- *)
Theorem C18_float_model_stable :
  (forall x y c1 c2 dx dy d1 d2 d3 d4 d5 d6 d7 d8 d9,
    Rabs x <= PI / 2 -> Rabs y <= PI / 2 -> 0 <= c1 -> 0 <= c2 ->
    Rabs dx <= eps -> Rabs dy <= eps -> Rabs d1 <= eps -> Rabs d2 <= eps -> Rabs d3 <= eps -> Rabs d4 <= eps ->
    Rabs d5 <= eps -> Rabs d6 <= eps -> Rabs d7 <= eps -> Rabs d8 <= eps -> Rabs d9 <= eps ->
    Rabs (hav_model x y c1 c2 dx dy d1 d2 d3 d4 d5 d6 d7 d8 d9 - hav_exact x y c1 c2) <= 12 * eps * hav_exact x y c1 c2) /\
  (forall x y c1 c2 dx dy d1 d2 d3 d4 d5 d6 d7 d8 d9 d10 d11,
    Rabs x <= PI / 2 -> Rabs y <= PI / 2 -> 0 <= c1 -> 0 <= c2 -> hav_exact x y c1 c2 <= 1/2 ->
    Rabs dx <= eps -> Rabs dy <= eps -> Rabs d1 <= eps -> Rabs d2 <= eps -> Rabs d3 <= eps -> Rabs d4 <= eps ->
    Rabs d5 <= eps -> Rabs d6 <= eps -> Rabs d7 <= eps -> Rabs d8 <= eps -> Rabs d9 <= eps -> Rabs d10 <= eps ->
    Rabs d11 <= eps ->
    let exact := 2 * asin (sqrt (hav_exact x y c1 c2)) in
    Rabs (dis_model (hav_model x y c1 c2 dx dy d1 d2 d3 d4 d5 d6 d7 d8 d9) d10 d11 - exact) <= 32 * eps * exact).
Proof. exact float_model_stable. Qed.
Print Assumptions C18_float_model_stable.

Theorem C18_float_model_is_generated_formula : forall dcrad1 dcrad2 deldec delra,
  hav_model (deldec / 2) (delra / 2) (cos dcrad1) (cos dcrad2) 0 0 0 0 0 0 0 0 0 0 0
  = gcirc_sindis2 dcrad1 dcrad2 deldec delra.
Proof. exact hav_model_is_generated. Qed.
Print Assumptions C18_float_model_is_generated_formula.

(* ---- angles <-> unit vectors (mangle) ---- *)

Theorem C18_angles_to_x_is_spec : forall lat phi theta,
  angles_to_x_gen lat phi theta = angles_to_x_S lat phi theta.
Proof. exact angles_to_x_is_S. Qed.
Print Assumptions C18_angles_to_x_is_spec.

(* x_to_angles (angles_to_x (phi, theta)) = (phi, theta) on the open domain; phi is returned in (-180, 180],
   i.e. equal to the input modulo 360 *)
Theorem C18_angles_x_inverse : forall (lat : bool) phi theta k,
  -180 < phi - 360 * IZR k <= 180 ->
  (if lat then -90 < theta < 90 else 0 < theta < 180) ->
  x_to_angles_gen atan2 lat (fst (fst (angles_to_x_gen lat phi theta))) (snd (fst (angles_to_x_gen lat phi theta)))
                  (snd (angles_to_x_gen lat phi theta)) = (phi - 360 * IZR k, theta).
Proof. exact angles_x_inverse. Qed.
Print Assumptions C18_angles_x_inverse.

(* non-vacuity: concrete instances *)
Example C18_witness_stripe : (stripe_to_incl_gen 25 == 75 # 2)%Q /\ (stripe_to_incl_gen 86 == 10)%Q.
Proof. split; reflexivity. Qed.
