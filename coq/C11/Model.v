(* C11 -- combine1fiber: resampling / combining spectra.  Executable definitions ONLY.
   Mirrors combine1fiber of /repo/pydl/pydlspec2d/spec2d.py stage by stage, over exact rationals Q:
     grouping of the sorted good pixels by maxsep (ig1/ig2 on the padded difference list),
     per-group B-spline (the fit itself is a parameter: either the implementation's recorded iterfit result or
       the C10 model iterfit_model -- see `fitter`), evaluation on the output pixels inside the group range, newmask,
     inverse variance = clamped linear interpolation (np.interp) of ivar*fullcombmask, zeroed where the
       interpolated mask is < 1-EPS, times newmask, summed over exposures,
     growth of 3-pixel bad regions by +-2, aesthetics.
   Arrays are flat lists (numpy ravel order); `specnum` gives the exposure of every input pixel.
   Specification checkers (the spec_ functions) use only the inputs, the recorded rejection mask and the outputs. *)
From Coq Require Import QArith Qround Qabs List Bool Arith ZArith Lia.
Import ListNotations.
From PV Require Import Lib.WLS BSpline.Eval BSpline.Fit BSpline.Iter.
From PV Require Import Generated.Combine1fiber.   (* only c1f_bad: the bad-region test as the source has it *)
Open Scope Q_scope.

Definition EPS : Q := 1 # 8388608.      (* np.finfo(np.float32).eps = 2^-23 *)

Definition nthB (l : list bool) (i : nat) : bool := nth i l false.
Definition b2q (b : bool) : Q := if b then 1 else 0.

(* ------------------------------------------------------------------ np.interp (increasing xp), clamped *)
Fixpoint interp_from (x0 y0 : Q) (rest : list (Q * Q)) (x : Q) : Q :=
  match rest with
  | [] => y0
  | (x1, y1) :: rest' =>
      if Qltb x x1 then y0 + (y1 - y0) * ((x - x0) / (x1 - x0)) else interp_from x1 y1 rest' x
  end.
Definition interp (pts : list (Q * Q)) (x : Q) : Q :=
  match pts with
  | [] => 0
  | (x0, y0) :: rest => if Qle_bool x x0 then y0 else interp_from x0 y0 rest x
  end.

(* ------------------------------------------------------------------ grouping *)
(* wavesort = wavelengths of the good pixels in increasing order; a new group starts at position i when
   padwave[i+1]-padwave[i] > maxsep and ends at i when padwave[i+2]-padwave[i+1] > maxsep, padwave being
   wavesort padded with min-2*maxsep and max+2*maxsep: position 0 always starts, the last always ends. *)
Fixpoint gap_after (maxsep : Q) (w : list Q) : list bool :=   (* for each position: is the gap to the next > maxsep (last: true) *)
  match w with
  | [] => []
  | [a] => [true]
  | a :: ((b :: _) as r) => Qltb maxsep (b - a) :: gap_after maxsep r
  end.

(* split a list into runs, cutting after every position flagged true *)
Fixpoint split_runs {A} (l : list A) (cut : list bool) (cur : list A) : list (list A) :=
  match l, cut with
  | a :: l', c :: cut' => if c then rev (a :: cur) :: split_runs l' cut' [] else split_runs l' cut' (a :: cur)
  | _, _ => match cur with [] => [] | _ => [rev cur] end
  end.

Definition groups (maxsep : Q) (inloglam : list Q) (isort : list nat) : list (list nat) :=
  split_runs isort (gap_after maxsep (map (nthQ inloglam) isort)) [].

(* ------------------------------------------------------------------ per-group spline *)
(* what iterfit returned for one group: sset.breakpoints, sset.mask, sset.coeff, outmask (group order) *)
Record gfit := mkGfit { g_bk : list Q; g_bkmask : list bool; g_coeff : list Q; g_bmask : list bool }.

Definition all_zero_coeff (c : list Q) : bool := forallb (fun a => Qeq_bool a 0) c.

(* `sset = None` cases: group of <= 2 pixels, or all coefficients zero *)
Definition usable (ss : list nat) (f : option gfit) : option gfit :=
  if (length ss <=? 2)%nat then None
  else match f with Some g => if all_zero_coeff (g_coeff g) then None else Some g | None => None end.

Definition spline_at (k : nat) (g : gfit) (p : Q) : Q * bool :=
  let gb := select (g_bkmask g) (g_bk g) in
  let gc := select (skipn k (g_bkmask g)) (g_coeff g) in
  (* fewer than 2*nord unmasked breakpoints: action() returns its (-2, 0, 0) sentinel and value() leaves zeros *)
  (if (2 * k <=? length gb)%nat then eval1 gb k gc p else 0, point_mask (g_bk g) (g_bkmask g) k p).

Definition inside_b (lo hi p : Q) : bool := Qle_bool (lo - EPS) p && Qle_bool p (hi + EPS).

Fixpoint set_many {A} (idx : list nat) (vals : list A) (l : list A) : list A :=
  match idx, vals with
  | i :: idx', v :: vals' => set_many idx' vals' (set_nth i v l)
  | _, _ => l
  end.

Record st := mkSt { s_flux : list Q; s_mask : list bool; s_comb : list bool }.

Definition step_group (k : nat) (inloglam newloglam : list Q) (s : st) (grp : list nat * option gfit) : st :=
  let '(ss, f0) := grp in
  let f := usable ss f0 in
  let xs := map (nthQ inloglam) ss in
  let lo := lminQ xs in let hi := lmaxQ xs in
  let bmask := match f with Some g => g_bmask g | None => map (fun _ : nat => false) ss end in
  let comb := set_many ss bmask (s_comb s) in
  match f with
  | None => mkSt (s_flux s) (s_mask s) comb
  | Some g =>
      let upd := map (fun p => if inside_b lo hi p then Some (spline_at k g p) else None) newloglam in
      mkSt (map (fun t : Q * option (Q * bool) => match snd t with Some v => fst v | None => fst t end) (combine (s_flux s) upd))
           (map (fun t : bool * option (Q * bool) => match snd t with Some v => if snd v then true else fst t | None => fst t end)
                (combine (s_mask s) upd))
           comb
  end.

(* ------------------------------------------------------------------ width-101 running median of the weights
   (stacked exposures only): pydl.median(array, width) = window median for (w-1)/2 <= i <= n-(w+1)/2, else unchanged *)
Fixpoint qinsert (a : Q) (l : list Q) : list Q :=
  match l with [] => [a] | b :: r => if Qle_bool a b then a :: l else b :: qinsert a r end.
Definition qsort (l : list Q) : list Q := fold_right qinsert [] l.
Definition median_filter (width : nat) (l : list Q) : list Q :=
  let n := length l in
  let h := ((width - 1) / 2)%nat in
  map (fun i => if (h <=? i)%nat && (i + (width + 1) / 2 <=? n)%nat
                then nthQ (qsort (firstn width (skipn (i - h) l))) h
                else nthQ l i) (seq 0 n).

(* smoothed weights: per exposure, the positive ivars are replaced by their running median *)
Definition smooth_weights (nspec : nat) (specnum : list nat) (ivar : list Q) : list Q :=
  fold_left (fun iv j =>
      let idx := filter (fun i => (nth i specnum O =? j)%nat && Qltb 0 (nthQ ivar i)) (seq 0 (length ivar)) in
      set_many idx (median_filter 101 (map (nthQ ivar) idx)) iv)
    (seq 0 nspec) ivar.

(* ------------------------------------------------------------------ inverse variance *)
Definition ivar_of_exposure (inloglam wts : list Q) (comb : list bool) (these : list nat)
           (newloglam : list Q) (newmask : list bool) : list Q :=
  let xs := map (nthQ inloglam) these in
  let lo := lminQ xs in let hi := lmaxQ xs in
  let pv := map (fun i => (nthQ inloglam i, nthQ wts i * b2q (nthB comb i))) these in
  let pm := map (fun i => (nthQ inloglam i, b2q (nthB comb i))) these in
  map (fun t => let '(p, m) := t in
         if Qle_bool lo p && Qle_bool p hi then
           (if Qle_bool (1 - EPS) (interp pm p) then interp pv p else 0) * b2q m
         else 0) (combine newloglam newmask).

Definition vsum (a b : list Q) : list Q := map (fun t => Qred (fst t + snd t)) (combine a b).

(* ------------------------------------------------------------------ growth of bad regions *)
Definition smooth3 (v : list Q) : list Q :=
  let n := length v in
  map (fun i => if (1 <=? i)%nat && (i + 2 <=? n)%nat
                then (nthQ v (i - 1) + nthQ v i + nthQ v (i + 1)) / 3 else nthQ v i) (seq 0 n).

Definition grow (v : list Q) : list Q :=
  let n := length v in
  let bad := map c1f_bad (smooth3 v) in       (* source: np.absolute(foo) < EPS  (or foo == 0.0 once repaired) *)
  let ibad := filter (fun i => nthB bad i) (seq 0 n) in
  let lower := map (fun i => (i - 2)%nat) ibad in
  let upper := map (fun i => Nat.min (i + 2) (n - 1)) ibad in
  set_many upper (map (fun _ => 0) upper) (set_many lower (map (fun _ => 0) lower) v).

(* ------------------------------------------------------------------ aesthetics (own copy, reduced fractions)
   djs_maskinterp1(yval, mask) with xval = None: the good samples at their indices are interpolated linearly
   (np.interp clamps, so `const` makes no difference); 'mean' puts the mean of the good fluxes everywhere else *)
Definition qnat (n : nat) : Q := inject_Z (Z.of_nat n).
Fixpoint good_table (i : nat) (ys : list Q) (bad : list bool) : list (Q * Q) :=
  match ys, bad with
  | y :: ys', b :: bad' => if b then good_table (S i) ys' bad' else (qnat i, y) :: good_table (S i) ys' bad'
  | _, _ => []
  end.
Definition maskinterp_idx (ys : list Q) (bad : list bool) : list Q :=
  if forallb negb bad then ys
  else match good_table 0 ys bad with
       | [] => ys
       | [g] => map (fun _ : Q => snd g) ys
       | tbl => map (fun t : nat * (Q * bool) => if snd (snd t) then Qred (interp tbl (qnat (fst t))) else fst (snd t))
                    (combine (seq 0 (length ys)) (combine ys bad))
       end.
Definition qsum_red (l : list Q) : Q := fold_left (fun acc v => Qred (acc + v)) l 0.

Inductive amethod := Traditional | Noconst | Mean | Nothing.
Definition aesthetics_model (meth : amethod) (flux iv : list Q) : list Q :=
  let bad := map (fun v => Qeq_bool v 0) iv in
  if existsb (fun b => b) bad then
    match meth with
    | Traditional | Noconst => maskinterp_idx flux bad
    | Mean =>
        let gs := select (map (fun v => Qltb 0 v) iv) flux in
        let mu := Qred (qsum_red gs / qnat (length gs)) in
        map (fun fg : Q * Q => if Qltb 0 (snd fg) then fst fg else mu) (combine flux iv)
    | Nothing => flux
    end
  else flux.

(* ------------------------------------------------------------------ the whole function *)
Record cin := mkCin {
  c_inloglam : list Q; c_flux : list Q; c_ivar : option (list Q);   (* flat *)
  c_specnum : list nat; c_nspec : nat; c_newloglam : list Q;
  c_maxsep : Q; c_k : nat; c_method : amethod;
  c_isort : list nat                     (* nonzero[inloglam[nonzero].argsort()] as numpy computed it *)
}.

Definition good_index (c : cin) : list nat :=
  match c_ivar c with
  | None => seq 0 (length (c_inloglam c))
  | Some iv => filter (fun i => Qltb 0 (nthQ iv i)) (seq 0 (length iv))
  end.

(* weights entering the inverse-variance interpolation: unit weights without objivar (the repaired behaviour),
   the running-median weights for stacked exposures, the input ivar for a single spectrum *)
Definition weights (c : cin) : list Q :=
  match c_ivar c with
  | None => map (fun _ => 1) (c_inloglam c)
  | Some iv => if (2 <=? c_nspec c)%nat then smooth_weights (c_nspec c) (c_specnum c) iv else iv
  end.

(* stages up to newivar before growth; fits = one optional recorded/model fit per group, in group order *)
Definition stages (c : cin) (fits : list (option gfit)) : st * list Q :=
  let n := length (c_newloglam c) in
  let grps := groups (c_maxsep c) (c_inloglam c) (c_isort c) in
  let s0 := mkSt (map (fun _ => 0) (c_newloglam c)) (map (fun _ => false) (c_newloglam c))
                 (map (fun _ => false) (c_inloglam c)) in
  let s := fold_left (step_group (c_k c) (c_inloglam c) (c_newloglam c)) (combine grps fits) s0 in
  let wts := weights c in
  let iv := fold_left (fun acc j =>
              let these := filter (fun i => (nth i (c_specnum c) O =? j)%nat) (seq 0 (length (c_inloglam c))) in
              vsum acc (ivar_of_exposure (c_inloglam c) wts (s_comb s) these (c_newloglam c) (s_mask s)))
            (seq 0 (c_nspec c)) (map (fun _ => 0) (c_newloglam c)) in
  (s, iv).

(* (newflux, newivar, fullcombmask) *)
Definition combine1fiber_full (c : cin) (fits : list (option gfit)) : list Q * list Q * list bool :=
  match good_index c with
  | [] => (map (fun _ => 0) (c_newloglam c), map (fun _ => 0) (c_newloglam c), map (fun _ => false) (c_inloglam c))
  | _ =>
      let '(s, iv) := stages c fits in
      let newivar := grow iv in
      (aesthetics_model (c_method c) (s_flux s) newivar, newivar, s_comb s)
  end.
Definition combine1fiber_model (c : cin) (fits : list (option gfit)) : list Q * list Q :=
  fst (combine1fiber_full c fits).

(* the fits computed by the C10 model instead of being recorded: knots from the bkspace option on the group's
   abscissae, no breakpoint masked (requiren = 1 never fires when every knot interval holds a pixel) *)
Definition model_fit (sv : solver) (maxiter : nat) (lower upper bkspace : Q) (k : nat)
           (c : cin) (ss : list nat) : option gfit :=
  let wts := match c_ivar c with
             | Some iv => if (2 <=? c_nspec c)%nat then smooth_weights (c_nspec c) (c_specnum c) iv else iv
             | None => map (fun _ => 1) (c_inloglam c) end in
  let ds := map (fun i => mkDatum (nthQ (c_inloglam c) i) (nthQ (c_flux c) i) (nthQ wts i)) ss in
  let gb := knots_of_option (OBkspace bkspace) (map dx ds) k 1 in
  match iter_loop sv (S maxiter) gb k lower upper ds (initial_mask ds) with
  | Some (coef, m) => Some (mkGfit gb (map (fun _ => true) gb) coef m)
  | None => None
  end.

(* ------------------------------------------------------------------ preprocess_spectra: de-redshifting
   every object's wavelength vector is handed to combine1fiber as rowloglam - logshift, logshift = log10(1+z)
   (a parameter here: the logarithm is not rational) *)
Definition shift_grid (shift : Q) (loglam : list Q) : list Q := map (fun L => L - shift) loglam.
Definition with_inloglam (c : cin) (l : list Q) : cin :=
  mkCin l (c_flux c) (c_ivar c) (c_specnum c) (c_nspec c) (c_newloglam c) (c_maxsep c) (c_k c) (c_method c) (c_isort c).
Definition preprocess_model (shift : Q) (c : cin) (fits : list (option gfit)) : list Q * list Q :=
  combine1fiber_model (with_inloglam c (shift_grid shift (c_inloglam c))) fits.

(* joint rescaling of the data: flux * s, ivar / s^2 ; and of recorded fits: coefficients * s *)
Definition scale_cin (s : Q) (c : cin) : cin :=
  mkCin (c_inloglam c) (map (fun f => f * s) (c_flux c))
        (match c_ivar c with Some iv => Some (map (fun v => v / (s * s)) iv) | None => None end)
        (c_specnum c) (c_nspec c) (c_newloglam c) (c_maxsep c) (c_k c) (c_method c) (c_isort c).
Definition scale_fit (s : Q) (f : option gfit) : option gfit :=
  match f with
  | Some g => Some (mkGfit (g_bk g) (g_bkmask g) (map (fun a => a * s) (g_coeff g)) (g_bmask g))
  | None => None
  end.

(* ------------------------------------------------------------------ specification checkers *)
(* adjacent input pixels i, i+1 of one exposure (positions in `these`) bracket p with both good and unrejected,
   or p is within EPS of a pixel width of the good one *)
Definition allowed_between (x0 x1 : Q) (g0 g1 : bool) (p : Q) : bool :=
  Qle_bool x0 p && Qle_bool p x1 &&
  ((g0 && g1) || (g0 && Qle_bool (p - x0) (EPS * (x1 - x0))) || (g1 && Qle_bool (x1 - p) (EPS * (x1 - x0)))).

Fixpoint exists_bracket (pts : list (Q * bool)) (p : Q) : bool :=
  match pts with
  | (x0, g0) :: (((x1, g1) :: _) as r) => allowed_between x0 x1 g0 g1 p || exists_bracket r p
  | _ => false
  end.

(* good = positive weight and not rejected by the fit *)
Definition good_flags (c : cin) (comb : list bool) : list bool :=
  map (fun i => nthB comb i && match c_ivar c with Some iv => Qltb 0 (nthQ iv i) | None => true end)
      (seq 0 (length (c_inloglam c))).

Definition spec_zero_pattern (c : cin) (comb : list bool) (newivar : list Q) : bool :=
  let gf := good_flags c comb in
  all2 (fun p v => Qeq_bool v 0 ||
          existsb (fun j =>
             let these := filter (fun i => (nth i (c_specnum c) O =? j)%nat) (seq 0 (length (c_inloglam c))) in
             exists_bracket (map (fun i => (nthQ (c_inloglam c) i, nthB gf i)) these) p) (seq 0 (c_nspec c)))
       (c_newloglam c) newivar.

(* single spectrum: every non-zero output ivar is the linear interpolation of the (masked) input ivar and does
   not exceed the larger of the two neighbouring input values *)
Fixpoint bracket_of (pts : list (Q * Q)) (p : Q) : option (Q * Q * Q * Q) :=
  match pts with
  | (x0, y0) :: (((x1, y1) :: _) as r) =>
      if Qle_bool x0 p && Qle_bool p x1 then Some (x0, y0, x1, y1) else bracket_of r p
  | _ => None
  end.
Definition spec_interp_law (rtol : Q) (c : cin) (comb : list bool) (newivar : list Q) : bool :=
  match c_ivar c with
  | None => true
  | Some iv =>
      if (2 <=? c_nspec c)%nat then true else
      let gf := good_flags c comb in
      let pts := map (fun i => (nthQ (c_inloglam c) i, nthQ iv i * b2q (nthB gf i))) (seq 0 (length iv)) in
      let raw := map (fun i => (nthQ (c_inloglam c) i, nthQ iv i)) (seq 0 (length iv)) in
      all2 (fun p v => Qeq_bool v 0 ||
              match bracket_of raw p with
              | Some (x0, y0, x1, y1) =>
                  close_rel rtol v (interp pts p) &&
                  Qle_bool v ((if Qltb y0 y1 then y1 else y0) * (1 + rtol))
              | None => false
              end) (c_newloglam c) newivar
  end.

(* any number of exposures: an exposure can contribute at most its largest input weight, and only where it brackets
   the output pixel with passing pixels; so newivar_p <= sum over the bracketing exposures of max(ivar of that exposure)
   (the running median of the weights only selects input values) *)
Definition spec_stack_bound (rtol : Q) (c : cin) (comb : list bool) (newivar : list Q) : bool :=
  let gf := good_flags c comb in
  let n := length (c_inloglam c) in
  let wt := fun i => match c_ivar c with Some iv => nthQ iv i | None => 1 end in
  let per := map (fun j =>
                let these := filter (fun i => (nth i (c_specnum c) O =? j)%nat) (seq 0 n) in
                (map (fun i => (nthQ (c_inloglam c) i, nthB gf i)) these,
                 fold_left (fun acc i => if Qltb acc (wt i) then wt i else acc) these 0)) (seq 0 (c_nspec c)) in
  all2 (fun p v =>
          Qle_bool v ((1 + rtol) * fold_left (fun acc e => if exists_bracket (fst e) p then acc + snd e else acc) per 0))
       (c_newloglam c) newivar.

Definition spec_basic (c : cin) (newflux newivar : list Q) : bool :=
  (length newflux =? length (c_newloglam c))%nat && (length newivar =? length (c_newloglam c))%nat &&
  forallb (fun v => Qle_bool 0 v) newivar.

(* ------------------------------------------------------------------ correspondence cases *)
Definition rtol9 : Q := 1 # 1000000000.
Definition rtol6 : Q := 1 # 1000000.

Inductive case :=
  (* inputs, recorded per-group fits, recorded fullcombmask (as the harness reconstructs it), outputs *)
| CComb (c : cin) (fits : list (option gfit)) (obs_comb : list bool) (newflux newivar : list Q)
| CStage (c : cin) (fits : list (option gfit)) (obs_comb : list bool) (pre_flux pre_ivar newflux newivar : list Q).

Definition model_ok (c : cin) (fits : list (option gfit)) (obs_comb : list bool) (newflux newivar : list Q) : bool :=
  let '(mf, mi, comb) := combine1fiber_full c fits in
  all2 Bool.eqb comb obs_comb &&
  all2 (fun a b => Bool.eqb (Qeq_bool a 0) (Qeq_bool b 0) && close_rel rtol9 a b) newivar mi &&
  all2 (close_rel rtol6) newflux mf.

(* stage-by-stage: the harness also records newivar as handed to smooth() (before growth) and newflux as handed to
   aesthetics() (the spline values, before the cosmetic fill) *)
Definition stages_ok (c : cin) (fits : list (option gfit)) (pre_flux pre_ivar : list Q) : bool :=
  match good_index c with
  | [] => true
  | _ =>
      let '(s, iv) := stages c fits in
      all2 (fun a b => Bool.eqb (Qeq_bool a 0) (Qeq_bool b 0) && close_rel rtol9 a b) pre_ivar iv &&
      all2 (close_rel rtol6) pre_flux (s_flux s)
  end.

Definition run_case (cs : case) : Z :=
  match cs with
  | CComb c fits obs_comb newflux newivar =>
      let m_ok := model_ok c fits obs_comb newflux newivar in
      let s_ok := spec_basic c newflux newivar && spec_zero_pattern c obs_comb newivar
                  && spec_interp_law rtol9 c obs_comb newivar && spec_stack_bound rtol9 c obs_comb newivar in
      ((if m_ok then 0 else 1) + (if s_ok then 0 else 2))%Z
  | CStage c fits obs_comb pre_flux pre_ivar newflux newivar =>
      let m_ok := model_ok c fits obs_comb newflux newivar && stages_ok c fits pre_flux pre_ivar in
      let s_ok := spec_basic c newflux newivar && spec_zero_pattern c obs_comb newivar
                  && spec_interp_law rtol9 c obs_comb newivar && spec_stack_bound rtol9 c obs_comb newivar in
      ((if m_ok then 0 else 1) + (if s_ok then 0 else 2))%Z
  end.
Definition run_cases : list case -> list Z := map run_case.

Definition diagnose (cs : case) : list bool :=
  let d := fun c fits obs_comb newflux newivar =>
      let '(mf, mi, comb) := combine1fiber_full c fits in
      [all2 Bool.eqb comb obs_comb;
       all2 (fun a b => Bool.eqb (Qeq_bool a 0) (Qeq_bool b 0)) newivar mi;
       all2 (close_rel rtol9) newivar mi;
       all2 (close_rel rtol6) newflux mf;
       spec_basic c newflux newivar; spec_zero_pattern c obs_comb newivar; spec_interp_law rtol9 c obs_comb newivar;
       spec_stack_bound rtol9 c obs_comb newivar] in
  match cs with
  | CComb c fits obs_comb newflux newivar => d c fits obs_comb newflux newivar
  | CStage c fits obs_comb pre_flux pre_ivar newflux newivar =>
      d c fits obs_comb newflux newivar ++ [stages_ok c fits pre_flux pre_ivar]
  end.
