"""Runs combine1fiber / preprocess_spectra of the repository under test (stdin JSON -> stdout JSON).

The iterfit calls made inside spec2d are recorded (breakpoints, breakpoint mask, coefficients, rejection mask)
by wrapping `spec2d.iterfit` from this process; the grouping is re-derived with the same numpy expressions so
that every recorded fit can be attached to its group and the internal `fullcombmask` reconstructed.
sdss_flagval needs the SPPIXMASK table: it is loaded from harness/impl/c11_maskbits.par (no network).
"""
import json
import os
import sys
import warnings

import numpy as np

import pydl
import pydl.pydlutils.sdss as S
import pydl.pydlspec2d.spec2d as SP

HERE = os.path.dirname(os.path.abspath(__file__))
S.maskbits = S.set_maskbits(maskbits_file=os.path.join(HERE, 'c11_maskbits.par'))


def err(e, stage):
    return {'err': type(e).__name__, 'msg': str(e)[:200], 'stage': stage}


def _f(v):
    v = float(v)
    if v != v:
        return 'nan'
    if v in (float('inf'), float('-inf')):
        return 'inf' if v > 0 else '-inf'
    return v


def fl(a):
    return [_f(v) for v in np.asarray(a, dtype='d').ravel()]


def arr(v):
    return None if v is None else np.array(v, dtype='d')


def run_combine(inloglam, flux, newloglam, ivar, kwargs):
    """-> dict with outputs and the recorded internals"""
    rec = []
    orig = SP.iterfit

    def spy(xdata, ydata, invvar=None, **kw):
        sset, outmask = orig(xdata, ydata, invvar=invvar, **kw)
        coeff = sset.coeff if isinstance(sset.coeff, np.ndarray) else np.zeros(sset.breakpoints.size - sset.nord)
        rec.append({'n': int(xdata.size), 'bk': fl(sset.breakpoints), 'bkmask': [bool(v) for v in np.atleast_1d(sset.mask)],
                    'coeff': fl(coeff), 'coeff_finite': bool(np.all(np.isfinite(coeff))),
                    'bmask': [bool(v) for v in np.atleast_1d(outmask)], 'nord': int(sset.nord)})
        return sset, outmask
    SP.iterfit = spy
    stage = {}
    orig_smooth, orig_aes = SP.smooth, SP.aesthetics

    def spy_smooth(signal, owidth, **kw):
        stage.setdefault('pre_ivar', fl(signal))          # newivar before the growth of bad regions
        return orig_smooth(signal, owidth, **kw)

    def spy_aes(flux_, invvar_, method='traditional'):
        stage.setdefault('pre_flux', fl(flux_))           # spline values before the cosmetic fill
        return orig_aes(flux_, invvar_, method=method)
    SP.smooth, SP.aesthetics = spy_smooth, spy_aes
    iv = None if ivar is None else ivar.copy()
    a_in, a_fl, a_new = inloglam.copy(), flux.copy(), newloglam.copy()      # caller-owned arrays
    try:
        with warnings.catch_warnings():
            warnings.simplefilter('ignore')
            nf, ni = SP.combine1fiber(a_in, a_fl, a_new, objivar=iv, **kwargs)
    finally:
        SP.iterfit = orig
        SP.smooth, SP.aesthetics = orig_smooth, orig_aes
    def same(a, b):
        return a.dtype == b.dtype and a.shape == b.shape and bool(np.array_equal(a, b, equal_nan=True))
    mutated = [nm for nm, a, b in (('inloglam', a_in, inloglam), ('objflux', a_fl, flux), ('newloglam', a_new, newloglam)) if not same(a, b)]
    aliases = bool(any(np.shares_memory(r_, a) for r_ in (nf, ni) for a in (a_in, a_fl, a_new) + (() if iv is None else (iv,))))
    out = {'args_mutated': mutated, 'result_aliases_arg': aliases,
           # objivar is an in/out argument in the IDL original (rejected pixels are zeroed); observed, not judged
           'objivar_modified': bool(iv is not None and not same(iv, ivar)),
           'newflux': fl(nf), 'newivar': fl(ni), 'len_flux': int(np.asarray(nf).size), 'len_ivar': int(np.asarray(ni).size),
           'finite': bool(np.all(np.isfinite(nf)) and np.all(np.isfinite(ni)))}
    if 'pre_ivar' in stage and 'pre_flux' in stage and all(np.isfinite(stage['pre_ivar'])) and all(np.isfinite(stage['pre_flux'])):
        out['pre_ivar'] = stage['pre_ivar']
        out['pre_flux'] = stage['pre_flux']
    # ---- glue: the grouping, with the expressions of the source
    inr = inloglam.ravel()
    npix = inr.size
    if ivar is None:
        nonzero = np.arange(npix)
    else:
        nonzero = (ivar.ravel() > 0).nonzero()[0]
    ngood = nonzero.size
    binsz = kwargs.get('binsz', (inloglam[0, 1] - inloglam[0, 0]) if inloglam.ndim == 2 else (inloglam[1] - inloglam[0]))
    maxsep = kwargs.get('maxsep', 2.0 * binsz)
    out['maxsep'] = float(maxsep)
    out['binsz'] = float(binsz)
    out['bkptbin'] = float(kwargs.get('bkptbin', 1.2 * binsz))
    fits = []
    fullcomb = np.zeros(npix, dtype=bool)
    isort = np.zeros(0, dtype=int)
    if ngood > 0:
        isort = nonzero[inr[nonzero].argsort()]
        wavesort = inr[isort]
        padwave = np.insert(wavesort, 0, wavesort.min() - 2.0 * maxsep)
        padwave = np.append(padwave, wavesort.max() + 2.0 * maxsep)
        ig1 = ((padwave[1:ngood + 1] - padwave[0:ngood]) > maxsep).nonzero()[0]
        ig2 = ((padwave[2:ngood + 2] - padwave[1:ngood + 1]) > maxsep).nonzero()[0]
        k = 0
        for g in range(ig1.size):
            ss = isort[ig1[g]:ig2[g] + 1]
            if ss.size > 2:
                r = rec[k] if k < len(rec) else None
                k += 1
                if r is None or r['n'] != ss.size:
                    out['glue_error'] = 'recorded iterfit calls do not match the groups'
                    fits.append(None)
                    continue
                fits.append(r)
                if r['coeff_finite'] and np.sum(np.abs(r['coeff'])) != 0 and len(r['bmask']) == ss.size:
                    fullcomb[ss] = r['bmask']
            else:
                fits.append(None)
        if k != len(rec):
            out['glue_error'] = 'more iterfit calls than groups'
    out['isort'] = [int(i) for i in isort]
    out['fits'] = fits
    out['fullcomb'] = [bool(v) for v in fullcomb]
    if iv is not None:
        out['ivar_after'] = fl(iv)
    return out


def do_combine(c):
    inloglam = arr(c['inloglam'])
    flux = arr(c['flux'])
    if c.get('flux_dtype'):
        flux = flux.astype(c['flux_dtype'])        # integer counts / float32 flux (values exactly representable)
    ivar = arr(c.get('ivar'))
    if ivar is not None and c.get('ivar_dtype'):
        ivar = ivar.astype(c['ivar_dtype'])
    newloglam = arr(c['newloglam'])
    kwargs = dict(c.get('kwargs') or {})
    try:
        out = run_combine(inloglam, flux, newloglam, ivar, kwargs)
    except Exception as e:  # noqa: BLE001
        return err(e, 'combine1fiber')
    ex = c.get('extras') or {}
    if 'scale' in ex:
        s = float(ex['scale'])
        try:
            o2 = run_combine(inloglam, flux.astype('d') * s, newloglam, None if ivar is None else ivar.astype('d') / (s * s), kwargs)
            out['scaled'] = {'newflux': o2['newflux'], 'newivar': o2['newivar']}
        except Exception as e:  # noqa: BLE001
            out['scaled'] = err(e, 'combine1fiber')
    return out


def do_preprocess(c):
    """preprocess_spectra against direct combine1fiber calls on the shifted grid"""
    from pydl.pydlspec2d.spec1d import preprocess_spectra
    flux = arr(c['flux'])
    ivar = arr(c['ivar'])
    loglam = arr(c['loglam'])
    z = arr(c['zfit'])
    newloglam = arr(c['newloglam'])
    args = [flux.copy(), ivar.copy(), loglam.copy(), z.copy(), newloglam.copy()]       # caller-owned arrays
    try:
        with warnings.catch_warnings():
            warnings.simplefilter('ignore')
            f, i, l = preprocess_spectra(args[0], args[1], loglam=args[2], zfit=args[3],
                                         newloglam=args[4], aesthetics=c.get('aesthetics', 'mean'))
            # the same call again with the very same array objects (object spectra, then e.g. sky spectra)
            f2, i2, l2 = preprocess_spectra(args[0], args[1], loglam=args[2], zfit=args[3],
                                            newloglam=args[4], aesthetics=c.get('aesthetics', 'mean'))
    except Exception as e:  # noqa: BLE001
        return err(e, 'preprocess_spectra')
    names = ('flux', 'ivar', 'loglam', 'zfit', 'newloglam')
    orig = (flux, ivar, loglam, z, newloglam)
    out = {'flux': [fl(r) for r in f], 'ivar': [fl(r) for r in i], 'loglam_same': bool(np.array_equal(l, newloglam)),
           'finite': bool(np.all(np.isfinite(f)) and np.all(np.isfinite(i))), 'shape': list(np.asarray(f).shape),
           'args_mutated': [nm for nm, a, b in zip(names, args, orig) if not (a.dtype == b.dtype and np.array_equal(a, b, equal_nan=True))],
           'second_call_same': bool(np.array_equal(f, f2, equal_nan=True) and np.array_equal(i, i2, equal_nan=True))}
    direct = []
    dl = newloglam[1] - newloglam[0]
    for k in range(flux.shape[0]):
        try:
            with warnings.catch_warnings():
                warnings.simplefilter('ignore')
                nf, ni = SP.combine1fiber(loglam - np.log10(1.0 + z[k]), flux[k].copy(), newloglam.copy(),
                                          objivar=ivar[k].copy(), binsz=dl, aesthetics=c.get('aesthetics', 'mean'))
            direct.append({'flux': fl(nf), 'ivar': fl(ni)})
        except Exception as e:  # noqa: BLE001
            direct.append(err(e, 'combine1fiber'))
    out['direct'] = direct
    out['logshift'] = fl(np.log10(1.0 + z))
    return out


def main():
    calls = json.load(sys.stdin)
    real_stdout = sys.stdout
    sys.stdout = sys.stderr          # astropy's logger writes INFO lines to stdout
    try:
        from astropy import log as _log
        _log.setLevel('ERROR')
    except Exception:  # noqa: BLE001
        pass
    res = []
    for c in calls:
        if c['f'] == 'combine':
            res.append(do_combine(c))
        elif c['f'] == 'preprocess':
            res.append(do_preprocess(c))
        elif c['f'] == 'probe-empty':
            # an EMPTY output grid: observed, not judged (see notes/C11.md, round 5)
            try:
                with warnings.catch_warnings():
                    warnings.simplefilter('ignore')
                    nf, ni = SP.combine1fiber(arr(c['inloglam']), arr(c['flux']), np.zeros(0), objivar=arr(c.get('ivar')))
                res.append({'outcome': 'ok' if (nf.shape == (0,) and ni.shape == (0,)) else 'wrong-shape'})
            except Exception as e:  # noqa: BLE001
                res.append({'outcome': type(e).__name__})
        else:
            res.append({'err': 'BadCall', 'stage': 'harness'})
    real_stdout.write(json.dumps({'pydl_file': pydl.__file__, 'results': res}, allow_nan=False))


if __name__ == '__main__':
    main()
