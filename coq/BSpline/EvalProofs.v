(* Proofs about BSpline/Eval.v: BSPLVN pass invariants (sum, sign), partition of unity, interval search,
   permutations (sort / un-sort), evaluation in the caller's order, validity mask, knot construction. *)
From Coq Require Import QArith Qround Qabs Lqa List Bool Arith Lia Permutation Setoid Morphisms.
Import ListNotations.
From PV Require Import Lib.WLS BSpline.Eval BSpline.CoxDeBoor.
Open Scope Q_scope.

(* ------------------------------------------------------------------ small facts *)
Lemma Qltb_lt a b : Qltb a b = true <-> a < b.
Proof.
  unfold Qltb. rewrite negb_true_iff. split; intro H.
  - apply Qnot_le_lt. intro Hle. apply Qle_bool_iff in Hle. congruence.
  - destruct (Qle_bool b a) eqn:E; [|reflexivity]. apply Qle_bool_iff in E. exfalso. apply (Qlt_not_le _ _ H E).
Qed.
Lemma Qltb_ge a b : Qltb a b = false <-> b <= a.
Proof.
  unfold Qltb. rewrite negb_false_iff. apply Qle_bool_iff.
Qed.

(* nondecr is defined in BSpline/CoxDeBoor.v *)

(* ------------------------------------------------------------------ one pass of BSPLVN *)
Lemma pass_length' v : forall dp dmr c, length dp = length v -> length dmr = length v ->
  length (pass v dp dmr c) = S (length v).
Proof.
  induction v as [|a v IH]; intros [|p dp] [|m dmr] c H1 H2; simpl in *; try discriminate; auto.
Qed.

Lemma pass_sum v : forall dp dmr c, length dp = length v -> length dmr = length v ->
  Forall2 (fun p m => ~ p + m == 0) dp dmr ->
  sumQ (pass v dp dmr c) == sumQ v + c.
Proof.
  induction v as [|a v IH]; intros [|p dp] [|m dmr] c H1 H2 HF; cbn [pass sumQ length] in *;
    try discriminate; try ring.
  inversion HF as [|? ? ? ? Hpm HF']; subst. rewrite IH by (try congruence; assumption).
  rewrite !Qred_correct. field. exact Hpm.
Qed.

Lemma pass_nonneg v : forall dp dmr c, 0 <= c ->
  Forall (fun a => 0 <= a) v -> Forall (fun p => 0 <= p) dp -> Forall (fun m => 0 <= m) dmr ->
  Forall2 (fun p m => 0 < p + m) dp dmr ->
  Forall (fun a => 0 <= a) (pass v dp dmr c).
Proof.
  induction v as [|a v IH]; intros dp dmr c Hc Hv Hp Hm HF; cbn [pass].
  - constructor; auto.
  - destruct dp as [|p dp]; [constructor; auto|]. destruct dmr as [|m dmr]; [constructor; auto|].
    inversion Hv; inversion Hp; inversion Hm; inversion HF; subst.
    assert (Hvm : 0 <= a / (p + m)).
    { unfold Qdiv. apply Qmult_le_0_compat; [assumption|]. apply Qlt_le_weak, Qinv_lt_0_compat; assumption. }
    constructor.
    + rewrite !Qred_correct.
      assert (0 <= a / (p + m) * p) by (apply Qmult_le_0_compat; assumption). lra.
    + apply IH; auto. rewrite !Qred_correct. apply Qmult_le_0_compat; assumption.
Qed.
