(* Yanny/FileFacts.v -- whole-file level, part 1: a rendered file as a list of items (lines and typedefs);
   the pre-passes (universal newlines, continuation joining, typedef extraction, line splitting) on it. *)
From Coq Require Import NArith ZArith List Bool Lia.
Import ListNotations.
From PV Require Import Yanny.Bytes Yanny.BytesFacts Yanny.Types Yanny.Parse Yanny.Render
  Yanny.TokenFacts Yanny.RowFacts Yanny.TypeFacts Yanny.DocFacts Yanny.LayoutFacts Yanny.ScanFacts Yanny.StructFacts
  Yanny.EnumFacts Yanny.DtypeFacts.
Open Scope N_scope.

(* ---- continuation joining leaves alone any text in which the blank run after every backslash ends,
        inside the text, at a non-blank character before any line end ---- *)
Definition run_ok (s : bytes) : bool :=
  match snd (span is_ws s) with [] => false | _ => negb (mem NL (fst (span is_ws s))) end.
Fixpoint cont_okb (s : bytes) : bool :=
  match s with [] => true | c :: s' => (negb (c =? BSL) || run_ok s') && cont_okb s' end.

Lemma last_nl_none w : mem NL w = false -> last_nl w = None.
Proof.
  induction w as [|c w IH]; intros H; [reflexivity|]. apply mem_cons_false in H as [Hc Hw]. cbn [last_nl]. now rewrite IH, Hc.
Qed.

Lemma run_ok_app s r : run_ok s = true -> span is_ws (s ++ r) = (fst (span is_ws s), snd (span is_ws s) ++ r) /\ run_ok (s ++ r) = true.
Proof.
  unfold run_ok. destruct (span is_ws s) as [p q] eqn:E. cbn [fst snd]. destruct q as [|x q]; [discriminate|]. intros H.
  destruct (span_spec _ _ _ _ E) as [-> [Hp Hx]].
  assert (S : span is_ws ((p ++ x :: q) ++ r) = (p, (x :: q) ++ r)).
  { rewrite <- app_assoc. cbn [app]. now apply span_app_stop. }
  rewrite S. cbn [fst snd app]. auto.
Qed.

Lemma join_cont_ok a : forall rest, cont_okb a = true -> join_cont_aux 0 (a ++ rest) = a ++ join_cont_aux 0 rest.
Proof.
  induction a as [|c a IH]; intros rest H; [reflexivity|]. cbn [cont_okb] in H. apply andb_true_iff in H as [H1 H2].
  cbn [app join_cont_aux]. destruct (c =? BSL) eqn:E.
  - cbn [negb orb] in H1. destruct (run_ok_app a rest H1) as [S _]. rewrite S. cbn [fst].
    unfold run_ok in H1. destruct (snd (span is_ws a)); [discriminate|]. apply negb_true_iff in H1.
    rewrite last_nl_none by auto. f_equal. now apply IH.
  - f_equal. now apply IH.
Qed.

Lemma cont_okb_app a b : cont_okb a = true -> cont_okb b = true -> cont_okb (a ++ b) = true.
Proof.
  induction a as [|c a IH]; intros Ha Hb; [exact Hb|]. cbn [cont_okb app] in *. apply andb_true_iff in Ha as [H1 H2].
  rewrite IH by auto. rewrite andb_true_r. destruct (c =? BSL); [|reflexivity]. cbn [negb orb] in *.
  now destruct (run_ok_app a b H1).
Qed.

Lemma cont_okb_nobsl s : mem BSL s = false -> cont_okb s = true.
Proof.
  induction s as [|c s IH]; intros H; [reflexivity|]. apply mem_cons_false in H as [Hc Hs]. cbn [cont_okb].
  rewrite Hc. cbn [negb orb andb]. auto.
Qed.

Lemma cont_okb_concat l : forallb cont_okb l = true -> cont_okb (concat l) = true.
Proof.
  induction l as [|x l IH]; [reflexivity|]. cbn [forallb concat]. intros H. apply andb_true_iff in H as [H1 H2].
  apply cont_okb_app; auto.
Qed.

Definition good_end (l : bytes) : Prop :=
  match rev l with c :: _ => is_ws c = false /\ (c =? BSL) = false | [] => True end.

Lemma good_end_tail c l : l <> [] -> good_end (c :: l) -> good_end l.
Proof.
  unfold good_end. cbn [rev]. intros Hl. destruct (rev l) eqn:E; [|auto].
  apply (f_equal (@rev N)) in E. rewrite rev_involutive in E. cbn in E. congruence.
Qed.

Lemma good_end_not_all_ws l : l <> [] -> good_end l -> all_ws l = false.
Proof.
  unfold good_end. intros Hl H. destruct (rev l) as [|c t] eqn:E.
  - apply (f_equal (@rev N)) in E. rewrite rev_involutive in E. cbn in E. congruence.
  - destruct H as [Hc _]. apply (f_equal (@rev N)) in E. rewrite rev_involutive in E. cbn [rev] in E. rewrite E.
    rewrite all_ws_app. cbn [all_ws forallb]. rewrite Hc. cbn [andb]. apply andb_false_r.
Qed.

Lemma run_ok_line l : all_ws l = false -> mem NL l = false -> run_ok (l ++ [NL]) = true.
Proof.
  intros Hw Hn. unfold run_ok. destruct (span is_ws l) as [p q] eqn:E. destruct (span_spec _ _ _ _ E) as [El [Hp Hq]].
  destruct q as [|x q].
  - exfalso. rewrite app_nil_r in El. subst p. unfold all_ws in Hw. congruence.
  - subst l. rewrite <- app_assoc. cbn [app]. rewrite span_app_stop; auto. cbn [fst snd].
    rewrite mem_app in Hn. apply orb_false_iff in Hn as [Hn _]. now rewrite Hn.
Qed.

(* one line ending in something that is neither blank nor a backslash (or holding no backslash at all) *)
Lemma cont_okb_line l : good_end l -> mem NL l = false -> cont_okb (l ++ [NL]) = true.
Proof.
  induction l as [|c l IH]; intros Hg Hn; [reflexivity|]. apply mem_cons_false in Hn as [Hc Hn].
  cbn [app cont_okb]. destruct l as [|d l].
  - cbn [app cont_okb]. unfold good_end in Hg. cbn [rev app] in Hg. destruct Hg as [_ Hb]. rewrite Hb. reflexivity.
  - rewrite IH; [|now apply (good_end_tail c)|exact Hn]. rewrite andb_true_r.
    destruct (c =? BSL); [|reflexivity]. cbn [negb orb]. apply run_ok_line; auto.
    apply good_end_not_all_ws; [discriminate|now apply (good_end_tail c)].
Qed.

(* ---- items: a file as lines and typedefs ---- *)
Inductive item := ILine (l : bytes) | ITd (kw body name : bytes).
Definition item_text (i : item) : bytes :=
  match i with ILine l => l ++ [NL] | ITd kw body name => td_text kw body name ++ [NL] end.
Definition items_text (l : list item) : bytes := concat (map item_text l).
Definition item_segs (i : item) : list seg :=
  match i with ILine l => [Plain l NL] | ITd kw body name => [Td kw body name; Plain [] NL] end.
Definition item_ok (i : item) : Prop :=
  match i with
  | ILine l => no_td (l ++ [NL]) = true /\ mem NL l = false
  | ITd kw body name => seg_ok (Td kw body name)
  end.
Definition item_is_td (kw : bytes) (i : item) : bool := match i with ITd kw' _ _ => beq kw kw' | ILine _ => false end.
Definition blank_td (kw : bytes) (i : item) : item := if item_is_td kw i then ILine [] else i.
Definition item_td_text (i : item) : bytes := match i with ITd kw body name => td_text kw body name | ILine _ => [] end.

Lemma items_text_segs l : items_text l = flat (flat_map item_segs l).
Proof.
  unfold items_text, flat. induction l as [|i l IH]; [reflexivity|]. cbn [map concat flat_map]. rewrite map_app, concat_app, <- IH.
  destruct i; cbn [item_segs item_text map concat seg_text]; now rewrite ?app_nil_r, <- ?app_assoc.
Qed.

Theorem items_scan kw items : kw = KW_STRUCT \/ kw = KW_ENUM -> Forall item_ok items ->
  findall_td kw 0 (items_text items) = map item_td_text (filter (item_is_td kw) items) /\
  remove_td kw 0 (items_text items) = items_text (map (blank_td kw) items).
Proof.
  intros Hkw H. rewrite items_text_segs.
  assert (Hs : Forall seg_ok (flat_map item_segs items)).
  { induction H as [|i l Hi _ IH]; [constructor|]. cbn [flat_map]. apply Forall_app. split; auto.
    destruct i; cbn [item_segs item_ok] in *.
    - destruct Hi as [Hi _]. constructor; [|constructor]. split; auto.
    - constructor; [exact Hi|]. constructor; [|constructor]. split; reflexivity. }
  destruct (scan_segs kw _ Hkw Hs) as [-> ->]. clear Hs H. split.
  - induction items as [|i l IH]; [reflexivity|]. cbn [flat_map filter]. rewrite filter_app, map_app, IH.
    destruct i; cbn [item_segs filter is_td item_is_td]; [reflexivity|]. destruct (beq kw kw0); reflexivity.
  - rewrite items_text_segs. induction items as [|i l IH]; [reflexivity|]. cbn [flat_map map]. rewrite filter_app. unfold flat in *.
    rewrite !map_app, !concat_app, IH.
    destruct i; unfold blank_td; cbn [item_segs filter is_td negb item_is_td]; [reflexivity|].
    destruct (beq kw kw0); reflexivity.
Qed.

Lemma blank_td_ok kw i : item_ok i -> item_ok (blank_td kw i).
Proof. unfold blank_td. destruct (item_is_td kw i); auto. intros _. split; reflexivity. Qed.

(* the text left after both removals, as lines *)
Definition item_line (i : item) : bytes := match i with ILine l => l | ITd _ _ _ => [] end.

Lemma both_blank_lines items : Forall (fun i => match i with ITd kw _ _ => kw = KW_STRUCT \/ kw = KW_ENUM | _ => True end) items ->
  items_text (map (blank_td KW_ENUM) (map (blank_td KW_STRUCT) items)) = unlines (map item_line items).
Proof.
  unfold items_text, unlines. induction 1 as [|i l Hi _ IH]; [reflexivity|]. cbn [map concat]. rewrite IH. f_equal.
  destruct i; [reflexivity|]. destruct Hi as [-> | ->]; reflexivity.
Qed.

Theorem items_prepass items :
  Forall item_ok items ->
  let s := items_text items in
  findall_td KW_STRUCT 0 s = map item_td_text (filter (item_is_td KW_STRUCT) items) /\
  findall_td KW_ENUM 0 s = map item_td_text (filter (item_is_td KW_ENUM) items) /\
  remove_td KW_ENUM 0 (remove_td KW_STRUCT 0 s) = unlines (map item_line items).
Proof.
  intros H s. subst s. destruct (items_scan KW_STRUCT items (or_introl eq_refl) H) as [F1 R1].
  destruct (items_scan KW_ENUM items (or_intror eq_refl) H) as [F2 _].
  split; [exact F1|]. split; [exact F2|]. rewrite R1.
  assert (H' : Forall item_ok (map (blank_td KW_STRUCT) items)).
  { clear -H. induction H; constructor; auto. now apply blank_td_ok. }
  destruct (items_scan KW_ENUM _ (or_intror eq_refl) H') as [_ R2]. rewrite R2.
  apply both_blank_lines. clear -H. induction H as [|i l Hi _ IH]; constructor; auto.
  destruct i; auto. destruct Hi as [Hk _]. exact Hk.
Qed.

Lemma items_lines_no_nl items : Forall item_ok items -> forallb (fun l => negb (mem NL l)) (map item_line items) = true.
Proof.
  induction 1 as [|i l Hi _ IH]; [reflexivity|]. cbn [map forallb]. rewrite IH, andb_true_r.
  destruct i; [|reflexivity]. destruct Hi as [_ Hn]. cbn [item_line]. now rewrite Hn.
Qed.
