(* C02 -- yanny: the meaning of a file does not depend on its surface syntax.
   Reader model: Yanny/Parse.v.  This file adds the specification `lsem` (the tables / pairs a logical
   document denotes, independent of any layout; char[] columns sized by their longest value) and the case
   type of the correspondence run.  DEFINITIONS ONLY. *)
From Coq Require Import String.
From Coq Require Import NArith ZArith List Bool.
Import ListNotations.
From PV Require Import Yanny.Bytes Yanny.Types Yanny.Parse Yanny.Render.
Open Scope N_scope.

Definition S_UNSIZED : bytes := Eval compute in bs "[]"%string.

Definition col_values (j : nat) (rows : list (list cell)) : list cell :=
  flat_map (fun r => match nth_error r j with Some x => [x] | None => [] end) rows.
Definition cell_strlen (x : cell) : nat :=
  match x with
  | Sc (STok t) => length t
  | Sc (SInt _) => O
  | Ar l => fold_right (fun v m => Nat.max (match v with STok t => length t | SInt _ => O end) m) O l
  end.
Definition arr_sfx (c : column) : bytes := match c_arr c with Some l => if 0 <? l then brack l else [] | None => [] end.

Definition lsem_col (es : list enumdecl) (rows : list (list cell)) (j : nat) (c : column) : option pcol :=
  match c_type c with
  | TCharU => Some (mkpcol (c_name c) (S_CHAR ++ arr_sfx c ++ S_UNSIZED)
                           (NS (N.of_nat (fold_right (fun x m => Nat.max (cell_strlen x) m) O (col_values j rows))))
                           (c_arr c))
  | _ => sem_col es c
  end.
Fixpoint lsem_cols (es : list enumdecl) (rows : list (list cell)) (j : nat) (cols : list column) : option (list pcol) :=
  match cols with
  | [] => Some []
  | c :: cols' => match lsem_col es rows j c, lsem_cols es rows (S j) cols' with
                  | Some p, Some r => Some (p :: r)
                  | _, _ => None
                  end
  end.
Definition lsem_table (es : list enumdecl) (t : table) : option ptable :=
  option_map (fun cols => mkptable (upper (t_name t)) cols (t_rows t)) (lsem_cols es (t_rows t) 0 (t_cols t)).
(* the meaning of a logical document: ordered pairs and tables (typedef texts are layout, not meaning) *)
Definition lsem (d : doc) : option (list (bytes * bytes) * list ptable) :=
  option_map (fun ts => (d_pairs d, ts)) (omap (lsem_table (d_enums d)) (d_tables d)).

Definition meaning_p (p : pdoc) : list (bytes * bytes) * list ptable := (pd_pairs p, pd_tables p).
Definition meaning_eqb (a b : list (bytes * bytes) * list ptable) : bool :=
  list_eqb pair_eqb (fst a) (fst b) && list_eqb ptable_eqb (snd a) (snd b).
Fixpoint list_eqb2 {A B} (e : A -> B -> bool) (a : list A) (b : list B) : bool :=
  match a, b with
  | [], [] => true
  | x :: a', y :: b' => e x y && list_eqb2 e a' b'
  | _, _ => false
  end.
(* raw mode: same names, declared types and cells, as plain lists *)
Definition raw_meaning_eqb (r : rdoc) (m : list (bytes * bytes) * list ptable) : bool :=
  list_eqb pair_eqb (rd_pairs r) (fst m) &&
  list_eqb2 (fun (t : rtable) (p : ptable) =>
              beq (rt_name t) (pt_name p)
              && list_eqb2 (fun x (c : pcol) => beq (fst x) (pc_name c) && opt_eqb beq (snd x) (Some (pc_type c))) (rt_cols t) (pt_cols p)
              && list_eqb (list_eqb cell_eqb) (rt_rows t) (pt_rows p))
           (rd_tables r) (snd m).

(* round 6: rows that do not carry one cell per column (short: trailing cells left out; over-long: tokens after the last
   column).  The format requires complete rows, so there is no meaning to compare with: model against implementation
   only, in raw mode, COLUMN by column (the raw object is one list per column; a short row adds nothing to the later
   columns, tokens beyond the last column are never looked at). *)
Definition colvals (j : nat) (rows : list (list cell)) : list cell :=
  flat_map (fun r => match nth_error r j with Some c => [c] | None => [] end) rows.
Definition rtable_cols_eqb (a b : rtable) : bool :=
  beq (rt_name a) (rt_name b)
  && list_eqb (fun x y : bytes * option bytes => beq (fst x) (fst y) && opt_eqb beq (snd x) (snd y)) (rt_cols a) (rt_cols b)
  && forallb (fun j => list_eqb cell_eqb (colvals j (rt_rows a)) (colvals j (rt_rows b))) (seq 0 (length (rt_cols a))).
Definition rdoc_cols_eqb (a b : rdoc) : bool :=
  list_eqb pair_eqb (rd_pairs a) (rd_pairs b) && list_eqb beq (rd_enums a) (rd_enums b) && list_eqb beq (rd_structs a) (rd_structs b)
  && list_eqb rtable_cols_eqb (rd_tables a) (rd_tables b).

Inductive case :=
  | CRawRows (text : bytes) (impl_raw impl_bin_raw : option rdoc)
  (* a logical document, one admissible rendering of it, and what the real reader returned for that text
     through a text-mode read (path / text file object), a binary file object, and both in raw mode *)
  | CRead (d : doc) (text : bytes) (impl_text impl_bin : option pdoc) (impl_raw impl_bin_raw : option rdoc).

(* verdict: +1 model differs from implementation (+8 text, +16 binary, +32 raw text, +64 raw binary),
            +2 the implementation's result is not the document's meaning (failing input),
            +4 lsem undefined (generator error) *)
Definition run_case (c : case) : Z :=
  match c with
  | CRawRows text ir ibr =>
      let m3 := opt_eqb rdoc_cols_eqb (parse_raw text) ir in
      let m4 := opt_eqb rdoc_cols_eqb (parse_binary_raw text) ibr in
      ((if m3 && m4 then 0 else 1) + (if m3 then 0 else 32) + (if m4 then 0 else 64))%Z
  | CRead d text it ib ir ibr =>
      let m1 := opt_eqb pdoc_eqb (parse text) it in
      let m2 := opt_eqb pdoc_eqb (parse_binary text) ib in
      let m3 := opt_eqb rdoc_eqb (parse_raw text) ir in
      let m4 := opt_eqb rdoc_eqb (parse_binary_raw text) ibr in
      match lsem d with
      | None => 4%Z
      | Some m =>
          let s := match it, ib, ir, ibr with
                   | Some a, Some b, Some r1, Some r2 =>
                       meaning_eqb (meaning_p a) m && meaning_eqb (meaning_p b) m
                       && raw_meaning_eqb r1 m && raw_meaning_eqb r2 m
                   | _, _, _, _ => false
                   end in
          ((if m1 && m2 && m3 && m4 then 0 else 1) + (if m1 then 0 else 8) + (if m2 then 0 else 16)
           + (if m3 then 0 else 32) + (if m4 then 0 else 64) + (if s then 0 else 2))%Z
      end
  end.
Definition run_cases (l : list case) : list Z := map run_case l.
