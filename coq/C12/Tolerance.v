(* C12 -- round 5: what the tolerance of set_use_caps means.  The duplicate test is ABSOLUTE: a selected cap whose
   axis is at least tol away (Euclidean), or whose cm is at least tol away in both the difference and (unless
   allow_neg_doubles) the sum, from every earlier cap is never dropped -- however small the relative difference
   is; a selected cap within tol of a cap that stays in use is always dropped; the test is symmetric. *)
From Coq Require Import ZArith QArith Qabs List Bool Lia Lqa.
Import ListNotations.
From PV Require Import C12.Spec Generated.Mangle C12.Model C12.Proofs C12.SetUse.
Open Scope Z_scope.

(* the two caps are distinct at tolerance tol *)
Definition far_apart (tol : Q) (allow_neg : bool) (a b : cap) : Prop :=
  (tol * tol <= dist2 (cx a) (cx b))%Q \/
  ((tol <= Qabs (ccm a - ccm b))%Q /\ ((tol <= Qabs (ccm a + ccm b))%Q \/ allow_neg = true)).

Lemma far_apart_not_same tol an a b : far_apart tol an a b <-> spec_same_cap tol an a b = false.
Proof.
  unfold far_apart, spec_same_cap. rewrite andb_false_iff, orb_false_iff, andb_false_iff, negb_false_iff.
  assert (forall x y, Qlt_bool x y = false <-> (y <= x)%Q) as L.
  { intros x y. unfold Qlt_bool. rewrite negb_false_iff. apply Qle_bool_iff. }
  rewrite !L. reflexivity.
Qed.

Lemma selected_bit P idx o b : o_allow_doubles o = false -> (b < pn P)%nat ->
  Z.testbit (set_use_caps P idx o) (Z.of_nat b)
  = kept (spec_dup_at (o_tol o) (o_allow_neg_doubles o) (pcaps P)) (selected (if o_add o then puse P else 0) idx) b.
Proof.
  intros Hd Hb. rewrite set_use_caps_spec. unfold spec_bit. rewrite Hd.
  destruct (Nat.ltb_spec b (pn P)); [reflexivity|lia].
Qed.

(* a selected cap that is far (absolutely) from every earlier cap keeps its bit *)
Lemma distinct_cap_kept P idx o j cj :
  o_allow_doubles o = false -> (j < pn P)%nat -> nth_error (pcaps P) j = Some cj ->
  selected (if o_add o then puse P else 0) idx j = true ->
  (forall i ci, (i < j)%nat -> nth_error (pcaps P) i = Some ci -> far_apart (o_tol o) (o_allow_neg_doubles o) ci cj) ->
  Z.testbit (set_use_caps P idx o) (Z.of_nat j) = true.
Proof.
  intros Hd Hj Hc Hsel Hfar. rewrite selected_bit by assumption. apply kept_spec. split; [exact Hsel|].
  intros i Hi _. unfold spec_dup_at. rewrite Hc.
  destruct (nth_error (pcaps P) i) as [ci|] eqn:Ei; [|reflexivity].
  apply far_apart_not_same. apply (Hfar i ci Hi Ei).
Qed.

(* a cap within tol of an earlier cap whose bit stays set loses its bit *)
Lemma duplicate_cap_dropped P idx o i j ci cj :
  o_allow_doubles o = false -> (i < j)%nat -> (j < pn P)%nat ->
  nth_error (pcaps P) i = Some ci -> nth_error (pcaps P) j = Some cj ->
  spec_same_cap (o_tol o) (o_allow_neg_doubles o) ci cj = true ->
  Z.testbit (set_use_caps P idx o) (Z.of_nat i) = true ->
  Z.testbit (set_use_caps P idx o) (Z.of_nat j) = false.
Proof.
  intros Hd Hij Hj Ei Ej Hsame Hi. rewrite selected_bit in * by (assumption || lia).
  destruct (kept _ _ j) eqn:K; [|reflexivity].
  apply kept_spec in K. destruct K as [_ K]. specialize (K i Hij Hi).
  unfold spec_dup_at in K. rewrite Ei, Ej in K. congruence.
Qed.

(* every selected bit that is lost is lost to an earlier cap within tol that stays in use: nothing else
   (magnitude of the values, relative closeness) can remove a cap *)
Lemma dropped_only_for_duplicate P idx o j :
  o_allow_doubles o = false -> (j < pn P)%nat ->
  selected (if o_add o then puse P else 0) idx j = true ->
  Z.testbit (set_use_caps P idx o) (Z.of_nat j) = false ->
  exists i ci cj, (i < j)%nat /\ nth_error (pcaps P) i = Some ci /\ nth_error (pcaps P) j = Some cj /\
                  Z.testbit (set_use_caps P idx o) (Z.of_nat i) = true /\
                  spec_same_cap (o_tol o) (o_allow_neg_doubles o) ci cj = true.
Proof.
  intros Hd Hj Hsel Hbit. rewrite selected_bit in Hbit by assumption.
  rewrite kept_unfold, Hsel in Hbit. cbn [andb] in Hbit. apply negb_false_iff in Hbit.
  apply existsb_exists in Hbit. destruct Hbit as (i & Hi & H). apply in_seq in Hi.
  apply andb_true_iff in H. destruct H as [Ki Di].
  unfold spec_dup_at in Di.
  destruct (nth_error (pcaps P) i) as [ci|] eqn:Ei; [|discriminate].
  destruct (nth_error (pcaps P) j) as [cj|] eqn:Ej; [|discriminate].
  exists i, ci, cj. repeat split; try assumption; [lia|].
  rewrite selected_bit by (assumption || lia). exact Ki.
Qed.

(* the test does not depend on the order of the two caps *)
Lemma dist2_sym a b : (dist2 a b == dist2 b a)%Q.
Proof. destruct a as [[a0 a1] a2], b as [[b0 b1] b2]. unfold dist2. ring. Qed.

Lemma Qlt_bool_compat a a' b : (a == a')%Q -> Qlt_bool a b = Qlt_bool a' b.
Proof.
  intro E. apply eq_true_iff_eq. rewrite !Qlt_bool_iff. rewrite E. reflexivity.
Qed.

Lemma same_cap_sym tol an a b : spec_same_cap tol an a b = spec_same_cap tol an b a.
Proof.
  unfold spec_same_cap.
  rewrite (Qlt_bool_compat _ _ _ (dist2_sym (cx a) (cx b))).
  assert (Qabs (ccm a - ccm b) == Qabs (ccm b - ccm a))%Q as E1 by (rewrite (Qabs_Qminus (ccm a) (ccm b)); reflexivity).
  assert (Qabs (ccm a + ccm b) == Qabs (ccm b + ccm a))%Q as E2.
  { apply Qabs_wd. ring. }
  rewrite (Qlt_bool_compat _ _ _ E1), (Qlt_bool_compat _ _ _ E2). reflexivity.
Qed.
