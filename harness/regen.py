"""Run every translator against $PYDL_REPO (default /repo): brings coq/Generated back in line with the tree."""
import importlib
import pkgutil

import harness.props as props_pkg


class _Ctx:
    tier = 'quick'
    thorough = False


def main():
    for m in sorted(pkgutil.iter_modules(props_pkg.__path__), key=lambda m: m.name):
        try:
            mod = importlib.import_module('harness.props.' + m.name)
            if hasattr(mod, 'translate'):
                print(m.name, 'translate:', str(mod.translate(_Ctx()))[:300])
        except Exception as e:  # noqa: BLE001
            print(m.name, 'translate failed:', e)


if __name__ == '__main__':
    main()
