(* C19 -- Wavelength, photometric-system and band-flux conversions are self-consistent.
   Property theorems only; each is closed by `exact` and followed by Print Assumptions.
   airtovac_*_R/_Q, vactoair_*, flux2ab_*, filter_norm are GENERATED from /repo on every run
   (Generated/AstroConsts.v); airtovac_R, vactoair_R, filter_band, mask_interp compose them (C19/Model.v). *)
From Coq Require Import Reals QArith Qreals List Bool ZArith Qabs.
Import ListNotations.
From PV Require Import C19.Spec Generated.AstroConsts C19.Model C19.WmeanProofs C19.AirVacProofs C19.FluxProofs C19.LinkProofs.

(* ---- air <-> vacuum (over R, wavelengths in Angstrom) ---- *)
Open Scope R_scope.

Theorem C19_below_2000_unchanged : forall a, a < 2000 -> airtovac_R a = a /\ vactoair_R a = a.
Proof. exact below_2000_unchanged. Qed.
Print Assumptions C19_below_2000_unchanged.

Theorem C19_vacuum_gt_air : forall a, 2000 <= a -> a < airtovac_R a /\ vactoair_R a < a.
Proof. exact vacuum_gt_air. Qed.
Print Assumptions C19_vacuum_gt_air.

(* mutual inverses to better than 1e-6 A, from 2000 A to 30 um:
   vactoair(airtovac(a)) = a for a >= 2000 A, and airtovac(vactoair(v)) = v wherever vactoair(v) >= 2000 A *)
Theorem C19_mutual_inverse :
  (forall a, 2000 <= a <= 300000 -> Rabs (vactoair_R (airtovac_R a) - a) <= 1 / 1000000) /\
  (forall v, 2000 <= vactoair_R v -> v <= 300000 -> Rabs (airtovac_R (vactoair_R v) - v) <= 1 / 1000000).
Proof. exact mutual_inverse. Qed.
Print Assumptions C19_mutual_inverse.

(* the executable Q model run against the implementation is the R model of the theorems above *)
Theorem C19_Q_model_is_R_model : forall a : Q,
  Q2R (airtovac_Q a) = airtovac_R (Q2R a) /\ Q2R (vactoair_Q a) = vactoair_R (Q2R a).
Proof. exact Q_models_are_R_models. Qed.
Print Assumptions C19_Q_model_is_R_model.

(* ---- sdssflux2ab ---- *)

Theorem C19_flux2ab_ivar_consistent : forall c,
  flux2ab_ivar_factor (flux2ab_factor c) * (flux2ab_factor c * flux2ab_factor c) = 1.
Proof. exact flux2ab_ivar_consistent. Qed.
Print Assumptions C19_flux2ab_ivar_consistent.

Theorem C19_flux2ab_mag_consistent : forall c f, 0 < f ->
  - (5 / 2) * log10 (flux2ab_flux f (flux2ab_factor c)) = flux2ab_mag (- (5 / 2) * log10 f) c.
Proof. exact flux2ab_mag_consistent. Qed.
Print Assumptions C19_flux2ab_mag_consistent.

(* the three forms apply the documented offset of the band *)
Theorem C19_flux2ab_is_spec : forall b x, (b < 5)%nat ->
  let c := Q2R (nth b flux2ab_correction 0%Q) in
  flux2ab_flux x (flux2ab_factor c) = ab_flux b x /\
  flux2ab_mag x c = ab_mag b x /\
  flux2ab_flux x (flux2ab_ivar_factor (flux2ab_factor c)) = ab_ivar b x.
Proof. exact flux2ab_is_spec. Qed.
Print Assumptions C19_flux2ab_is_spec.

Close Scope R_scope.

(* ---- filter_thru: response-weighted mean (over Q, any number of pixels) ---- *)
Open Scope Q_scope.

Theorem C19_wmean_linear : forall a b l,
  filter_band (plin a b l) == a * filter_band (pf l) + b * filter_band (pg l).
Proof. exact filter_band_linear. Qed.
Print Assumptions C19_wmean_linear.

Theorem C19_wmean_const : forall c ws, 0 < sumw (pconst c ws) -> filter_band (pconst c ws) == c.
Proof. exact filter_band_const. Qed.
Print Assumptions C19_wmean_const.

Theorem C19_wmean_bounds : forall lo hi l, nonneg_weights l -> flux_within lo hi l -> 0 < sumw l ->
  lo <= filter_band l <= hi.
Proof. exact filter_band_bounds. Qed.
Print Assumptions C19_wmean_bounds.

Theorem C19_filter_no_overlap : forall l, nonneg_weights l -> sumw l <= 0 -> filter_band l == 0.
Proof. exact filter_band_no_overlap. Qed.
Print Assumptions C19_filter_no_overlap.

(* when the band overlaps the spectrum, the generated normalisation is the weighted mean *)
Theorem C19_filter_is_wmean : forall l, 0 < sumw l -> filter_band l == wmean l.
Proof. exact filter_is_wmean. Qed.
Print Assumptions C19_filter_is_wmean.

(* the weight expression regenerated from the source (pixel width post-processing and product with the response) *)
Theorem C19_weights_nonneg : forall fitted resp, 0 <= resp -> 0 <= filter_weight (filter_logdiff fitted) resp.
Proof. exact weights_nonneg. Qed.
Print Assumptions C19_weights_nonneg.

Theorem C19_weight_is_spec : forall fitted resp, filter_weight (filter_logdiff fitted) resp == weight_S fitted resp.
Proof. exact weight_is_spec. Qed.
Print Assumptions C19_weight_is_spec.

(* from the raw ingredients (fitted d log lambda of either sign, response >= 0, flux): within the flux range; 0 without overlap *)
Theorem C19_filter_thru_band_bounds : forall lo hi l, resp_nonneg l -> flux_within3 lo hi l -> 0 < sumw (band_pairs l) ->
  lo <= filter_thru_band l <= hi.
Proof. exact filter_thru_band_bounds. Qed.
Print Assumptions C19_filter_thru_band_bounds.

Theorem C19_filter_thru_band_no_overlap : forall l, resp_nonneg l -> sumw (band_pairs l) <= 0 -> filter_thru_band l == 0.
Proof. exact filter_thru_band_no_overlap. Qed.
Print Assumptions C19_filter_thru_band_no_overlap.

(* values of masked pixels do not enter, whatever interpolation fills them from the unmasked ones *)
Theorem C19_filter_mask_indep : forall (interp : list (Z * Q) -> Z -> Q) ws fl fl',
  Forall2 agree fl fl' ->
  filter_band (combine ws (mask_interp interp fl)) = filter_band (combine ws (mask_interp interp fl')).
Proof. exact filter_mask_indep. Qed.
Print Assumptions C19_filter_mask_indep.

(* the run-time checker S used on the implementation's outputs is sound *)
Theorem C19_wmean_ok_sound : forall l r tol, wmean_ok l r tol = true -> l <> [] ->
  nonneg_weights l /\ (0 < sumw l -> Qabs (r - wmean l) <= tol) /\ (sumw l <= 0 -> r == 0).
Proof. exact wmean_ok_sound. Qed.
Print Assumptions C19_wmean_ok_sound.

(* non-vacuity *)
Example C19_witness_air : Qred (vactoair_Q (2000 # 1)) = (2757481878800000000 # 1379187366458949).
Proof. vm_compute. reflexivity. Qed.
Example C19_witness_band : filter_thru_band [((-1) # 2, 1 # 1, 3 # 1); (1 # 2, 1 # 1, 5 # 1)] == 4.
Proof. vm_compute. reflexivity. Qed.
