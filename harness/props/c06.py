"""C06 -- SDSS objID/specObjID packing is a bijection with the documented bit layout."""
import os

from harness import common as C
from translate import c06 as T

ID = 'C06'
PROPS_V = 'C06/Props.v'
LEVEL = 'proof'
TRUSTED = [
    'translate/c06.py + translate/pyexpr.py: Python ast -> Gallina for the shift/mask expressions, range-check idioms, run2d formulas, '
    'mjd offsets and (round 5) the signature defaults / None replacements / broadcast constants / scalar promotions / shape-check lists of '
    'sdss_objid, line-index exclusivity and shape checks of sdss_specobjid, the run2d tag branch (regex -> literal/digit pieces, '
    're.match vs re.fullmatch, N/M/P range check, dtype), the record dtypes, input-type dispatch, typed field expressions and the '
    'tag format string of unwrap_objid / unwrap_specobjid; fail-closed (unrecognised shape => committed Generated file + correspondence only)',
    'hand-written glue model C06/Model.v + the call front-ends of C06/Unwrap.v (zip of promoted columns, order: shape checks before range '
    'checks; all ValueError) -- proved equal to the row-wise documented behaviour for every mix of scalar/array arguments '
    '(C06_objid_model_total, C06_specobjid_model_total, C06_objid_call_defaults) and tied to the code by correspondence',
    'Lib/NumpyInt.v: hand-written model of NumPy fixed-width integer arithmetic (astype and record-field stores wrap; array << int, >> int, '
    '& int, + int, - int, // int, % int keep the array type; a literal that does not fit raises OverflowError; comparisons with Python '
    'ints are exact; mixed-type | is NOT modelled) -- tied to NumPy by the typed correspondence cases (every argument a 1-element array of '
    'its own type, int8..uint64; every unwrapped ID through the typed record model)',
    'C06/Strings.v: hand-written byte-level models of int(str) (= NumPy str/bytes -> integer astype per element), str.format with {i:d} '
    'fields and re.match/re.fullmatch for literal + (\\d+) patterns, ASCII only -- tied by the string correspondence families '
    '(signs, blanks, underscores, leading zeros, malformed, beyond 64 bits; str and bytes arrays)',
    'Lib/NumpyInt.v (round 6): np.array([v], dtype=t) raises OverflowError when v does not fit, np.array([v]) infers bool / int64 / uint64 / '
    'object; tied by the scalar-form and beyond-64-bit families',
    'byte order, strides, read-only flag and 2-D Fortran order of array arguments of all four functions (exercised, not modelled)',
    'Coq stdlib ZArith, Lia (theorems closed under the global context)',
]
ASSUMPTIONS = [
    'array-valued run2d strings are outside the modelled calling conventions; Python lists (not a documented argument type) are only '
    'required never to yield a wrong ID (any rejection is accepted)',
    'scalar spellings (round 6): Python bool, NumPy integer/bool scalars and 0-d arrays mean their integer value (documented side); the '
    'function model covers them only where the normalising helper _python_int read from the source is applied (otherwise the code sees an '
    'array of shape (), which is not modelled: the case is then reported as model-differs, plus failing input when the documented answer is missed)',
    'non-ASCII text (Unicode digits and Unicode white space, which int() and \\d accept) and NUL characters in ID / run2d strings are '
    'outside the string model; digit strings longer than the interpreter limit for int() (4300) likewise',
    'the typed (storage-type) theorems cover the all-array calling convention of the packers and int64/uint64 ID arrays of the unwrappers; '
    'Python-int scalars go through the unbounded model (np.array([int]) is exact or object-typed)',
]

OBJ_RANGES = [(0, 15), (0, 2047), (0, 65535), (1, 6), (0, 1), (0, 4095), (0, 65535)]   # sky rerun run camcol ff field objnum
OBJ_NAMES = ['skyversion', 'rerun', 'run', 'camcol', 'firstfield', 'field', 'objnum']
SPEC_RANGES = [(0, 16383), (0, 4095), (0, 16383), (0, 16383), (0, 1023), (0, 1023)]      # plate fiber mjd-50000 run2d line index
SPEC_NAMES = ['plate', 'fiber', 'mjd', 'run2d', 'line', 'index']


def translate(ctx):
    text, info = T.generate(C.REPO)
    path = os.path.join(C.COQ, 'Generated', 'SdssIds.v')
    if text is not None:
        info['changed'] = C.write_if_changed(path, text)
    else:
        info['restored_committed_file'] = C.restore_generated('coq/Generated/SdssIds.v')
        try:
            stale = 'int64_array_promoter' not in open(path).read()
        except OSError:
            stale = True
        if stale and os.path.realpath(C.REPO) != '/repo':
            # the committed file predates the definitions the development now needs: use the model of the reference
            # checkout instead (same role: a model that is NOT derived from the tree under test)
            ref_text, ref_info = T.generate('/repo')
            if ref_text is not None:
                C.write_if_changed(path, ref_text)
                info['restored_from_reference_tree'] = True
        info['note'] = 'source shape not recognised; the committed Generated/SdssIds.v is kept and the correspondence run alone ties model to code'
    return {'SdssIds': info}


# ---------------------------------------------------------------- case builders

def s(z):
    return {'s': int(z)}


def a(l):
    return {'a': [int(x) for x in l]}


def arg_term(x):
    if x is None:
        return None
    if 's' in x:
        return '(Sc %s)' % C.zlit(x['s'])
    return '(Ar %s)' % C.coq_list([C.zlit(v) for v in x['a']])


def res_term(r):
    if 'ok' in r:
        return '(Ok %s)' % C.coq_list([C.zlit(v) for v in r['ok']])
    if r.get('err') == 'ValueError':
        return 'ValueError'
    return 'OtherError'


def objid_call(vals, conv='scalar'):
    """vals in model order sky rerun run camcol ff field objnum"""
    mk = s if conv == 'scalar' else (lambda z: a([z]))
    sky, rr, r, c, ff, fi, o = vals
    return {'f': 'objid', 'args': {'run': mk(r), 'camcol': mk(c), 'field': mk(fi), 'objnum': mk(o),
                                   'rerun': mk(rr), 'skyversion': mk(sky), 'firstfield': mk(ff)}}


def rand_in(rng, ranges):
    out = []
    for lo, hi in ranges:
        t = rng.random()
        if t < 0.15:
            out.append(lo)
        elif t < 0.3:
            out.append(hi)
        else:
            out.append(rng.randint(lo, hi))
    return out


ITY = {'int8': 'I8', 'uint8': 'U8', 'int16': 'I16', 'uint16': 'U16', 'int32': 'I32', 'uint32': 'U32',
       'int64': 'I64', 'uint64': 'U64'}
DTYPES = {'int16': (-2 ** 15, 2 ** 15 - 1), 'uint16': (0, 2 ** 16 - 1), 'int32': (-2 ** 31, 2 ** 31 - 1),
          'uint32': (0, 2 ** 32 - 1), 'int64': (-2 ** 63, 2 ** 63 - 1), 'uint64': (0, 2 ** 64 - 1)}

# memory layouts of the integer ID arrays handed to the unwrap functions (same values in all three)
LAYOUTS = ('native', 'bigendian', 'strided', 'reversed', 'bigendian-reversed', 'readonly', '2d-transposed')


def gen_calls(ctx):
    rng = ctx.rng
    calls = []   # (tag, call)
    n_rand = ctx.n(250, 4000)
    # objid: random in-range, scalar and 1-element array conventions
    for k in range(n_rand):
        v = rand_in(rng, OBJ_RANGES)
        calls.append(('objid-inrange-' + ('scalar' if k % 2 else 'array1'), objid_call(v, 'scalar' if k % 2 else 'array')))
    # defaults (rerun=301, skyversion=default, firstfield omitted)
    for k in range(ctx.n(30, 300)):
        v = rand_in(rng, OBJ_RANGES)
        c = objid_call(v)
        for key in rng.sample(['rerun', 'skyversion', 'firstfield'], rng.randint(1, 3)):
            c['args'][key] = None
        calls.append(('objid-defaults', c))
    # boundaries and far-out values, one field at a time
    far = [-1, -2 ** 40, 2 ** 31, 2 ** 40, 2 ** 62 - 1, -2 ** 62]
    # Python ints that no 64-bit type holds (scalar convention only: they cannot be put into an integer array)
    beyond = [2 ** 63, -2 ** 63 - 1, 2 ** 64, 2 ** 70, -2 ** 70]
    for i, (lo, hi) in enumerate(OBJ_RANGES):
        for x in [lo - 1, lo, hi, hi + 1] + far:
            for rep in range(ctx.n(1, 4)):
                v = rand_in(rng, OBJ_RANGES)
                v[i] = x
                calls.append(('objid-boundary', objid_call(v, 'scalar' if rep % 2 == 0 else 'array')))
        for x in beyond:
            v = rand_in(rng, OBJ_RANGES)
            v[i] = x
            calls.append(('objid-beyond-64-bit', objid_call(v, 'scalar')))
    # multi-row arrays, consistent and inconsistent lengths
    for k in range(ctx.n(40, 400)):
        n = rng.randint(2, 5)
        rows = [rand_in(rng, OBJ_RANGES) for _ in range(n)]
        if rng.random() < 0.25:
            rows[rng.randrange(n)][rng.randrange(7)] = rng.choice([-1, 70000, 2 ** 33])
        cols = list(zip(*rows))
        args = {'skyversion': a(cols[0]), 'rerun': a(cols[1]), 'run': a(cols[2]), 'camcol': a(cols[3]),
                'firstfield': a(cols[4]), 'field': a(cols[5]), 'objnum': a(cols[6])}
        tag = 'objid-array'
        t = rng.random()
        if t < 0.2:
            key = rng.choice(list(args))
            args[key] = a(list(args[key]['a'])[:-1])
            tag = 'objid-array-shape-mismatch'
        elif t < 0.35:
            key = rng.choice(['camcol', 'field', 'objnum', 'rerun', 'skyversion', 'firstfield'])
            args[key] = s(args[key]['a'][0])
            tag = 'objid-array-scalar-mix'
        elif t < 0.5:
            for key in ('rerun', 'skyversion', 'firstfield'):
                args[key] = None
            tag = 'objid-array-defaults'
        calls.append((tag, {'f': 'objid', 'args': args}))

    # specobjid
    def spec_call(v, conv='scalar', run2d='int', li=None):
        p, f, m, r = v[:4]
        mk = s if conv == 'scalar' else (lambda z: a([z]))
        if run2d == 'int':
            r2 = mk(r)
        elif run2d == 'dec':
            r2 = {'str': str(r)}
        else:
            N, M, P = r // 10000 + 5, (r % 10000) // 100, r % 100
            r2 = {'str': 'v%d_%d_%d' % (N, M, P), 'nmp': [N, M, P]}
        args = {'plate': mk(p), 'fiber': mk(f), 'mjd': mk(m + 50000), 'run2d': r2, 'line': None, 'index': None}
        if li == 'line':
            args['line'] = mk(v[4])
        elif li == 'index':
            args['index'] = mk(v[5])
        elif li == 'both':
            args['line'] = mk(v[4])
            args['index'] = mk(v[5])
        return {'f': 'spec', 'args': args}

    for k in range(n_rand):
        v = rand_in(rng, SPEC_RANGES)
        conv = 'scalar' if k % 3 else 'array'
        r2 = rng.choice(['int', 'dec', 'str']) if conv == 'scalar' else 'int'
        if r2 == 'str' and v[3] >= 0:
            pass
        li = rng.choice([None, None, 'line', 'index', 'both'])
        calls.append(('spec-inrange-%s-%s-%s' % (conv, r2, li), spec_call(v, conv, r2, li)))
    for i, (lo, hi) in enumerate(SPEC_RANGES):
        for x in [lo - 1, lo, hi, hi + 1] + far:
            for rep in range(ctx.n(1, 4)):
                v = rand_in(rng, SPEC_RANGES)
                v[i] = x
                li = 'line' if i == 4 else ('index' if i == 5 else None)
                calls.append(('spec-boundary', spec_call(v, 'scalar' if rep % 2 == 0 else 'array', 'int', li)))
        for x in beyond:
            v = rand_in(rng, SPEC_RANGES)
            v[i] = x
            li = 'line' if i == 4 else ('index' if i == 5 else None)
            calls.append(('spec-beyond-64-bit', spec_call(v, 'scalar', 'int', li)))
    # vN_M_P strings at the edges of the documented N, M, P ranges
    for N in (5, 6):
        for M in (0, 1, 63, 64, 99):
            for P in (0, 99):
                v = rand_in(rng, SPEC_RANGES)
                c = spec_call(v)
                c['args']['run2d'] = {'str': 'v%d_%d_%d' % (N, M, P), 'nmp': [N, M, P]}
                calls.append(('spec-vNMP-edge', c))
    # multi-row arrays with true MJDs
    for k in range(ctx.n(40, 400)):
        n = rng.randint(2, 5)
        rows = [rand_in(rng, SPEC_RANGES) for _ in range(n)]
        if rng.random() < 0.25:
            rows[rng.randrange(n)][rng.randrange(4)] = rng.choice([-1, 70000, 2 ** 33])
        cols = list(zip(*rows))
        args = {'plate': a(cols[0]), 'fiber': a(cols[1]), 'mjd': a([m + 50000 for m in cols[2]]), 'run2d': a(cols[3]),
                'line': None, 'index': None}
        tag = 'spec-array'
        t = rng.random()
        if t < 0.2:
            key = rng.choice(['fiber', 'mjd', 'run2d'])
            args[key] = a(list(args[key]['a'])[:-1])
            tag = 'spec-array-shape-mismatch'
        elif t < 0.4:
            args['line'] = a(cols[4])
            tag = 'spec-array-line'
        elif t < 0.5:
            args['index'] = a(cols[5])
            tag = 'spec-array-index'
        calls.append((tag, {'f': 'spec', 'args': args}))

    # unwrap: ids from in-range tuples and arbitrary 63/64-bit words
    obj_ids = [rng.getrandbits(63) for _ in range(ctx.n(300, 3000))] + [0, 2 ** 63 - 1, 1, 2 ** 59, 2 ** 48 - 1]
    spec_ids = [rng.getrandbits(64) for _ in range(ctx.n(450, 3000))] + [0, 2 ** 64 - 1, 2 ** 63, 2 ** 50 - 1]
    lay_off = rng.randrange(len(LAYOUTS))
    nint = 0
    for chunk in range(0, len(obj_ids), 50):
        ids = obj_ids[chunk:chunk + 50]
        as_str = (chunk // 50) % 2 == 1
        if as_str and (chunk // 50) % 4 == 3:
            as_str = 'bytes'
        calls.append(('unobj', {'f': 'unobj', 'ids': ids, 'as_str': as_str, 'layout': LAYOUTS[(nint + lay_off) % len(LAYOUTS)]}))
        nint += 0 if as_str else 1
    nint = 0
    for chunk in range(0, len(spec_ids), 50):
        ids = spec_ids[chunk:chunk + 50]
        as_str = (chunk // 50) % 3 == 1
        if as_str and (chunk // 50) % 6 == 4:
            as_str = 'bytes'
        calls.append(('unspec', {'f': 'unspec', 'ids': ids, 'as_str': as_str, 'index': (chunk // 50) % 3 == 2,
                                 'layout': LAYOUTS[:-1][(nint + lay_off) % (len(LAYOUTS) - 1)]}))
        nint += 0 if as_str else 1

    # exhaustive per-field sweeps with the other fields at their extremes
    for i, (lo, hi) in enumerate(OBJ_RANGES):
        for ext in ('min', 'max') + (('rand',) if ctx.thorough else ()):
            others = [r[0] if ext == 'min' else (r[1] if ext == 'max' else rng.randint(*r)) for r in OBJ_RANGES]
            calls.append(('sweepobj', {'f': 'sweepobj', 'i': i, 'lo': lo, 'n': hi - lo + 1, 'others': others}))
    for i, (lo, hi) in enumerate(SPEC_RANGES):
        for ext in ('min', 'max') + (('rand',) if ctx.thorough else ()):
            others = [r[0] if ext == 'min' else (r[1] if ext == 'max' else rng.randint(*r)) for r in SPEC_RANGES]
            use = None
            if i == 4:
                others[5] = 0
                use = 'line'
            elif i == 5:
                others[4] = 0
                use = 'index'
            else:
                others[4] = others[5] = 0
            calls.append(('sweepspec', {'f': 'sweepspec', 'i': i, 'lo': lo, 'n': hi - lo + 1, 'others': others, 'use': use}))
    # typed single-row calls (C06/Typed.v): every argument a 1-element array of its own integer type
    names = list(DTYPES) + ['int8', 'uint8']
    rng8 = dict(DTYPES, int8=(-128, 127), uint8=(0, 255))

    def fitting(v):
        return [n for n in names if rng8[n][0] <= v <= rng8[n][1]]

    def tcall(kind, vals, dts=None, use=None):
        vals = [int(v) for v in vals]
        dts = dts or [rng.choice(fitting(v)) for v in vals]
        c = {'f': kind, 'vals': vals, 'dts': dts}
        if kind == 'tspec':
            c['use'] = use
            if use != 'line':
                vals[4] = 0
            if use != 'index':
                vals[5] = 0
        return c

    def spec_true(v):
        v = list(v)
        v[2] += 50000
        return v

    for k in range(ctx.n(150, 2000)):
        calls.append(('typed-objid-inrange', tcall('tobj', rand_in(rng, OBJ_RANGES))))
        calls.append(('typed-spec-inrange', tcall('tspec', spec_true(rand_in(rng, SPEC_RANGES)), use=rng.choice([None, 'line', 'index']))))
    for i, (lo, hi) in enumerate(OBJ_RANGES):
        for dt in names:
            for x in sorted(set([lo - 1, lo, hi, hi + 1, rng8[dt][0], rng8[dt][1]])):
                if rng8[dt][0] <= x <= rng8[dt][1]:
                    v = rand_in(rng, OBJ_RANGES)
                    v[i] = x
                    dts = [rng.choice(fitting(z)) for z in v]
                    dts[i] = dt
                    calls.append(('typed-objid-boundary', tcall('tobj', v, dts)))
    for i, (lo, hi) in enumerate(SPEC_RANGES):
        off = 50000 if i == 2 else 0
        extra = [0, 500, 847, 848, 15535, 15536, 49999, 65535, 65536] if i == 2 else []
        for dt in names:
            for x in sorted(set([lo - 1 + off, lo + off, hi + off, hi + 1 + off, rng8[dt][0], rng8[dt][1]] + extra)):
                if rng8[dt][0] <= x <= rng8[dt][1]:
                    v = spec_true(rand_in(rng, SPEC_RANGES))
                    v[i] = x
                    use = 'line' if i == 4 else ('index' if i == 5 else rng.choice([None, 'line', 'index']))
                    c = tcall('tspec', v, None, use)
                    c['dts'] = [rng.choice(fitting(z)) for z in c['vals']]
                    c['dts'][i] = dt
                    if rng8[dt][0] <= c['vals'][i] <= rng8[dt][1]:
                        calls.append(('typed-spec-boundary', c))

    # integer types of the array arguments: two calls in three keep int64, the third gives every array argument
    # its own type among those that hold all its values (catalogue columns are int16/int32; the value, and hence
    # the model case, is the same number whatever the storage type)
    k = 0
    for tag, c in calls:
        if c['f'] not in ('objid', 'spec'):
            continue
        arrs = [v for v in c['args'].values() if isinstance(v, dict) and 'a' in v and v['a']]
        if not arrs:
            continue
        k += 1
        if k % 3:
            continue
        for v in arrs:
            fits = [n for n, (lo, hi) in DTYPES.items() if lo <= min(v['a']) and max(v['a']) <= hi]
            v['dt'] = rng.choice(fits)
    return calls


WS = [' ', '\t', '\n', '\r', '\x0b', '\x0c']


def decorate(rng, digits):
    """A spelling int() accepts for the same number: sign, blanks, leading zeros, single underscores."""
    t = rng.random()
    if t < 0.3:
        return digits
    d = digits
    if rng.random() < 0.3 and len(d) > 1:
        k = rng.randrange(1, len(d))
        d = d[:k] + '_' + d[k:]
    if rng.random() < 0.3:
        d = '0' * rng.randint(1, 3) + d
    if rng.random() < 0.4:
        d = '+' + d
    if rng.random() < 0.5:
        d = ''.join(rng.choice(WS) for _ in range(rng.randint(1, 2))) + d
    if rng.random() < 0.5:
        d = d + ''.join(rng.choice(WS) for _ in range(rng.randint(1, 2)))
    return d


BAD_INTS = ['', ' ', '+', '-', '+-1', '1__0', '_1', '1_', '1 2', '12a', 'a12', '0x10', '1.0', '1e3', '+ 1', '1+', '1_ 0', '--1',
            '1\t_0', 'v5_7_0']


def gen_xcalls(ctx):
    """Round-5 families: decimal-string IDs, run2d strings, defaults/broadcasting of sdss_objid."""
    rng = ctx.rng
    calls = []
    # --- IDs as arbitrary strings, one per array, str and bytes arrays
    for kind, top in (('unobjstr', 63), ('unspecstr', 64)):
        vals = [0, 1, 2 ** 63 - 1, 2 ** 63, 2 ** 64 - 1, 2 ** 64, 2 ** 64 + 1, 2 ** 65 + 12345, 10 ** 19, 10 ** 20 - 1]
        vals += [rng.getrandbits(top) for _ in range(ctx.n(40, 600))]
        vals += [rng.getrandbits(64) | (1 << 63) for _ in range(ctx.n(15, 200))]
        vals += [rng.getrandbits(rng.randint(1, 70)) for _ in range(ctx.n(15, 200))]
        for v in vals:
            calls.append((kind + '-decimal', {'f': kind, 's': decorate(rng, str(v)), 'bytes': rng.random() < 0.35}))
        for v in [1, 2 ** 63, rng.getrandbits(40)]:
            calls.append((kind + '-negative', {'f': kind, 's': '-' + decorate(rng, str(v)).strip().lstrip('+'), 'bytes': rng.random() < 0.35}))
        calls.append((kind + '-negative', {'f': kind, 's': '-0', 'bytes': False}))
        for b in BAD_INTS:
            calls.append((kind + '-malformed', {'f': kind, 's': b, 'bytes': rng.random() < 0.35}))
    # --- run2d strings of sdss_specobjid
    def sp(s, tag):
        v = rand_in(rng, SPEC_RANGES)
        calls.append((tag, {'f': 'specstr', 'p': v[0], 'fb': v[1], 'm': v[2] + 50000, 's': s}))
    for N in (0, 4, 5, 6, 7, 15, 10 ** 21):
        for M in (0, 7, 63, 64, 99, 100, 101, 163, 10 ** 4):
            for P in (0, 83, 84, 99, 100, 9999):
                if N in (5, 6) or rng.random() < 0.25:
                    sp('v%d_%d_%d' % (N, M, P), 'specstr-tag')
    for k in range(ctx.n(60, 1500)):
        r = rng.randrange(0, 2 ** 14)
        t = 'v%d_%d_%d' % (r // 10000 + 5, (r % 10000) // 100, r % 100)
        u = rng.random()
        if u < 0.35:
            sp(t, 'specstr-tag-canonical')
        elif u < 0.5:
            sp(t + rng.choice(['x', ' ', '\n', '_1', '.0', '_', 'v5_7_0', '0x']), 'specstr-tag-trailing-text')
        elif u < 0.6:
            sp(rng.choice([' ', 'x', 'V', 'vv', '+', '-']) + t[rng.choice([0, 1]):], 'specstr-tag-leading-text')
        elif u < 0.75:
            a_, b_, c_ = t[1:].split('_')
            sp('v' + '0' * rng.randint(0, 2) + a_ + '_' + '0' * rng.randint(0, 2) + b_ + '_' + '0' * rng.randint(0, 2) + c_,
               'specstr-tag-leading-zeros')
        elif u < 0.85:
            sp(rng.choice([t.replace('_', '__', 1), t.replace('_', '-'), t[:-len(t.split('_')[-1])], t.rsplit('_', 1)[0],
                           'v', 'v_', 'v5', 'v5_', 'v_7_0', 'v5__0', t.replace('v', 'v-'), t.replace('_', '_-', 1), t.upper()]),
               'specstr-tag-malformed')
        else:
            sp(decorate(rng, str(rng.choice([r, r, 2 ** 14 - 1, 2 ** 14, 2 ** 14 + r, 10 ** 25 + r]))), 'specstr-decimal')
    for b in BAD_INTS + ['-1', '-0', '1_6_3_8_3', '16_384']:
        sp(b, 'specstr-malformed')
    # --- defaults and broadcasting of sdss_objid: explicit scalars equal / not equal to the defaults, n rows
    for k in range(ctx.n(60, 800)):
        n = rng.randint(1, 4)
        rows = [rand_in(rng, OBJ_RANGES) for _ in range(n)]
        cols = list(zip(*rows))
        args = {'run': a(cols[2]), 'camcol': a(cols[3]), 'field': a(cols[5]), 'objnum': a(cols[6])}
        if n == 1 and rng.random() < 0.5:
            args = {k_: s(v['a'][0]) for k_, v in args.items()}
        for key, dv, col in (('rerun', 301, cols[1]), ('skyversion', 2, cols[0]), ('firstfield', 0, cols[4])):
            u = rng.random()
            if u < 0.3:
                args[key] = None
            elif u < 0.55:
                args[key] = s(dv)
            elif u < 0.7:
                args[key] = s(rng.choice([dv + 1, 0, 1, col[0]]))
            elif u < 0.8:
                args[key] = a([dv] * n)
            else:
                args[key] = a(col)
        calls.append(('objid-default-handling', {'f': 'objid', 'args': args}))
    return calls



# ---------------------------------------------------------------------------------------------------------------
# Round 6: classes E (spellings of a scalar), A (argument arrays refilled in place between two calls), B (memory
# layouts for every entry point) and G (error classes of the unwrappers)

NP_INT = {'int8': (-128, 127), 'uint8': (0, 255), 'int16': (-2 ** 15, 2 ** 15 - 1), 'uint16': (0, 2 ** 16 - 1),
          'int32': (-2 ** 31, 2 ** 31 - 1), 'uint32': (0, 2 ** 32 - 1), 'int64': (-2 ** 63, 2 ** 63 - 1), 'uint64': (0, 2 ** 64 - 1)}
FORM_CLASSES = ['bool', 'numpy-scalar', '0-d-array', '1-element-array', 'list']
ARG_LAYOUTS = ['native', 'bigendian', 'strided', 'reversed', 'bigendian-reversed', 'readonly']


def spell(rng, v, cls):
    """Descriptor of the integer v spelled in form class cls (None: v cannot be spelled that way)."""
    if cls == 'int':
        return s(v)
    if cls == 'bool':
        return {'s': int(v), 'form': 'bool'} if v in (0, 1) else None
    if cls == 'list':
        return {'a': [int(v)], 'form': 'list'}
    fits = [n for n, (lo, hi) in NP_INT.items() if lo <= v <= hi]
    if v in (0, 1):
        fits += ['bool'] * 4
    if not fits:
        return None
    dt = rng.choice(fits)
    if cls == 'numpy-scalar':
        return {'s': int(v), 'form': 'np:' + dt}
    if cls == '0-d-array':
        return {'s': int(v), 'form': '0d:' + dt}
    return {'a': [int(v)], 'dt': dt}


def form_term(x):
    if x is None or ('s' in x and x.get('form') in (None, 'bool')):
        return 'FPy'
    if 's' in x:
        kind, dt = x['form'].split(':')
        return '(FNp ZeroDimArray)' if kind == '0d' else ('(FNp NpBoolScalar)' if dt == 'bool' else '(FNp NpIntegerScalar)')
    return 'FArr'


def gen_form_calls(ctx):
    rng = ctx.rng
    calls = []
    reps = ctx.n(6, 60)
    for cls in FORM_CLASSES:
        for mode in ('one', 'all', 'one-rest-omitted'):
            for k in range(reps):
                # ---- sdss_objid
                v = rand_in(rng, OBJ_RANGES)
                i = rng.randrange(7)
                bad = rng.random() < 0.25
                if cls == 'bool':
                    if mode == 'all':
                        v = [rng.randint(0, 1) for _ in v]
                        v[3] = 1
                    v[i] = 1 if i == 3 else rng.randint(0, 1)
                    if bad:
                        i, v[3] = 3, 0                      # camcol=False is the only out-of-range bool
                elif bad:
                    lo, hi = OBJ_RANGES[i]
                    v[i] = rng.choice([lo - 1, hi + 1, hi + 1, -rng.randint(2, 100), 2 ** 31 - 1, 2 ** 63 - 1])
                args = {}
                for j, nm in enumerate(OBJ_NAMES):
                    c_ = cls if (mode == 'all' or j == i) else 'int'
                    args[nm] = spell(rng, v[j], c_) or s(v[j])
                if mode == 'one-rest-omitted':
                    for nm in ('rerun', 'skyversion', 'firstfield'):
                        if OBJ_NAMES.index(nm) != i:
                            args[nm] = None
                calls.append(('forms-objid-%s-%s' % (cls, mode), {'f': 'objid', 'args': args, 'forms': cls}))
                # ---- sdss_specobjid
                v = rand_in(rng, SPEC_RANGES)
                use = rng.choice([None, None, 'line', 'index', 'both'] if mode != 'one-rest-omitted' else [None])
                live = [0, 1, 2, 3] + ([4] if use in ('line', 'both') else []) + ([5] if use in ('index', 'both') else [])
                i = rng.choice(live)
                bad = rng.random() < 0.25
                true = list(v)
                true[2] += 50000
                if cls == 'bool':
                    if mode == 'all':
                        true = [rng.randint(0, 1) for _ in true]    # mjd=True/False is out of range: ValueError
                    else:
                        true[i] = rng.randint(0, 1)
                elif bad:
                    lo, hi = SPEC_RANGES[i]
                    off = 50000 if i == 2 else 0
                    true[i] = rng.choice([lo - 1 + off, hi + 1 + off, -rng.randint(2, 100), 2 ** 31 - 1, 2 ** 63 - 1] + ([rng.randint(0, 49999), 65536 + rng.randint(0, 16383)] if i == 2 else []))
                args = {}
                for j, nm in enumerate(SPEC_NAMES):
                    c_ = cls if (mode == 'all' or j == i) else 'int'
                    args[nm] = (spell(rng, true[j], c_) or s(true[j])) if j in live else None
                if i != 3 and mode != 'all' and rng.random() < 0.3 and 0 <= true[3] < 2 ** 14:
                    r = true[3]
                    args['run2d'] = {'str': 'v%d_%d_%d' % (r // 10000 + 5, (r % 10000) // 100, r % 100), 'tag': r}
                calls.append(('forms-spec-%s-%s' % (cls, mode), {'f': 'spec', 'args': args, 'forms': cls}))
    return calls


def gen_reuse_layout_calls(ctx):
    rng = ctx.rng
    calls = []

    def typed(cols_list, layout):
        """one descriptor list per step; a common dtype per argument that holds the values of every step"""
        out = [[], []]
        for col in zip(*cols_list):
            allv = [x for c_ in col for x in c_]
            fits = [n for n, (lo, hi) in DTYPES.items() if lo <= min(allv) and max(allv) <= hi]
            dt = rng.choice(fits)
            ly = layout or rng.choice(ARG_LAYOUTS[:-1])
            for k_, c_ in enumerate(col):
                out[k_].append({'a': [int(x) for x in c_], 'dt': dt, 'layout': ly})
        return out

    def rows_objid(n):
        rows = [rand_in(rng, OBJ_RANGES) for _ in range(n)]
        if rng.random() < 0.25:
            rows[rng.randrange(n)][rng.randrange(7)] = rng.choice([-1, 70000, 2 ** 33])
        return list(zip(*rows))

    def rows_spec(n):
        rows = [rand_in(rng, SPEC_RANGES) for _ in range(n)]
        if rng.random() < 0.25:
            rows[rng.randrange(n)][rng.randrange(4)] = rng.choice([-1, 70000, 2 ** 33])
        cols = [list(c_) for c_ in zip(*rows)]
        cols[2] = [m + 50000 for m in cols[2]]
        return cols

    # class A: two calls with the very same array objects, refilled in place in between
    for k in range(ctx.n(24, 300)):
        n = rng.randint(1, 4)
        d1, d2 = typed([rows_objid(n), rows_objid(n)], None)
        a1, a2 = dict(zip(OBJ_NAMES, d1)), dict(zip(OBJ_NAMES, d2))
        for nm in ('rerun', 'skyversion', 'firstfield'):
            if rng.random() < 0.3:
                a1[nm] = a2[nm] = None
        calls.append(('reuse-objid', {'f': 'objid', 'args': a1, 'args2': a2, 'order': ['run', 'camcol', 'field', 'objnum']}))
        d1, d2 = typed([rows_spec(n), rows_spec(n)], None)
        a1, a2 = dict(zip(SPEC_NAMES, d1)), dict(zip(SPEC_NAMES, d2))
        use = rng.choice([None, 'line', 'index'])
        for nm in ('line', 'index'):
            if nm != use:
                a1[nm] = a2[nm] = None
        calls.append(('reuse-spec', {'f': 'spec', 'args': a1, 'args2': a2, 'order': ['plate', 'fiber', 'mjd', 'run2d']}))
    # class B: every array argument of the packers in its own memory layout / all of them two-dimensional (Fortran order)
    for k in range(ctx.n(24, 300)):
        n = 2 * rng.randint(1, 3)
        two_d = k % 4 == 0
        d1, = typed([rows_objid(n)], '2d-transposed' if two_d else None)[:1]
        if not two_d:
            for x in d1:
                x['layout'] = rng.choice(ARG_LAYOUTS)
        calls.append(('layout-objid' + ('-2d' if two_d else ''), {'f': 'objid', 'args': dict(zip(OBJ_NAMES, d1))}))
        d1, = typed([rows_spec(n)], '2d-transposed' if two_d else None)[:1]
        if not two_d:
            for x in d1:
                x['layout'] = rng.choice(ARG_LAYOUTS)
        a1 = dict(zip(SPEC_NAMES, d1))
        use = rng.choice([None, 'line', 'index'])
        for nm in ('line', 'index'):
            if nm != use:
                a1[nm] = None
        calls.append(('layout-spec' + ('-2d' if two_d else ''), {'f': 'spec', 'args': a1}))
    # unwrap: every layout for both entry points in every run, with the ID array refilled in place afterwards
    for f_, bits_ in (('unobj', 63), ('unspec', 64)):
        for ly in LAYOUTS:
            for rep in range(ctx.n(1, 6)):
                ids = [rng.getrandbits(bits_) for _ in range(6)]
                if f_ == 'unspec' and ly == '2d-transposed':
                    continue       # the default (string run2d) mode of unwrap_specobjid is one-dimensional by construction
                c = {'f': f_, 'ids': ids, 'as_str': False, 'layout': ly, 'ids2': [rng.getrandbits(bits_) for _ in range(6)]}
                if f_ == 'unspec':
                    c['index'] = rng.random() < 0.5
                calls.append(('%s-layout-refill' % f_, c))
    # class G: integer-like arrays of a type the unwrappers do not accept must be rejected with ValueError, never unwrapped wrongly
    for f_, bad in (('unobj', ['int32', 'uint32', 'int16', 'uint64', 'float64', 'bool']), ('unspec', ['int32', 'uint32', 'int16', 'int64', 'float64', 'bool'])):
        for dt in bad:
            top = 1 if dt == 'bool' else (15 if dt == 'int16' else 31)
            ids = [rng.getrandbits(top) for _ in range(4)]
            calls.append(('%s-badtype' % f_, {'f': f_, 'ids': ids, 'as_str': False, 'layout': 'native', 'dt': dt, 'badtype': True}))
    return calls


def str_lit(text):
    return C.coq_list(['%d' % ord(ch) for ch in text])


def xres_term(r):
    if 'ok' in r:
        return '(XRows %s)' % C.coq_list([C.zlit(v) for v in r['ok'][0]])
    return 'XValueError' if r.get('err') == 'ValueError' else 'XOther'


def xobjid_args(A):
    return '%s %s %s %s %s %s %s' % (
        arg_term(A['run']), arg_term(A['camcol']), arg_term(A['field']), arg_term(A['objnum']),
        C.optlit(A.get('rerun'), arg_term), C.optlit(A.get('skyversion'), arg_term), C.optlit(A.get('firstfield'), arg_term))


def xcase_terms(calls, results):
    """round-5 cases (evaluator run_xcases) -> list of (call index, sub index, coq term)"""
    terms = []
    for ci, ((tag, c), r) in enumerate(zip(calls, results)):
        f = c['f']
        if c.get('forms'):
            if c['forms'] == 'list' and 'ok' not in r:
                continue      # a Python list is outside the documented argument types: any rejection is accepted
            A = c['args']
            if f == 'objid':
                terms.append((ci, 0, '(XObjidForms %s %s %s)' % (
                    C.coq_list([form_term(A.get(k)) for k in OBJ_NAMES]), xobjid_args(A), res_term(r))))
            else:
                r2 = A['run2d']
                r2t = '(RStr %s)' % str_lit(r2['str']) if 'str' in r2 else ('(RInt %s)' % C.zlit(r2['s']) if 's' in r2 else
                                                                          '(RArr %s)' % C.coq_list([C.zlit(v) for v in r2['a']]))
                terms.append((ci, 0, '(XSpecForms %s %s %s %s %s %s %s %s)' % (
                    C.coq_list([form_term(A.get(k)) for k in SPEC_NAMES]), arg_term(A['plate']), arg_term(A['fiber']),
                    arg_term(A['mjd']), r2t, C.optlit(A['line'], arg_term), C.optlit(A['index'], arg_term), res_term(r))))
        elif f == 'objid':
            terms.append((ci, 0, '(XObjidCall %s %s)' % (xobjid_args(c['args']), res_term(r))))
            if c.get('args2') and 'step2' in r:
                terms.append((ci, 1, '(XObjidCall %s %s)' % (xobjid_args(c['args2']), res_term(r['step2']))))
        elif f == 'specstr':
            terms.append((ci, 0, '(XSpecStr %s %s %s %s %s)' % (C.zlit(c['p']), C.zlit(c['fb']), C.zlit(c['m']), str_lit(c['s']), res_term(r))))
        elif f == 'unobjstr':
            terms.append((ci, 0, '(XUnObjStr %s %s)' % (str_lit(c['s']), xres_term(r))))
        elif f == 'unspecstr':
            terms.append((ci, 0, '(XUnSpecStr %s %s)' % (str_lit(c['s']), xres_term(r))))
        elif f == 'unobj' and 'ok' in r and not c.get('badtype'):
            for j, (i_, row) in enumerate(zip(c['ids'], r['ok'])):
                terms.append((ci, j, '(XUnObjTyped %s %s)' % (C.zlit(i_), C.coq_list([C.zlit(v) for v in row]))))
        elif f == 'unspec' and 'ok' in r and 'tags' in r and not c.get('badtype'):
            for j, (i_, row, tg) in enumerate(zip(c['ids'], r['ok'], r['tags'])):
                if len(row) == 8 and all(ord(ch) < 256 for ch in tg):
                    five = row[:4] + row[7:]
                    terms.append((ci, j, '(XUnSpecTyped %s %s %s)' % (C.zlit(i_), C.coq_list([C.zlit(v) for v in five]), str_lit(tg))))
    return terms


DOC_DTYPES = {
    'unobj': {'record': [[n, '<i4'] for n in ('skyversion', 'rerun', 'run', 'camcol', 'firstfield', 'frame', 'id')]},
    'unspec': {'integer': [[n, '<i4'] for n in ('plate', 'fiber', 'mjd', 'run2d', 'line')],
               'string': [['plate', '<i4'], ['fiber', '<i4'], ['mjd', '<i4'], ['run2d', '<U8'], ['line', '<i4']],
               'index': [[n, '<i4'] for n in ('plate', 'fiber', 'mjd', 'run2d', 'index')]},
}


def generated_dtypes(info):
    """What the translator read from the source, in the form numpy reports (little-endian machine)."""
    if not info or not info.get('recognised'):
        return None
    def norm(lst):
        return [[n, '<' + t] for n, t in lst]
    li = info['unwrap_spec_line_names']
    integer = norm(info['unwrap_spec_dtype_integer'])
    return {'unobj': {'record': norm(info['unwrap_objid_dtype'])},
            'unspec': {'integer': integer, 'string': norm(info['unwrap_spec_dtype_string']),
                       'index': [[li[1] if n == li[0] else n, t] for n, t in integer]}}


def case_terms(calls, results, default_sky):
    """-> list of (call index, sub index, coq term)"""
    terms = []
    for ci, ((tag, c), r) in enumerate(zip(calls, results)):
        f = c['f']
        if c.get('forms'):
            continue          # judged by XObjidForms / XSpecForms (run_xcases)
        if f == 'objid':
            def objid_case(A, r_):
                def d(key, dv):
                    return arg_term(A[key]) if A.get(key) is not None else '(Sc %s)' % C.zlit(dv)
                return '(CObjid %s %s %s %s %s %s %s %s %s)' % (
                    C.zlit(default_sky), arg_term(A['run']), arg_term(A['camcol']), arg_term(A['field']),
                    arg_term(A['objnum']), d('rerun', 301), d('skyversion', default_sky), d('firstfield', 0), res_term(r_))
            terms.append((ci, 0, objid_case(c['args'], r)))
            if c.get('args2') and 'step2' in r:
                terms.append((ci, 1, objid_case(c['args2'], r['step2'])))
        elif f == 'spec':
            def spec_case(A, r_):
                r2 = A['run2d']
                if 'nmp' in r2:
                    r2t = '(R2str %s %s %s)' % tuple(C.zlit(x) for x in r2['nmp'])
                elif 'str' in r2:
                    r2t = '(R2int %s)' % C.zlit(int(r2['str']))
                elif 's' in r2:
                    r2t = '(R2int %s)' % C.zlit(r2['s'])
                else:
                    r2t = '(R2arr %s)' % C.coq_list([C.zlit(v) for v in r2['a']])
                return '(CSpec %s %s %s %s %s %s %s)' % (
                    arg_term(A['plate']), arg_term(A['fiber']), arg_term(A['mjd']), r2t,
                    C.optlit(A['line'], arg_term), C.optlit(A['index'], arg_term), res_term(r_))
            terms.append((ci, 0, spec_case(c['args'], r)))
            if c.get('args2') and 'step2' in r:
                terms.append((ci, 1, spec_case(c['args2'], r['step2'])))
        elif f in ('unobj', 'unspec'):
            ctor = 'CUnObj' if f == 'unobj' else 'CUnSpec'
            if 'ok' in r:
                for j, (i_, row) in enumerate(zip(c['ids'], r['ok'])):
                    terms.append((ci, j, '(%s %s %s)' % (ctor, C.zlit(i_), C.coq_list([C.zlit(v) for v in row]))))
                if c.get('ids2') and 'ok' in r.get('step2', {}):
                    for j, (i_, row) in enumerate(zip(c['ids2'], r['step2']['ok'])):
                        terms.append((ci, 1000 + j, '(%s %s %s)' % (ctor, C.zlit(i_), C.coq_list([C.zlit(v) for v in row]))))
                elif c.get('ids2') and 'step2' in r:
                    terms.append((ci, 1000, '(%s 0 [])' % ctor))
            elif not c.get('badtype'):
                terms.append((ci, 0, '(%s 0 [])' % ctor))   # any exception on unwrap is a mismatch
        elif f in ('tobj', 'tspec'):
            terms.append((ci, 0, '(%s [%s] %s %s)' % (
                'CTObjid' if f == 'tobj' else 'CTSpec', '; '.join(ITY[d] for d in c['dts']),
                C.coq_list([C.zlit(v) for v in c['vals']]), res_term(r))))
        elif f in ('sweepobj', 'sweepspec'):
            ctor = 'CSweepObj' if f == 'sweepobj' else 'CSweepSpec'
            sm = r['sum'] if 'sum' in r else -1
            terms.append((ci, 0, '(%s %d%%nat %s %d%%nat %s %s)' % (
                ctor, c['i'], C.zlit(c['lo']), c['n'], C.coq_list([C.zlit(v) for v in c['others']]), C.zlit(sm))))
    return terms


HEADER = '''From Coq Require Import ZArith List. Import ListNotations.
From PV Require Import C06.Model. Open Scope Z_scope.'''


HEADER_TYPED = '''From Coq Require Import ZArith List. Import ListNotations.
From PV Require Import Lib.NumpyInt C06.Model C06.Typed. Open Scope Z_scope.'''


HEADER_X = '''From Coq Require Import ZArith List. Import ListNotations.
From PV Require Import Lib.NumpyInt C06.Strings C06.Model C06.Typed C06.Unwrap. Open Scope Z_scope.'''


def signature(tag, c, r, verdict):
    kind = c['f']
    conv = ''
    if kind == 'spec':
        A = c['args']
        conv = 'mjd=%s,run2d=%s' % ('array' if 'a' in A['mjd'] else 'scalar', 'str' if 'str' in A['run2d'] else ('array' if 'a' in A['run2d'] else 'int'))
    elif kind == 'sweepspec':
        conv = 'mjd=array'
    if kind in ('tobj', 'tspec'):
        conv = 'types=' + ('int64' if set(c['dts']) == {'int64'} else 'other-than-int64')
    if kind in ('objid', 'spec'):
        dts = sorted(set(v['dt'] for v in c['args'].values() if isinstance(v, dict) and v.get('dt') and v['dt'] != 'int64'))
        if dts:
            conv += ('' if not conv else ',') + 'array-types-other-than-int64'
    out = 'ok' if ('ok' in r or 'sum' in r) else r.get('err', '?')
    if c.get('forms'):
        return 'C06:%s:arg-form=%s:impl=%s:%s' % (kind, c['forms'], out, 'property' if verdict >= 2 else 'model')
    if c.get('args2') or c.get('ids2'):
        s2 = r.get('step2', {})
        return 'C06:%s:arrays-refilled-in-place:impl=%s/%s:%s' % (kind, out, 'ok' if 'ok' in s2 else s2.get('err', '-'),
                                                                  'property' if verdict >= 2 else 'model')
    if c.get('badtype'):
        return 'C06:%s:undocumented-id-type:impl=%s:%s' % (kind, out, 'property' if verdict >= 2 else 'model')
    if kind in ('objid', 'spec') and any(isinstance(v, dict) and v.get('layout') not in (None, 'native') for v in c['args'].values()):
        conv += ('' if not conv else ',') + 'array-layouts-other-than-native'
    if kind == 'specstr':
        # classify by the documented meaning of the string, not by the string
        import re as _re
        st = c['s']
        m = _re.fullmatch(r'v(\d+)_(\d+)_(\d+)', st, _re.ASCII)
        if m and not (5 <= int(m.group(1)) <= 6 and int(m.group(2)) <= 99 and int(m.group(3)) <= 99):
            return 'C06:spec:run2d-tag-out-of-documented-range:%s' % ('property' if verdict >= 2 else 'model')
        if m:
            conv = 'run2d-tag'
        elif st.startswith('v'):
            return 'C06:spec:run2d-tag-malformed:impl=%s:%s' % (out, 'property' if verdict >= 2 else 'model')
        else:
            conv = 'run2d-decimal-string'
    if kind in ('unobjstr', 'unspecstr'):
        conv = 'array-kind=' + ('S' if c.get('bytes') else 'U')
    return 'C06:%s:%s:impl=%s:%s' % (kind, conv, out, 'property' if verdict >= 2 else 'model')


def dtype_dist(calls):
    d = {}
    for _, c in calls:
        if c['f'] in ('objid', 'spec'):
            for v in c['args'].values():
                if isinstance(v, dict) and 'a' in v:
                    d[v.get('dt', 'int64')] = d.get(v.get('dt', 'int64'), 0) + 1
        elif c['f'] in ('tobj', 'tspec'):
            for dt in c['dts']:
                d['typed:' + dt] = d.get('typed:' + dt, 0) + 1
        elif c['f'] in ('unobj', 'unspec'):
            key = 'unwrap:' + (('bytes' if c.get('as_str') == 'bytes' else 'str') if c.get('as_str') else c.get('layout', 'native'))
            d[key] = d.get(key, 0) + 1
    return d


def correspond(ctx, proof_ok=True):
    ok, log = C.coq_make(['C06/Model.vo', 'C06/Typed.vo', 'C06/Unwrap.vo'])
    if not ok:
        raise RuntimeError('C06/Model.v / C06/Typed.v / C06/Unwrap.v do not build:\n' + log[-2000:])
    calls = gen_calls(ctx)
    n_old = len(calls)
    calls += gen_xcalls(ctx)
    calls += gen_form_calls(ctx)
    calls += gen_reuse_layout_calls(ctx)
    # run implementation in a few parallel batches
    nb = 8
    batches = [calls[i::nb] for i in range(nb)]
    outs = C.run_impl_parallel('c06_impl.py', [[c for _, c in b] for b in batches])
    results = [None] * len(calls)
    for bi, o in enumerate(outs):
        for k, r in enumerate(o['results']):
            results[bi + k * nb] = r
    default_sky = outs[0]['default_skyversion']
    ctx.coverage['pydl_file'] = outs[0]['pydl_file']
    terms = case_terms(calls, results, default_sky)
    xterms = xcase_terms(calls, results)
    cc = C.CoqCases(ctx.work, HEADER, 'run_cases', shard=250)
    heavy = [k for k, (_, _, t) in enumerate(terms) if t.startswith('(CSweep')]
    typed = [k for k, (_, _, t) in enumerate(terms) if t.startswith('(CT')]
    light = [k for k in range(len(terms)) if k not in set(heavy) and k not in set(typed)]
    verdicts = [None] * len(terms)
    ct = C.CoqCases(ctx.work, HEADER_TYPED, 'run_tcases', shard=400)
    for k, v in zip(typed, ct.run([terms[k][2] for k in typed], tag='typed')):
        verdicts[k] = v
    for k, v in zip(light, cc.run([terms[k][2] for k in light], tag='cases')):
        verdicts[k] = v
    cc.shard = 1   # one sweep per coqc process
    for k, v in zip(heavy, cc.run([terms[k][2] for k in heavy], tag='sweeps')):
        verdicts[k] = v
    cx = C.CoqCases(ctx.work, HEADER_X, 'run_xcases', shard=250)
    xverdicts = cx.run([t for _, _, t in xterms], tag='xcases')
    ctx.coverage['coq_eval_s'] = round(cc.coq_seconds + ct.coq_seconds + cx.coq_seconds, 1)
    ctx.coverage['coq_eval_parts_s'] = {'cases+sweeps': round(cc.coq_seconds, 1), 'typed': round(ct.coq_seconds, 1), 'round5': round(cx.coq_seconds, 1)}
    terms = terms + xterms
    verdicts = verdicts + xverdicts

    # direct checks on the real code (behavioural statement of the property)
    direct_bad = []
    for ci, ((tag, c), r) in enumerate(zip(calls, results)):
        if c['f'] in ('sweepobj', 'sweepspec') and 'sum' in r and not r['roundtrip']:
            direct_bad.append((ci, 'unwrap(pack(fields)) != fields somewhere in sweep' + (': %s' % r['roundtrip_counterexample'] if r.get('roundtrip_counterexample') else '')))
    # storage types: result dtype of the packers, record dtypes of the unwrappers (documented, and as read from the source)
    tinfo = T.generate(C.REPO)[1]
    gen_dt = generated_dtypes(tinfo)
    dtype_bad = {}
    for ci, ((tag, c), r) in enumerate(zip(calls, results)):
        f = c['f']
        want = {'objid': 'int64', 'tobj': 'int64', 'spec': 'uint64', 'tspec': 'uint64', 'specstr': 'uint64'}.get(f)
        if want and 'ok' in r and r.get('dtype') != want:
            dtype_bad.setdefault(('result-dtype', f, r.get('dtype'), True), ci)
        if f in ('unobj', 'unspec') and 'dtypes' in r:
            for mode, got in r['dtypes'].items():
                if got != DOC_DTYPES[f][mode]:
                    dtype_bad.setdefault(('record-dtype', f, mode, True), ci)
                if gen_dt is not None and got != gen_dt[f][mode]:
                    dtype_bad.setdefault(('record-dtype-vs-generated', f, mode, False), ci)
    dist = {}
    swept = 0
    for (tag, c), r in zip(calls, results):
        k = tag.split('-')[0] + ':' + ('ok' if ('ok' in r or 'sum' in r) else r.get('err', '?'))
        dist[k] = dist.get(k, 0) + 1
        if 'n' in r:
            swept += r['n']
    bad = [(ci, j, t, v) for (ci, j, t), v in zip(terms, verdicts) if v != 0]
    ctx.coverage.update({
        'evaluations': len(terms) + swept,
        'distinct_nontrivial': len(set(t for _, _, t in terms)),
        'rule': 'one evaluation = one call of sdss_objid/sdss_specobjid/unwrap_* compared with the Coq model (generated '
                'expressions + glue) and with the documented-layout spec; sweep cases add one evaluation per swept value '
                '(compared through a checksum of all IDs and a real unwrap(pack()) round trip); distinct = distinct Coq case terms',
        'cases_by_kind_and_outcome': dist,
        'swept_values': swept,
        'array_argument_types': dtype_dist(calls),
        'round5_cases': {'xcases': len(xterms), 'families': {k: v for k, v in dist.items() if k.split(':')[0] in
                                                             ('unobjstr', 'unspecstr', 'specstr')}},
        'generated_glue': {k: tinfo.get(k) for k in ('objid_glue', 'run2d_tag', 'unwrap_objid_dtype', 'unwrap_spec_dtype_string')},
        'model_disagreements': sum(1 for b in bad if b[3] & 1),
        'spec_violations': sum(1 for b in bad if b[3] & 2),
        'samples': [{'call': calls[ci][1], 'impl': results[ci], 'coq_case': t[:300]} for ci, j, t in terms[:3]] +
                   [{'call': calls[-1][1], 'impl': results[-1]}],
    })
    seen = set()
    for ci, j, t, v in bad:
        tag, c = calls[ci]
        sig = signature(tag, c, results[ci], v)
        if sig in seen:
            continue
        seen.add(sig)
        if v & 2:
            ctx.violation(sig, 'implementation contradicts the documented layout/rejection rule on %s' % tag,
                          {'kind': 'failing-input', 'call': c, 'sub_index': j, 'impl_result': results[ci],
                           'coq_case': t, 'verdict': v,
                           'meaning': 'verdict bit 2: impl output differs from the documented-layout spec (certified by C06_*_layout / *_checks_are_documented); bit 1: model differs from impl'},
                          True)
        else:
            ctx.violation(sig, 'model and implementation disagree on %s (spec checker could not decide or accepts)' % tag,
                          {'kind': 'broken-correspondence', 'item': 'C06.Model.run_case', 'call': c, 'impl_result': results[ci],
                           'coq_case': t, 'verdict': v}, False)
    forms_seen = {}
    for ci, ((tag, c), r) in enumerate(zip(calls, results)):
        if c.get('forms'):
            k_ = '%s:%s:%s' % (c['f'], c['forms'], 'ok' if 'ok' in r else r.get('err', '?'))
            forms_seen[k_] = forms_seen.get(k_, 0) + 1
        if r.get('first_result_changed'):
            direct_bad.append((ci, 'aliasing: the result of the first call changed when the caller refilled its argument arrays in place / called again'))
        if r.get('shape_differs'):
            direct_bad.append((ci, 'shape: the record array does not have the shape of the ID array (%s)' % r['shape_differs']))
        if c.get('badtype'):
            if 'ok' in r:
                ctx.violation('C06:%s:undocumented-id-type:accepted' % c['f'],
                              'an ID array of type %s is unwrapped although the source model (input-type dispatch) says ValueError' % c['dt'],
                              {'kind': 'broken-correspondence', 'item': 'Generated.SdssIds.unwrap_*_intype', 'call': c, 'impl_result': r}, False)
            elif r.get('err') != 'ValueError':
                ctx.violation('C06:%s:undocumented-id-type:impl=%s' % (c['f'], r.get('err')),
                              'an ID array of type %s is rejected with %s instead of ValueError' % (c['dt'], r.get('err')),
                              {'kind': 'broken-correspondence', 'item': 'error class of the input-type dispatch', 'call': c, 'impl_result': r}, False)
        if (c.get('args2') or (c.get('ids2') and c.get('layout') != 'readonly')) and 'ok' in r and 'step2' not in r:
            direct_bad.append((ci, 'second step missing'))
    ctx.coverage['round6'] = {'scalar_forms_by_function_class_outcome': forms_seen,
                              'families': {k: v for k, v in dist.items() if k.split(':')[0] in ('forms', 'reuse', 'layout', 'unobj', 'unspec')},
                              'scalar_handling_read_from_source': tinfo.get('scalar_handling')}
    for ci, ((tag, c), r) in enumerate(zip(calls, results)):
        if r.get('inputs_modified') or 'repeat_differs' in r:
            direct_bad.append((ci, 'array call modifies its arguments / a second call with the same arrays differs (%s; repeat: %s)'
                               % (r.get('inputs_modified'), r.get('repeat_differs'))))
    for (what, f, detail, prop), ci in dtype_bad.items():
        tag, c = calls[ci]
        r = results[ci]
        if prop:
            ctx.violation('C06:%s:%s:%s' % (f, what, detail),
                          'storage type differs from the documented one (%s of %s: %s)' % (what, f, r.get('dtype') or r.get('dtypes')),
                          {'kind': 'failing-input', 'call': c, 'impl_result': r, 'documented': want_doc(f)}, True)
        else:
            ctx.violation('C06:%s:%s:%s' % (f, what, detail),
                          'record dtype reported by the implementation differs from the one the translator read from the source',
                          {'kind': 'broken-correspondence', 'item': 'Generated.SdssIds.unwrap_*_record', 'call': c, 'impl_result': r,
                           'generated': gen_dt[f]}, False)
    for ci, why in direct_bad:
        tag, c = calls[ci]
        ctx.violation('C06:%s:%s' % (c['f'], 'inputs-modified' if 'modifies' in why else ('result-aliases-arguments' if 'aliasing' in why else ('record-shape' if why.startswith('shape') else 'roundtrip'))), why, {'kind': 'failing-input', 'call': c, 'impl_result': results[ci]}, True)


def want_doc(f):
    return DOC_DTYPES.get(f) or {'objid': 'int64', 'tobj': 'int64'}.get(f, 'uint64')


def replay(ctx, rep):
    c = rep.get('call')
    if not c:
        print('replay file has no call (kind=%s, item=%s)' % (rep.get('kind'), rep.get('item')))
        return 2
    out = C.run_impl('c06_impl.py', [c])
    print('call   :', c)
    print('impl   :', out['results'][0])
    print('before :', rep.get('impl_result'))
    return 0
