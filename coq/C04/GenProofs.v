(* C04 -- the index arithmetic GENERATED from chunks.assign / getbounds / get (Generated/Chunks.v, rewritten on every run
   by translate/c04.py) is the arithmetic of the hand-written model (C04/Model.v): range ends of the reset and fill loops,
   the RA wrap, the validity test, the floor-binning expressions, the walk tests and their guards. *)
From Coq Require Import ZArith QArith Qround Bool List Lia.
From PV Require Import C04.Model Generated.Chunks.
Close Scope Q_scope. Open Scope Z_scope.

Lemma gen_ranges : forall lo hi,
  gen_reset_from lo hi = lo - 1 /\ gen_reset_to lo hi = hi + 1 + 1 /\
  gen_fill_from lo hi = lo - 0 /\ gen_fill_to lo hi = hi + 0 + 1.
Proof. intros. unfold gen_reset_from, gen_reset_to, gen_fill_from, gen_fill_to. lia. Qed.

Lemma gen_wrap_is_wrap : forall nra r, gen_reset_wrap nra r = wrap nra r /\ gen_fill_wrap nra r = wrap nra r.
Proof.
  intros. unfold gen_reset_wrap, gen_fill_wrap, wrap. rewrite Z.gtb_ltb. split; reflexivity.
Qed.

Lemma gen_valid_is_in_range : forall nra c, gen_reset_valid nra c = in_range nra c /\ gen_fill_valid nra c = in_range nra c.
Proof.
  intros. unfold gen_reset_valid, gen_fill_valid, in_range. rewrite Z.geb_leb. split; reflexivity.
Qed.

(* the cells visited by the generated loops are the model's row_cells *)
Lemma gen_rows : forall nRa d lo hi,
  row_cells nRa 1 d lo hi =
    flat_map (fun r => let c := gen_reset_wrap (nRa d) r in if gen_reset_valid (nRa d) c then (d, c) :: nil else nil)
             (zrange (gen_reset_from lo hi) (Z.to_nat (gen_reset_to lo hi - gen_reset_from lo hi))) /\
  row_cells nRa 0 d lo hi =
    flat_map (fun r => let c := gen_fill_wrap (nRa d) r in if gen_fill_valid (nRa d) c then (d, c) :: nil else nil)
             (zrange (gen_fill_from lo hi) (Z.to_nat (gen_fill_to lo hi - gen_fill_from lo hi))).
Proof.
  intros. destruct (gen_ranges lo hi) as [R1 [R2 [R3 R4]]]. rewrite R1, R2, R3, R4. unfold row_cells. split.
  - apply List.flat_map_ext. intro r. cbv zeta.
    rewrite (proj1 (gen_wrap_is_wrap (nRa d) r)), (proj1 (gen_valid_is_in_range (nRa d) (wrap (nRa d) r))). reflexivity.
  - apply List.flat_map_ext. intro r. cbv zeta.
    rewrite (proj2 (gen_wrap_is_wrap (nRa d) r)), (proj2 (gen_valid_is_in_range (nRa d) (wrap (nRa d) r))). reflexivity.
Qed.

Lemma gen_index_is_cell_index : forall x lo hi n,
  gen_gb_dec_index x lo hi (inject_Z (Z.of_nat n)) = cell_index x lo hi n /\
  gen_gb_ra_index x lo hi (inject_Z (Z.of_nat n)) = cell_index x lo hi n /\
  gen_get_dec_index x lo hi (inject_Z (Z.of_nat n)) = cell_index x lo hi n /\
  gen_get_ra_index x lo hi (inject_Z (Z.of_nat n)) = cell_index x lo hi n.
Proof. intros. repeat split; reflexivity. Qed.

(* the walks of the model, unfolded one step, are the generated tests under the generated guards *)
Lemma gen_walk_steps : forall B x m,
  (forall c, dec_down B x m (S c) = if gen_dec_down_test x (qbnd B (S c)) m && gen_dec_down_guard (Z.of_nat (S c)) 0
                                     then dec_down B x m c else S c) /\
  (forall nDec f c, dec_up B x m nDec (S f) c =
                    if gen_dec_up_test x (qbnd B (S c)) m && gen_dec_up_guard (Z.of_nat c) (Z.of_nat nDec)
                    then dec_up B x m nDec f (S c) else c) /\
  (forall c, ra_down B x m (S c) = if gen_ra_down_test x (qbnd B (S c)) m then ra_down B x m c else Z.of_nat (S c)) /\
  (forall n f c, ra_up B x m n (S f) c = if (c <? n)%nat && gen_ra_up_test x (qbnd B (S c)) m then ra_up B x m n f (S c) else Z.of_nat c).
Proof.
  intros B x m. split; [|split; [|split]]; intros.
  - cbn [dec_down]. unfold gen_dec_down_test, gen_dec_down_guard.
    assert (E : (Z.of_nat (S c) >? 0) = true) by (apply Z.gtb_lt; lia). rewrite E, andb_true_r. reflexivity.
  - cbn [dec_up]. unfold gen_dec_up_test, gen_dec_up_guard.
    assert (E : (S c <? nDec)%nat = (Z.of_nat c <? Z.of_nat nDec - 1)).
    { destruct (S c <? nDec)%nat eqn:E1; symmetry.
      - apply Nat.ltb_lt in E1. apply Z.ltb_lt. lia.
      - apply Nat.ltb_ge in E1. apply Z.ltb_ge. lia. }
    rewrite E. reflexivity.
  - reflexivity.
  - reflexivity.
Qed.

Theorem generated_index_arithmetic :
  chunks_recognised = true /\
  (forall nRa d lo hi,
     row_cells nRa 1 d lo hi =
       flat_map (fun r => let c := gen_reset_wrap (nRa d) r in if gen_reset_valid (nRa d) c then (d, c) :: nil else nil)
                (zrange (gen_reset_from lo hi) (Z.to_nat (gen_reset_to lo hi - gen_reset_from lo hi))) /\
     row_cells nRa 0 d lo hi =
       flat_map (fun r => let c := gen_fill_wrap (nRa d) r in if gen_fill_valid (nRa d) c then (d, c) :: nil else nil)
                (zrange (gen_fill_from lo hi) (Z.to_nat (gen_fill_to lo hi - gen_fill_from lo hi)))) /\
  (forall x lo hi n,
     gen_gb_dec_index x lo hi (inject_Z (Z.of_nat n)) = cell_index x lo hi n /\
     gen_gb_ra_index x lo hi (inject_Z (Z.of_nat n)) = cell_index x lo hi n /\
     gen_get_dec_index x lo hi (inject_Z (Z.of_nat n)) = cell_index x lo hi n /\
     gen_get_ra_index x lo hi (inject_Z (Z.of_nat n)) = cell_index x lo hi n) /\
  (forall B x m,
     (forall c, dec_down B x m (S c) = if gen_dec_down_test x (qbnd B (S c)) m && gen_dec_down_guard (Z.of_nat (S c)) 0
                                        then dec_down B x m c else S c) /\
     (forall nDec f c, dec_up B x m nDec (S f) c =
                       if gen_dec_up_test x (qbnd B (S c)) m && gen_dec_up_guard (Z.of_nat c) (Z.of_nat nDec)
                       then dec_up B x m nDec f (S c) else c) /\
     (forall c, ra_down B x m (S c) = if gen_ra_down_test x (qbnd B (S c)) m then ra_down B x m c else Z.of_nat (S c)) /\
     (forall n f c, ra_up B x m n (S f) c = if (c <? n)%nat && gen_ra_up_test x (qbnd B (S c)) m then ra_up B x m n f (S c) else Z.of_nat c)).
Proof.
  split; [reflexivity|]. split; [exact gen_rows|]. split; [exact gen_index_is_cell_index|exact gen_walk_steps].
Qed.
