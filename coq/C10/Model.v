(* C10 -- correspondence cases: iterfit on several permutations of one input against the documented
   procedure (BSpline/Iter.v: iter_loop with the checked least-squares solve).  Definitions only. *)
From Coq Require Import QArith Qround Qabs List Bool Arith ZArith Lia.
Import ListNotations.
From PV Require Import Lib.WLS BSpline.Eval BSpline.Fit BSpline.Iter.
Open Scope Q_scope.

Definition rtol6 : Q := 1 # 1000000.

(* one call of iterfit: the data in the order given to it, numpy's argsort of the abscissae, and what came
   back: sset.breakpoints, the returned mask (caller order), sset.value(grid)[0], and sset.value(x)[0] for the caller's own
   abscissae x IN THE CALLER'S ORDER (r_cx: entry j belongs to datum j of r_ds) *)
Record run := mkRun {
  r_ds : list datum; r_perm : list nat; r_bk : list Q; r_mask : list bool; r_curve : list Q; r_cx : list Q }.

(* the fitted curve at the caller's abscissae, caller's order: pointwise the spline of the model coefficients *)
Definition curve_at_callers_x (gb : list Q) (k : nat) (c0 : list Q) (r : run) : bool :=
  (length (r_cx r) =? length (r_ds r))%nat &&
  all2 (close_rel rtol6) (r_cx r) (map (fun d => eval1 gb k c0 (dx d)) (r_ds r)).

Inductive case :=
| CIter (maxiter : nat) (lower upper : Q) (k : nat) (grid : list Q) (runs : list run).

Definition datum_eqb (a b : datum) : bool :=
  Qeq_bool (dx a) (dx b) && Qeq_bool (dy a) (dy b) && Qeq_bool (dw a) (dw b).

(* is any rejection decision of the documented procedure within 2e-6 (relative) of its threshold? *)
Definition near (thr2 v : Q) : bool :=
  (Qle_bool (thr2 * (1 - (2 # 1000000))) v && Qle_bool v (thr2 * (1 + (2 # 1000000))))
  || (Qeq_bool thr2 0 && Qle_bool v (1 # 1000000000000000000)).   (* limit 0: the sign of a residual of rounding size *)
Definition borderline1 (lower upper : Q) (d : datum) (f : Q) (m : bool) : bool :=
  let diff := dy d - f in
  m && (near (upper * upper) (diff * diff * dw d) || near (lower * lower) (diff * diff * dw d)).
Fixpoint borderline (sv : solver) (fuel : nat) (gb : list Q) (k : nat) (lower upper : Q) (ds : list datum) (mask : list bool) : bool :=
  match fuel with
  | O => false
  | S f =>
      match fit_masked sv gb k ds mask with
      | None => false
      | Some c =>
          let yf := yfit_of gb k c (map dx ds) in
          let mask' := reject lower upper ds yf mask in
          existsb (fun p => borderline1 lower upper (fst (fst p)) (snd (fst p)) (snd p)) (combine (combine ds yf) mask)
          || (if mask_eqb mask' mask || (f =? 0)%nat then false else borderline sv f gb k lower upper ds mask')
      end
  end.

(* verdict: 0 ok; 2 = the implementation's curve/mask differ from the documented procedure (the model IS the
   specification here); 1 = the harness's data are inconsistent (perm does not sort, runs differ in content);
   4 = the model could not solve a fit (ill-posed after rejection: outside C10); 8 = a decision is borderline *)
Definition run_case (c : case) : Z :=
  match c with
  | CIter maxiter lower upper k grid runs =>
      match runs with
      | [] => 1%Z
      | r0 :: _ =>
          let gb := r_bk r0 in
          let sorted := apply_perm d0 (r_perm r0) (r_ds r0) in
          let wf := forallb (fun r => is_perm (r_perm r) (length (r_ds r))
                                      && all2 datum_eqb (apply_perm d0 (r_perm r) (r_ds r)) sorted
                                      && all2 Qeq_bool (r_bk r) gb) runs
                    && strictly_sorted (map dx sorted) in
          if negb wf then 1%Z else
          (* fewer good points than the order: iterfit gives up before any fit (Iter.iterfit_guarded_with); what is claimed
             of the result is the mask -- (invvar > 0) in the caller's order.  With nord or more good points (also EXACTLY
             nord) the documented procedure applies. *)
          if (ngood (initial_mask sorted) <? k)%nat then
            (if forallb (fun r => all2 Bool.eqb (r_mask r) (unsort false (r_perm r) (initial_mask sorted))) runs then 0%Z else 2%Z)
          else
          match iter_loop fit_fast (S maxiter) gb k lower upper sorted (initial_mask sorted) with
          | None => 4%Z
          | Some (c0, mw) =>
              let curve := map (eval1 gb k c0) grid in
              if forallb (fun r => all2 Bool.eqb (r_mask r) (unsort false (r_perm r) mw)
                                   && all2 (close_rel rtol6) (r_curve r) curve
                                   && curve_at_callers_x gb k c0 r) runs
              then 0%Z
              else if borderline fit_fast (S maxiter) gb k lower upper sorted (initial_mask sorted) then 8%Z else 2%Z
          end
      end
  end.

Definition run_cases : list case -> list Z := map run_case.

(* replay aid: the model's sorted mask, number of rejected points, and per run (mask ok, curve ok on the grid and at the caller's x) *)
Definition diagnose (c : case) : option (list bool * list (bool * bool)) :=
  match c with
  | CIter maxiter lower upper k grid runs =>
      match runs with
      | [] => None
      | r0 :: _ =>
          let gb := r_bk r0 in
          let sorted := apply_perm d0 (r_perm r0) (r_ds r0) in
          match iter_loop fit_fast (S maxiter) gb k lower upper sorted (initial_mask sorted) with
          | None => None
          | Some (c0, mw) =>
              Some (mw, map (fun r => (all2 Bool.eqb (r_mask r) (unsort false (r_perm r) mw),
                                       all2 (close_rel rtol6) (r_curve r) (map (eval1 gb k c0) grid)
                                       && curve_at_callers_x gb k c0 r)) runs)
          end
      end
  end.
