"""Runs the trace-set code of the repository under test on a list of calls (stdin JSON -> stdout JSON).

Calls:
  basis : flegendre / fchebyshev / fpoly / fchebyshev_split on an array, Python float / Python int / numpy float64 scalars
  fit   : func_fit(x, y, ncoeff, invvar=, function_name=, ia=, inputans=, inputfunc=)
  trace : xy2traceset(xpos, ypos, ...) then traceset2xy(tset, xpos) and traceset2xy(tset)
  eval  : TraceSet(FITS_rec) built from given coefficients, then traceset2xy(tset, xpos or None, ignore_jump)
  history : ONE TraceSet object (built as in trace / eval) driven through a list of operations -- evaluate, modify
            the returned arrays in place, move xmin/xmax, rescale the coefficients, evaluate again; every evaluation
            is compared with the same evaluation on a pristine deep copy to which only the attribute changes were
            applied (history independence)
Generic guards on every call: every ndarray argument is compared bit for bit with a copy taken before the call
(`args_changed`); input classes: float64 (default), integer y / ypos (i4, i8) and all-float32 problems (`ydtype`, `xdtype`),
for which the float64 result of the same call is returned as `ref`.
Floats travel as JSON numbers (repr round trip is exact); non-finite results are reported as 'nonfinite'.
"""
import copy
import json
import math
import sys
import warnings

import os
import pickle

import numpy as np
from astropy.io import fits as _fits


def global_state():
    """process-global settings a library must leave alone"""
    from astropy.config import ConfigItem
    conf = {k: repr(getattr(_fits.conf, k)) for k, v in vars(type(_fits.conf)).items() if isinstance(v, ConfigItem)}
    return {'np.geterr': dict(np.geterr()), 'np.printoptions': {k: repr(v) for k, v in np.get_printoptions().items()},
            'astropy.io.fits.conf': conf, 'os.environ': dict(os.environ)}


def state_diff(a, b):
    out = []
    for k in a:
        if a[k] != b[k]:
            keys = sorted(set(a[k]) | set(b[k]))
            out.append({'what': k, 'changed': {x: [a[k].get(x), b[k].get(x)] for x in keys if a[k].get(x) != b[k].get(x)}})
    return out


STATE0 = global_state()
import pydl  # noqa: E402
from pydl.goddard.math import flegendre
from pydl.pydlutils.trace import (fchebyshev, fchebyshev_split, fpoly, func_fit, TraceSet,
                                  traceset2xy, xy2traceset)

BASIS = {'legendre': flegendre, 'chebyshev': fchebyshev, 'poly': fpoly, 'chebyshev_split': fchebyshev_split}


def err(e):
    return {'err': type(e).__name__, 'msg': str(e)[:160]}


def arr(a, dtype='d'):
    return None if a is None else np.array(a, dtype=dtype)


def mask_arr(m, dtype='bool'):
    """a True/False mask in the storage type `dtype` (bool, i1..i8, u1, f4, f8: 1 = use the point, 0 = reject it)"""
    return np.array(m, dtype=bool).astype(dtype)


BOOL_TOKENS = {'False': False, '0': 0, 'None': None, 'True': True, '1': 1, 'npFalse': np.bool_(False), 'npTrue': np.bool_(True)}


def layout(a, how):
    """the same 2-D array (values, dtype, shape) in another memory layout"""
    if a is None or how in (None, 'C') or not isinstance(a, np.ndarray) or a.ndim != 2:
        return a
    if how == 'F':
        return np.asfortranarray(a)
    if how == 'T':
        return np.ascontiguousarray(a.T).T
    if how == 'strided':
        big = np.zeros((a.shape[0], 2 * a.shape[1] + 1), dtype=a.dtype)
        big[:, 1::2] = a
        return big[:, 1::2]
    if how == 'rev':
        return np.ascontiguousarray(a[:, ::-1])[:, ::-1]
    if how == 'revrows':
        return np.ascontiguousarray(a[::-1, :])[::-1, :]
    raise ValueError(how)


def tolist(a):
    a = np.asarray(a, dtype='d')
    return a.tolist()


def finite(*arrays):
    return all(np.all(np.isfinite(np.asarray(a, dtype='d'))) for a in arrays)


class Guard(object):
    """bit-exact snapshot of caller-owned arrays"""

    def __init__(self, **arrays):
        self.live = {k: v for k, v in arrays.items() if isinstance(v, np.ndarray)}
        self.snap = {k: (v.dtype, v.shape, v.tobytes()) for k, v in self.live.items()}

    def changed(self):
        return sorted(k for k, v in self.live.items() if (v.dtype, v.shape, v.tobytes()) != self.snap[k])


def same(a, b):
    a, b = np.asarray(a), np.asarray(b)
    return a.shape == b.shape and bool(np.array_equal(a, b))


def make_fits_rec(c):
    from astropy.io import fits
    coeff = np.array(c['coeff'], dtype='d')
    nt, nc = coeff.shape
    cols = [fits.Column(name='FUNC', format='16A', array=np.array([c['func']])),
            fits.Column(name='XMIN', format='D', array=np.array([c['xmin']], dtype='d')),
            fits.Column(name='XMAX', format='D', array=np.array([c['xmax']], dtype='d')),
            fits.Column(name='COEFF', format='%dD' % (nt * nc), dim='(%d,%d)' % (nc, nt),
                        array=coeff.reshape(1, nt, nc))]
    if c.get('jump') is not None:
        lo, hi, val = c['jump']
        cols += [fits.Column(name='XJUMPLO', format='D', array=np.array([lo], dtype='d')),
                 fits.Column(name='XJUMPHI', format='D', array=np.array([hi], dtype='d')),
                 fits.Column(name='XJUMPVAL', format='D', array=np.array([val], dtype='d'))]
    hdu = fits.BinTableHDU.from_columns(cols)
    return hdu.data


def build_traceset(mk):
    if mk['f'] == 'eval':
        return TraceSet(make_fits_rec(mk))
    kw = {'func': mk['func'], 'ncoeff': mk['ncoeff']}
    if mk.get('ivar') is not None:
        kw['invvar'] = arr(mk['ivar'], mk.get('ivdtype', 'd'))
    if mk.get('inmask') is not None:
        kw['inmask'] = mask_arr(mk['inmask'], mk.get('mdtype', 'bool'))
    if mk.get('xmin') is not None:
        kw['xmin'] = mk['xmin']
    if mk.get('xmax') is not None:
        kw['xmax'] = mk['xmax']
    if mk.get('jump') is not None:
        kw['xjumplo'], kw['xjumphi'], kw['xjumpval'] = mk['jump']
    return xy2traceset(arr(mk['xpos']), arr(mk['ypos']), **kw)


def apply_state_op(t, op):
    """attribute changes a caller may make on a trace set"""
    if op['op'] == 'shift':
        t.xmin = t.xmin + op['dxmin']
        t.xmax = t.xmax + op['dxmax']
    elif op['op'] == 'scalecoeff':
        t.coeff = t.coeff * op['factor']
    else:
        raise ValueError(op['op'])


def history(c):
    """one object, many calls; every evaluation is compared with the evaluation on a pristine copy that only saw the
    attribute changes"""
    obj = build_traceset(c['make'])
    pristine = copy.deepcopy(obj)
    state_ops = []
    last = None
    evals = []
    for i, op in enumerate(c['ops']):
        if op['op'] == 'xy':
            xp = arr(op.get('xpos'))
            g = Guard(xpos=xp)
            x, y = obj.xy(xp, ignore_jump=bool(op.get('ignore_jump')))
            fresh = copy.deepcopy(pristine)
            for so in state_ops:
                apply_state_op(fresh, so)
            xr, yr = fresh.xy(arr(op.get('xpos')), ignore_jump=bool(op.get('ignore_jump')))
            xmin, xmax = float(obj.xmin), float(obj.xmax)
            rec = {'index': i, 'x': tolist(x), 'y': tolist(y), 'xmin': xmin, 'xmax': xmax,
                   'independent': same(x, xr) and same(y, yr), 'args_changed': g.changed(),
                   'finite': finite(x, y)}
            if op.get('xpos') is None:
                nx = int(math.floor(xmax - xmin + 1))
                rec['grid_ok'] = bool(x.shape == (obj.nTrace, nx) and
                                      all(np.array_equal(row, xmin + np.arange(nx)) for row in x))
            evals.append(rec)
            last = (x, y)
        elif op['op'] == 'mutate':
            # the caller edits, in place, the arrays the previous evaluation returned
            if last is not None:
                if op['what'] in ('x', 'both') and op.get('own_x', True):
                    last[0][...] = last[0] + op['delta']
                if op['what'] in ('y', 'both'):
                    last[1][...] = last[1] + op['delta']
        else:
            apply_state_op(obj, op)
            state_ops.append(op)
    return {'ok': {'evals': evals, 'coeff': tolist(obj.coeff), 'xmin': float(obj.xmin), 'xmax': float(obj.xmax)}}


def call(c):
    f = c['f']
    try:
        with warnings.catch_warnings():
            warnings.simplefilter('ignore')
            if f == 'basis':
                fn = BASIS[c['func']]
                m = c['m']
                if c['mode'] == 'array':
                    xa = np.array(c['xs'], dtype=c.get('xdtype', 'd'))
                    g = Guard(x=xa)
                    r = fn(xa, m)
                    if g.changed():
                        return {'err': 'ArgumentModified'}
                    out = r
                else:
                    conv = {'scalar': float, 'npscalar': np.float64, 'pyint': int, 'npint64': np.int64, 'npint32': np.int32,
                            'npfloat32': np.float32, 'zerodim': lambda v: np.array(v, dtype='d')}[c['mode']]
                    colsr = [fn(conv(x), m) for x in c['xs']]
                    if not all(col.shape == (m, 1) for col in colsr):
                        return {'err': 'Shape', 'msg': str([col.shape for col in colsr])}
                    out = np.hstack(colsr)
                if out.shape != (m, len(c['xs'])):
                    return {'err': 'Shape', 'msg': str(out.shape)}
                if not finite(out):
                    return {'err': 'nonfinite'}
                return {'ok': tolist(out), 'dtype': str(out.dtype)}
            if f == 'fit':
                kw = {}
                if c.get('w') is not None:
                    kw['invvar'] = arr(c['w'])
                if c.get('ia') is not None:
                    kw['ia'] = np.array(c['ia'], dtype=bool)
                if c.get('ans') is not None:
                    kw['inputans'] = arr(c['ans'])
                if c.get('ifunc') is not None:
                    kw['inputfunc'] = arr(c['ifunc'])
                xdt, ydt = c.get('xdtype', 'd'), c.get('ydtype', 'd')
                kwdt = c.get('kwdtype', xdt if xdt.startswith('f') else 'd')
                if kwdt != 'd':
                    kw = {k: (v.astype(kwdt) if v.dtype.kind == 'f' else v) for k, v in kw.items()}
                x = arr(c['x'], xdt)
                y = arr(c['y'], ydt)
                g = Guard(x=x, y=y, **kw)
                ncv = {'npint64': np.int64, 'npint32': np.int32}.get(c.get('nctype'), int)(c['ncoeff'])
                res, yfit = func_fit(x, y, ncv, function_name=c.get('fname', c['func']), **kw)
                changed = g.changed()
                # the same call again (fresh result arrays): modifying the first result must not matter
                r1, f1 = res.copy(), yfit.copy()
                res += 1
                yfit += 1
                res2, yfit2 = func_fit(x, y, c['ncoeff'], function_name=c.get('fname', c['func']), **kw)
                repeatable = same(res2, r1) and same(yfit2, f1)
                res, yfit = r1, f1
                if not finite(res, yfit):
                    return {'err': 'nonfinite'}
                out = {'ok': {'res': tolist(res), 'yfit': tolist(yfit)}, 'args_changed': changed, 'repeatable': repeatable,
                       'res_dtype': str(res.dtype)}
                if xdt != 'd' or ydt != 'd':
                    kw64 = {k: (v.astype('d') if v.dtype.kind == 'f' else v) for k, v in kw.items()}
                    rr, ff = func_fit(arr(c['x']), arr(c['y']), c['ncoeff'], function_name=c.get('fname', c['func']), **kw64)
                    out['ref'] = {'res': tolist(rr), 'yfit': tolist(ff)}
                return out
            if f == 'trace':
                kw = {'func': c['func'], 'ncoeff': c['ncoeff']}
                for k in c.get('omit', []):       # keywords left to their defaults
                    del kw[k]
                if c.get('maxiter') is not None:
                    kw['maxiter'] = c['maxiter']
                if c.get('ivar') is not None:
                    kw['invvar'] = arr(c['ivar'], c.get('ivdtype', 'd'))
                if c.get('inmask') is not None:
                    kw['inmask'] = mask_arr(c['inmask'], c.get('mdtype', 'bool'))
                if c.get('xmin') is not None:
                    kw['xmin'] = c['xmin']
                if c.get('xmax') is not None:
                    kw['xmax'] = c['xmax']
                if c.get('jump') is not None:
                    kw['xjumplo'], kw['xjumphi'], kw['xjumpval'] = c['jump']
                lay = c.get('layout')
                kw = {k: layout(v, lay) for k, v in kw.items()}
                xpos = layout(arr(c['xpos'], c.get('xdtype', 'd')), lay)
                ypos = layout(arr(c['ypos'], c.get('ydtype', 'd')), lay)
                g = Guard(xpos=xpos, ypos=ypos, **{k: v for k, v in kw.items() if isinstance(v, np.ndarray)})
                tset = xy2traceset(xpos, ypos, **kw)
                x1, y1 = traceset2xy(tset, xpos)
                x2, y2 = traceset2xy(tset)
                changed = g.changed()
                out = {'coeff': tolist(tset.coeff), 'yfit': tolist(tset.yfit), 'xy_x': tolist(x1), 'xy_y': tolist(y1),
                       'grid_x': tolist(x2), 'grid_y': tolist(y2), 'xmin': float(tset.xmin), 'xmax': float(tset.xmax),
                       'nx': int(tset.nx), 'outmask_all': bool(np.all(tset.outmask)), 'args_changed': changed,
                       'outmask': [[bool(v) for v in row] for row in np.asarray(tset.outmask)],
                       'func': str(tset.func), 'ncoeff': int(tset.ncoeff)}
                if not finite(tset.coeff, tset.yfit, y1, y2, x2):
                    return {'err': 'nonfinite'}
                if c.get('jump') is not None:
                    x3, y3 = traceset2xy(tset, xpos, ignore_jump=True)
                    out['nojump_y'] = tolist(y3)
                if c.get('junk') is not None:
                    # the same problem with other data at the points of zero weight (invvar 0 or rejected by inmask)
                    yj = layout(arr(c['junk'], c.get('ydtype', 'd')), lay)
                    tj = xy2traceset(xpos, yj, **kw)
                    out['coeff_junk'] = tolist(tj.coeff)
                    out['junk_finite'] = finite(tj.coeff)
                return {'ok': out}
            if f == 'eval':
                rec = make_fits_rec(c)
                tset = TraceSet(rec)
                if c.get('derived') == 'pickle':
                    tset = pickle.loads(pickle.dumps(tset))
                elif c.get('derived') == 'deepcopy':
                    tset = copy.deepcopy(tset)
                xpos = layout(arr(c['xpos'], c.get('xdtype', 'd')), c.get('layout'))
                g = Guard(xpos=xpos)
                if c.get('ij_token') == 'omit':
                    x1, y1 = traceset2xy(tset, xpos)
                elif c.get('ij_token') is not None:
                    x1, y1 = traceset2xy(tset, xpos, ignore_jump=BOOL_TOKENS[c['ij_token']])
                else:
                    x1, y1 = traceset2xy(tset, xpos, ignore_jump=bool(c.get('ignore_jump')))
                if c.get('big_grid'):
                    # default grid too long to be sent out: checked here (xmin + k, floor(xmax - xmin + 1) columns), a sample returned
                    xmin, xmax = float(tset.xmin), float(tset.xmax)
                    nx = int(math.floor(xmax - xmin + 1))
                    okg = bool(x1.shape == (tset.nTrace, nx) and all(np.array_equal(row, xmin + np.arange(nx)) for row in x1))
                    idx = sorted(set([0, nx - 1] + [int(v) % nx for v in c['big_grid']]))
                    if not finite(x1, y1):
                        return {'err': 'nonfinite'}
                    return {'ok': {'big': True, 'grid_ok': okg, 'shape': list(x1.shape), 'want_nx': nx,
                                   'x': tolist(x1[:, idx]), 'y': tolist(y1[:, idx]), 'args_changed': []}}
                if not finite(x1, y1):
                    return {'err': 'nonfinite'}
                return {'ok': {'x': tolist(x1), 'y': tolist(y1), 'nx': int(tset.nx), 'has_jump': bool(tset.has_jump),
                               'args_changed': g.changed(),
                               'ntrace': int(tset.nTrace), 'ncoeff': int(tset.ncoeff), 'func': str(tset.func)}}
            if f == 'history':
                return history(c)
            if f == 'seq':
                # several calls one after the other in THIS process (class-/module-level state would be shared)
                return {'ok': {'results': [call(d) for d in c['calls']]}}
            return {'err': 'BadCall'}
    except Exception as e:  # noqa: BLE001 - the error class is the observation
        return err(e)


def main():
    calls = json.load(sys.stdin)
    state1 = global_state()
    out = {'pydl_file': pydl.__file__, 'results': [call(c) for c in calls]}
    out['globals_changed_by_import'] = state_diff(STATE0, state1)
    out['globals_changed_by_calls'] = state_diff(state1, global_state())
    json.dump(out, sys.stdout)


if __name__ == '__main__':
    main()
