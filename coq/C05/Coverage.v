(* C05 -- what is behind `pair_coverage`.

   chunks.assign enters point i into the list of every cell of cells_of i (its own cell and the neighbours within the
   margin); friendsoffriends visits the non-empty lists.  `pair_coverage` (every linked pair lies together in some
   list) follows from two facts about the assignment:
     home_assigned     every point is entered in the cell that contains it, and that cell is visited;
     margin_coverage   for a linked pair, the cell containing one of the two points is among the cells the OTHER point
                       is entered in (either way round: both points are in the same list, each with its own margin).
   The second is the content of C04's `coverage` with marginSize = linklength; its exact-arithmetic part away from the
   0/360 seam is C04.Bounds.coverage_exact_nowrap, instantiated below (margin_coverage_exact_nowrap). *)
From Coq Require Import ZArith QArith List Bool Arith Lia.
Import ListNotations.
From PV Require Import C05.Model C05.Algo C05.Full.
From PV Require C04.Model C04.Proofs C04.Bounds.
Close Scope Q_scope. Close Scope Z_scope. Open Scope nat_scope.

Definition nonempty (l : list nat) : bool := match l with [] => false | _ => true end.

Section Coverage.
  Variable cellid : Type.
  Variable ceqb : cellid -> cellid -> bool.
  Hypothesis ceqb_iff : forall a b, ceqb a b = true <-> a = b.
  Variable n : nat.
  Variable link : nat -> nat -> bool.
  Variable cells_of : nat -> list cellid.   (* the cells chunks.assign enters point i in *)
  Variable home : nat -> cellid.            (* the cell that contains point i *)
  Variable ids : list cellid.               (* all cells, in the order friendsoffriends visits them *)

  Definition cmem (k : cellid) (l : list cellid) : bool := existsb (ceqb k) l.
  (* chunkList[k]: assign appends the points in index order, each once (C04_assign_no_dup) *)
  Definition chunk_list (k : cellid) : list nat := filter (fun i => cmem k (cells_of i)) (seq 0 n).
  Definition assign_lists : list (list nat) := filter nonempty (map chunk_list ids).

  Definition home_assigned : Prop := forall i, i < n -> In (home i) (cells_of i) /\ In (home i) ids.
  Definition margin_coverage : Prop :=
    forall i j, i < n -> j < n -> link i j = true -> In (home j) (cells_of i) \/ In (home i) (cells_of j).

  Lemma cmem_In : forall k l, cmem k l = true <-> In k l.
  Proof.
    intros k l. unfold cmem. rewrite existsb_exists. split.
    - intros [x [Hx He]]. apply ceqb_iff in He. subst. exact Hx.
    - intro H. exists k. split; [exact H|apply ceqb_iff; reflexivity].
  Qed.

  Lemma In_chunk_list : forall k i, In i (chunk_list k) <-> i < n /\ In k (cells_of i).
  Proof.
    intros k i. unfold chunk_list. rewrite filter_In, in_seq, cmem_In. split; intros [A B]; split; auto; lia.
  Qed.

  Lemma assign_lists_valid : forall c a, In c assign_lists -> In a c -> a < n.
  Proof.
    intros c a Hc Ha. unfold assign_lists in Hc. apply filter_In in Hc. destruct Hc as [Hc _].
    apply in_map_iff in Hc. destruct Hc as [k [<- _]]. apply In_chunk_list in Ha. tauto.
  Qed.

  Theorem pair_coverage_of_margin : home_assigned -> margin_coverage -> pair_coverage n link assign_lists.
  Proof.
    intros Hh Hm i j Hi Hj Hl.
    assert (G : forall k, In k ids -> In k (cells_of i) -> In k (cells_of j) ->
                exists c, In c assign_lists /\ In i c /\ In j c).
    { intros k Hk Hki Hkj. exists (chunk_list k).
      assert (Ii : In i (chunk_list k)) by (apply In_chunk_list; auto).
      split; [|split; [exact Ii|apply In_chunk_list; auto]].
      unfold assign_lists. apply filter_In. split; [apply in_map; exact Hk|].
      destruct (chunk_list k); [contradiction|reflexivity]. }
    destruct (Hm i j Hi Hj Hl) as [H|H].
    - apply (G (home j)); [apply Hh; exact Hj|exact H|apply Hh; exact Hj].
    - apply (G (home i)); [apply Hh; exact Hi|apply Hh; exact Hi|exact H].
  Qed.

  (* the property, conditional on the two assignment facts only *)
  Theorem spheregroup_margin_spec :
    (forall a b, a < n -> b < n -> link a b = link b a) -> (forall a, a < n -> link a a = true) ->
    home_assigned -> margin_coverage ->
    spheregroup_full n link assign_lists = spec_output n link.
  Proof.
    intros Hs Hr Hh Hm. apply spheregroup_full_spec; auto.
    - exact assign_lists_valid.
    - apply pair_coverage_of_margin; assumption.
  Qed.
End Coverage.

(* ------------------------------------------------------------------ the exact-arithmetic part, away from the seam *)
(* Positions (ra_i + raOffset mod 360, dec_i) as exact rationals, the grid as data (decB, raB), marginSize m = linking
   length, mg i = raMargin of point i.  If the exact walks of getbounds succeed for every point, every point lies in a
   cell of the grid (its home), and for every linked pair the two margin inequalities hold one way round -- this is
   what C04_dec_margin_covers / C04_ra_margin_covers give over the reals -- then margin_coverage holds for the cells
   fill_cells returns. *)
Section Exact.
  Import C04.Model C04.Bounds.
  Variable n : nat.
  Variable link : nat -> nat -> bool.
  Variable decB : list Q.
  Variable raB : list (list Q).
  Variable ra dec : nat -> Q.
  Variable m : Q.
  Variable mg : nat -> Q.
  Variable b : nat -> bnd.
  Variable hs hr : nat -> nat.         (* home slice and home cell of point i *)

  Let nDec := (length decB - 1)%nat.
  Definition cells_of_exact (i : nat) : list cell := fill_cells (nRa_of_bounds raB) (b i).
  Definition home_exact (i : nat) : cell := (Z.of_nat (hs i), Z.of_nat (hr i)).

  Definition in_home (i : nat) : Prop :=
    (hs i < nDec)%nat /\ (qbnd decB (hs i) <= dec i <= qbnd decB (S (hs i)))%Q /\
    (hr i < length (nth (hs i) raB []) - 1)%nat /\
    (qbnd (nth (hs i) raB []) (hr i) <= ra i <= qbnd (nth (hs i) raB []) (S (hr i)))%Q.
  Definition within_margins (i j : nat) : Prop :=
    (dec i - dec j < m)%Q /\ (dec j - dec i < m)%Q /\ (ra i - ra j < mg i)%Q /\ (ra j - ra i < mg i)%Q.

  Hypothesis Hmd : mono decB nDec.
  Hypothesis Hmr : forall s, (s < nDec)%nat -> mono (nth s raB []) (length (nth s raB []) - 1).
  Hypothesis Hgb : forall i, (i < n)%nat -> getbounds_model decB raB (ra i) (dec i) m (mg i) = Some (b i).
  Hypothesis Hhome : forall i, (i < n)%nat -> in_home i.
  Hypothesis Hmargin : forall i j, (i < n)%nat -> (j < n)%nat -> link i j = true -> within_margins i j \/ within_margins j i.

  Theorem margin_coverage_exact_nowrap : margin_coverage cell n link cells_of_exact home_exact.
  Proof.
    intros i j Hi Hj Hl.
    assert (G : forall x y, (x < n)%nat -> (y < n)%nat -> within_margins x y -> In (home_exact y) (cells_of_exact x)).
    { intros x y Hx Hy (M1 & M2 & M3 & M4). destruct (Hhome y Hy) as (S1 & S2 & S3 & S4).
      unfold home_exact, cells_of_exact.
      apply (coverage_exact_nowrap decB raB (ra x) (dec x) m (mg x) (b x) (hs y) (hr y) (dec y) (ra y)); auto. }
    destruct (Hmargin i j Hi Hj Hl) as [H|H]; [left; apply G; assumption|right; apply G; assumption].
  Qed.

  Theorem home_assigned_exact_nowrap : forall ids, (forall i, (i < n)%nat -> In (home_exact i) ids) ->
    (forall i, (i < n)%nat -> (0 < m)%Q /\ (0 < mg i)%Q) ->
    home_assigned cell n cells_of_exact home_exact ids.
  Proof.
    intros ids Hids Hpos i Hi. split; [|apply Hids; exact Hi].
    destruct (Hhome i Hi) as (S1 & S2 & S3 & S4). destruct (Hpos i Hi) as [Pm Pg].
    unfold home_exact, cells_of_exact.
    apply (coverage_exact_nowrap decB raB (ra i) (dec i) m (mg i) (b i) (hs i) (hr i) (dec i) (ra i)); auto;
      try (setoid_replace (dec i - dec i)%Q with 0%Q by ring; exact Pm);
      try (setoid_replace (ra i - ra i)%Q with 0%Q by ring; exact Pg).
  Qed.
End Exact.
