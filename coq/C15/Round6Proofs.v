(* C15, round 6: completeness of the checked elimination on the systems the model solves.
   The C13 builder proved (C13/GJProofs.v, same LinAlg definitions) that Gauss-Jordan with the re-multiplication check
   answers on every square system with trivial kernel, hence `wls_solve` answers on every weighted least-squares
   problem of full column rank on the points of positive weight.  Imported read-only and instantiated on the data
   computechi2 / HMF.astep / HMF.gstep (no smoothing) hand to the solver. *)
From Coq Require Import QArith Qabs Lqa List Bool Lia ZArith.
From PV Require Import Lib.WLS C13.LinAlg C13.LinAlgProofs C13.GJProofs C15.Model C15.Chi2Proofs C15.HmfProofs.
Import ListNotations.
Open Scope Q_scope.

(* computechi2: a full-rank system (on the points with non-zero sqivar: the weight is sqivar^2) HAS coefficients in the
   model, and they are the global minimiser.  With C15_chi2_optimal this closes "for every full-rank system". *)
Theorem chi2_acoeff_total b sq A :
  rows_len (ncols A) A -> full_rank (ncols A) (cc_data A sq b) ->
  exists a, wls_solve (ncols A) (cc_data A sq b) = Some a /\ length a = ncols A /\
            forall z, length z = ncols A -> chi2 (cc_data A sq b) a <= chi2 (cc_data A sq b) z.
Proof. intros HA FR. apply wls_solve_total; [apply cc_data_wf; exact HA | exact FR]. Qed.

(* so the reference model can only decline a full-rank system through the covariance (inverse) branch *)
Theorem computechi2_ref_none_partial b sq A :
  rows_len (ncols A) A -> full_rank (ncols A) (cc_data A sq b) ->
  computechi2_ref b sq A = None -> inverse_checked (mred (normal_mat (ncols A) (cc_data A sq b))) = None.
Proof.
  intros HA FR H. destruct (chi2_acoeff_total b sq A HA FR) as [a [Ea _]].
  unfold computechi2_ref in H. unfold wls_solve in Ea. cbv zeta in H. rewrite Ea in H.
  destruct (inverse_checked _); [discriminate | reflexivity].
Qed.

Lemma opt_all_some {A : Type} (l : list (option A)) : Forall (fun o => exists v, o = Some v) l -> exists r, opt_all l = Some r.
Proof.
  induction l as [|o l IH]; intros H; [exists []; reflexivity|].
  pose proof (Forall_inv H) as [v Ev]. destruct (IH (Forall_inv_tail H)) as [r Er]. subst o.
  exists (v :: r). simpl. rewrite Er. reflexivity.
Qed.

Lemma Forall_map2_in {A B C : Type} (f : A -> B -> C) (P : C -> Prop) : forall (u : list A) (v : list B),
  (forall a b, In a u -> In b v -> P (f a b)) -> Forall P (map2 f u v).
Proof.
  induction u as [|a u IH]; intros [|b v] H; simpl; try constructor.
  - apply H; left; reflexivity.
  - apply IH. intros a' b' Ha Hb. apply H; right; assumption.
Qed.

(* HMF.astep: when every spectrum's row problem has full rank, the whole coefficient update exists in the model *)
Theorem astep_ref_total s w g :
  Forall (fun wi => Forall (fun v => 0 <= v) wi) w ->
  (forall si wi, In si s -> In wi w -> full_rank (length g) (hmf_row_data g wi si)) ->
  exists a', astep_ref s w g = Some a'.
Proof.
  intros Hw FR. unfold astep_ref. apply opt_all_some. apply Forall_map2_in.
  intros si wi Hs Hwi. apply wls_solve_complete; [|apply FR; assumption].
  apply hmf_row_data_wf. rewrite Forall_forall in Hw. apply Hw. exact Hwi.
Qed.

(* HMF.gstep without smoothing: a column problem of full rank has its update in the model *)
Theorem gstep_col_ref_total s w a g K M j :
  K = ncols a -> rows_len (ncols a) a -> Forall (fun v => 0 <= v) (col j w) ->
  full_rank K (hmf_col_data a (col j w) (col j s)) ->
  exists x, gstep_col_ref s w a g None K M j = Some x.
Proof.
  intros EK Ha Hw FR. subst K. unfold gstep_col_ref. cbn [eps_active].
  apply (wls_solve_complete (ncols a) (hmf_col_data a (col j w) (col j s))); [|exact FR].
  apply hmf_col_data_wf; assumption.
Qed.

(* non-vacuity: a 3 x 2 system with one zero weight has full rank *)
Example chi2_full_rank_example : full_rank 2 (cc_data [[1; 0]; [1; 1]; [1; 2]] [1; 1; 0] [5; 7; 9]).
Proof.
  intros z Lz H. destruct z as [|z0 [|z1 [|? ?]]]; try discriminate.
  inversion H as [|? ? H1 H']; subst. inversion H' as [|? ? H2 _]; subst. cbn in H1, H2.
  assert (E1 : z0 == 0) by (assert (0 < 1 * 1) by lra; specialize (H1 H0); lra).
  assert (E2 : z1 == 0) by (assert (0 < 1 * 1) by lra; specialize (H2 H0); lra).
  repeat constructor; assumption.
Qed.

(* ================================================================== orthogonal (not normalised) completeness
   pcomp's components are eigenvectors scaled to squared length l_k:  c_j . c_k = delta_jk l_k.  Over Q there is no
   square root to normalise them, so the completeness theorem is generalised to BI-orthogonal families: n vectors v_k
   and n vectors u_k of Q^n with u_j . v_k = delta_jk satisfy x = sum_k (u_k . x) v_k for every x.  With
   u_k = v_k / l_k this is the statement for pcomp's scaled columns (all l_k non-zero). *)
From PV Require Import C15.HmfProofs2 C15.HmfProofs3 C15.SpectralProofs C15.CompleteProofs C15.Round5Proofs.

Definition bi_identity (us vs : list vec) : Prop :=
  forall j k uj vk, nth_error us j = Some uj -> nth_error vs k = Some vk -> dot uj vk == (if Nat.eqb j k then 1 else 0).

Lemma dot_map_scale_gen {A : Type} c (f : A -> Q) l1 : forall l2, dot (map (fun v => c * f v) l1) l2 == c * dot (map f l1) l2.
Proof. induction l1 as [|v l1 IH]; intros [|y l2]; simpl; try ring. rewrite IH. ring. Qed.

Theorem biorthogonal_complete n us vs : length vs = n -> length us = n -> vlen n vs -> vlen n us -> bi_identity us vs ->
  forall x, length x = n -> veq (lincomb n (map (fun u => dot u x) us) vs) x.
Proof.
  intros Ln Lu Hv Hu Hg x Lx.
  assert (Hus : vlen n (vs ++ [x])) by (unfold vlen; apply Forall_app; split; [exact Hv | constructor; [exact Lx | constructor]]).
  destruct (dependent n (vs ++ [x])) as [cs0 [L0 [Hn H0]]]; [rewrite app_length; simpl; (unfold vec in *; lia) | exact Hus |].
  destruct (CompleteProofs.split_last cs0 n L0) as [cs [c [E Lc]]]. subst cs0.
  assert (Hr : forall r, dot cs (map (dot r) vs) + c * dot r x == 0).
  { intros r. pose proof (dot_veq r r _ _ (veq_refl r) H0) as E0.
    rewrite (dot_lincomb n r _ _ Hus) in E0. rewrite map_app in E0. simpl map in E0.
    rewrite dot_app_l in E0 by (rewrite map_length; (unfold vec in *; lia)). simpl in E0.
    rewrite (dot_comm r (zeros n)), dot_zeros_l in E0. unfold vec in *. revert E0. generalize (dot cs (map (dot r) vs)) (c * dot r x). intros qa qb E0. lra. }
  assert (Hj : forall j uj, nth_error us j = Some uj -> nth j cs 0 == - c * dot uj x).
  { intros j uj Huj. specialize (Hr uj).
    assert (Hjn : (j < n)%nat) by (rewrite <- Lu; apply nth_error_Some; congruence).
    assert (Eu : veq (map (dot uj) vs) (unit_vec n j)).
    { apply CompleteProofs.veq_nth; [unfold unit_vec; rewrite !map_length, seq_length; exact Ln|].
      intros k Hk. rewrite map_length in Hk.
      destruct (nth_error vs k) as [vk|] eqn:Ek; [|apply nth_error_None in Ek; (unfold vec in *; lia)].
      rewrite (nth_map_vec (dot uj) vs k vk Ek). unfold unit_vec. rewrite nth_map_seq by (unfold vec in *; lia).
      apply (Hg j k uj vk Huj Ek). }
    rewrite (dot_veq cs cs _ _ (veq_refl cs) Eu) in Hr. rewrite dot_comm, (dot_unit n j cs Hjn Lc) in Hr. lra. }
  destruct (Qeq_dec c 0) as [Zc|NZc].
  - exfalso. apply (all_zero_not_nontrivial (cs ++ [c])); [|exact Hn].
    apply Forall_app. split; [|constructor; [exact Zc | constructor]].
    apply Forall_forall. intros q Hq. apply (In_nth _ _ 0) in Hq. destruct Hq as [j [Hjl Eq]]. subst q.
    destruct (nth_error us j) as [uj|] eqn:Ej; [|apply nth_error_None in Ej; (unfold vec in *; lia)].
    rewrite (Hj j uj Ej), Zc. ring.
  - apply veq_by_dot; [rewrite lincomb_length by exact Hv; congruence|].
    intros r. rewrite (dot_lincomb n r vs _ Hv).
    assert (Ecs : veq cs (map (fun u => (- c) * dot u x) us)).
    { apply CompleteProofs.veq_nth; [rewrite map_length; (unfold vec in *; lia)|]. intros j Hjl.
      destruct (nth_error us j) as [uj|] eqn:Ej; [|apply nth_error_None in Ej; (unfold vec in *; lia)].
      rewrite (nth_map_vec (fun u => - c * dot u x) us j uj Ej). apply (Hj j uj Ej). }
    specialize (Hr r). rewrite (dot_veq _ _ _ _ Ecs (veq_refl (map (dot r) vs))) in Hr.
    rewrite dot_map_scale_gen in Hr.
    assert (c * (dot r x - dot (map (fun u => dot u x) us) (map (dot r) vs)) == 0) by lra.
    destruct (Qeq_dec (dot r x - dot (map (fun u => dot u x) us) (map (dot r) vs)) 0) as [Z|NZ]; [lra|].
    exfalso. apply NZc. apply (Qmult_integral_l _ _ NZ). rewrite Qmult_comm. exact H.
Qed.

(* ------------------------------------------------------------------ pcomp's scaled columns *)
Definition gram_diag (vs : list vec) (ls : vec) : Prop :=
  forall j k vj vk, nth_error vs j = Some vj -> nth_error vs k = Some vk -> dot vj vk == (if Nat.eqb j k then nth j ls 0 else 0).
Definition dual (ls : vec) (vs : list vec) : list vec := map2 (fun l v => vscale (/ l) v) ls vs.

Lemma nth_error_map2_inv {A B C : Type} (f : A -> B -> C) : forall u v i c,
  nth_error (map2 f u v) i = Some c -> exists a b, nth_error u i = Some a /\ nth_error v i = Some b /\ c = f a b.
Proof.
  induction u as [|a u IH]; intros [|b v] [|i] c H; simpl in *; try discriminate.
  - inversion H; subst. exists a, b. repeat split; reflexivity.
  - apply IH. exact H.
Qed.

Lemma nth_error_nth_Q (l : vec) j q : nth_error l j = Some q -> nth j l 0 = q.
Proof. revert j; induction l as [|a l IH]; intros [|j] H; simpl in *; try discriminate; [inversion H; reflexivity | apply IH; exact H]. Qed.

(* n pairwise orthogonal vectors of Q^n with non-zero squared lengths l_k are complete:  x = sum_k ((c_k . x) / l_k) c_k *)
Theorem scaled_columns_complete n vs ls : length vs = n -> length ls = n -> vlen n vs -> Forall (fun l => ~ l == 0) ls ->
  gram_diag vs ls ->
  forall x, length x = n -> veq (lincomb n (map (fun u => dot u x) (dual ls vs)) vs) x.
Proof.
  intros Lv Ll Hv Hnz Hg x Lx. apply biorthogonal_complete; try assumption.
  - unfold dual. rewrite Round5Proofs.map2_length; [exact Ll | transitivity n; [exact Ll | symmetry; exact Lv]].
  - unfold vlen, dual. apply Forall_forall. intros u Hu. apply (In_nth_error) in Hu. destruct Hu as [j Hj].
    destruct (nth_error_map2_inv _ _ _ _ _ Hj) as [l [v [_ [Ev E]]]]. subst u. rewrite vscale_length.
    unfold vlen in Hv. rewrite Forall_forall in Hv. apply Hv. apply (nth_error_In _ _ Ev).
  - intros j k uj vk Huj Hvk. unfold dual in Huj.
    destruct (nth_error_map2_inv _ _ _ _ _ Huj) as [l [v [El [Ev E]]]]. subst uj.
    rewrite dot_vscale_l, (Hg j k v vk Ev Hvk).
    assert (Hl : ~ l == 0) by (rewrite Forall_forall in Hnz; apply Hnz; apply (nth_error_In _ _ El)).
    destruct (Nat.eqb j k); [rewrite (nth_error_nth_Q ls j l El); field; exact Hl | ring].
Qed.

Lemma dual_coefficients x : forall ls vs, length ls = length vs -> Forall (fun l => ~ l == 0) ls ->
  veq (map2 Qmult ls (map (fun u => dot u x) (dual ls vs))) (map (fun v => dot v x) vs).
Proof.
  induction ls as [|l ls IH]; intros [|v vs] L Hnz; simpl in *; try discriminate; constructor.
  - rewrite dot_vscale_l. field. exact (Forall_inv Hnz).
  - apply IH; [lia | exact (Forall_inv_tail Hnz)].
Qed.

Lemma lincomb_veq n us cs cs' : vlen n us -> veq cs cs' -> veq (lincomb n cs us) (lincomb n cs' us).
Proof.
  intros Hu E. apply veq_by_dot; [rewrite !lincomb_length by exact Hu; reflexivity|].
  intros r. rewrite !(dot_lincomb n r us _ Hu). apply dot_veq; [exact E | apply veq_refl].
Qed.

(* "components whose outer product reproduces the matrix":  eigen-equation C c_k = l_k c_k and the Gram matrix
   c_j . c_k = delta_jk l_k (exactly what eig_ok tests, C15_eig_ok_exact) with all l_k non-zero give
   C x = sum_k (c_k . x) c_k  for every x,  i.e.  C = sum_k c_k c_k^T *)
Theorem scaled_outer_product n C vs ls :
  length C = n -> length vs = n -> length ls = n -> vlen n vs -> Forall (fun l => ~ l == 0) ls ->
  Forall2 (fun v l => veq (mat_vec C v) (vscale l v)) vs ls -> gram_diag vs ls ->
  forall x, length x = n -> veq (mat_vec C x) (lincomb n (map (fun v => dot v x) vs) vs).
Proof.
  intros LC Lv Ll Hv Hnz He Hg x Lx.
  eapply veq_trans; [apply mat_vec_veq_r, veq_sym, (scaled_columns_complete n vs ls Lv Ll Hv Hnz Hg x Lx)|].
  unfold lincomb at 1.
  eapply veq_trans.
  - apply (mat_vec_combination n C LC vs ls _ Hv He).
    rewrite map_length. unfold dual. rewrite Round5Proofs.map2_length; [transitivity n; [exact Ll | symmetry; exact Lv] | transitivity n; [exact Ll | symmetry; exact Lv]].
  - apply (lincomb_veq n vs _ _ Hv). apply dual_coefficients; [transitivity n; [exact Ll | symmetry; exact Lv] | exact Hnz].
Qed.

(* non-vacuity: the scaled eigenvectors (2, 0), (0, 1) of diag(4, 1) *)
Example scaled_outer_product_example :
  gram_diag [[2; 0]; [0; 1]] [4; 1] /\ Forall2 (fun v l => veq (mat_vec [[4; 0]; [0; 1]] v) (vscale l v)) [[2; 0]; [0; 1]] [4; 1].
Proof.
  split.
  - intros [|[|j]] [|[|k]] vj vk Hj Hk; simpl in *; try discriminate;
      try (inversion Hj; inversion Hk; subst; vm_compute; reflexivity);
      try (destruct j; discriminate); try (destruct k; discriminate).
  - repeat constructor; vm_compute; reflexivity.
Qed.
