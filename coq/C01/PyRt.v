(* C01/PyRt.v -- the few Python string / list / dict operations that the code GENERATED from yanny.py by translate/c01.py
   (coq/Generated/YannyWriter.v) is written in.  Each definition is the meaning of one Python construct on byte strings;
   nothing here knows about yanny.  DEFINITIONS ONLY (facts: C01/Bridge.v). *)
From Coq Require Import NArith List Bool.
Import ListNotations.
From PV Require Import Yanny.Bytes.
Open Scope N_scope.

(* s.find(p) >= 0 *)
Definition py_find_ge0 (p s : bytes) : bool := contains p s.
(* re.search(r'\s+', s) is not None *)
Definition py_search_ws (s : bytes) : bool := existsb is_ws s.
(* len(s) == 0 , len(l) > 0 *)
Definition py_len_eq0 {A} (l : list A) : bool := match l with [] => true | _ => false end.
Definition py_len_gt0 {A} (l : list A) : bool := match l with [] => false | _ => true end.
(* s.startswith(p), s.endswith(p) *)
Definition py_startswith (p s : bytes) : bool := starts_with p s.
Definition py_endswith (p s : bytes) : bool := starts_with (rev p) (rev s).
(* s.strip(chars) *)
Fixpoint py_lstrip_chars (cs s : bytes) : bytes :=
  match s with c :: s' => if mem c cs then py_lstrip_chars cs s' else s | [] => [] end.
Definition py_strip_chars (cs s : bytes) : bytes := rev (py_lstrip_chars cs (rev (py_lstrip_chars cs s))).
(* t[0] in 'SU'   (t non-empty in every use: a numpy type code) *)
Definition py_head_in (t cs : bytes) : bool := match t with c :: _ => mem c cs | [] => false end.
(* t[1:] *)
Definition py_tail (t : bytes) : bytes := match t with _ :: t' => t' | [] => [] end.
(* int(s) on a digit string; None = ValueError *)
Definition py_int (s : bytes) : option N := parse_digits s.
(* "{0:d}".format(n), str(n) for a non-negative int *)
Definition py_str_int (n : N) : bytes := show_N n.
(* k in d, d[k] for a dict given as its item list (a later item for the same key replaces the value) *)
Definition py_dict_has {A} (k : bytes) (d : list (bytes * A)) : bool := existsb (fun e => beq k (fst e)) d.
Fixpoint py_dict_get {A} (k : bytes) (d : list (bytes * A)) : option A :=
  match d with
  | [] => None
  | (k', v) :: d' => match py_dict_get k d' with Some v' => Some v' | None => if beq k k' then Some v else None end
  end.
(* x in list_of_strings *)
Definition py_in_list (x : bytes) (l : list bytes) : bool := existsb (beq x) l.
(* lines[-1] , lines[-1] = e *)
Definition py_last (l : list bytes) : bytes := match rev l with x :: _ => x | [] => [] end.
Definition py_set_last (e : bytes) (l : list bytes) : list bytes := match rev l with _ :: r => rev (e :: r) | [] => [] end.
