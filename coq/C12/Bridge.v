(* C12 -- the executable cap test of the model (over Q) is the test of the code's arccos formula (over R, as
   extracted from the source: Generated/MangleR.v) on the same numbers.  "The same numbers" are the exact
   rational values of the doubles the implementation holds: the cap (x, cm) and the point p -- given in
   Cartesian form or computed by angles_to_x from RA/Dec. *)
From Coq Require Import ZArith QArith Qreals Reals Lra.
From PV Require Import C12.Spec C12.Proofs C12.RBase Generated.MangleR C12.Arccos.

Lemma Q2R_0' : Q2R 0 = 0%R.
Proof. unfold Q2R. simpl. lra. Qed.

Lemma Q2R_1' : Q2R 1 = 1%R.
Proof. unfold Q2R. simpl. rewrite Rinv_1. lra. Qed.

Lemma in_cap_alg_R c p :
  in_cap c p = true <->
  if Rlt_dec (Q2R (ccm c)) 0 then (- Q2R (ccm c) <= 1 - Q2R (dot (cx c) p))%R
  else (1 - Q2R (dot (cx c) p) <= Q2R (ccm c))%R.
Proof.
  rewrite in_cap_spec.
  set (d := dot (cx c) p) in *. set (cm := ccm c) in *.
  assert (Q2R (1 - d) = (1 - Q2R d)%R) as E1 by (rewrite Q2R_minus, Q2R_1'; reflexivity).
  assert (Q2R (- cm) = (- Q2R cm)%R) as E2 by apply Q2R_opp.
  destruct (Rlt_dec (Q2R cm) 0) as [Hneg|Hpos].
  - assert (cm < 0)%Q as Hq by (apply Rlt_Qlt; rewrite Q2R_0'; exact Hneg).
    split.
    + intros [[H0 _]|[_ H]].
      * exfalso. apply (Qlt_not_le _ _ Hq H0).
      * apply Qle_Rle in H. rewrite E1, E2 in H. exact H.
    + intro H. right. split; [exact Hq|]. apply Rle_Qle. rewrite E1, E2. exact H.
  - assert (0 <= cm)%Q as Hq.
    { apply Rle_Qle. rewrite Q2R_0'. apply Rnot_lt_le. exact Hpos. }
    split.
    + intros [[_ H]|[H0 _]].
      * apply Qle_Rle in H. rewrite E1 in H. exact H.
      * exfalso. apply (Qlt_not_le _ _ H0 Hq).
    + intro H. left. split; [exact Hq|]. apply Rle_Qle. rewrite E1. exact H.
Qed.

Lemma in_cap_is_arccos_test c p :
  (-1 <= Q2R (dot (cx c) p) <= 1)%R -> (-2 <= Q2R (ccm c) <= 2)%R ->
  (in_cap c p = true <-> gen_is_in_cap (Q2R (ccm c)) (Q2R (dot (cx c) p))).
Proof.
  intros Hd Hc. rewrite (cap_distance_sign _ _ Hd Hc). apply in_cap_alg_R.
Qed.

(* for cm >= 0 the agreement survives a dot product that rounding pushed above 1 (point at the cap centre) *)
Lemma in_cap_is_arccos_test_pos c p :
  (-1 <= Q2R (dot (cx c) p))%R -> (0 <= Q2R (ccm c) <= 2)%R ->
  (in_cap c p = true <-> gen_is_in_cap (Q2R (ccm c)) (Q2R (dot (cx c) p))).
Proof.
  intros Hd Hc. rewrite (cap_distance_clipped_sign _ _ Hd Hc). rewrite in_cap_alg_R.
  destruct (Rlt_dec (Q2R (ccm c)) 0); [lra|reflexivity].
Qed.
