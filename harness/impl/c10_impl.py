"""Runs iterfit of the repository under test on several permutations of one input (stdin JSON -> stdout JSON).

call = {'x','y','w': lists, 'perms': [[...], ...], 'opts': {'nord': k, 'bkpt'|'nbkpts'|'bkspace': ...},
        'maxiter': int, 'lower': float, 'upper': float, 'grid': [...], 'refit': bool}
"""
import json
import sys
import warnings

import os
import numpy as np


def _globals_snapshot():
    return {'geterr': dict(np.geterr()), 'printoptions': {k: repr(v) for k, v in np.get_printoptions().items()},
            'warnings.filters': len(warnings.filters), 'environ': hash(tuple(sorted(os.environ.items())))}


# the third-party packages pydl builds on are imported first: what is measured is what importing pydl itself changes
import scipy.linalg, scipy.special, scipy.interpolate, scipy.optimize                                        # noqa: E401,E402
import astropy, astropy.io.fits, astropy.units, astropy.table, astropy.utils.data, astropy.wcs, astropy.time  # noqa: E401,E402
try:
    with warnings.catch_warnings():
        warnings.simplefilter('ignore')
        import astropy.tests.runner                                                                          # noqa: F401
except Exception:  # noqa: BLE001
    pass

_G0 = _globals_snapshot()          # before pydl is imported (the import must not change process-global settings)

import pydl                                                    # noqa: E402
from pydl.pydlutils.bspline import iterfit                     # noqa: E402

_G1 = _globals_snapshot()


def err(e, stage):
    return {'err': type(e).__name__, 'msg': str(e)[:200], 'stage': stage}


def fl(a):
    return [float(v) for v in np.asarray(a, dtype='d').ravel()]


def kwargs_of(opts):
    kw = {'nord': int(opts['nord'])}
    if 'bkpt' in opts:
        kw['bkpt'] = np.array(opts['bkpt'], dtype='d')
    if 'nbkpts' in opts:
        kw['nbkpts'] = int(opts['nbkpts'])
    if 'bkspace' in opts:
        kw['bkspace'] = float(opts['bkspace'])
    if 'everyn' in opts:
        kw['everyn'] = int(opts['everyn'])
    if 'placed' in opts:
        kw['placed'] = np.array(opts['placed'], dtype='d')
    return kw


def lim(v, as_int):
    """rejection limits as Python float, or as Python int when integral and asked for (the documented defaults are ints)"""
    return int(v) if (as_int and float(v) == int(v)) else float(v)


def one(x, y, w, c, grid, maxiter, kw=None, report=None):
    """x, y, w and the arrays inside kw (bkpt= / placed=) are handed to iterfit AS THEY ARE (caller-owned arrays);
    afterwards they must be bit-identical to the snapshots taken before the call (report['args_mutated']).  The fitted
    curve is evaluated on the test grid AND at the caller's own x array (the very object given to iterfit), in the
    caller's order (report['cx'])."""
    if kw is None:
        kw = kwargs_of(c['opts'])
    named = [('xdata', x), ('ydata', y), ('invvar', w)] + [(nm, a) for nm, a in kw.items() if isinstance(a, np.ndarray)]
    snap = [a.copy() for _nm, a in named]
    with warnings.catch_warnings():
        warnings.simplefilter('ignore')
        sset, outmask = iterfit(x, y, invvar=w, upper=lim(c['upper'], c.get('int_limits')), lower=lim(c['lower'], c.get('int_limits')),
                                maxiter=maxiter, **kw)

        def changed():
            return [nm for (nm, a), b in zip(named, snap) if not (a.dtype == b.dtype and np.array_equal(a, b, equal_nan=True))]
        if report is not None:
            report['args_mutated'] = changed()
            report['result_aliases_arg'] = bool(isinstance(outmask, np.ndarray) and any(np.shares_memory(outmask, a) for _nm, a in named))
        if not isinstance(sset.coeff, np.ndarray):
            # iterfit gave up (<= 1 good point left: `sset.coeff = 0`): nothing to evaluate
            return sset, np.asarray(outmask), None
        curve, gmask = sset.value(grid.copy())
        if report is not None:
            cx, cxm = sset.value(x)                    # the caller's abscissae, the caller's order, the caller's array object
            report['cx'] = fl(cx)
            report['cx_shape_ok'] = bool(np.shape(cx) == x.shape)
            report['cx_aliases_arg'] = bool(any(np.shares_memory(cx, a) for _nm, a in named))
            report['args_mutated'] = sorted(set(report['args_mutated'] + changed()))
    return sset, np.asarray(outmask), curve


def buffers(n, dts, layout):
    """three caller-owned work buffers of length n: contiguous, every second element of a longer array, or a
    reversed-stride view"""
    out = []
    for dt in dts:
        if layout == 'strided':
            out.append(np.zeros(2 * n + 1, dtype=dt)[1::2])
        elif layout == 'reversed':
            out.append(np.zeros(n, dtype=dt)[::-1])
        else:
            out.append(np.empty(n, dtype=dt))
    return out


def call(c):
    x0 = np.array(c['x'], dtype='d')
    y0 = np.array(c['y'], dtype='d').astype(c.get('ydtype', 'd'))      # int32 / int64 / float32 data: values exactly representable
    w0 = np.array(c['w'], dtype='d').astype(c.get('wdtype', 'd'))
    grid = np.array(c['grid'], dtype='d')
    runs = []
    # the SAME three ndarray objects are refilled in place for every permutation (a reused input buffer), and the SAME
    # breakpoint arrays (bkpt= / placed=) are handed to every call (a grid shared by many fits)
    xb, yb, wb = buffers(x0.size, (x0.dtype, y0.dtype, w0.dtype), c.get('layout'))
    kw = kwargs_of(c['opts'])
    warm = c.get('warmup')
    out = {}
    if warm:
        # an EARLIER fit with the same breakpoint objects on another data set (a sub-window of the data)
        try:
            sel = (x0 >= float(warm['lo'])) & (x0 <= float(warm['hi']))
            rep = {}
            one(x0[sel].copy(), y0[sel].copy(), w0[sel].copy(), c, grid, int(c['maxiter']), kw=kw, report=rep)
            out['warmup'] = {'n': int(sel.sum()), 'args_mutated': rep.get('args_mutated', [])}
        except Exception as e:  # noqa: BLE001
            out['warmup'] = err(e, 'warmup')
    for p in c['perms']:
        p = np.array(p, dtype=int)
        x = x0[p]
        np.copyto(xb, x0[p])
        np.copyto(yb, y0[p])
        np.copyto(wb, w0[p])
        try:
            rep = {}
            sset, outmask, curve = one(xb, yb, wb, c, grid, int(c['maxiter']), kw=kw, report=rep)
            if curve is None:
                runs.append({'degenerate': True, 'mask': [bool(v) for v in np.atleast_1d(outmask)]})
                continue
            runs.append({'argsort': [int(i) for i in x.argsort()], 'mask': [bool(v) for v in outmask],
                         'mask_shape_ok': outmask.shape == x.shape, 'bk': fl(sset.breakpoints),
                         'bkmask_all': bool(np.all(sset.mask)), 'curve': fl(curve),
                         'finite': bool(np.all(np.isfinite(curve))), 'args_mutated': rep.get('args_mutated', []),
                         'result_aliases_arg': rep.get('result_aliases_arg', False) or rep.get('cx_aliases_arg', False),
                         'cx': rep.get('cx'), 'cx_shape_ok': rep.get('cx_shape_ok', False)})
        except Exception as e:  # noqa: BLE001
            runs.append(err(e, 'iterfit'))
    out['runs'] = runs
    r0 = runs[0]
    if (warm or c.get('fresh')) and 'err' not in r0 and 'degenerate' not in r0:
        # the same call with pristine copies of every argument (nothing shared with the calls before)
        try:
            p = np.array(c['perms'][0], dtype=int)
            rep = {}
            s5, om5, curve5 = one(x0[p].copy(), y0[p].copy(), w0[p].copy(), c, grid, int(c['maxiter']), kw=kwargs_of(c['opts']), report=rep)
            out['fresh'] = {'mask': [bool(v) for v in np.atleast_1d(om5)], 'curve': None if curve5 is None else fl(curve5),
                            'bk': fl(s5.breakpoints), 'cx': rep.get('cx')}
        except Exception as e:  # noqa: BLE001
            out['fresh'] = err(e, 'fresh')
    if c.get('refit') and 'err' not in r0 and 'degenerate' not in r0:
        # behaviour of the real code alone: after convergence the curve must be the plain fit to the points
        # the returned mask keeps, and running longer must not change anything
        try:
            k = int(c['opts']['nord'])
            p = np.array(c['perms'][0], dtype=int)
            x, y, w = x0[p], y0[p], w0[p]
            om = np.array(r0['mask'])
            bk = np.array(r0['bk'])
            interior = bk[k - 1:bk.size - k + 1]
            _s2, om2, curve2 = one(x, y, w * om, c, grid, 0, kw={'nord': k, 'bkpt': interior.copy()})
            _s3, om3, curve3 = one(x, y, w, c, grid, int(c['maxiter']) + 5)
            if curve2 is None or curve3 is None:
                raise ValueError('No valid data points.')
            out['refit'] = {'curve_kept_only': fl(curve2), 'mask_kept_only': [bool(v) for v in om2],
                            'mask_longer': [bool(v) for v in om3], 'curve_longer': fl(curve3)}
        except Exception as e:  # noqa: BLE001
            out['refit'] = err(e, 'refit')
    if c.get('scale') and 'err' not in r0 and 'degenerate' not in r0:
        # the same data in other units: y * s, invvar / s^2 (first permutation, fresh arrays)
        try:
            sc = float(c['scale'])
            p = np.array(c['perms'][0], dtype=int)
            _s4, om4, curve4 = one(x0[p], y0[p].astype('d') * sc, w0[p].astype('d') / (sc * sc), c, grid, int(c['maxiter']))
            out['scaled'] = {'mask': [bool(v) for v in np.atleast_1d(om4)], 'curve': None if curve4 is None else fl(curve4)}
        except Exception as e:  # noqa: BLE001
            out['scaled'] = err(e, 'iterfit')
    return out


def main():
    calls = json.load(sys.stdin)
    res = [call(c) for c in calls]
    g2 = _globals_snapshot()
    json.dump({'pydl_file': pydl.__file__, 'results': res,
               'globals_changed': {'by_import': [k for k in _G0 if _G0[k] != _G1[k]], 'by_calls': [k for k in _G1 if _G1[k] != g2[k]]}}, sys.stdout)


if __name__ == '__main__':
    main()
