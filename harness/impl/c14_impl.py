"""Runs pydl.smooth / median / uniq / rebin of the repository under test on a list of calls (stdin JSON).

Generic protections applied to EVERY call (not per function):
  * the array argument is built in the requested memory layout (contiguous, strided view, reversed view,
    Fortran order, transposed view, read-only) and its bytes -- and those of the buffer it is a view of -- are
    compared after the call with a copy taken before (`input_unchanged`);
  * the call is repeated on a fresh READ-ONLY array with the same values; it must not raise and must return the
    same answer (`readonly_ok`);
  * `aliases_input`: np.shares_memory(result, argument) (reported, informational);
  * `history` calls run several operations in one process on the SAME array object; after every step the object
    must still hold the original bytes, and every step's result is returned for comparison with the model's
    answer on the ORIGINAL values.

Floats travel as JSON numbers (Python's repr round-trips doubles exactly; float32 results are widened
to the double with the same value)."""
import importlib
import json
import os
import sys
import warnings

import numpy as np
# third-party packages pydl itself imports: loaded BEFORE the snapshot so that their own import-time effects
# (astropy registers warning filters) are not attributed to pydl
import scipy.signal  # noqa: F401,E402
import scipy.linalg  # noqa: F401,E402
import astropy  # noqa: F401,E402
import astropy.io.fits  # noqa: F401,E402
import astropy.utils.data  # noqa: F401,E402
with warnings.catch_warnings():
    warnings.simplefilter('ignore')
    import astropy.tests.runner  # noqa: F401,E402


def global_state():
    """process-global settings a library must not change behind the user's back"""
    return {'np.geterr': dict(np.geterr()), 'np.printoptions': repr(sorted(np.get_printoptions().items())),
            'warnings.filters': [repr(f) for f in warnings.filters], 'os.environ': dict(os.environ),
            'np.errcall': repr(np.geterrcall())}


def state_diff(a, b):
    return sorted(k for k in a if a[k] != b[k])


STATE_BEFORE_IMPORT = global_state()

# this process is a FRESH interpreter; pydl is imported the way a user does it
import pydl  # noqa: E402
from pydl import smooth as _s, median as _m, uniq as _u, rebin as _r  # noqa: F401,E402

STATE_AFTER_IMPORT = global_state()
IMPORT_CHANGED = state_diff(STATE_BEFORE_IMPORT, STATE_AFTER_IMPORT)

# the two import routes users have: the names re-exported by the package (`from pydl import smooth, ...`) and the
# functions of the defining modules (`from pydl.smooth import smooth`).  Every call names its route; the same call
# is repeated through the OTHER route and must give the same answer (`route_ok`).
ROUTES = {
    'package': {n: getattr(pydl, n) for n in ('smooth', 'median', 'uniq', 'rebin')},
    'module': {n: getattr(importlib.import_module('pydl.' + n), n) for n in ('smooth', 'median', 'uniq', 'rebin')},
}

JUNK = 77
STATE_RUN = None


def err(e):
    return {'err': type(e).__name__, 'msg': str(e)[:160]}


TOKENS = {'inf': float('inf'), '-inf': float('-inf'), 'nan': float('nan')}


def detok(v):
    """non-finite samples travel as the strings 'inf', '-inf', 'nan'"""
    if isinstance(v, list):
        return [detok(e) for e in v]
    return TOKENS[v] if isinstance(v, str) else v


def tok(v):
    if isinstance(v, list):
        return [tok(e) for e in v]
    if isinstance(v, float) and (v != v or v in (float('inf'), float('-inf'))):
        return 'nan' if v != v else ('inf' if v > 0 else '-inf')
    return v


def make_array(vals, dtype, layout):
    """-> (array handed to pydl, owner buffer whose bytes must not change)"""
    a = np.array(detok(vals), dtype=dtype)
    if layout in (None, 'c'):
        return a, a
    if layout == 'ro':
        a.flags.writeable = False
        return a, a
    if layout == 'be':                 # non-native byte order (what astropy.io.fits hands out)
        b = a.astype(a.dtype.newbyteorder('>' if sys.byteorder == 'little' else '<'))
        return b, b
    if layout == 'strided':            # every second element of a longer buffer, along the last axis
        shp = list(a.shape)
        shp[-1] *= 2
        base = np.full(shp, JUNK, dtype=dtype)
        base[..., ::2] = a
        return base[..., ::2], base
    if layout == 'rev':                # reversed view along axis 0
        base = np.ascontiguousarray(a[::-1])
        return base[::-1], base
    if layout == 'f':
        f = np.asfortranarray(a)
        return f, f
    if layout == 't':                  # transposed view of the transposed data (2-D and up)
        base = np.ascontiguousarray(a.T)
        return base.T, base
    raise ValueError('layout ' + str(layout))


def arr_out(r):
    a = np.asarray(r)
    return {'ok': tok(a.tolist()), 'dtype': a.dtype.name, 'native': bool(a.dtype.isnative), 'shape': list(a.shape), 'is_ndarray': isinstance(r, np.ndarray)}


def invoke(c, x, idx=None, route='package'):
    """one pydl call on the array object x -> (raw result, serialised result)"""
    f = c['f']
    smooth, median, uniq, rebin = (ROUTES[route][n] for n in ('smooth', 'median', 'uniq', 'rebin'))
    style = c.get('argstyle')
    if f == 'smooth':
        w, et = c['w'], c['et']
        if style == 'npint':
            w = np.int64(w)
        elif style == 'npint32':
            w = np.int32(w)
        elif style == 'intflag' and et is not None:
            et = int(et)
        elif style == 'npbool' and et is not None:
            et = np.bool_(et)
        elif style == 'positional' and et is not None:
            r = smooth(x, w, et)
            return r, arr_out(r)
        r = smooth(x, w, edge_truncate=et) if et is not None else smooth(x, w)
        return r, arr_out(r)
    if f == 'median':
        ev = {'intflag': 1, 'npbool': np.bool_(True)}.get(style, True)
        if style == 'explicit':
            r = median(x, width=None, axis=None, even=bool(c['even']))
        else:
            r = median(x, even=ev) if c['even'] else median(x)
        if np.ndim(r) != 0:
            o = arr_out(r)
            o['ndim0'] = False
            return r, o
        return r, {'ok': tok(float(r)), 'ndim0': True}
    if f == 'median_axis':
        r = median(x, axis=c['axis'])
        return r, arr_out(r)
    if f == 'medfilt':
        w = c['w']
        if style in ('npint', 'npint32'):
            w = (np.int64 if style == 'npint' else np.int32)(w)
        r = median(x, width=w, axis=None, even=False) if style == 'explicit' else median(x, width=w)
        return r, arr_out(r)
    if f == 'uniq':
        r = uniq(x) if idx is None else uniq(x, idx)
        o = arr_out(r)
        o['ok'] = [int(v) for v in np.asarray(r).ravel()]
        return r, o
    if f == 'rebin':
        d = tuple(c['d'])
        sm = True
        if style == 'list':
            d = list(c['d'])
        elif style == 'npint':
            d = tuple(np.int64(v) for v in c['d'])
        elif style == 'nparray':
            d = np.array(c['d'], dtype=np.int64)
        elif style == 'intflag':
            sm = 1
        elif style == 'npbool':
            sm = np.bool_(True)
        if style == 'explicit':
            r = rebin(x, d, sample=bool(c['sample']))
        else:
            r = rebin(x, d, sample=sm) if c['sample'] else rebin(x, d)
        return r, arr_out(r)
    raise ValueError('BadCall')


def same_answer(a, b):
    return json.dumps(a, sort_keys=True) == json.dumps(b, sort_keys=True)


def call(c):
    f = c['f']
    if f == 'history':
        return history(c)
    dtype = c.get('dtype', 'f8')
    try:
        x, owner = make_array(c['x'], dtype, c.get('layout'))
    except Exception as e:  # noqa: BLE001
        return {'err': 'HarnessError', 'msg': str(e)}
    idx = idx_owner = None
    if f == 'uniq' and c.get('idx') is not None:
        idx, idx_owner = make_array(c['idx'], c.get('idx_dtype', 'i8'), 'c')
    before = owner.tobytes()
    idx_before = idx_owner.tobytes() if idx_owner is not None else None
    route = c.get('route', 'package')
    other = 'module' if route == 'package' else 'package'
    try:
        raw, o = invoke(c, x, idx, route)
    except Exception as e:  # noqa: BLE001 - the error class is the observation
        raw, o = None, err(e)
    o['input_unchanged'] = bool(owner.tobytes() == before and (idx_owner is None or idx_owner.tobytes() == idx_before))
    o['aliases_input'] = bool(isinstance(raw, np.ndarray) and np.shares_memory(raw, owner))
    changed = state_diff(STATE_RUN, global_state())
    if changed:
        o['state_changed'] = changed
    # the same call on a read-only array with the same values
    x2 = np.array(detok(c['x']), dtype=dtype)
    x2.flags.writeable = False
    idx2 = None
    if idx is not None:
        idx2 = np.array(c['idx'], dtype=c.get('idx_dtype', 'i8'))
        idx2.flags.writeable = False
    try:
        _, o2 = invoke(c, x2, idx2, route)
    except Exception as e:  # noqa: BLE001
        o2 = err(e)
    keys = ('ok', 'dtype', 'shape', 'err')
    o['readonly_ok'] = same_answer({k: o.get(k) for k in keys}, {k: o2.get(k) for k in keys})
    if not o['readonly_ok']:
        o['readonly_result'] = {k: o2.get(k) for k in ('ok', 'err', 'msg') if k in o2}
    # the same call through the other import route, on a fresh array with the same values
    x3 = np.array(detok(c['x']), dtype=dtype)
    idx3 = np.array(c['idx'], dtype=c.get('idx_dtype', 'i8')) if idx is not None else None
    try:
        _, o3 = invoke(c, x3, idx3, other)
    except Exception as e:  # noqa: BLE001
        o3 = err(e)
    o['route'] = route
    o['route_ok'] = same_answer({k: o.get(k) for k in keys}, {k: o3.get(k) for k in keys})
    if not o['route_ok']:
        o['other_route_result'] = {k: o3.get(k) for k in ('ok', 'shape', 'err', 'msg') if k in o3}
    return o


def history(c):
    """several operations on the SAME array object; the object must keep its original bytes throughout"""
    x, owner = make_array(c['x'], c.get('dtype', 'f8'), c.get('layout'))
    before = owner.tobytes()
    steps = []
    for k, st in enumerate(c['steps']):
        if st['f'] == 'mutate':
            # the CALLER changes the array in place between two calls (x[...] = new values / x += delta);
            # later steps are judged on the values the array then holds
            try:
                new = np.array(detok(st['x']), dtype=x.dtype)
                if st.get('how') == 'iadd':
                    x += (new - x)
                else:
                    x[...] = new
                before = owner.tobytes()
                steps.append({'mutated_by_caller': True, 'ok': tok(np.asarray(x).tolist())})
            except Exception as e:  # noqa: BLE001
                steps.append(err(e))
            continue
        # the steps of one history alternate between the two import routes
        route = ('package', 'module')[(k + (c.get('route', 'package') == 'module')) % 2]
        try:
            raw, o = invoke(st, x, None, route)
        except Exception as e:  # noqa: BLE001
            raw, o = None, err(e)
        o['route'] = route
        o['input_unchanged'] = bool(owner.tobytes() == before)
        o['aliases_input'] = bool(isinstance(raw, np.ndarray) and np.shares_memory(raw, owner))
        o['readonly_ok'] = True
        changed = state_diff(STATE_RUN, global_state())
        if changed:
            o['state_changed'] = changed
        steps.append(o)
    return {'steps': steps}


def main():
    global STATE_RUN
    calls = json.load(sys.stdin)
    # numpy's floating-point error handling is left EXACTLY as `import pydl` left it (no np.errstate here: the
    # IEEE results for non-finite / overflowing data are part of what is observed); RuntimeWarnings are silenced
    # through the warnings module only, which does not change what the arithmetic returns
    warnings.simplefilter('ignore')
    STATE_RUN = global_state()
    out = {'pydl_file': pydl.__file__, 'numpy': np.__version__, 'import_changed': IMPORT_CHANGED,
           'state_before_import': {k: STATE_BEFORE_IMPORT[k] for k in IMPORT_CHANGED if k != 'os.environ'},
           'state_after_import': {k: STATE_AFTER_IMPORT[k] for k in IMPORT_CHANGED if k != 'os.environ'},
           'results': [call(c) for c in calls]}
    out['state_changed_at_end'] = state_diff(STATE_RUN, global_state())
    json.dump(out, sys.stdout)


if __name__ == '__main__':
    main()
