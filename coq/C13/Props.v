From Coq Require Import QArith List.
From PV Require Import Lib.WLS C13.LinAlg C13.Model C13.Proofs.
Open Scope Q_scope.
Theorem C13_monomial_0 : forall x, monomial 0 x == 1.
Proof. exact monomial_0. Qed.
Print Assumptions C13_monomial_0.
