(* C17 -- Rejection, mask interpolation and sky masking act on exactly the intended pixels.
   Property theorems only; each is closed by `exact` and followed by Print Assumptions.

   The pieces rej_..., sky_..., mi_... are GENERATED from /repo on every run (translate/c17.py ->
   Generated/Reject.v, SkyMask.v, MaskInterp.v): limit comparisons and badness terms, inmask/sticky products,
   grow loop bounds and clamps, qdone, skymask's flag tests / width / smooth arguments / test, const rules.
   M is assembled from them, so every theorem about M below is re-checked against what the code says now.

   M = transliterated model (reject_model, maskinterp1_model, aesthetics_model, median_reflect_model,
       skymask_row_model), S = specification (reject_spec, maskinterp1_spec, ..., dil_at), both in C17/Model.v.
   The correspondence run evaluates M and S on the implementation's observed outputs.

   Predicates used in the statements (defined in the proof files, all plain conjunctions of inequalities):
     Beyond o p   the residual d = data - model is beyond a requested limit:
                    lower l : Sig s -> d < -l*s          | Ivar iv -> d < 0 /\ l*l < d*d*iv
                    upper u : Sig s -> u*s < d           | Ivar iv -> 0 < d /\ u*u < d*d*iv
                    maxdev x: x < |d|
                  (C17_units_of_invvar: with s = sqrt(iv) the Ivar forms are d*s < -l and u < d*s)
     Bad o p      p_in p = true /\ (o_sticky o = true -> p_out p = true) /\ Beyond o p
     pre o pts    opts_ok o = true (lower, upper >= 0, maxdev > 0) and every sigma / invvar >= 0
     IsLeft gp x p   p is a good sample with fst p < x and no good sample lies strictly between (nearest on the left);
     IsRight, NoLeft, NoRight accordingly;  xval_ok = x vector of the right length with distinct entries
     Flagged f1 f2 ms g i   exists k m, |i-k| <= g /\ ms[k] = m /\ (Z.land m f1 <> 0 \/ Z.land m f2 <> 0) *)
From Coq Require Import ZArith QArith List Bool.
From Coq Require String.
Import ListNotations String.StringSyntax.
Delimit Scope string_scope with str.
From PV Require Import Generated.Reject Generated.SkyMask Generated.MaskInterp.
From PV Require Import C17.Model C17.ProofsDilate C17.ProofsReject C17.ProofsBoth C17.ProofsInterp C17.ProofsAxis C17.ProofsLines C17.ProofsCall C17.ProofsMedian C17.ProofsMedian2 C17.ProofsSky.
Open Scope Q_scope.

(* ================================================================ dilation *)

(* S's dilation is the property's "within r samples of a flagged sample" *)
Theorem C17_dilation_spec : forall (m : list bool) (r i : nat),
  dil_at m r i = true <-> exists j, ((i <= j + r)%nat /\ (j <= i + r)%nat) /\ nth_error m j = Some true.
Proof. exact dil_at_spec. Qed.
Print Assumptions C17_dilation_spec.

(* the index-assignment loop of djs_reject (newmask[max(irejects-k,0)] = 0, newmask[min(irejects+k,n-1)] = 0,
   k = 1..grow) marks exactly the points within `grow` of a point rejected before growing *)
Theorem C17_grow_is_dilation : forall (g : nat) (m : list bool) (j : nat),
  length (grow_model g m) = length m /\
  (nth j (grow_model g m) true = false <->
   (j < length m)%nat /\ exists p, nth p m true = false /\ (j <= p + g)%nat /\ (p <= j + g)%nat).
Proof. exact grow_model_spec. Qed.
Print Assumptions C17_grow_is_dilation.

(* ================================================================ djs_reject *)

(* square-root elimination used by M and S: with s = sqrt(iv), d*s < c is decided without the root *)
Theorem C17_sqrt_elimination : forall d iv c s : Q, 0 <= s -> s * s == iv ->
  (sqrtmul_lt d iv c = true <-> d * s < c).
Proof. exact sqrtmul_lt_correct. Qed.
Print Assumptions C17_sqrt_elimination.

Theorem C17_units_of_invvar : forall d iv s c : Q, 0 <= s -> s * s == iv -> 0 <= c ->
  ((d < 0 /\ c * c < d * d * iv) <-> d * s < - c) /\ ((0 < d /\ c * c < d * d * iv) <-> c < d * s).
Proof. exact Beyond_sqrt. Qed.
Print Assumptions C17_units_of_invvar.

(* S's per-point test is the documented rule *)
Theorem C17_bad_iff : forall (o : ropts) (p : point), opts_ok o = true -> (bad_spec o p = true <-> Bad o p).
Proof. exact bad_spec_iff. Qed.
Print Assumptions C17_bad_iff.

(* M (badness accumulation, inmask/sticky products, growth loop, final products) = S, for every length *)
Theorem C17_reject_model_eq_spec : forall (o : ropts) (pts : list point),
  pre o pts -> reject_model o pts = reject_spec o pts.
Proof. exact reject_model_eq_spec. Qed.
Print Assumptions C17_reject_model_eq_spec.

(* reject_mask_spec: a point is rejected exactly when inmask excludes it, or (sticky) the previous outmask
   does, or it lies within `grow` of a point that is eligible and beyond a limit *)
Theorem C17_reject_mask_spec : forall (o : ropts) (pts : list point) (i : nat) (p : point),
  pre o pts -> nth_error pts i = Some p ->
  exists b, nth_error (fst (reject_model o pts)) i = Some b /\
    (b = false <->
       p_in p = false \/ (o_sticky o = true /\ p_out p = false) \/
       exists j q, ((i <= j + o_grow o)%nat /\ (j <= i + o_grow o)%nat) /\ nth_error pts j = Some q /\ Bad o q).
Proof. exact reject_model_mask. Qed.
Print Assumptions C17_reject_mask_spec.

(* the same for S alone (the oracle of the correspondence run), needing only the option ranges *)
Theorem C17_reject_spec_mask : forall (o : ropts) (pts : list point) (i : nat) (p : point),
  opts_ok o = true -> nth_error pts i = Some p ->
  exists b, nth_error (fst (reject_spec o pts)) i = Some b /\
    (b = false <->
       p_in p = false \/ (o_sticky o = true /\ p_out p = false) \/
       exists j q, ((i <= j + o_grow o)%nat /\ (j <= i + o_grow o)%nat) /\ nth_error pts j = Some q /\ Bad o q).
Proof. exact reject_spec_mask. Qed.
Print Assumptions C17_reject_spec_mask.

Theorem C17_reject_length : forall (o : ropts) (pts : list point), length (fst (reject_spec o pts)) = length pts.
Proof. exact reject_spec_length. Qed.
Print Assumptions C17_reject_length.

(* qdone_spec: completion is reported exactly when the mask did not change *)
Theorem C17_qdone_spec : forall (o : ropts) (pts : list point),
  snd (reject_model o pts) = true <-> fst (reject_model o pts) = map p_out pts.
Proof. exact qdone_model. Qed.
Print Assumptions C17_qdone_spec.

Theorem C17_qdone_S : forall (o : ropts) (pts : list point),
  snd (reject_spec o pts) = true <-> fst (reject_spec o pts) = map p_out pts.
Proof. exact qdone_spec. Qed.
Print Assumptions C17_qdone_S.

(* ================================================================ djs_maskinterp1 / djs_maskinterp *)

(* S's search returns the nearest good neighbour on each side *)
Theorem C17_nearest_left : forall (pts : list (Q * Q)) (x : Q),
  match pick_left pts x with Some p => IsLeft pts x p | None => NoLeft pts x end.
Proof. exact pick_left_spec. Qed.
Print Assumptions C17_nearest_left.

Theorem C17_nearest_right : forall (pts : list (Q * Q)) (x : Q),
  match pick_right pts x with Some p => IsRight pts x p | None => NoRight pts x end.
Proof. exact pick_right_spec. Qed.
Print Assumptions C17_nearest_right.

(* the samples S searches are exactly the unmasked ones *)
Theorem C17_good_samples : forall (xs ys : list Q) (mask : list bool) (x y : Q),
  In (x, y) (good_pts xs ys mask) <->
  exists k, nth_error xs k = Some x /\ nth_error ys k = Some y /\ nth_error mask k = Some false.
Proof. exact good_pts_In. Qed.
Print Assumptions C17_good_samples.

(* numpy.interp over a strictly increasing table = linear interpolation between the nearest table entries,
   clamped at the ends *)
Theorem C17_interp_is_nearest : forall (pts : list (Q * Q)) (x yself : Q),
  ssorted pts -> pts <> nil -> (forall q, In q pts -> ~ fst q == x) ->
  interp pts x == interp_spec_at pts x yself.
Proof. exact interp_spec. Qed.
Print Assumptions C17_interp_is_nearest.

(* M (all-good / none-good / one-good shortcuts, argsort of the good samples, numpy.interp) = S pointwise,
   index mode and xval mode, every length *)
Theorem C17_maskinterp_model_eq_spec : forall (ys : list Q) (mask : list bool) (xval : option (list Q)) (i : nat),
  xval_ok xval (length ys) -> length mask = length ys ->
  opt_Qeq (nth_error (maskinterp1_model ys mask xval) i) (nth_error (maskinterp1_spec ys mask xval) i).
Proof. exact maskinterp_model_eq_spec. Qed.
Print Assumptions C17_maskinterp_model_eq_spec.

(* maskinterp_spec, part 1: unmasked samples are untouched *)
Theorem C17_maskinterp_unmasked : forall (ys : list Q) (mask : list bool) (xval : option (list Q)) (i : nat) (y : Q),
  xval_ok xval (length ys) -> length mask = length ys ->
  nth_error ys i = Some y -> nth_error mask i = Some false ->
  exists v, nth_error (maskinterp1_model ys mask xval) i = Some v /\ v == y.
Proof. exact maskinterp_unmasked. Qed.
Print Assumptions C17_maskinterp_unmasked.

(* maskinterp_spec, part 2: a masked sample becomes the linear interpolation (in x; x = index without xval)
   between the nearest good neighbours, the nearest good value when one side has none (ends held constant),
   and stays as it is when no sample is good *)
Theorem C17_maskinterp_masked : forall (ys : list Q) (mask : list bool) (xval : option (list Q)) (i : nat) (x y : Q),
  xval_ok xval (length ys) -> length mask = length ys ->
  nth_error (xs_of xval (length ys)) i = Some x -> nth_error ys i = Some y -> nth_error mask i = Some true ->
  let gp := good_pts (xs_of xval (length ys)) ys mask in
  exists v, nth_error (maskinterp1_model ys mask xval) i = Some v /\
    (forall pl pr, IsLeft gp x pl -> IsRight gp x pr -> v == lin (fst pl) (snd pl) (fst pr) (snd pr) x) /\
    (forall pl, IsLeft gp x pl -> NoRight gp x -> v == snd pl) /\
    (forall pr, NoLeft gp x -> IsRight gp x pr -> v == snd pr) /\
    (NoLeft gp x -> NoRight gp x -> v == y).
Proof. exact maskinterp_masked. Qed.
Print Assumptions C17_maskinterp_masked.

(* the same in terms of sample indices (xval = None) *)
Theorem C17_maskinterp_index_between : forall (ys : list Q) (mask : list bool), length mask = length ys ->
  forall (i L R : nat) (y yL yR : Q), (L < i < R)%nat ->
  nth_error ys i = Some y -> nth_error mask i = Some true ->
  nth_error mask L = Some false -> nth_error ys L = Some yL ->
  nth_error mask R = Some false -> nth_error ys R = Some yR ->
  (forall k, (L < k < R)%nat -> nth_error mask k = Some true) ->
  exists v, nth_error (maskinterp1_model ys mask None) i = Some v /\
            v == yL + (yR - yL) * ((qnat i - qnat L) / (qnat R - qnat L)).
Proof. exact maskinterp_index_between. Qed.
Print Assumptions C17_maskinterp_index_between.

Theorem C17_maskinterp_left_end_constant : forall (ys : list Q) (mask : list bool), length mask = length ys ->
  forall (i R : nat) (y yR : Q), (i < R)%nat ->
  nth_error ys i = Some y -> nth_error mask i = Some true ->
  nth_error mask R = Some false -> nth_error ys R = Some yR ->
  (forall k, (k < R)%nat -> nth_error mask k = Some true) ->
  exists v, nth_error (maskinterp1_model ys mask None) i = Some v /\ v == yR.
Proof. exact maskinterp_index_left_end. Qed.
Print Assumptions C17_maskinterp_left_end_constant.

Theorem C17_maskinterp_right_end_constant : forall (ys : list Q) (mask : list bool), length mask = length ys ->
  forall (i L : nat) (y yL : Q), (L < i)%nat ->
  nth_error ys i = Some y -> nth_error mask i = Some true ->
  nth_error mask L = Some false -> nth_error ys L = Some yL ->
  (forall k, (L < k)%nat -> nth_error mask k <> Some false) ->
  exists v, nth_error (maskinterp1_model ys mask None) i = Some v /\ v == yL.
Proof. exact maskinterp_index_right_end. Qed.
Print Assumptions C17_maskinterp_right_end_constant.

Theorem C17_one_good_constant : forall (ys : list Q) (mask : list bool), length mask = length ys ->
  forall (g : nat) (yg : Q) (i : nat) (y : Q),
  nth_error mask g = Some false -> nth_error ys g = Some yg ->
  (forall k, k <> g -> nth_error mask k <> Some false) -> nth_error ys i = Some y ->
  exists v, nth_error (maskinterp1_model ys mask None) i = Some v /\ v == yg.
Proof. exact one_good_constant. Qed.
Print Assumptions C17_one_good_constant.

Theorem C17_none_good_identity : forall (ys : list Q) (mask : list bool), length mask = length ys ->
  forall (i : nat) (y : Q), (forall k, nth_error mask k <> Some false) -> nth_error ys i = Some y ->
  exists v, nth_error (maskinterp1_model ys mask None) i = Some v /\ v == y.
Proof. exact none_good_identity. Qed.
Print Assumptions C17_none_good_identity.

(* the `const` rules of djs_maskinterp1 (GENERATED destination slice and source index): every value they
   write is == the value already there, so `const` changes nothing (as the docstring says) and M omits it *)
Theorem C17_const_left_noop : forall (ys : list Q) (mask : list bool), length mask = length ys ->
  forall (igood : Z -> Z) (ngood ny : Z) (g0 : nat) (y0 : Q) (i : nat) (y : Q),
  igood 0%Z = Z.of_nat g0 -> nth_error mask g0 = Some false -> nth_error ys g0 = Some y0 ->
  (forall k, (k < g0)%nat -> nth_error mask k = Some true) ->
  (mi_idx_left_lo igood ngood ny <= Z.of_nat i < mi_idx_left_hi igood ngood ny)%Z ->
  nth_error ys i = Some y ->
  exists v w, nth_error (maskinterp1_model ys mask None) i = Some v /\
              nth_error (maskinterp1_model ys mask None) (Z.to_nat (mi_idx_left_src igood ngood ny)) = Some w /\ v == w.
Proof. exact const_left_noop. Qed.
Print Assumptions C17_const_left_noop.

Theorem C17_const_right_noop : forall (ys : list Q) (mask : list bool), length mask = length ys ->
  forall (igood : Z -> Z) (ngood ny : Z) (gl : nat) (yl : Q) (i : nat) (y : Q),
  igood (ngood - 1)%Z = Z.of_nat gl -> nth_error mask gl = Some false -> nth_error ys gl = Some yl ->
  (forall k, (gl < k)%nat -> nth_error mask k <> Some false) ->
  (mi_idx_right_lo igood ngood ny <= Z.of_nat i < mi_idx_right_hi igood ngood ny)%Z ->
  nth_error ys i = Some y ->
  exists v w, nth_error (maskinterp1_model ys mask None) i = Some v /\
              nth_error (maskinterp1_model ys mask None) (Z.to_nat (mi_idx_right_src igood ngood ny)) = Some w /\ v == w.
Proof. exact const_right_noop. Qed.
Print Assumptions C17_const_right_noop.

(* with xval the same two rules are applied in x-sorted order *)
Theorem C17_const_rules_same_with_xval : forall (igood : Z -> Z) (ngood ny : Z),
  (mi_x_left_guard igood ngood ny, mi_x_left_lo igood ngood ny, mi_x_left_hi igood ngood ny, mi_x_left_src igood ngood ny,
   mi_x_right_guard igood ngood ny, mi_x_right_lo igood ngood ny, mi_x_right_hi igood ngood ny, mi_x_right_src igood ngood ny)
  = (mi_idx_left_guard igood ngood ny, mi_idx_left_lo igood ngood ny, mi_idx_left_hi igood ngood ny, mi_idx_left_src igood ngood ny,
     mi_idx_right_guard igood ngood ny, mi_idx_right_lo igood ngood ny, mi_idx_right_hi igood ngood ny, mi_idx_right_src igood ngood ny).
Proof. exact const_rules_same. Qed.
Print Assumptions C17_const_rules_same_with_xval.

(* maskinterp_axis: on an n-D array (flat list + the index lists of its lines along the chosen axis) the loop
   ynew[line] = djs_maskinterp1(yval[line], mask[line], xval[line]) acts independently on every line:
   each line of the output is the 1-D result for that line of the input -- for M and for S -- and the 1-D
   theorems above then apply line by line.  Hypotheses: the lines are disjoint index lists inside the array. *)
Theorem C17_maskinterp_axis : forall (ys : list Q) (mask : list bool) (xval : option (list Q)) (lines : list (list nat)) (line : list nat),
  NoDup (concat lines) -> (forall k, In k (concat lines) -> (k < length ys)%nat) -> In line lines ->
  gather 0 (maskinterp_nd_model ys mask xval lines) line
  = maskinterp1_model (gather 0 ys line) (gather false mask line) (option_map (fun xs => gather 0 xs line) xval).
Proof. exact maskinterp_axis_model. Qed.
Print Assumptions C17_maskinterp_axis.

Theorem C17_maskinterp_axis_S : forall (ys : list Q) (mask : list bool) (xval : option (list Q)) (lines : list (list nat)) (line : list nat),
  NoDup (concat lines) -> (forall k, In k (concat lines) -> (k < length ys)%nat) -> In line lines ->
  gather 0 (maskinterp_nd_spec ys mask xval lines) line
  = maskinterp1_spec (gather 0 ys line) (gather false mask line) (option_map (fun xs => gather 0 xs line) xval).
Proof. exact maskinterp_axis_spec. Qed.
Print Assumptions C17_maskinterp_axis_S.

(* the lines themselves are derived in Coq from (shape, axis) -- lines_pydl, pydl's IDL-style axis numbering --
   and compared with numpy.moveaxis on every run: they are disjoint and cover exactly the flat indices *)
Theorem C17_lines_partition : forall (shape : list nat) (axis : nat), (axis < length shape)%nat ->
  NoDup (concat (lines_pydl shape axis)) /\ forall k, In k (concat (lines_pydl shape axis)) <-> (k < prod shape)%nat.
Proof. exact lines_pydl_partition. Qed.
Print Assumptions C17_lines_partition.

Theorem C17_maskinterp_axis_of_shape : forall (ys : list Q) (mask : list bool) (xval : option (list Q))
    (shape : list nat) (axis : nat) (line : list nat),
  (axis < length shape)%nat -> prod shape = length ys -> In line (lines_pydl shape axis) ->
  gather 0 (maskinterp_nd_model ys mask xval (lines_pydl shape axis)) line
  = maskinterp1_model (gather 0 ys line) (gather false mask line) (option_map (fun xs => gather 0 xs line) xval).
Proof. exact maskinterp_axis_shape. Qed.
Print Assumptions C17_maskinterp_axis_of_shape.

(* round 5: the CALL djs_maskinterp(yval, mask, xval, axis).  Argument checks and the dispatch table on (ndim, xval
   given, axis) down to the loops and index patterns of every leaf are GENERATED (nd_check_..., nd_axis_..., nd_table). *)

(* the generated checks refuse a mask / xval of another shape and a missing axis; an axis is refused exactly when it
   is not one of 0 .. ndim-1 *)
Theorem C17_maskinterp_call_checks :
  nd_check_mask_shape = true /\ nd_check_xval_shape = true /\ nd_axis_none_is_error = true /\
  forall axis ndim : Z, nd_axis_invalid axis ndim = negb ((0 <=? axis)%Z && (axis <? ndim)%Z).
Proof. exact nd_checks_generated. Qed.
Print Assumptions C17_maskinterp_call_checks.

(* for EVERY 2-D / 3-D shape, every axis and both xval variants the generated dispatch reaches a leaf that passes xval on
   exactly when it is given and whose nested loops touch, in iteration order, exactly the lines of lines_pydl *)
Theorem C17_maskinterp_dispatch : forall (shape : list nat) (hasx : bool) (axis : nat),
  (length shape = 2 \/ length shape = 3)%nat -> (axis < length shape)%nat ->
  exists e, nd_find nd_table (length shape) hasx (Z.of_nat axis) = Some e /\ e_passx e = hasx /\
            entry_lines shape e = lines_pydl shape axis.
Proof. exact nd_dispatch_general. Qed.
Print Assumptions C17_maskinterp_dispatch.

(* the same decided by computation for all shapes with sides 0..5 (kept as a fast regression of the table) *)
Theorem C17_maskinterp_dispatch_bounded : nd_dispatch_check 5 = true.
Proof. exact nd_dispatch_check_5. Qed.
Print Assumptions C17_maskinterp_dispatch_bounded.

(* M refuses a call exactly when S does (any number of dimensions, any shape) and never ends in another outcome *)
Theorem C17_maskinterp_call_error_iff : forall (ys : list Q) (mask : list bool) (xval : option (list Q))
    (shape mshape : list nat) (xshape : option (list nat)) (axis : option Z),
  (maskinterp_call_model ys mask xval shape mshape xshape axis = NDErr <->
   maskinterp_call_spec ys mask xval shape mshape xshape axis = NDErr) /\
  maskinterp_call_model ys mask xval shape mshape xshape axis <> NDOther.
Proof. exact call_model_error_iff_spec. Qed.
Print Assumptions C17_maskinterp_call_error_iff.

(* maskinterp_axis for the CALL: a valid call returns an array each of whose lines along the axis is the 1-D routine
   applied to that line of the inputs *)
Theorem C17_maskinterp_call_lines : forall (ys : list Q) (mask : list bool) (xval : option (list Q))
    (shape mshape : list nat) (xshape : option (list nat)) (a : Z) (line : list nat),
  (length shape = 2 \/ length shape = 3)%nat ->
  shape_eqb mshape shape = true -> match xshape with Some xs => shape_eqb xs shape = true | None => True end ->
  (0 <= a < Z.of_nat (length shape))%Z -> prod shape = length ys -> In line (lines_pydl shape (Z.to_nat a)) ->
  exists m, maskinterp_call_model ys mask xval shape mshape xshape (Some a) = NDOk m /\
            gather 0 m line = maskinterp1_model (gather 0 ys line) (gather false mask line) (option_map (fun xs => gather 0 xs line) xval).
Proof. exact call_model_lines. Qed.
Print Assumptions C17_maskinterp_call_lines.

(* ================================================================ aesthetics *)

(* aesthetics_support.  DESIGN.md states: ivar_i <> 0 -> out_i = flux_i for the four methods.  That full
   statement is proved for traditional, noconst and nothing.  For `mean` it is NOT true of the code when
   ivar_i < 0: pydl overwrites `~(invvar > 0)` (IDL: the pixels with invvar == 0), so a pixel with negative
   inverse variance is replaced.  Proved here: the statement with the extra hypothesis 0 <= ivar_i for the
   mean method (inverse variances are non-negative by definition; see notes/C17.md, "observations"). *)
Theorem C17_aesthetics_support_partial : forall (meth : amethod) (flux iv : list Q) (i : nat) (f v : Q),
  length iv = length flux -> nth_error flux i = Some f -> nth_error iv i = Some v -> ~ v == 0 ->
  (meth = Mean -> 0 <= v) ->
  exists out, nth_error (aesthetics_model meth flux iv) i = Some out /\ out == f.
Proof. exact aesthetics_support. Qed.
Print Assumptions C17_aesthetics_support_partial.

(* round 5: aesthetics_model is assembled from pieces GENERATED from aesthetics() (bad-pixel test, all-bad shortcut,
   masks given to djs_maskinterp, good-pixel test and destination of the `mean` assignment); it IS the reference *)
Theorem C17_aesthetics_generated_is_reference : forall (meth : amethod) (flux iv : list Q),
  aesthetics_model meth flux iv = aesthetics_ref meth flux iv.
Proof. exact aesthetics_generated_is_ref. Qed.
Print Assumptions C17_aesthetics_generated_is_reference.

(* what is missing from the full DESIGN statement, exactly: it is FALSE of the code for `mean` and a negative inverse
   variance (flux 1 2 3 4, ivar 1 0 -1 2: pixel 2 becomes 5/2); replayed on the real code in notes/C17.md *)
Theorem C17_aesthetics_support_mean_refuted :
  exists (flux iv : list Q) (i : nat) (f v out : Q),
    length iv = length flux /\ nth_error flux i = Some f /\ nth_error iv i = Some v /\ ~ v == 0 /\
    nth_error (aesthetics_model Mean flux iv) i = Some out /\ ~ out == f.
Proof. exact aesthetics_support_mean_refuted. Qed.
Print Assumptions C17_aesthetics_support_mean_refuted.

(* ... and that is the only exception: M differs from the input only where ivar = 0, or (mean) where ivar < 0 *)
Theorem C17_aesthetics_support_exact : forall (meth : amethod) (flux iv : list Q) (i : nat) (f v out : Q),
  length iv = length flux -> nth_error flux i = Some f -> nth_error iv i = Some v ->
  nth_error (aesthetics_model meth flux iv) i = Some out -> ~ out == f ->
  v == 0 \/ (meth = Mean /\ v < 0).
Proof. exact aesthetics_support_exact. Qed.
Print Assumptions C17_aesthetics_support_exact.

(* no pixel with non-zero inverse variance: the spectrum is returned as it is, whatever the method *)
Theorem C17_aesthetics_all_bad_identity : forall (meth : amethod) (flux iv : list Q),
  (forall v, In v iv -> v == 0) -> aesthetics_model meth flux iv = flux.
Proof. exact aesthetics_all_bad_identity. Qed.
Print Assumptions C17_aesthetics_all_bad_identity.

(* M = S when no inverse variance is negative *)
Theorem C17_aesthetics_model_eq_spec : forall (meth : amethod) (flux iv : list Q) (i : nat),
  length iv = length flux -> (forall v, In v iv -> 0 <= v) ->
  opt_Qeq (nth_error (aesthetics_model meth flux iv) i) (nth_error (aesthetics_spec meth flux iv) i).
Proof. exact aesthetics_model_eq_spec. Qed.
Print Assumptions C17_aesthetics_model_eq_spec.

(* S itself (the oracle) changes flux only where the inverse variance is zero, without any sign condition *)
Theorem C17_aesthetics_S_support : forall (meth : amethod) (flux iv : list Q) (i : nat) (f v : Q),
  length iv = length flux -> nth_error flux i = Some f -> nth_error iv i = Some v -> ~ v == 0 ->
  nth_error (aesthetics_spec meth flux iv) i = Some f.
Proof. exact aesthetics_spec_support. Qed.
Print Assumptions C17_aesthetics_S_support.

(* ================================================================ djs_median(boundary='reflect') *)

(* median_reflect_spec: padding with the reversed ends + median filter + cut = window median over the
   symmetrically reflected array, odd widths 2h+1 >= 3, padding h+1 <= length *)
Theorem C17_median_reflect_spec : forall (xs : list Z) (h : nat), (1 <= h)%nat -> (h + 1 <= length xs)%nat ->
  median_reflect_model xs (2 * Z.of_nat h + 1) = MOk (median_reflect_spec xs (2 * Z.of_nat h + 1)).
Proof. exact median_reflect_model_eq_spec. Qed.
Print Assumptions C17_median_reflect_spec.

(* the total statement, ValueError class included: for every width >= 1 and every non-empty array M = S, where S
   returns the input for width 1, refuses (ValueError) an even width and an array shorter than ceil(width/2)
   with more than one sample, and otherwise is the reflected-window median *)
Theorem C17_median_reflect_total : forall (xs : list Z) (w : Z), (1 <= w)%Z -> xs <> [] ->
  median_reflect_model xs w = median_reflect_total_spec xs w.
Proof. exact median_reflect_model_total. Qed.
Print Assumptions C17_median_reflect_total.

(* 2-D: padding the image with its reversed borders and corners, medfilt2d and cutting the middle out (M) is the
   median over the width x width box of the image reflected in both directions (S); even widths and images with
   fewer than ceil(width/2) rows or columns are ValueError in both (rectangular images) *)
Theorem C17_median2_reflect_total : forall (rows : list (list Z)) (w : Z), (1 <= w)%Z ->
  (w <= Z.of_nat (length rows) * Z.of_nat (length (hd [] rows)))%Z ->
  (forall r, In r rows -> length r = length (hd [] rows)) ->
  median_reflect2_model rows w = median_reflect2_total_spec rows w.
Proof. exact median_reflect2_model_total. Qed.
Print Assumptions C17_median2_reflect_total.

(* S's reflection repeats the edge sample: -1-j on the left, 2n-1-j on the right *)
Theorem C17_reflect_is_symmetric : forall n j : Z, (0 < n)%Z -> (- n <= j < 2 * n)%Z ->
  reflect n j = (if (j <? 0)%Z then (- 1 - j)%Z else if (n <=? j)%Z then (2 * n - 1 - j)%Z else j).
Proof. exact reflect_single. Qed.
Print Assumptions C17_reflect_is_symmetric.

(* the median of 2h+1 samples is one of them with at most h smaller and at most h larger; nothing else is *)
Theorem C17_median_is_middle : forall (l : list Z) (h : nat), length l = (2 * h + 1)%nat ->
  let m := median_of l in
  In m l /\ Nat.le (count (fun x => (x <? m)%Z) l) h /\ Nat.le (count (fun x => (m <? x)%Z) l) h.
Proof. exact median_of_spec. Qed.
Print Assumptions C17_median_is_middle.

Theorem C17_median_unique : forall (l : list Z) (h : nat) (m' : Z), length l = (2 * h + 1)%nat ->
  In m' l -> Nat.le (count (fun x => (x <? m')%Z) l) h -> Nat.le (count (fun x => (m' <? x)%Z) l) h ->
  m' = median_of l.
Proof. exact median_of_unique. Qed.
Print Assumptions C17_median_unique.

(* ================================================================ skymask *)

(* the generated guard (ngrow > 0), width (2*ngrow+1), smooth(badmask*width, width, True) call and `> 0` test
   compute the dilation by ngrow of the flagged pixels, row ends included *)
Theorem C17_skymask_badmask_is_dilation : forall (flagged : list bool) (g : nat),
  (if sky_grow_guard (Z.of_nat g)
   then let width := sky_width (Z.of_nat g) in
        map sky_smooth_test
            (smooth_model (map (fun b : bool => ((if b then 1 else 0) * sky_smooth_scale width)%Z) flagged)
                          (sky_smooth_width width) sky_smooth_edge)
   else flagged) = dilate_spec flagged g.
Proof. exact sky_bad_eq. Qed.
Print Assumptions C17_skymask_badmask_is_dilation.

(* the flags tested are the two the property names *)
Theorem C17_skymask_flag_names :
  sky_flag_names = [("SPPIXMASK", "BADSKYCHI"); ("SPPIXMASK", "REDMONSTER")]%str.
Proof. exact eq_refl. Qed.
Print Assumptions C17_skymask_flag_names.

(* skymask_spec: the inverse variance is zeroed exactly within ngrow pixels of a flagged pixel *)
Theorem C17_skymask_spec : forall (f1 f2 : Z) (g : nat) (iv : list Q) (ms : list Z) (i : nat) (v : Q),
  (0 <= f1 < 2 ^ 64)%Z -> (0 <= f2 < 2 ^ 64)%Z -> length ms = length iv -> nth_error iv i = Some v ->
  exists out, nth_error (skymask_row_model f1 f2 g iv (Some ms)) i = Some out /\
              (Flagged f1 f2 ms g i -> out == 0) /\ (~ Flagged f1 f2 ms g i -> out == v).
Proof. exact skymask_row_model_correct. Qed.
Print Assumptions C17_skymask_spec.

Theorem C17_skymask_S : forall (f1 f2 : Z) (g : nat) (iv : list Q) (ms : list Z) (i : nat) (v : Q),
  length ms = length iv -> nth_error iv i = Some v ->
  exists out, nth_error (skymask_row_spec f1 f2 g iv (Some ms)) i = Some out /\
              (Flagged f1 f2 ms g i -> out = 0) /\ (~ Flagged f1 f2 ms g i -> out = v).
Proof. exact skymask_row_spec_correct. Qed.
Print Assumptions C17_skymask_S.

Theorem C17_skymask_no_ormask : forall (f1 f2 : Z) (g : nat) (iv : list Q) (i : nat) (v : Q),
  nth_error iv i = Some v ->
  exists out, nth_error (skymask_row_model f1 f2 g iv None) i = Some out /\ out == v.
Proof. exact skymask_row_none. Qed.
Print Assumptions C17_skymask_no_ormask.

(* signed and unsigned widths: the test on the mask cast to uint64 is the test on the stored integer value
   (negative values included), a flag 2^b tests bit b of it, and for b inside the stored width w that is
   bit b of the stored w-bit pattern *)
Theorem C17_flag_test_any_sign : forall f1 f2 m : Z, (0 <= f1 < 2 ^ 64)%Z -> (0 <= f2 < 2 ^ 64)%Z ->
  sky_flagged m f1 f2 = (negb (Z.land m f1 =? 0)%Z || negb (Z.land m f2 =? 0)%Z).
Proof. exact sky_flagged_ok. Qed.
Print Assumptions C17_flag_test_any_sign.

Theorem C17_flag_is_bit : forall m b : Z, (0 <= b)%Z -> (Z.land m (2 ^ b) <> 0%Z <-> Z.testbit m b = true).
Proof. exact land_pow2_testbit. Qed.
Print Assumptions C17_flag_is_bit.

Theorem C17_stored_pattern : forall m w b : Z, (0 <= b < w)%Z -> Z.testbit (m mod 2 ^ w) b = Z.testbit m b.
Proof. exact testbit_stored_pattern. Qed.
Print Assumptions C17_stored_pattern.

(* ================================================================ djs_reject: which keyword sets the units *)

(* the source decides the scaling of BOTH limit blocks by `sigma is not None` (generated selectors), and estimates a
   sigma exactly when neither keyword is supplied *)
Theorem C17_reject_selectors : forall sg ivg : bool,
  rej_lower_use_sigma sg ivg = sg /\ rej_upper_use_sigma sg ivg = sg /\ rej_estimates_sigma sg ivg = negb sg && negb ivg.
Proof. exact (fun sg ivg => conj (gen_lower_use_sigma sg ivg) (conj (gen_upper_use_sigma sg ivg) (gen_estimates_sigma sg ivg))). Qed.
Print Assumptions C17_reject_selectors.

(* the call-level model (keywords as supplied, selectors from the source) is the one-scale model on the points
   resolved by the documented rule: sigma if supplied, else 1/sqrt(invvar); with neither, only maxdev is inside *)
Theorem C17_reject_call_resolves : forall (o : ropts) (sg ivg : bool) (qs : list point2),
  call2_ok o sg ivg = true -> reject_model2 o sg ivg qs = reject_model o (map (resolve sg) qs).
Proof. exact reject_model2_resolve. Qed.
Print Assumptions C17_reject_call_resolves.

Theorem C17_reject_call_model_eq_spec : forall (o : ropts) (sg ivg : bool) (qs : list point2),
  call2_ok o sg ivg = true -> pre o (map (resolve sg) qs) -> reject_model2 o sg ivg qs = reject_spec2 o sg ivg qs.
Proof. exact reject_model2_eq_spec2. Qed.
Print Assumptions C17_reject_call_model_eq_spec.

(* "If both sigma and invvar are set, invvar will be ignored": with sigma supplied the result depends on the points
   and their sigma only -- not on whether invvar is supplied, nor on its values *)
Theorem C17_reject_sigma_wins : forall (o : ropts) (ivg ivg' : bool) (qs qs' : list point2),
  map (fun q => (q_pt q, q_sigma q)) qs = map (fun q => (q_pt q, q_sigma q)) qs' ->
  reject_model2 o true ivg qs = reject_model2 o true ivg' qs'.
Proof. exact reject_sigma_wins. Qed.
Print Assumptions C17_reject_sigma_wins.

(* the final products test the masks as `mask != 0` (any non-zero entry marks a good point, as documented), not by a
   bitwise and: M's boolean p_in / p_out (entry is non-zero) is then faithful for masks of every dtype and value *)
Theorem C17_reject_masks_by_truth : rej_masks_by_truth = true.
Proof. exact eq_refl. Qed.
Print Assumptions C17_reject_masks_by_truth.

Theorem C17_reject_invvar_alone : forall (o : ropts) (qs : list point2),
  reject_model2 o false true qs = reject_model o (map (fun q => with_scale (q_pt q) (Ivar (q_invvar q))) qs).
Proof. exact reject_invvar_alone. Qed.
Print Assumptions C17_reject_invvar_alone.

(* ================================================================ non-vacuity witnesses *)

(* both keywords, different: residual 3, upper 2, sigma 1 (3 > 2*1: rejected) but invvar 1/4 (3*0.5 < 2: kept by
   the invvar rule) -- the supplied sigma decides; with invvar alone the point is kept *)
Example C17_ex_reject_both :
  fst (reject_model2 (mkO None (Some 2) None false 0) true true [mkP2 (mkP 3 0 (Sig 0) true true) 1 (1 # 4)]) = [false]
  /\ fst (reject_model2 (mkO None (Some 2) None false 0) false true [mkP2 (mkP 3 0 (Sig 0) true true) 1 (1 # 4)]) = [true]
  /\ fst (reject_spec2 (mkO None (Some 2) None false 0) true true [mkP2 (mkP 3 0 (Sig 0) true true) 1 (1 # 4)]) = [false].
Proof. exact (conj eq_refl (conj eq_refl eq_refl)). Qed.

(* grow = 1 rejects the neighbours of the one outlier; inmask keeps its own zero; qdone is false *)
Example C17_ex_reject :
  fst (reject_model (mkO None (Some 3) None false 1)
         [mkP 0 0 (Sig 1) true true; mkP 0 0 (Sig 1) true true; mkP 10 0 (Sig 1) true true;
          mkP 0 0 (Sig 1) true true; mkP 0 0 (Sig 1) false true; mkP 0 0 (Sig 1) true true])
  = [true; false; false; false; false; true].
Proof. exact eq_refl. Qed.

Example C17_ex_pre : pre (mkO (Some 2) (Some 3) (Some (1 # 2)) true 2) [mkP 1 0 (Sig 1) true true; mkP 1 0 (Ivar 4) true false].
Proof. exact (pre_of_forallb (mkO (Some 2) (Some 3) (Some (1 # 2)) true 2) [mkP 1 0 (Sig 1) true true; mkP 1 0 (Ivar 4) true false] eq_refl eq_refl). Qed.

Example C17_ex_skymask_signed :
  (* an int32 pixel with bit 31 (sign) and REDMONSTER (bit 28) set, ngrow = 1, flags 2^27 and 2^28 *)
  map (fun v => Qeq_bool v 0)
      (skymask_row_model (2 ^ 27) (2 ^ 28) 1 [1; 1; 1; 1; 1] (Some [0; 0; 0; (- 1879048192)%Z; 0]%Z))
  = [false; false; true; true; true].
Proof. exact eq_refl. Qed.

Example C17_ex_median : median_reflect_model [5; 1; 4; 2; 3]%Z 3 = MOk [5; 4; 2; 3; 3]%Z.
Proof. exact eq_refl. Qed.

(* round 5 *)
Example C17_ex_aesthetics_all_bad : aesthetics_model Mean [1; 2; 3] [0; 0; 0] = [1; 2; 3].
Proof. exact eq_refl. Qed.

Example C17_ex_call_2d :
  (* a 2 x 3 image, pydl axis 0 = along the rows; the masked middle sample of row 0 is interpolated *)
  match maskinterp_call_model [1; 7; 3; 4; 5; 6] [false; true; false; false; false; false] None [2; 3]%nat [2; 3]%nat None (Some 0%Z) with
  | NDOk l => map (fun v => Qeq_bool v 2) l | _ => [] end = [false; true; false; false; false; false].
Proof. exact eq_refl. Qed.

Example C17_ex_call_refused :
  (maskinterp_call_model [1; 2; 3; 4] [false; true; false; false] None [2; 2]%nat [2; 2]%nat None (Some 2%Z),
   maskinterp_call_model [1; 2; 3; 4] [false; true; false; false] None [2; 2]%nat [4]%nat None (Some 0%Z),
   maskinterp_call_model [1; 2; 3; 4] [false; true; false; false] None [2; 2]%nat [2; 2]%nat None None) = (NDErr, NDErr, NDErr).
Proof. exact eq_refl. Qed.
