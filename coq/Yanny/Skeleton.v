(* Yanny/Skeleton.v -- a file as a free SEQUENCE of its core items: keyword pairs, data rows, struct typedefs (any
   layout the scanners read as the table, TypedefLayout.td_reads) and enum typedefs, in ANY order that keeps the pairs in
   order, every table's rows in order, the struct typedefs in table order and the enum typedefs in order -- typedefs
   and pairs may stand anywhere, also after data rows.  On top of that skeleton every decoration of LayoutFile2.idec:
   indentation, trailing blanks and comments, free token layout of rows, inserted comment and blank lines. *)
From Coq Require Import NArith ZArith List Bool Lia.
Import ListNotations.
From PV Require Import Yanny.Bytes Yanny.BytesFacts Yanny.Types Yanny.Parse Yanny.Render
  Yanny.TokenFacts Yanny.RowFacts Yanny.TypeFacts Yanny.DocFacts Yanny.LayoutFacts Yanny.ScanFacts Yanny.StructFacts
  Yanny.EnumFacts Yanny.DtypeFacts Yanny.FileFacts Yanny.RoundTrip Yanny.LayoutFile Yanny.LayoutRow Yanny.LayoutFile2
  Yanny.Interleave Yanny.TypedefLayout.
Open Scope N_scope.

Inductive sk :=
  | SkPair (kv : bytes * bytes)
  | SkRow (tr : table * list cell)
  | SkStruct (body name : bytes)
  | SkEnum (body name : bytes).
Definition sk_item (s : sk) : item :=
  match s with
  | SkPair kv => ILine (pair_line kv)
  | SkRow tr => ILine (tr_line tr)
  | SkStruct b n => ITd KW_STRUCT b n
  | SkEnum b n => ITd KW_ENUM b n
  end.
Definition sk_pairs (l : list sk) : list (bytes * bytes) := flat_map (fun s => match s with SkPair kv => [kv] | _ => [] end) l.
Definition sk_trs (l : list sk) : list (table * list cell) := flat_map (fun s => match s with SkRow tr => [tr] | _ => [] end) l.
Definition sk_structs (l : list sk) : list (bytes * bytes) := flat_map (fun s => match s with SkStruct b n => [(b, n)] | _ => [] end) l.
Definition sk_enums (l : list sk) : list (bytes * bytes) := flat_map (fun s => match s with SkEnum b n => [(b, n)] | _ => [] end) l.

(* the skeleton carries exactly the document *)
Definition skel_ok (d : doc) (tws : list (table * list bytes)) (l : list sk) : Prop :=
  sk_pairs l = d_pairs d /\ trs_ok d (sk_trs l) /\
  Forall2 (fun tw bn => td_reads (d_enums d) (fst tw) (fst bn) (snd bn)) tws (sk_structs l) /\
  Forall2 (fun e bn => etd_reads e (fst bn) (snd bn)) (d_enums d) (sk_enums l).

Lemma sk_filter_struct l : map item_td_text (filter (item_is_td KW_STRUCT) (map sk_item l)) = map btext (sk_structs l).
Proof.
  induction l as [|s l IH]; [reflexivity|]. destruct s; cbn [map sk_item filter item_is_td sk_structs flat_map app]; try exact IH.
  change (beq KW_STRUCT KW_STRUCT) with true. cbv iota. cbn [map item_td_text]. unfold sk_structs in IH. now rewrite IH.
Qed.

Lemma sk_filter_enum l : map item_td_text (filter (item_is_td KW_ENUM) (map sk_item l)) = map ebtext (sk_enums l).
Proof.
  induction l as [|s l IH]; [reflexivity|]. destruct s; cbn [map sk_item filter item_is_td sk_enums flat_map app]; try exact IH.
  change (beq KW_ENUM KW_ENUM) with true. cbv iota. cbn [map item_td_text]. unfold sk_enums in IH. now rewrite IH.
Qed.

Lemma in_sk_pairs l kv : In kv (sk_pairs l) <-> In (SkPair kv) l.
Proof.
  unfold sk_pairs. rewrite in_flat_map. split.
  - intros [s [Hs Hin]]. destruct s; try contradiction. destruct Hin as [->|[]]. exact Hs.
  - intros H. exists (SkPair kv). split; [exact H|now left].
Qed.
Lemma in_sk_trs l tr : In tr (sk_trs l) <-> In (SkRow tr) l.
Proof.
  unfold sk_trs. rewrite in_flat_map. split.
  - intros [s [Hs Hin]]. destruct s; try contradiction. destruct Hin as [->|[]]. exact Hs.
  - intros H. exists (SkRow tr). split; [exact H|now left].
Qed.
Lemma in_sk_enums l b n : In (b, n) (sk_enums l) <-> In (SkEnum b n) l.
Proof.
  unfold sk_enums. rewrite in_flat_map. split.
  - intros [s [Hs Hin]]. destruct s; try contradiction. destruct Hin as [E|[]]. inversion E; subst. exact Hs.
  - intros H. exists (SkEnum b n). split; [exact H|now left].
Qed.
Lemma in_sk_structs l b n : In (b, n) (sk_structs l) <-> In (SkStruct b n) l.
Proof.
  unfold sk_structs. rewrite in_flat_map. split.
  - intros [s [Hs Hin]]. destruct s; try contradiction. destruct Hin as [E|[]]. inversion E; subst. exact Hs.
  - intros H. exists (SkStruct b n). split; [exact H|now left].
Qed.

Lemma Forall2_in_r {A B} (R : A -> B -> Prop) la lb b : Forall2 R la lb -> In b lb -> exists a, In a la /\ R a b.
Proof.
  induction 1 as [|x y la lb Hxy _ IH]; [contradiction|]. intros [->|Hin]; [exists x; split; [now left|exact Hxy]|].
  destruct (IH Hin) as [a [Ha Hr]]. exists a. split; [now right|exact Hr].
Qed.

Lemma skel_good d tws l : doc_ok d = true -> skel_ok d tws l -> Forall item_good (map sk_item l).
Proof.
  intros Hd [Hp [[Htr _] [Hst Hen]]]. destruct (doc_ok_parts d Hd) as [_ [_ [Hpk [_ [Hes [_ [Ht _]]]]]]].
  apply Forall_map_in. intros s Hin. destruct s as [[k v]|[t r]|b n|b n]; cbn [sk_item].
  - apply in_sk_pairs in Hin. rewrite Hp in Hin. rewrite forallb_forall in Hpk. specialize (Hpk _ Hin). cbn [fst snd] in Hpk.
    apply andb_true_iff in Hpk as [Hpk _]. apply andb_true_iff in Hpk as [Hpk H3]. apply andb_true_iff in Hpk as [H1 H2].
    now apply pair_good.
  - apply in_sk_trs in Hin. rewrite Forall_forall in Htr. destruct (Htr _ Hin) as [T1 T2]. cbn [fst snd] in *.
    unfold tr_line. cbn [fst snd]. eapply row_good; eauto. rewrite forallb_forall in Ht. auto.
  - apply in_sk_structs in Hin. destruct (Forall2_in_r _ _ _ _ Hst Hin) as [tw [_ [G _]]]. exact G.
  - apply in_sk_enums in Hin. destruct (Forall2_in_r _ _ _ _ Hen Hin) as [e [_ [G _]]]. exact G.
Qed.

(* the line loop over pairs, rows and (blanked) typedefs in any order *)
Lemma mixed_processed es sy : forallb enum_ok es = true -> forall l st,
  Forall (fun s => match s with
                   | SkPair kv => ident (fst kv) = true /\ hdr_ok (snd kv) = true /\ existsb (beq (upper (fst kv))) (map fst sy) = false
                   | SkRow tr => table_ok es (fst tr) = true /\ In (snd tr) (t_rows (fst tr)) /\
                                 assoc (upper (t_name (fst tr))) sy = Some (tcols_of es (t_cols (fst tr)))
                   | _ => True
                   end) l ->
  exists st', process_lines sy st (map item_line (map sk_item l)) = Some st' /\
              st_pairs st' = fold_left (fun acc kv => assoc_set (fst kv) (snd kv) acc) (sk_pairs l) (st_pairs st) /\
              forall k, assoc k (st_rows st') = option_map (fun rs => rs ++ rows_for k (sk_trs l)) (assoc k (st_rows st)).
Proof.
  intros Hes l. induction l as [|s l IH]; intros st H.
  - exists st. split; [reflexivity|]. split; [reflexivity|]. intros k. unfold rows_for. cbn [sk_trs flat_map filter map].
    destruct (assoc k (st_rows st)); cbn [option_map]; [now rewrite app_nil_r|reflexivity].
  - inversion H as [|? ? Hs Hrest]; subst. destruct s as [[k v]|[t r]|b n|b n]; cbn [map sk_item item_line process_lines].
    + destruct Hs as [H1 [H2 H3]]. cbn [fst snd] in *. rewrite pair_line_roundtrip by auto.
      destruct (IH (mkst (assoc_set k v (st_pairs st)) (st_rows st)) Hrest) as [st' [P1 [P2 P3]]].
      exists st'. split; [exact P1|]. split; [exact P2|]. exact P3.
    + destruct Hs as [H1 [H2 H3]]. cbn [fst snd] in *. unfold tr_line. cbn [fst snd]. rewrite (row_roundtrip es t r sy st Hes H1 H2 H3).
      destruct (IH (mkst (st_pairs st) (assoc_app (upper (t_name t)) r (st_rows st))) Hrest) as [st' [P1 [P2 P3]]].
      exists st'. split; [exact P1|]. split; [exact P2|]. intros k. rewrite P3. cbn [st_rows]. rewrite assoc_app_lookup.
      unfold rows_for. cbn [sk_trs flat_map app filter fst snd]. destruct (beq k (upper (t_name t))); cbn [map]; [|reflexivity].
      destruct (assoc k (st_rows st)); cbn [option_map]; [|reflexivity]. now rewrite <- app_assoc.
    + rewrite blank_and_comment_lines_skipped by (now left). exact (IH st Hrest).
    + rewrite blank_and_comment_lines_skipped by (now left). exact (IH st Hrest).
Qed.

Theorem skel_line_loop d tws l : doc_ok d = true -> map fst tws = d_tables d -> skel_ok d tws l ->
  exists st', process_lines (sy_of (d_enums d) tws) (st_init (sy_of (d_enums d) tws)) (map item_line (map sk_item l) ++ [[]]) = Some st'
              /\ loop_result d st'.
Proof.
  intros Hd Et [Hp [[Htr Hrows] _]]. destruct (doc_ok_parts d Hd) as [Hc [Hcn [Hpk [Hdk [Hes [Hde [Ht Hdn]]]]]]].
  set (es := d_enums d) in *.
  assert (Hnames : map (fun tw => upper (t_name (fst tw))) tws = tnames d).
  { unfold tnames. rewrite <- Et. now rewrite map_map. }
  assert (Hdn' : distinct (map (fun tw => upper (t_name (fst tw))) tws) = true) by (now rewrite Hnames).
  set (sy := sy_of es tws) in *.
  assert (Hkeys : map fst sy = tnames d).
  { subst sy. unfold sy_of. rewrite map_map. cbn [fst]. exact Hnames. }
  destruct (mixed_processed es sy Hes l (st_init sy)) as [st' [P1 [P2 P3]]].
  { apply Forall_forall. intros s Hin. destruct s as [[k v]|[t r]|b n|b n]; auto.
    - apply in_sk_pairs in Hin. rewrite Hp in Hin. rewrite forallb_forall in Hpk. specialize (Hpk _ Hin). cbn [fst snd] in *.
      apply andb_true_iff in Hpk as [Hpk H4]. apply andb_true_iff in Hpk as [Hpk H3]. apply andb_true_iff in Hpk as [H1 H2].
      rewrite Hkeys. apply negb_true_iff in H4. auto.
    - apply in_sk_trs in Hin. rewrite Forall_forall in Htr. destruct (Htr _ Hin) as [T1 T2]. cbn [fst snd] in *.
      split; [rewrite forallb_forall in Ht; auto|]. split; [exact T2|].
      rewrite <- Et in T1. apply in_map_iff in T1 as [tw [Etw Htw']]. subst t. subst sy. now apply assoc_sy_of. }
  rewrite process_lines_app, P1. cbn [process_lines]. rewrite blank_and_comment_lines_skipped by (now left).
  exists st'. split; [reflexivity|]. split.
  - rewrite P2, Hp. unfold st_init. cbn [st_pairs].
    rewrite (fold_assoc_set_fresh (fun kv : bytes * bytes => fst kv) (fun kv => snd kv) (d_pairs d) []).
    + cbn [app]. rewrite <- (map_id (d_pairs d)) at 2. apply map_ext. now intros [k v].
    + cbn [map app]. exact Hdk.
  - intros t Hin. rewrite P3. unfold st_init. cbn [st_rows]. rewrite assoc_init.
    + cbn [option_map app]. f_equal. now apply Hrows.
    + rewrite Hkeys. apply existsb_exists. exists (upper (t_name t)). split; [|apply beq_refl].
      unfold tnames. now apply (in_map (fun t => upper (t_name t))).
Qed.

(* FILE LEVEL: any skeleton, any decoration *)
Theorem layout_file_skeleton d tws l Ds : doc_ok d = true -> map fst tws = d_tables d -> tws_ok (d_enums d) tws ->
  skel_ok d tws l -> idec (sy_of (d_enums d) tws) Ds (map sk_item l) -> Ds <> [] ->
  exists p, sem d = Some p /\
            parse (items_text Ds) = Some (with_texts p (map ebtext (sk_enums l)) (map btext (sk_structs l))) /\
            parse_binary (items_text Ds) = Some (with_texts p (map ebtext (sk_enums l)) (map btext (sk_structs l))).
Proof.
  intros Hd Et Hok Hsk HD Hne.
  pose proof (skel_good d tws l Hd Hsk) as Hg.
  destruct (idec_facts _ _ _ HD) as [F D].
  destruct (skel_line_loop d tws l Hd Et Hsk) as [st' [PL LR]].
  pose proof Hsk as [_ [_ [Hst Hen]]].
  apply (parse_items_td d tws (sk_structs l) (sk_enums l) Ds st'); auto.
  - now apply (idec_good _ _ _ HD).
  - rewrite F. apply sk_filter_struct.
  - rewrite F. apply sk_filter_enum.
  - rewrite <- PL. rewrite !process_lines_app. now rewrite (ldec_same_state _ _ _ D).
Qed.
