From Coq Require Import QArith List.
From PV Require Import Lib.WLS C13.LinAlg C13.Model.
Open Scope Q_scope.
Lemma monomial_0 : forall x, monomial 0 x == 1.
Proof. intros; reflexivity. Qed.
