(* C16 -- storage types of the integer arithmetic of readspec (definitions AND proofs of the generic layer; it is a
   library file of the C16 directory, Model.v stays definitions-only).

   Lib/NumpyInt.v (C06) supplies the machine integer types (ity, wrap, fits, in_type, wrap_small, in_type_fits).  Its
   expression language has casts, shifts by a literal, `|` and "minus literal"; readspec needs more: sums and products of
   an array with Python ints that are not literals (DIMS0 of the spZall header, the znum keyword), sums of two arrays of
   one type (np.zeros(n, 'i4') + np.array(x, 'i4'), (plate << 16) + mjd), `>>`, `&`.  This file defines that larger
   language with NumPy 2 (NEP 50) typing and proves a range analysis sound, in the style of NumpyInt.tcheck_sound:

     value kinds     None   = a Python int (unbounded, "weak": adopts the type of the array it meets)
                     Some t = an array element stored as t
     array (op) py   the Python int must fit t (else OverflowError); the result has type t and wraps
     array (op) array of the same type: type t, wraps; different types: promotion is NOT modelled (PUnmodelled)
     np.array(x, dtype=t) / assignment into an array of type t (PCast): an array element is converted like a C cast
                     (wraps silently); a Python int that does not fit raises OverflowError

   pcheck computes, for intervals of the variables, the static kind and an interval of every sub-expression and fails
   when an intermediate result could leave the type it is computed in.  pcheck_sound: when it succeeds, the typed
   evaluation equals the evaluation over unbounded integers (pzeval), which is what C16/Model.v computes with. *)
From Coq Require Import ZArith List Bool Lia.
From PV Require Import Lib.NumpyInt.
Import ListNotations.
Open Scope Z_scope.

Inductive pop := OAdd | OSub | OMul | OShl | OShr | OAnd.

Inductive pexpr :=
| PArr (i : nat)                 (* an array (element) handed in by the caller / read from a file: storage type unknown *)
| PInt (i : nat)                 (* a Python int variable: header value, keyword argument, loop variable *)
| PLit (c : Z)                   (* a Python int literal *)
| PCast (t : ity) (e : pexpr)    (* np.array(e, dtype=t); np.zeros(n, dtype=t) is PCast t (PLit 0); x[...] = e for x of type t *)
| PBin (o : pop) (a b : pexpr).

Definition zop (o : pop) (a b : Z) : Z :=
  match o with
  | OAdd => a + b | OSub => a - b | OMul => a * b
  | OShl => Z.shiftl a b | OShr => Z.shiftr a b | OAnd => Z.land a b
  end.

Inductive pres :=
| PVal (k : option ity) (z : Z)
| POverflow          (* OverflowError: Python integer out of bounds for the array type *)
| PUnmodelled.       (* mixed array types (promotion), unbound variable *)

(* environment: (None, z) a Python int, (Some t, z) an array element of storage type t *)
Fixpoint peval (env : list (option ity * Z)) (e : pexpr) : pres :=
  match e with
  | PArr i => match nth_error env i with Some (Some t, z) => PVal (Some t) z | _ => PUnmodelled end
  | PInt i => match nth_error env i with Some (None, z) => PVal None z | _ => PUnmodelled end
  | PLit c => PVal None c
  | PCast t e =>
      match peval env e with
      | PVal (Some _) z => PVal (Some t) (wrap t z)
      | PVal None z => if fits t z then PVal (Some t) z else POverflow
      | r => r
      end
  | PBin o a b =>
      match peval env a, peval env b with
      | PVal ka za, PVal kb zb =>
          match ka, kb with
          | None, None => PVal None (zop o za zb)
          | Some t, None => if fits t zb then PVal (Some t) (wrap t (zop o za zb)) else POverflow
          | None, Some t => if fits t za then PVal (Some t) (wrap t (zop o za zb)) else POverflow
          | Some t, Some t' => if ity_eqb t t' then PVal (Some t) (wrap t (zop o za zb)) else PUnmodelled
          end
      | PVal _ _, r => r
      | r, _ => r
      end
  end.

(* erasure: the same expression over unbounded integers *)
Fixpoint pzeval (env : list Z) (e : pexpr) : Z :=
  match e with
  | PArr i | PInt i => nth i env 0
  | PLit c => c
  | PCast _ e => pzeval env e
  | PBin o a b => zop o (pzeval env a) (pzeval env b)
  end.

(* ---------------------------------------------------------------- range analysis *)

Inductive kind := KPy | KT (t : ity) | KAny.

(* interval of  a (op) b  for a in [la,ha], b in [lb,hb]; None = not handled (fail closed) *)
Definition zop_iv (o : pop) (la ha lb hb : Z) : option (Z * Z) :=
  match o with
  | OAdd => Some (la + lb, ha + hb)
  | OSub => Some (la - hb, ha - lb)
  | OMul => if (0 <=? la) && (0 <=? lb) then Some (la * lb, ha * hb) else None
  | OShl => if (lb =? hb) && (0 <=? lb) then Some (la * 2 ^ lb, ha * 2 ^ lb) else None
  | OShr => if (lb =? hb) && (0 <=? lb) then Some (la / 2 ^ lb, ha / 2 ^ lb) else None
  | OAnd => if (0 <=? la) && (0 <=? lb) then Some (0, 2 ^ (Z.log2 hb + 1) - 1) else None
  end.

(* variable table: (is a Python int, lo, hi) *)
Definition vtab := list (bool * Z * Z).

Fixpoint pcheck (ivs : vtab) (e : pexpr) : option (kind * Z * Z) :=
  match e with
  | PArr i => match nth_error ivs i with Some (false, lo, hi) => Some (KAny, lo, hi) | _ => None end
  | PInt i => match nth_error ivs i with Some (true, lo, hi) => Some (KPy, lo, hi) | _ => None end
  | PLit c => Some (KPy, c, c)
  | PCast t e =>
      match pcheck ivs e with
      | Some (_, lo, hi) => if in_type t lo hi then Some (KT t, lo, hi) else None
      | None => None
      end
  | PBin o a b =>
      match pcheck ivs a, pcheck ivs b with
      | Some (ka, la, ha), Some (kb, lb, hb) =>
          match zop_iv o la ha lb hb with
          | None => None
          | Some (lo, hi) =>
              match ka, kb with
              | KPy, KPy => Some (KPy, lo, hi)
              | KT t, KPy => if in_type t lb hb && in_type t lo hi then Some (KT t, lo, hi) else None
              | KPy, KT t => if in_type t la ha && in_type t lo hi then Some (KT t, lo, hi) else None
              | KT t, KT t' => if ity_eqb t t' && in_type t lo hi then Some (KT t, lo, hi) else None
              | _, _ => None
              end
          end
      | _, _ => None
      end
  end.

Definition penv_ok (ivs : vtab) (env : list (option ity * Z)) : Prop :=
  Forall2 (fun (iv : bool * Z * Z) (tv : option ity * Z) =>
             snd (fst iv) <= snd tv <= snd iv /\
             match fst tv with
             | None => fst (fst iv) = true
             | Some t => fst (fst iv) = false /\ fits t (snd tv) = true
             end) ivs env.

Definition kind_ok (k : kind) (k' : option ity) : Prop :=
  match k, k' with
  | KPy, None => True
  | KT t, Some t' => t' = t
  | KAny, Some _ => True
  | _, _ => False
  end.

(* ---------------------------------------------------------------- lemmas *)

Lemma penv_ok_nth ivs env : penv_ok ivs env -> forall i py lo hi, nth_error ivs i = Some (py, lo, hi) ->
  exists k z, nth_error env i = Some (k, z) /\ nth i (map snd env) 0 = z /\ lo <= z <= hi /\
              match k with None => py = true | Some t => py = false /\ fits t z = true end.
Proof.
  induction 1 as [|iv tv ivs env [Hr Hk] _ IH]; intros i py lo hi Hn.
  - destruct i; discriminate Hn.
  - destruct i as [|i]; cbn [nth_error] in Hn.
    + inversion Hn; subst iv. destruct tv as [k z]. exists k, z. cbn in *. repeat split; try lia; auto.
    + destruct (IH i py lo hi Hn) as (k & z & E1 & E2 & E3 & E4). exists k, z. cbn [nth_error map nth]. auto.
Qed.

Lemma log2_le_lt_pow2 a h : 0 <= a <= h -> a < 2 ^ (Z.log2 h + 1).
Proof.
  intros [H0 H1]. destruct (Z.eq_dec a 0) as [->|Hne].
  - apply Z.pow_pos_nonneg; [lia|]. pose proof (Z.log2_nonneg h). lia.
  - apply Z.log2_lt_pow2; [lia|]. pose proof (Z.log2_le_mono a h H1). lia.
Qed.

Lemma land_upper a b h : 0 <= a -> 0 <= b <= h -> 0 <= Z.land a b <= 2 ^ (Z.log2 h + 1) - 1.
Proof.
  intros Ha [Hb Hh]. assert (N : 0 <= Z.land a b) by (apply Z.land_nonneg; lia). split; [exact N|].
  destruct (Z.eq_dec (Z.land a b) 0) as [E|Hne].
  - rewrite E. assert (0 < 2 ^ (Z.log2 h + 1)); [|lia]. apply Z.pow_pos_nonneg; [lia|]. pose proof (Z.log2_nonneg h). lia.
  - assert (Z.land a b < 2 ^ (Z.log2 h + 1)); [|lia].
    apply Z.log2_lt_pow2; [lia|].
    pose proof (Z.log2_land a b Ha Hb). pose proof (Z.log2_le_mono b h Hh). lia.
Qed.

Lemma zop_iv_sound o la ha lb hb lo hi a b :
  zop_iv o la ha lb hb = Some (lo, hi) -> la <= a <= ha -> lb <= b <= hb -> lo <= zop o a b <= hi.
Proof.
  intros H Ha Hb. destruct o; cbn [zop_iv zop] in *.
  - inversion H; subst. lia.
  - inversion H; subst. lia.
  - destruct ((0 <=? la) && (0 <=? lb)) eqn:E; [|discriminate H]. inversion H; subst.
    apply andb_prop in E. destruct E as [E1 E2]. apply Z.leb_le in E1. apply Z.leb_le in E2. nia.
  - destruct ((lb =? hb) && (0 <=? lb)) eqn:E; [|discriminate H]. inversion H; subst.
    apply andb_prop in E. destruct E as [E1 E2]. apply Z.eqb_eq in E1. apply Z.leb_le in E2.
    assert (b = lb) by lia. subst b. rewrite Z.shiftl_mul_pow2 by exact E2.
    assert (P : 0 < 2 ^ lb) by (apply Z.pow_pos_nonneg; lia). nia.
  - destruct ((lb =? hb) && (0 <=? lb)) eqn:E; [|discriminate H]. inversion H; subst.
    apply andb_prop in E. destruct E as [E1 E2]. apply Z.eqb_eq in E1. apply Z.leb_le in E2.
    assert (b = lb) by lia. subst b. rewrite Z.shiftr_div_pow2 by exact E2.
    assert (P : 0 < 2 ^ lb) by (apply Z.pow_pos_nonneg; lia).
    split; apply Z.div_le_mono; lia.
  - destruct ((0 <=? la) && (0 <=? lb)) eqn:E; [|discriminate H]. inversion H; subst.
    apply andb_prop in E. destruct E as [E1 E2]. apply Z.leb_le in E1. apply Z.leb_le in E2.
    apply land_upper; lia.
Qed.

Lemma ity_eqb_refl t : ity_eqb t t = true.
Proof. destruct t; reflexivity. Qed.

Theorem pcheck_sound ivs e : forall k lo hi, pcheck ivs e = Some (k, lo, hi) ->
  forall env, penv_ok ivs env ->
  exists k', peval env e = PVal k' (pzeval (map snd env) e) /\ kind_ok k k' /\ lo <= pzeval (map snd env) e <= hi.
Proof.
  induction e as [i | i | c | t e IH | o a IHa b IHb]; intros k lo hi H env Henv; cbn [pcheck] in H.
  - destruct (nth_error ivs i) as [[[py l] h]|] eqn:En; [|discriminate H]. destruct py; [discriminate H|].
    inversion H; subst k lo hi.
    destruct (penv_ok_nth _ _ Henv _ _ _ _ En) as (k' & z & E1 & E2 & E3 & E4).
    destruct k' as [t|]; [|discriminate E4].
    exists (Some t). cbn [peval pzeval]. rewrite E1, E2. cbn. auto.
  - destruct (nth_error ivs i) as [[[py l] h]|] eqn:En; [|discriminate H]. destruct py; [|discriminate H].
    inversion H; subst k lo hi.
    destruct (penv_ok_nth _ _ Henv _ _ _ _ En) as (k' & z & E1 & E2 & E3 & E4).
    destruct k' as [t|]; [destruct E4 as [E4 _]; discriminate E4|].
    exists None. cbn [peval pzeval]. rewrite E1, E2. cbn. auto.
  - inversion H; subst k lo hi. exists None. cbn [peval pzeval kind_ok]. repeat split; lia.
  - destruct (pcheck ivs e) as [[[k0 l] h]|] eqn:Ec; [|discriminate H].
    destruct (in_type t l h) eqn:Ei; [|discriminate H]. inversion H; subst k lo hi.
    destruct (IH _ _ _ eq_refl env Henv) as (k' & Ev & _ & Hr).
    exists (Some t). cbn [peval pzeval]. rewrite Ev.
    assert (F : fits t (pzeval (map snd env) e) = true) by (eapply in_type_fits; eauto).
    destruct k' as [t'|].
    + rewrite wrap_small by exact F. cbn. auto.
    + rewrite F. cbn. auto.
  - destruct (pcheck ivs a) as [[[ka la] ha]|] eqn:Eca; [|discriminate H].
    destruct (pcheck ivs b) as [[[kb lb] hb]|] eqn:Ecb; [|discriminate H].
    destruct (zop_iv o la ha lb hb) as [[l h]|] eqn:Ez; [|discriminate H].
    destruct (IHa _ _ _ eq_refl env Henv) as (ka' & Eva & Hka & Hra).
    destruct (IHb _ _ _ eq_refl env Henv) as (kb' & Evb & Hkb & Hrb).
    pose proof (zop_iv_sound _ _ _ _ _ _ _ _ _ Ez Hra Hrb) as Hz.
    cbn [peval pzeval]. rewrite Eva, Evb.
    destruct ka as [|ta|]; destruct kb as [|tb|]; try discriminate H;
      destruct ka' as [ta'|]; try (exfalso; exact Hka); destruct kb' as [tb'|]; try (exfalso; exact Hkb);
      cbn [kind_ok] in Hka, Hkb; subst.
    + inversion H; subst. exists None. cbn. auto.
    + destruct (in_type tb la ha && in_type tb l h) eqn:Ei; [|discriminate H]. inversion H; subst.
      apply andb_prop in Ei. destruct Ei as [E1 E2].
      exists (Some tb). rewrite (in_type_fits _ _ _ _ E1 Hra). rewrite wrap_small by (eapply in_type_fits; eauto). cbn. auto.
    + destruct (in_type ta lb hb && in_type ta l h) eqn:Ei; [|discriminate H]. inversion H; subst.
      apply andb_prop in Ei. destruct Ei as [E1 E2].
      exists (Some ta). rewrite (in_type_fits _ _ _ _ E1 Hrb). rewrite wrap_small by (eapply in_type_fits; eauto). cbn. auto.
    + destruct (ity_eqb ta tb && in_type ta l h) eqn:Ei; [|discriminate H]. inversion H; subst.
      apply andb_prop in Ei. destruct Ei as [E1 E2]. apply ity_eqb_eq in E1. subst tb.
      exists (Some ta). rewrite ity_eqb_refl. rewrite wrap_small by (eapply in_type_fits; eauto). cbn. auto.
Qed.

(* the form used by the C16 theorems: a list of alternatives (one per route through the argument normalisation), all
   checked against one variable table, all evaluate without wrapping to a given unbounded function of the inputs *)
Definition all_checked (ivs : vtab) (es : list pexpr) : bool :=
  forallb (fun e => match pcheck ivs e with Some (KT _, _, _) => true | _ => false end) es.

Lemma all_checked_sound ivs es : all_checked ivs es = true ->
  forall e, In e es -> forall env, penv_ok ivs env ->
  exists t, peval env e = PVal (Some t) (pzeval (map snd env) e).
Proof.
  unfold all_checked. intros H e He env Henv. rewrite forallb_forall in H. specialize (H e He).
  destruct (pcheck ivs e) as [[[k lo] hi]|] eqn:Ec; [|discriminate H]. destruct k as [|t|]; try discriminate H.
  destruct (pcheck_sound _ _ _ _ _ Ec env Henv) as (k' & Ev & Hk & _).
  destruct k' as [t'|]; [|exfalso; exact Hk]. exists t'. exact Ev.
Qed.
