(* C01 -- yanny: tables and header pairs written to a file read back unchanged.
   The models live in Yanny/ (shared with C02, C03): Render.v (writer model `render_checked`, spec `sem`,
   domain `doc_ok`) and Parse.v (reader model `parse`).  This file only adds the case type of the
   correspondence run.  DEFINITIONS ONLY. *)
From Coq Require Import NArith ZArith List Bool.
Import ListNotations.
From PV Require Import Yanny.Bytes Yanny.Types Yanny.Parse Yanny.Render C01.PyRt Generated.YannyWriter C01.GenWriter C01.FloatFrag.
Open Scope N_scope.

Inductive case :=
  (* a document, the bytes the real writer produced (None: it raised), what the real reader returned for
     that file (None: it raised) *)
  | CWrite (d : doc) (file : option bytes) (impl : option pdoc)
  (* a document with an unsupported column type; did the real writer refuse (raise, no file)? *)
  | CRefuse (d : doc) (refused : bool)
  (* round 5: structnames=None -- the table names of the object the real writer returned for n tables *)
  | CDefaultNames (n : nat) (names : list bytes)
  (* round 5: a float of the fragment (NaN, infinities, signed integer-valued): the text numpy printed for it, and what
     float() made of that text, classified back into the fragment by the harness (None: outside the fragment) *)
  | CFloatText (t : btype) (x : ffrag) (numpy_text : bytes) (reread : option ffrag).

(* verdict: +1 model differs from implementation (+8 the writer model, +16 the reader model),
            +2 the implementation's result contradicts the specification sem (failing input),
            +4 the generated document is outside doc_ok (generator error) *)
Definition run_case (c : case) : Z :=
  match c with
  | CWrite d file impl =>
      let m_render := opt_eqb beq (render_checked d) file in
      let m_parse := match file with
                     | Some f => opt_eqb pdoc_eqb (parse f) impl
                     | None => match impl with None => true | Some _ => false end
                     end in
      let spec := match sem d with Some p => opt_eqb pdoc_eqb impl (Some p) | None => false end in
      ((if m_render && m_parse then 0 else 1) + (if m_render then 0 else 8) + (if m_parse then 0 else 16)
       + (if spec then 0 else 2) + (if doc_ok d then 0 else 4))%Z
  | CRefuse d refused =>
      (* the GENERATED writer (Generated/YannyWriter.v through Bridge.gen_render) must refuse as well *)
      let m := match render_checked d, gen_render d with None, None => refused | Some _, Some _ => negb refused | _, _ => false end in
      ((if m then 0 else 1) + (if refused then 0 else 2))%Z
  | CDefaultNames n names => if list_eqb beq (default_names n) names then 0%Z else 1%Z
  | CFloatText t x txt back =>
      let m := frag_show_matches t x txt && frag_parse_matches t txt back in
      (* the property on the real code: the text read back is the value *)
      let ok := match back with Some y => ffrag_eqb x y | None => false end in
      ((if m then 0 else 1) + (if ok then 0 else 2))%Z
  end.
Definition run_cases (l : list case) : list Z := map run_case l.
