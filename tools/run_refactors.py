#!/usr/bin/env python3
"""False-alarm experiment: run the checks against behaviour-preserving refactorings (refactors/R<k>/patch.diff).

Each patch was written by a sub-agent that did not see /verif, passes the 133 tests and a differential test of
its own.  For each one: scratch worktree, apply, run every check whose anchored files the patch touches
(PYDL_REPO=<wt>), record exit codes / VIOLATION lines in refactors/R<k>/result.json.  An alarm here is a false
alarm (or, with `no-failing-input-found`, a proof/correspondence that a harmless rewrite broke).
Usage: tools/run_refactors.py [R3 ...]"""
import json, os, subprocess, sys, time
HERE = os.path.dirname(os.path.dirname(os.path.abspath(__file__)))
D = os.path.join(HERE, 'refactors')
props = [json.loads(l) for l in open(os.path.join(HERE, 'properties.jsonl'))]
EXTRA = {'pydl/smooth.py': ['C17', 'C11'], 'pydl/pydlutils/bspline.py': ['C11'], 'pydl/pydlutils/math.py': ['C10', 'C11'],
         'pydl/pydlutils/image.py': ['C11'], 'pydl/goddard/astro.py': ['C04', 'C05'], 'pydl/pydlutils/yanny.py': ['C07'],
         'pydl/pydlutils/sdss.py': ['C17', 'C11']}


def sh(cmd, **kw):
    return subprocess.run(cmd, shell=True, stdout=subprocess.PIPE, stderr=subprocess.STDOUT, text=True, **kw)


def main():
    ids = sys.argv[1:] or sorted((d for d in os.listdir(D) if os.path.isdir(os.path.join(D, d))), key=lambda s: int(s[1:]))
    for rid in ids:
        d = os.path.join(D, rid)
        patch = os.path.join(d, 'patch.diff')
        files = [l[6:].strip() for l in open(patch) if l.startswith('+++ b/')]
        pids = sorted(set(p['id'] for p in props for f in files if f in p['anchors']['files']) |
                      set(x for f in files for x in EXTRA.get(f, [])))
        wt = '/tmp/refactor-%s-%d' % (rid, os.getpid())
        sh('git -C /repo worktree remove --force %s' % wt)
        sh('git -C /repo worktree add --detach %s HEAD' % wt)
        res = {'files': files, 'checks': {}}
        try:
            r = sh('git -C %s apply %s' % (wt, patch))
            if r.returncode != 0:
                res['applied'] = False
                res['detail'] = r.stdout[-300:]
            else:
                res['applied'] = True
                for pid in pids:
                    t0 = time.time()
                    r = sh('timeout 2400 ./check %s --tier quick' % pid, cwd=HERE, env=dict(os.environ, PYDL_REPO=wt))
                    lines = [l[:220] for l in r.stdout.splitlines() if l.startswith('VIOLATION')]
                    res['checks'][pid] = {'exit': r.returncode, 'violations': lines, 'seconds': round(time.time() - t0, 1)}
            json.dump(res, open(os.path.join(d, 'result.json'), 'w'), indent=1)
            alarms = {p: c['violations'] for p, c in res['checks'].items() if c['exit'] != 0}
            print(rid, files, 'checks', pids, 'ALARMS' if alarms else 'quiet', json.dumps(alarms)[:400], flush=True)
        finally:
            sh('git -C /repo worktree remove --force %s' % wt)
    env = dict(os.environ)
    env.pop('PYDL_REPO', None)
    sh('/venv/bin/python -m harness.regen', cwd=HERE, env=env)


if __name__ == '__main__':
    main()
