"""Runs set_maskbits / sdss_flagval / sdss_flagname / sdss_flagexist of the repository under test.

stdin : {"files": [{"path": <maskbits .par file>, "text": <contents, written to path just before the load;
                     the same path may occur several times with different contents>, "calls": [call, ...]}, ...]}
stdout: {"pydl_file": ..., "files": [{"rows": [[flag, bit, label], ...], "aliases": [[flag, alias], ...],
                                        "load": {"ok": true} | {"err": cls, "msg": ...},
                                        "keys": [...], "table": [[GROUP, [[LABEL, bit], ...]], ...] (the loaded dictionary, in its own order),
                                        "results": [result, ...]}, ...]}
call  : {"k": "val",   "g": group, "labels": [..] | "label": str}
        {"k": "name",  "g": group, "v": int, "concat": bool, "np": bool}
        {"k": "exist", "g": group, "labels": [..] | "label": str, "fe": bool, "we": bool}
        {"k": "vnv",   "g": group, "v": int}          sdss_flagval(g, sdss_flagname(g, v))
        {"k": "nvn",   "g": group, "labels": [..]}    sdss_flagname(g, sdss_flagval(g, labels))
result: {"val": int, "type": ...} | {"names": [str, ...]} | {"bools": [..]} | {"err": class name, "msg": ...}
The rows are what the real raw yanny reader returns for the file (the same reader set_maskbits uses).
"""
import json
import os
import sys
import time
import warnings

import numpy as np

import pydl
import pydl.pydlutils.sdss as S
from pydl.pydlutils.yanny import yanny


def err(e):
    return {'err': type(e).__name__, 'msg': str(e)[:160]}


MUTATED = []


def bitarg(c):
    """the caller-owned argument; a list is remembered so that it can be checked unmodified after the call"""
    if 'label' in c:
        return c['label']
    arg = list(c['labels'])
    MUTATED.append((arg, list(arg)))
    return arg


def as_val(r):
    return {'val': int(r), 'type': type(r).__name__}


def as_names(r, concat=False):
    if concat:
        if not isinstance(r, str):
            return {'err': 'BadType', 'msg': 'concat result is %s' % type(r).__name__}
        return {'names': [r]}
    if not isinstance(r, list) or not all(isinstance(x, str) for x in r):
        return {'err': 'BadType', 'msg': 'result is %r' % (r,)}
    return {'names': list(r)}


def run_call(c):
    del MUTATED[:]
    r = run_call_(c)
    if any(a != b for a, b in MUTATED):
        r = dict(r, mutated_argument=[[a, b] for a, b in MUTATED if a != b][0])
    return r


def run_call_(c):
    k = c['k']
    try:
        if k == 'val':
            return as_val(S.sdss_flagval(c['g'], bitarg(c)))
        if k == 'name':
            v = int(c['v'])
            if c.get('np'):
                v = np.uint64(v)
            return as_names(S.sdss_flagname(c['g'], v, concat=bool(c.get('concat'))), bool(c.get('concat')))
        if k == 'exist':
            fe, we = bool(c['fe']), bool(c['we'])
            r = S.sdss_flagexist(c['g'], bitarg(c), flagexist=fe, whichexist=we)
            # flattened generically (by what came back, not by the flags asked for); `shape` records the structure
            items = list(r) if isinstance(r, tuple) else [r]
            flat = []
            shp = []
            for it in items:
                if isinstance(it, (bool, np.bool_)):
                    flat.append(it)
                    shp.append('bool')
                elif isinstance(it, list):
                    flat.extend(it)
                    shp.append('list')
                else:
                    return {'err': 'BadType', 'msg': 'component %r in %r' % (it, r)}
            shape = ('tuple:' if isinstance(r, tuple) else '') + ','.join(shp)
            if not all(isinstance(x, (bool, np.bool_)) for x in flat):
                return {'err': 'BadType', 'msg': 'non-boolean in %r' % (r,)}
            return {'bools': [bool(x) for x in flat], 'shape': shape}
        if k == 'vnv':
            names = S.sdss_flagname(c['g'], int(c['v']))
            return as_val(S.sdss_flagval(c['g'], names))
        if k == 'nvn':
            v = S.sdss_flagval(c['g'], list(c['labels']))
            return as_names(S.sdss_flagname(c['g'], v))
        return {'err': 'BadCall', 'msg': k}
    except Exception as e:  # noqa: BLE001 - the error class is the observation
        return err(e)


def dump_table(mb):
    """the loaded dictionary cell by cell, in dictionary order: [[GROUP, [[LABEL, bit], ...]], ...]
    (or {'err': ...} when it is not a dict of str -> dict of str -> integer)"""
    try:
        if not isinstance(mb, dict):
            return {'err': 'BadType', 'msg': 'maskbits is %s' % type(mb).__name__}
        tb = []
        for g, d in mb.items():
            if not isinstance(g, str) or not isinstance(d, dict):
                return {'err': 'BadType', 'msg': 'entry %r: %s' % (g, type(d).__name__)}
            ent = []
            for lab, b in d.items():
                if not isinstance(lab, str) or isinstance(b, bool) or not isinstance(b, (int, np.integer)):
                    return {'err': 'BadType', 'msg': 'cell %r/%r = %r (%s)' % (g, lab, b, type(b).__name__)}
                ent.append([lab, int(b)])
            tb.append([g, ent])
        return tb
    except Exception as e:  # noqa: BLE001
        return err(e)


STEP = [0]


def run_file(f):
    out = {'rows': None, 'aliases': None, 'results': []}
    if 'text' in f:
        # (re)write the file now: the same path may have been loaded before with other contents
        os.makedirs(os.path.dirname(f['path']), exist_ok=True)
        with open(f['path'], 'w') as fh:
            fh.write(f['text'])
        STEP[0] += 1
        t = time.time() + 3 * STEP[0]          # a rewritten file also has a visibly newer modification time
        os.utime(f['path'], (t, t))
    try:
        y = yanny(f['path'], raw=True)
        mb = y['MASKBITS'] if 'MASKBITS' in y else {'flag': [], 'bit': [], 'label': []}
        out['rows'] = [[str(a), int(b), str(l)] for a, b, l in zip(mb['flag'], mb['bit'], mb['label'])]
        if 'MASKALIAS' in y:
            ma = y['MASKALIAS']
            out['aliases'] = [[str(a), str(b)] for a, b in zip(ma['flag'], ma['alias'])]
        else:
            out['aliases'] = []
    except Exception as e:  # noqa: BLE001
        out['reader_error'] = err(e)
    try:
        S.maskbits = S.set_maskbits(maskbits_file=f['path'])
        out['load'] = {'ok': True}
        out['keys'] = sorted(S.maskbits.keys())
        out['table'] = dump_table(S.maskbits)
    except Exception as e:  # noqa: BLE001
        out['load'] = err(e)
        S.maskbits = {}
        return out
    out['results'] = [run_call(c) for c in f['calls']]
    return out


def main():
    payload = json.load(sys.stdin)
    warnings.simplefilter('ignore')
    np.seterr(all='ignore')
    res = {'pydl_file': pydl.__file__, 'files': [run_file(f) for f in payload['files']]}
    json.dump(res, sys.stdout)


if __name__ == '__main__':
    main()
