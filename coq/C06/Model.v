(* C06 glue model: calling conventions, shape checks, error classes around the
   GENERATED bit expressions and range checks (Generated/SdssIds.v).
   Definitions only -- proofs are in C06/Proofs.v. *)
From Coq Require Import ZArith List Bool.
Import ListNotations.
From PV Require Import Lib.Bits Generated.SdssIds.
Open Scope Z_scope.

Inductive arg := Sc (z : Z) | Ar (l : list Z).
Inductive res := Ok (ids : list Z) | ValueError | OtherError.

Definition checks_ok (checks : list (nat * Z * Z)) (vals : list Z) : bool :=
  forallb (fun c => match c with (i, lo, hi) => let v := nth i vals 0 in (lo <=? v) && (v <=? hi) end) checks.

Definition promote (a : arg) : list Z := match a with Sc z => [z] | Ar l => l end.
(* sdss_objid: an int equal to the default is broadcast to run.shape, any other int becomes a length-1 array *)
Definition promote_default (dflt : Z) (n : nat) (a : arg) : list Z :=
  match a with Sc z => if z =? dflt then repeat dflt n else [z] | Ar l => l end.

Fixpoint zip_rows (cols : list (list Z)) (n : nat) : list (list Z) :=
  match n with
  | O => []
  | S n' => map (fun c => hd 0 c) cols :: zip_rows (map (@tl Z) cols) n'
  end.

Definition objid_of (v : list Z) : Z :=
  match v with [a; b; c; d; e; f; g] => objid_expr a b c d e f g | _ => 0 end.

(* argument order of the model rows = argument order of objid_expr:
   skyversion rerun run camcol firstfield field objnum *)
Definition objid_model (default_sky : Z) (run camcol field objnum rerun sky ff : arg) : res :=
  let r := promote run in
  let n := length r in
  let cols := [promote_default default_sky n sky; promote_default 301 n rerun; r; promote camcol;
               promote_default 0 n ff; promote field; promote objnum] in
  if forallb (fun c => Nat.eqb (length c) n) cols then
    let rows := zip_rows cols n in
    if forallb (checks_ok objid_checks) rows then Ok (map objid_of rows) else ValueError
  else ValueError.

Inductive r2arg := R2int (z : Z) | R2str (N M P : Z) | R2arr (l : list Z).

Definition specobjid_of (v : list Z) : Z :=
  match v with [a; b; c; d; e; f] => specobjid_expr a b c d e f | _ => 0 end.

Definition promote_mjd (a : arg) : list Z :=
  match a with Sc z => [z - mjd_offset_scalar] | Ar l => map (fun z => z - mjd_offset_array) l end.

Definition specobjid_model (plate fiber mjd : arg) (run2d : r2arg) (line index : option arg) : res :=
  match line, index with
  | Some _, Some _ => ValueError
  | _, _ =>
    let p := promote plate in
    let n := length p in
    let r2 := match run2d with R2int z => [z] | R2str N M P => [run2d_of_NMP N M P] | R2arr l => l end in
    let li := match line with Some a => promote a | None => repeat 0 n end in
    let ix := match index with Some a => promote a | None => repeat 0 n end in
    let cols := [p; promote fiber; promote_mjd mjd; r2; li; ix] in
    if forallb (fun c => Nat.eqb (length c) n) cols then
      let rows := zip_rows cols n in
      if forallb (checks_ok specobjid_checks) rows then Ok (map specobjid_of rows) else ValueError
    else ValueError
  end.

Definition unwrap_objid_model (id : Z) : list Z :=
  [unwrap_objid_skyversion id; unwrap_objid_rerun id; unwrap_objid_run id; unwrap_objid_camcol id;
   unwrap_objid_firstfield id; unwrap_objid_frame id; unwrap_objid_id id].

(* plate fiber mjd run2d N M P line *)
Definition unwrap_specobjid_model (id : Z) : list Z :=
  let r := unwrap_spec_run2d_int id in
  [unwrap_spec_plate id; unwrap_spec_fiber id; unwrap_spec_mjd id; r; run2d_N r; run2d_M r; run2d_P r;
   unwrap_spec_line id].

(* ---------------- specification (documented layout; hand-written from the docstrings) ---------------- *)

Definition objid_table : list field := [(59, 4); (48, 11); (32, 16); (29, 3); (28, 1); (16, 12); (0, 16)].
Definition specobjid_table : list field := [(50, 14); (38, 12); (24, 14); (10, 14); (0, 10)].

Definition objid_doc_ranges (v : list Z) : bool :=
  match v with
  | [s; rr; r; c; f; fi; o] =>
    (0 <=? s) && (s <=? 15) && (0 <=? rr) && (rr <? 2 ^ 11) && (0 <=? r) && (r <? 2 ^ 16) &&
    (1 <=? c) && (c <=? 6) && (0 <=? f) && (f <=? 1) && (0 <=? fi) && (fi <? 2 ^ 12) && (0 <=? o) && (o <? 2 ^ 16)
  | _ => false
  end.

(* v = plate fiber (mjd-50000) run2d line index *)
Definition specobjid_doc_ranges (v : list Z) : bool :=
  match v with
  | [p; f; m; r; l; i] =>
    (0 <=? p) && (p <? 2 ^ 14) && (0 <=? f) && (f <? 2 ^ 12) && (0 <=? m) && (m <? 2 ^ 14) &&
    (0 <=? r) && (r <? 2 ^ 14) && (0 <=? l) && (l <? 2 ^ 10) && (0 <=? i) && (i <? 2 ^ 10)
  | _ => false
  end.

(* ---------------- correspondence cases ---------------- *)

Definition eqb_listZ (a b : list Z) : bool :=
  Nat.eqb (length a) (length b) && forallb (fun p => fst p =? snd p) (combine a b).

Definition eqb_res (a b : res) : bool :=
  match a, b with
  | Ok x, Ok y => eqb_listZ x y
  | ValueError, ValueError => true
  | OtherError, OtherError => true
  | _, _ => false
  end.

Fixpoint zseq (lo : Z) (n : nat) : list Z := match n with O => [] | S n' => lo :: zseq (lo + 1) n' end.

Definition replace_nth (i : nat) (x : Z) (l : list Z) : list Z := firstn i l ++ x :: skipn (S i) l.

Definition MODP : Z := 2305843009213693951. (* 2^61 - 1 *)
Definition checksum (l : list Z) : Z := fold_left (fun acc v => (acc * 1000003 + v + 1) mod MODP) l 0.

Inductive case :=
| CObjid (default_sky : Z) (run camcol field objnum rerun sky ff : arg) (expect : res)
| CSpec (plate fiber mjd : arg) (run2d : r2arg) (line index : option arg) (expect : res)
| CUnObj (id : Z) (expect : list Z)
| CUnSpec (id : Z) (expect : list Z)
  (* exhaustive sweep of one field (array call): others fixed; expect = checksum of the ids *)
| CSweepObj (i : nat) (lo : Z) (n : nat) (others : list Z) (sum : Z)
| CSweepSpec (i : nat) (lo : Z) (n : nat) (others : list Z) (sum : Z).

(* spec verdicts: does the implementation's answer satisfy the documented layout? *)
Definition spec_objid_row (v : list Z) (expect_id : option Z) : bool :=
  if objid_doc_ranges v then match expect_id with Some id => id =? pack objid_table v | None => false end
  else match expect_id with None => true | Some _ => false end.

Definition arg_scalar (a : arg) : option Z := match a with Sc z => Some z | Ar [z] => Some z | _ => None end.

(* verdict: 0 = model = impl and spec satisfied; +1 model differs from impl; +2 impl contradicts the spec *)
Definition run_case (c : case) : Z :=
  match c with
  | CObjid d run camcol field objnum rerun sky ff expect =>
      let m := objid_model d run camcol field objnum rerun sky ff in
      let spec_bad :=
        match arg_scalar sky, arg_scalar rerun, arg_scalar run, arg_scalar camcol, arg_scalar ff, arg_scalar field, arg_scalar objnum with
        | Some s, Some rr, Some r, Some c, Some f, Some fi, Some o =>
            negb (spec_objid_row [s; rr; r; c; f; fi; o]
                    (match expect with Ok [id] => Some id | _ => None end))
            || (match expect with OtherError => true | _ => false end)
        | _, _, _, _, _, _, _ =>
            (* all seven arguments given as arrays of one common length: the documented behaviour is row-wise *)
            match sky, rerun, run, camcol, ff, field, objnum with
            | Ar a0, Ar a1, Ar a2, Ar a3, Ar a4, Ar a5, Ar a6 =>
                let n := length a2 in
                if forallb (fun c => Nat.eqb (length c) n) [a0; a1; a3; a4; a5; a6] then
                  let rows := zip_rows [a0; a1; a2; a3; a4; a5; a6] n in
                  if forallb objid_doc_ranges rows
                  then negb (eqb_res expect (Ok (map (pack objid_table) rows)))
                  else negb (eqb_res expect ValueError)
                else negb (eqb_res expect ValueError)
            | _, _, _, _, _, _, _ => false
            end
        end in
      (if eqb_res m expect then 0 else 1) + (if spec_bad then 2 else 0)
  | CSpec plate fiber mjd run2d line index expect =>
      let m := specobjid_model plate fiber mjd run2d line index in
      let r2 := match run2d with R2int z => Some z | R2str N M P => Some ((N - 5) * 10000 + M * 100 + P) | R2arr [z] => Some z | _ => None end in
      let spec_bad :=
        match line, index with
        | Some _, Some _ => negb (eqb_res expect ValueError)
        | _, _ =>
          match arg_scalar plate, arg_scalar fiber, arg_scalar mjd, r2 with
          | Some p, Some f, Some mj, Some r =>
              let l := match line with Some a => arg_scalar a | None => Some 0 end in
              let i := match index with Some a => arg_scalar a | None => Some 0 end in
              match l, i with
              | Some l, Some i =>
                  let v := [p; f; mj - 50000; r; l; i] in
                  if specobjid_doc_ranges v
                  then negb (eqb_res expect (Ok [pack specobjid_table [p; f; mj - 50000; r; l + i]]))
                  else negb (eqb_res expect ValueError)
              | _, _ => false
              end
          | _, _, _, _ =>
              match plate, fiber, mjd, run2d with
              | Ar a0, Ar a1, Ar a2, R2arr a3 =>
                  let n := length a0 in
                  let zeros := repeat 0 n in
                  let l := match line with Some (Ar l) => Some l | None => Some zeros | _ => None end in
                  let i := match index with Some (Ar l) => Some l | None => Some zeros | _ => None end in
                  match l, i with
                  | Some l, Some i =>
                      if forallb (fun c => Nat.eqb (length c) n) [a1; a2; a3; l; i] then
                        let rows := zip_rows [a0; a1; map (fun z => z - 50000) a2; a3; l; i] n in
                        if forallb specobjid_doc_ranges rows
                        then negb (eqb_res expect (Ok (map (fun v => match v with [p; f; m; r; l; ix] => pack specobjid_table [p; f; m; r; l + ix] | _ => 0 end) rows)))
                        else negb (eqb_res expect ValueError)
                      else negb (eqb_res expect ValueError)
                  | _, _ => false
                  end
              | _, _, _, _ => false
              end
          end
        end in
      (if eqb_res m expect then 0 else 1) + (if spec_bad then 2 else 0)
  | CUnObj id expect =>
      (if eqb_listZ (unwrap_objid_model id) expect then 0 else 1)
      + (if eqb_listZ (unpack objid_table id) expect then 0 else 2)
  | CUnSpec id expect =>
      let sp := match unpack specobjid_table id with
                | [p; f; m; r; l] => [p; f; m + 50000; r; r / 10000 + 5; (r mod 10000) / 100; r mod 100; l]
                | _ => [] end in
      (if eqb_listZ (unwrap_specobjid_model id) expect then 0 else 1)
      + (if eqb_listZ sp expect then 0 else 2)
  | CSweepObj i lo n others sum =>
      let rows := map (fun x => replace_nth i x others) (zseq lo n) in
      (if checksum (map objid_of rows) =? sum then 0 else 1)
      + (if checksum (map (pack objid_table) rows) =? sum then 0 else 2)
  | CSweepSpec i lo n others sum =>
      let rows := map (fun x => replace_nth i x others) (zseq lo n) in
      (if checksum (map specobjid_of rows) =? sum then 0 else 1)
      + (if checksum (map (fun v => match v with [p; f; m; r; l; ix] => pack specobjid_table [p; f; m; r; l + ix] | _ => 0 end) rows) =? sum then 0 else 2)
  end.

Definition run_cases (cs : list case) : list Z := map run_case cs.
