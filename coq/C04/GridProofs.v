(* C04, round 5 -- what decides the grid: the pieces regenerated from rarange / getraminmax / chunks.__init__ / the head
   and pair loop of spherematch() are the reference transliterations of C04/SceneModel.v; the reference pieces are the
   padding functions the bounds theorems are about; the chunk size spherematch() uses is at least 4 L, so assign()
   does not raise. *)
From Coq Require Import ZArith QArith Qround Qabs List Bool Arith Lia Lqa.
Import ListNotations.
From PV Require Import C04.Model C04.Proofs C04.Bounds C04.SceneModel Generated.Chunks.
Close Scope Z_scope. Close Scope Q_scope. Open Scope nat_scope.

Theorem generated_grid_is_reference :
  (gen_rarange_nra = ref_rarange_nra /\ gen_rarange_init = ref_rarange_init /\ gen_rarange_offset = ref_rarange_offset /\
   gen_rarange_range = ref_rarange_range /\ gen_rarange_accept = ref_accept) /\
  (gen_wrapra = ref_wrapra /\ gen_currRa_init = ref_currRa /\ gen_currRa_assign = ref_currRa /\ gen_currRa_match = ref_currRa) /\
  (gen_init_decRange0 = ref_init_decRange0 /\ gen_init_nDec = ref_init_nDec /\ gen_init_decRange = ref_init_decRange /\
   gen_init_decMin = ref_init_decMin /\ gen_init_decMax = ref_init_decMax /\
   gen_init_clamp_decMin_test = ref_clamp_decMin_test /\ gen_init_clamp_decMin_val = (- (90))%Q /\
   gen_init_clamp_decMax_test = ref_clamp_decMax_test /\ gen_init_clamp_decMax_val = 90%Q /\
   gen_init_decBound = ref_init_decBound) /\
  (gen_init_rarange_arg = ref_init_rarange_arg /\ gen_init_raRange = ref_init_raRange /\
   gen_init_cos_of_lo = ref_init_cos_of_lo /\ gen_init_cos_bad = ref_init_cos_bad /\ gen_init_nRa = ref_init_nRa /\
   gen_init_raRangeTmp = ref_init_raRangeTmp /\ gen_init_raMinTmp = ref_init_raMinTmp /\
   gen_init_raMaxTmp = ref_init_raMaxTmp /\ gen_init_embrace = ref_embrace /\
   gen_init_embrace_lo = 0%Q /\ gen_init_embrace_hi = 360%Q /\ gen_init_polar = ref_polar /\ gen_init_polar_nRa = 1%Q /\
   gen_init_raBound = ref_init_raBound) /\
  (gen_chunksize_default = ref_chunksize_default /\ gen_chunksize_small = ref_chunksize_small /\
   gen_chunksize_floor = ref_chunksize_floor /\ gen_pair_units = 2%Z /\ gen_pair_scale = 3600%Q /\
   gen_pair_test = ref_pair_test /\ gen_assign_guard = ref_assign_guard /\ gen_ramargin_full = 360%Q /\
   (forall m s c, gen_ramargin_cap_clear m s c = true -> (s < c)%Q)).
Proof.
  repeat split; try reflexivity.
  (* getbounds uses the arcsine margin only when the cap is clear of the pole (whatever else the test asks for) *)
  intros m s c H. unfold gen_ramargin_cap_clear in H.
  repeat (apply andb_true_iff in H; let H' := fresh "H" in destruct H as [H' H]).
  apply Qlt_bool_iff. exact H.
Qed.

(* ------------------------------------------------------------------ the chunk size spherematch() uses *)
Theorem eff_chunksize_ge : forall cs L, (4 * L <= eff_chunksize cs L)%Q.
Proof.
  intros [c|] L; unfold eff_chunksize.
  - unfold ref_chunksize_small, ref_chunksize_floor. destruct (Qlt_bool c (4 * L)) eqn:E; [apply Qle_refl|].
    apply Qlt_bool_false in E. exact E.
  - unfold ref_chunksize_default. destruct (Qle_bool dbl_0_1 (4 * L)) eqn:E; [apply Qle_refl|].
    destruct (Qlt_le_dec (4 * L) dbl_0_1) as [H|H]; [apply Qlt_le_weak; exact H|].
    apply Qle_bool_iff in H. rewrite H in E. discriminate.
Qed.

(* ... hence the guard of assign() (marginSize >= minSize: raise) is never taken for a positive match length *)
Theorem assign_guard_clear : forall cs L, (0 < L)%Q -> ref_assign_guard L (eff_chunksize cs L) = false.
Proof.
  intros cs L HL. unfold ref_assign_guard. pose proof (eff_chunksize_ge cs L) as H.
  destruct (Qle_bool (eff_chunksize cs L) L) eqn:E; [|reflexivity]. apply Qle_bool_iff in E. lra.
Qed.

(* ------------------------------------------------------------------ fmod and the rotation by raOffset *)
Lemma Qfloor_unique : forall x z, (inject_Z z <= x < inject_Z (z + 1))%Q -> Qfloor x = z.
Proof.
  intros x z [H1 H2]. pose proof (Qfloor_le x) as F1. pose proof (Qlt_floor x) as F2.
  assert (z < Qfloor x + 1)%Z by (rewrite Zlt_Qlt; lra).
  assert (Qfloor x < z + 1)%Z by (rewrite Zlt_Qlt; lra). lia.
Qed.

Lemma qfmod_small : forall x, (0 <= x < 360)%Q -> (qfmod x 360 == x)%Q.
Proof.
  intros x [H0 H1]. unfold qfmod, Qtrunc.
  assert (Hd : (0 <= x / 360)%Q) by (apply Qle_shift_div_l; lra).
  apply Qle_bool_iff in Hd. rewrite Hd. apply Qle_bool_iff in Hd.
  rewrite (Qfloor_unique (x / 360) 0).
  - change (inject_Z 0) with 0%Q. ring.
  - change (inject_Z 0) with 0%Q. change (inject_Z (0 + 1)) with 1%Q. split; [exact Hd|]. apply Qlt_shift_div_r; lra.
Qed.

Lemma qfmod_wrap : forall x, (360 <= x < 720)%Q -> (qfmod x 360 == x - 360)%Q.
Proof.
  intros x [H0 H1]. unfold qfmod, Qtrunc.
  assert (Hd : (0 <= x / 360)%Q) by (apply Qle_shift_div_l; lra).
  apply Qle_bool_iff in Hd. rewrite Hd.
  rewrite (Qfloor_unique (x / 360) 1).
  - change (inject_Z 1) with 1%Q. ring.
  - change (inject_Z 1) with 1%Q. change (inject_Z (1 + 1)) with 2%Q.
    split; [apply Qle_shift_div_l; lra|apply Qlt_shift_div_r; lra].
Qed.

Lemma qfmod_neg : forall x, (-(360) <= x < 0)%Q -> (qfmod x 360 == x \/ qfmod x 360 == x + 360)%Q.
Proof.
  intros x [H0 H1]. unfold qfmod, Qtrunc.
  assert (Hd : (x / 360 < 0)%Q) by (apply Qlt_shift_div_r; lra).
  destruct (Qle_bool 0 (x / 360)) eqn:E; [apply Qle_bool_iff in E; lra|].
  assert (Hc : (-1 <= Qceiling (x / 360) <= 0)%Z).
  { unfold Qceiling. pose proof (Qfloor_le (- (x / 360))) as F1. pose proof (Qlt_floor (- (x / 360))) as F2.
    assert (- (x / 360) <= 1)%Q.
    { assert (-1 <= x / 360)%Q by (apply Qle_shift_div_l; lra). lra. }
    assert (0 <= Qfloor (- (x / 360)))%Z.
    { replace 0%Z with (Qfloor 0) by reflexivity. apply Qfloor_resp_le. lra. }
    assert (Qfloor (- (x / 360)) <= 1)%Z.
    { replace 1%Z with (Qfloor 1) by reflexivity. apply Qfloor_resp_le. assumption. }
    lia. }
  assert (Hcc : Qceiling (x / 360) = (-1)%Z \/ Qceiling (x / 360) = 0%Z) by lia.
  destruct Hcc as [Hcc|Hcc]; rewrite Hcc.
  - right. change (inject_Z (-1)) with (-(1))%Q. ring.
  - left. change (inject_Z 0) with 0%Q. ring.
Qed.

Lemma wrapra_of : forall x c, (qfmod x 360 == c)%Q ->
  (ref_wrapra x == (if Qlt_bool c 0 then (if Qle_bool 360 (c + 360) then 0 else c + 360)
                    else (if Qle_bool 360 c then 0 else c)))%Q.
Proof.
  intros x c H. unfold ref_wrapra. cbv zeta.
  assert (E1 : Qlt_bool (qfmod x 360) 0 = Qlt_bool c 0).
  { destruct (Qlt_bool c 0) eqn:E; [apply Qlt_bool_iff; apply Qlt_bool_iff in E; lra|].
    apply Qlt_bool_false; apply Qlt_bool_false in E; lra. }
  rewrite E1. destruct (Qlt_bool c 0).
  - assert (E2 : Qle_bool 360 (qfmod x 360 + 360) = Qle_bool 360 (c + 360)).
    { destruct (Qle_bool 360 (c + 360)) eqn:E; [apply Qle_bool_iff; apply Qle_bool_iff in E; lra|].
      destruct (Qle_bool 360 (qfmod x 360 + 360)) eqn:E'; [|reflexivity].
      apply Qle_bool_iff in E'. assert (360 <= c + 360)%Q by lra. apply Qle_bool_iff in H0. congruence. }
    rewrite E2. destruct (Qle_bool 360 (c + 360)); lra.
  - assert (E2 : Qle_bool 360 (qfmod x 360) = Qle_bool 360 c).
    { destruct (Qle_bool 360 c) eqn:E; [apply Qle_bool_iff; apply Qle_bool_iff in E; lra|].
      destruct (Qle_bool 360 (qfmod x 360)) eqn:E'; [|reflexivity].
      apply Qle_bool_iff in E'. assert (360 <= c)%Q by lra. apply Qle_bool_iff in H0. congruence. }
    rewrite E2. destruct (Qle_bool 360 c); lra.
Qed.

Ltac qif := repeat match goal with
  | |- context [Qlt_bool ?a ?b] => let E := fresh "E" in destruct (Qlt_bool a b) eqn:E;
        [apply Qlt_bool_iff in E|apply Qlt_bool_false in E]
  | |- context [Qle_bool ?a ?b] => let E := fresh "E" in destruct (Qle_bool a b) eqn:E;
        [apply Qle_bool_iff in E|assert (b < a)%Q by (destruct (Qlt_le_dec b a) as [X|X]; [exact X|apply Qle_bool_iff in X; congruence])]
  end.

(* chunks.wrapra on one turn either side of [0, 360): the same point of the circle, reduced to [0, 360) *)
Theorem wrapra_small : forall x, (0 <= x < 360)%Q -> (ref_wrapra x == x)%Q.
Proof. intros x H. rewrite (wrapra_of x x) by (apply qfmod_small; exact H). qif; lra. Qed.
Theorem wrapra_wrap : forall x, (360 <= x < 720)%Q -> (ref_wrapra x == x - 360)%Q.
Proof. intros x H. rewrite (wrapra_of x (x - 360)) by (apply qfmod_wrap; exact H). qif; lra. Qed.
Theorem wrapra_neg : forall x, (-(360) <= x < 0)%Q -> (ref_wrapra x == x + 360)%Q.
Proof.
  intros x H. destruct (qfmod_neg x H) as [E|E].
  - rewrite (wrapra_of x x E). qif; lra.
  - rewrite (wrapra_of x (x + 360) E). qif; lra.
Qed.

(* the rotated right ascension stays in [0, 360) *)
Theorem currRa_range : forall a o, (-(360) <= a < 360)%Q -> (0 <= o < 360)%Q -> (0 <= ref_currRa a o < 360)%Q.
Proof.
  intros a o Ha Ho. unfold ref_currRa. destruct (Qlt_le_dec (a + o) 0) as [H0|H0].
  - rewrite wrapra_neg by lra. lra.
  - destruct (Qlt_le_dec (a + o) 360) as [H|H].
    + rewrite wrapra_small by lra. lra.
    + rewrite wrapra_wrap by lra. lra.
Qed.

Definition circ_lt (a b mg : Q) : Prop :=
  ((a - b < mg)%Q /\ (b - a < mg)%Q) \/ (a + 360 - b < mg)%Q \/ (b + 360 - a < mg)%Q.

Lemma circ_ltb_iff : forall a b mg, circ_ltb a b mg = true <-> circ_lt a b mg.
Proof.
  intros a b mg. unfold circ_ltb, circ_lt. rewrite !orb_true_iff, andb_true_iff, !Qlt_bool_iff. tauto.
Qed.

(* both lists are rotated by the same raOffset: being neighbours on the circle is preserved *)
Theorem circ_lt_rotate : forall a b o mg,
  (0 <= a < 360)%Q -> (0 <= b < 360)%Q -> (0 <= o < 360)%Q -> (mg <= 360)%Q ->
  (circ_lt (ref_currRa a o) (ref_currRa b o) mg <-> circ_lt a b mg).
Proof.
  intros a b o mg Ha Hb Ho Hmg. unfold ref_currRa, circ_lt.
  destruct (Qlt_le_dec (a + o) 360) as [H1|H1]; destruct (Qlt_le_dec (b + o) 360) as [H2|H2].
  - rewrite (wrapra_small (a + o)), (wrapra_small (b + o)) by lra. split; intros [[X Y]|[X|X]]; lra || (left; lra) || (right; lra).
  - rewrite (wrapra_small (a + o)), (wrapra_wrap (b + o)) by lra.
    split; intros [[X Y]|[X|X]]; try lra; try (left; lra); try (right; left; lra); try (right; right; lra).
  - rewrite (wrapra_wrap (a + o)), (wrapra_small (b + o)) by lra.
    split; intros [[X Y]|[X|X]]; try lra; try (left; lra); try (right; left; lra); try (right; right; lra).
  - rewrite (wrapra_wrap (a + o)), (wrapra_wrap (b + o)) by lra. split; intros [[X Y]|[X|X]]; lra || (left; lra) || (right; lra).
Qed.

Lemma chunksize_examples :
  eff_chunksize None (1 # 100) = dbl_0_1 /\ eff_chunksize (Some 5%Q) 2%Q = (4 * 2)%Q /\ eff_chunksize (Some 9%Q) 2%Q = 9%Q /\
  (let r := rarange_model [350; 355; 5; 10]%Q 2%Q in Qeq_bool (fst r) 20 && Qeq_bool (snd r) 60) = true.
Proof. repeat split; vm_compute; reflexivity. Qed.

Lemma Qle_minus_360_0 : (-(360) <= 0)%Q.
Proof. lra. Qed.
