(* C07: the configuration of the model as read off the source (Generated/Maskbits.v, rewritten on every run). *)
From Coq Require Import ZArith List Bool.
From PV Require Import C07.Model Generated.Maskbits.

Definition code_cfg : cfg :=
  mkcfg load_upper scan_bits accumulate_is_add acc_dtype_uint64 lookup_first upper_group upper_labels exist_all.
