"""C20 fault-injection runner.

stdin JSON: {"target": "window_score"|"template_input", "workdir": ..., "vars": [...touched env var names...],
             "runs": [{"init": {VAR: value-or-null}, "fault": k-or-null, "args": {...}}]}
For each run: set the touched variables as `init` says, install a tracing os.environ, run the entry point
with an exception injected at the k-th *Python-level call made directly by the target function (or by the
helper template_metadata)*, and report outcome, environment diff (ALL variables), env-op trace on the
touched variables, and the number of injectable calls seen.  A run with fault = null is the fault-free run.
"""
import json
import os
import pickle
import sys
import warnings

import numpy as np

warnings.filterwarnings('ignore')


class InjectedFault(Exception):
    pass


class TracingEnviron(object):
    """Wraps the real os.environ mapping; records operations on the watched variables."""

    def __init__(self, real, watched):
        object.__setattr__(self, '_real', real)
        object.__setattr__(self, '_watched', set(watched))
        object.__setattr__(self, 'trace', [])

    def _rec(self, kind, key, ok):
        if key in self._watched:
            self.trace.append([kind, key, bool(ok)])

    def __getitem__(self, key):
        ok = key in self._real
        self._rec('get', key, ok)
        return self._real[key]

    def get(self, key, default=None):
        ok = key in self._real
        self._rec('get', key, ok)
        return self._real.get(key, default)

    def __contains__(self, key):
        ok = key in self._real
        self._rec('get', key, ok)
        return ok

    def __setitem__(self, key, value):
        self._real[key] = value      # may raise TypeError for a non-string: then nothing is recorded
        self._rec('set', key, True)

    def setdefault(self, key, value):
        if key not in self._real:
            self[key] = value
        return self._real[key]

    def __delitem__(self, key):
        ok = key in self._real
        self._rec('del', key, ok)
        del self._real[key]

    def pop(self, key, *default):
        ok = key in self._real
        self._rec('del', key, ok)
        return self._real.pop(key, *default)

    def update(self, *a, **k):
        d = dict(*a, **k)
        for kk, vv in d.items():
            self[kk] = vv

    def __getattr__(self, name):
        return getattr(self._real, name)

    def __iter__(self):
        return iter(self._real)

    def __len__(self):
        return len(self._real)


class Injector(object):
    """sys.settrace-based: raises InjectedFault inside the k-th call whose caller frame is a target code object."""

    def __init__(self, target_codes, k):
        self.codes = set(target_codes)
        self.k = k
        self.count = 0
        self.fired_at = None
        self.names = []

    def tracer(self, frame, event, arg):
        if event != 'call':
            return None
        back = frame.f_back
        if back is None or back.f_code not in self.codes:
            return None
        if frame.f_code in self.codes or frame.f_code.co_filename == __file__:
            return None        # the helper itself is "inlined", calls made by it are counted instead
        idx = self.count
        self.count += 1
        self.names.append(frame.f_code.co_name)
        if self.k is not None and idx == self.k:
            self.fired_at = '%s@%s:%d' % (frame.f_code.co_name, os.path.basename(back.f_code.co_filename), back.f_lineno)
            return self._raiser
        return None

    def _raiser(self, frame, event, arg):
        # first 'line' event inside the callee: raise there, it propagates into the target function
        raise InjectedFault('injected at call #%d' % self.k)


def optional_keywords(partext):
    """String keys that template_metadata / template_input look up in the parsed parameter file (`'k' in par`,
    `par['k']`, `par.get('k')`) and that the standard test file does not define."""
    import ast
    import inspect
    import textwrap
    import pydl.pydlspec2d.spec1d as S
    known = set(l.split()[0].lower() for l in partext.splitlines() if l.split() and not l.startswith(('typedef', '}', ' ', '#')))
    keys = []
    for fn in ('template_metadata', 'template_input', '_template_input'):
        f = getattr(S, fn, None)
        if f is None:
            continue
        try:
            tree = ast.parse(textwrap.dedent(inspect.getsource(f)))
        except (OSError, SyntaxError):
            continue
        for n in ast.walk(tree):
            k = None
            if isinstance(n, ast.Compare) and len(n.ops) == 1 and isinstance(n.ops[0], (ast.In, ast.NotIn)) \
                    and isinstance(n.left, ast.Constant) and isinstance(n.left.value, str) \
                    and isinstance(n.comparators[0], ast.Name) and n.comparators[0].id == 'par':
                k = n.left.value
            elif isinstance(n, ast.Subscript) and isinstance(n.value, ast.Name) and n.value.id == 'par' \
                    and isinstance(n.slice, ast.Constant) and isinstance(n.slice.value, str):
                k = n.slice.value
            elif isinstance(n, ast.Call) and isinstance(n.func, ast.Attribute) and n.func.attr == 'get' \
                    and isinstance(n.func.value, ast.Name) and n.func.value.id == 'par' and n.args \
                    and isinstance(n.args[0], ast.Constant) and isinstance(n.args[0].value, str):
                k = n.args[0].value
            if k and k.lower() not in known and k not in keys and k.replace('_', '').isalnum():
                keys.append(k)
    return keys


def make_inputs(workdir):
    """Small, valid inputs so that both entry points run to completion without faults."""
    from astropy.io import fits
    os.makedirs(workdir, exist_ok=True)
    # window_flist.fits with a SCORE column and what sdss_score reads
    resolve = os.path.join(workdir, 'resolve')
    os.makedirs(resolve, exist_ok=True)
    fl = os.path.join(resolve, 'window_flist.fits')
    if not os.path.exists(fl):
        n = 3
        cols = [fits.Column(name='SCORE', format='E', array=np.zeros(n, dtype='f4')),
                fits.Column(name='RUN', format='J', array=np.arange(n)),
                fits.Column(name='CALIB_STATUS', format='5J', array=np.ones((n, 5), dtype='i4')),
                fits.Column(name='IMAGE_STATUS', format='5J', array=np.ones((n, 5), dtype='i4')),
                fits.Column(name='PSP_STATUS', format='5J', array=np.zeros((n, 5), dtype='i4')),
                fits.Column(name='SKY_FRAMES_SUB', format='5E', array=np.ones((n, 5), dtype='f4')),
                fits.Column(name='SKY', format='5E', array=np.ones((n, 5), dtype='f4')),
                fits.Column(name='PSF_FWHM', format='5E', array=np.ones((n, 5), dtype='f4')),
                fits.Column(name='SEEING', format='5E', array=np.ones((n, 5), dtype='f4')),
                ]
        fits.HDUList([fits.PrimaryHDU(), fits.BinTableHDU.from_columns(cols)]).writeto(fl)
    # template par + dump file
    par = os.path.join(workdir, 'tmpl.par')
    if not os.path.exists(par):
        rows = '\n'.join('EIGENOBJ %d %d %d %.4f' % (3587 + i // 3, 55182 + i // 3, 10 + i, 0.1 + 0.01 * i) for i in range(8))
        open(par, 'w').write('''object gal
method pca
wavemin 3000
wavemax 9000
snmax 100
niter 1
nkeep 4
minuse 3
aesthetics mean
run2d v9_9_9
run1d v8_8_8

typedef struct {
    int plate;
    int mjd;
    int fiberid;
    double zfit;
} EIGENOBJ;

''' + rows + '\n')
    par_hmf = os.path.join(workdir, 'tmpl_hmf.par')
    if not os.path.exists(par_hmf):
        txt = open(par).read().replace('method pca', 'method hmf').replace('run1d v8_8_8\n', 'run1d v8_8_8\nepsilon -1.0\nnonnegative 0\n')
        open(par_hmf, 'w').write(txt)
    # keywords the code looks up in the parameter file that the files above do not have (optional keywords):
    # a third file sets every one of them, so that code guarded by `'key' in par` runs too
    par_opt = os.path.join(workdir, 'tmpl_opt.par')
    opt = optional_keywords(open(par).read())
    if not os.path.exists(par_opt):
        txt = open(par).read().replace('run1d v8_8_8\n', 'run1d v8_8_8\n' + ''.join('%s %s\n' % (k, workdir) for k in opt))
        open(par_opt, 'w').write(txt)
    dump = os.path.join(workdir, 'tmpl.dump')
    if not os.path.exists(dump):
        rng = np.random.RandomState(5)
        npix = 40
        loglam = 3.5 + 1.0e-4 * np.arange(npix)
        base = np.vstack([np.sin(np.arange(npix) / (3.0 + k)) + 2.0 for k in range(4)])
        coef = rng.uniform(0.5, 1.5, size=(8, 4))
        flux = coef.dot(base) + 0.01 * rng.normal(size=(8, npix))
        ivar = np.ones((8, npix)) * 100.0
        with open(dump, 'wb') as f:
            pickle.dump({'newflux': flux, 'newivar': ivar, 'newloglam': loglam}, f)
    return {'resolve': resolve, 'par': par, 'par_hmf': par_hmf, 'par_opt': par_opt, 'optional_keywords': opt, 'dump': dump}


def snapshot():
    return dict(os.environ._real if isinstance(os.environ, TracingEnviron) else os.environ)


def one_run(target, paths, watched, run, workdir):
    real_environ = os.environ
    # initial state of the touched variables
    for v, val in run['init'].items():
        if val is None:
            real_environ.pop(v, None)
        else:
            real_environ[v] = val
    before = dict(real_environ)
    tr = TracingEnviron(real_environ, watched)
    import pydl.photoop.window as W
    import pydl.pydlspec2d.spec1d as S
    if target == 'window_score':
        fn = W.window_score
        codes = [W.window_score.__code__]
        kwargs = {'rescore': bool(run.get('args', {}).get('rescore', False))}
        call = lambda: fn(**kwargs)   # noqa: E731
        # sdss_score in the repository calls a function that does not exist in numpy 2; give it a
        # chance to succeed so that the straight-line path is explored too (stub only when asked)
        if run.get('args', {}).get('stub_score', True):
            W.sdss_score = lambda flist, silent=True: np.ones(len(flist[1].data), dtype='f4')
    else:
        codes = [S.template_input.__code__, S.template_metadata.__code__]
        for extra in ('_template_input',):
            if hasattr(S, extra):
                codes.append(getattr(S, extra).__code__)
        parfile = paths['par_hmf'] if run.get('args', {}).get('method') == 'hmf' else paths['par']
        if run.get('args', {}).get('optional_keywords'):
            parfile = paths['par_opt']
        call = lambda: S.template_input(parfile, paths['dump'], flux=bool(run.get('args', {}).get('flux', False)), verbose=False)   # noqa: E731
    inj = Injector(codes, run.get('fault'))
    os.environ = tr
    outcome = 'returned'
    exc = None
    cwd = os.getcwd()
    os.chdir(workdir)
    try:
        sys.settrace(inj.tracer)
        try:
            call()
        finally:
            sys.settrace(None)
    except BaseException as e:  # noqa: BLE001
        outcome = 'raised'
        exc = '%s: %s' % (type(e).__name__, str(e)[:100])
    finally:
        os.environ = real_environ
        os.chdir(cwd)
    after = dict(real_environ)
    diff = {}
    for k in set(before) | set(after):
        if before.get(k) != after.get(k):
            diff[k] = [before.get(k), after.get(k)]
    return {'outcome': outcome, 'exc': exc, 'env_diff': diff, 'trace': tr.trace, 'ncalls': inj.count,
            'fired_at': inj.fired_at, 'call_names': inj.names if run.get('want_names') else None}


def main():
    # everything the code under test prints goes to stderr; the JSON answer goes to the real stdout
    real_out = os.fdopen(os.dup(1), 'w')
    os.dup2(2, 1)
    sys.stdout = sys.stderr
    req = json.load(sys.stdin)
    workdir = req['workdir']
    paths = make_inputs(workdir)
    os.environ['PHOTO_RESOLVE_FOR_TEST'] = paths['resolve']
    import pydl
    out = {'pydl_file': pydl.__file__, 'paths': paths, 'results': []}
    import matplotlib
    matplotlib.use('Agg')
    for run in req['runs']:
        init = dict(run['init'])
        # PHOTO_RESOLVE, when set, must point at the prepared tree
        if init.get('PHOTO_RESOLVE') is not None:
            init['PHOTO_RESOLVE'] = paths['resolve']
        run = dict(run, init=init)
        out['results'].append(one_run(req['target'], paths, req['vars'], run, workdir))
    json.dump(out, real_out)
    real_out.flush()


if __name__ == '__main__':
    main()
