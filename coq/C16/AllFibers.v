(* C16 -- fiber=None: number_of_fibers and the expansion into explicit (plate, mjd, fiber) requests. *)
From Coq Require Import ZArith List Bool Arith Lia Permutation.
Import ListNotations.
From PV Require Import C16.Model C16.ListLemmas C16.Proofs.
Open Scope Z_scope.

(* ---------- number_of_fibers *)

Lemma number_of_fibers_sdss sv pl r2 r1 plates :
  (forall p, In p plates -> latest_mjd sv p < boss_first_mjd) ->
  number_of_fibers sv pl r2 r1 plates = Some (map (fun _ => sdss_nfiber) plates).
Proof.
  intros H. unfold number_of_fibers.
  assert (forallb (fun m => m <? boss_first_mjd) (map (latest_mjd sv) plates) = true) as ->; [|reflexivity].
  apply forallb_forall. intros m Hm. apply in_map_iff in Hm. destruct Hm as (p & <- & Hp).
  apply Z.ltb_lt. apply H. exact Hp.
Qed.

Lemma number_of_fibers_boss sv pl r2 r1 plates nf p0 :
  In p0 plates -> boss_first_mjd <= latest_mjd sv p0 ->
  number_of_fibers sv pl r2 r1 plates = Some nf ->
  length nf = length plates /\
  forall i p, nth_error plates i = Some p ->
    exists n, ntotal_lookup pl p (latest_mjd sv p) r2 r1 = Some n /\ nth_error nf i = Some n.
Proof.
  intros Hin Hge H. unfold number_of_fibers in H.
  assert (forallb (fun m => m <? boss_first_mjd) (map (latest_mjd sv) plates) = false) as E.
  { apply not_true_is_false. intros E. rewrite forallb_forall in E.
    specialize (E (latest_mjd sv p0) (in_map _ _ _ Hin)). apply Z.ltb_lt in E. lia. }
  rewrite E in H. split.
  - rewrite (mapM_length _ _ _ H), combine_length, map_length. lia.
  - intros i p Hi.
    assert (nth_error (combine plates (map (latest_mjd sv) plates)) i = Some (p, latest_mjd sv p)) as Hc.
    { clear - Hi. revert i Hi. induction plates as [|q l IH]; intros i Hi; [destruct i; discriminate|].
      destruct i as [|i]; cbn in *; [inversion Hi; reflexivity|apply IH; exact Hi]. }
    destruct (mapM_nth _ _ _ _ _ H Hc) as (n & Hn & Hnth). exists n. split; assumption.
Qed.

Lemma ntotal_lookup_spec pl p m r2 r1 n :
  ntotal_lookup pl p m r2 r1 = Some n ->
  exists r, In r pl /\ pl_plate r = p /\ pl_mjd r = m /\ pl_run2d r = r2 /\ pl_run1d r = r1 /\ pl_ntotal r = n.
Proof.
  unfold ntotal_lookup. destruct (find _ pl) as [r|] eqn:E; [|discriminate]. intros H. inversion H; subst.
  apply find_some in E. destruct E as [Hin Hb]. rewrite !andb_true_iff, !Z.eqb_eq in Hb.
  exists r. tauto.
Qed.

(* ---------- the expansion *)

Open Scope nat_scope.

Definition nsum (l : list nat) : nat := fold_right Nat.add 0 l.

Lemma nsum_perm l l' : Permutation l l' -> nsum l = nsum l'.
Proof. unfold nsum. induction 1; cbn; lia. Qed.

Lemma length_flat_map {A B} (f : A -> list B) l : length (flat_map f l) = nsum (map (fun x => length (f x)) l).
Proof. induction l as [|x l IH]; cbn; [reflexivity|]. rewrite app_length, IH. reflexivity. Qed.

Lemma nf_first_nodup plates : forall nfibers i p n,
  NoDup plates -> nth_error plates i = Some p -> nth_error nfibers i = Some n -> nf_first plates nfibers p = n.
Proof.
  unfold nf_first. induction plates as [|q l IH]; intros nfibers i p n Hnd Hp Hn; [destruct i; discriminate|].
  destruct nfibers as [|m nfibers]; [destruct i; discriminate|].
  inversion Hnd as [|? ? Hq Hnd']; subst. cbn [combine find fst snd].
  destruct i as [|i]; cbn in Hp, Hn.
  - inversion Hp; inversion Hn; subst. rewrite Z.eqb_refl. reflexivity.
  - destruct (q =? p)%Z eqn:E.
    + apply Z.eqb_eq in E. subst. exfalso. apply Hq. eapply nth_error_In. exact Hp.
    + apply (IH nfibers i p n Hnd' Hp Hn).
Qed.

Lemma to_nat_sum nfibers : (forall n, In n nfibers -> (0 <= n)%Z) ->
  Z.to_nat (fold_right Z.add 0%Z nfibers) = nsum (map Z.to_nat nfibers).
Proof.
  induction nfibers as [|n l IH]; intros H; [reflexivity|]. cbn.
  assert (0 <= fold_right Z.add 0 l)%Z as Hs.
  { clear IH. induction l as [|m l IHl]; cbn; [lia|].
    assert (0 <= m)%Z by (apply H; right; left; reflexivity).
    assert (0 <= fold_right Z.add 0 l)%Z; [|lia]. apply IHl. intros x [<-|Hx]; apply H; [left; reflexivity|right; right; exact Hx]. }
  rewrite Z2Nat.inj_add by (try exact Hs; apply H; left; reflexivity).
  rewrite IH by (intros x Hx; apply H; right; exact Hx). reflexivity.
Qed.

(* without a repeated plate no zero is left: the vectors are exactly (p, 1..nfiber(p)) for the plates in increasing order *)
Lemma all_fiber_vectors_nodup plates nfibers :
  NoDup plates -> length nfibers = length plates -> (forall n, In n nfibers -> (0 <= n)%Z) ->
  all_fiber_vectors plates nfibers = all_fiber_pairs plates nfibers.
Proof.
  intros Hnd Hlen Hpos. unfold all_fiber_vectors.
  assert (Z.to_nat (fold_right Z.add 0%Z nfibers) = length (all_fiber_pairs plates nfibers)) as ->.
  2:{ rewrite Nat.sub_diag. cbn. apply app_nil_r. }
  unfold all_fiber_pairs. rewrite length_flat_map, to_nat_sum by exact Hpos.
  transitivity (nsum (map (fun p => Z.to_nat (nf_first plates nfibers p)) plates)).
  - f_equal. apply nth_error_ext_eq. intros i. rewrite !nth_error_map.
    destruct (nth_error plates i) as [p|] eqn:Ep; destruct (nth_error nfibers i) as [n|] eqn:En; cbn.
    + rewrite (nf_first_nodup plates nfibers i p n Hnd Ep En). reflexivity.
    + apply nth_error_None in En. assert (i < length plates) by (apply nth_error_Some; congruence). lia.
    + apply nth_error_None in Ep. assert (i < length nfibers) by (apply nth_error_Some; congruence). lia.
    + reflexivity.
  - apply nsum_perm.
    rewrite (map_ext (fun x => length (map (fun f => (x, Z.of_nat f)) (seq 1 (Z.to_nat (nf_first plates nfibers x)))))
                     (fun x => Z.to_nat (nf_first plates nfibers x)))
      by (intros x; rewrite map_length, seq_length; reflexivity).
    apply Permutation_map. apply NoDup_Permutation; [exact Hnd|apply usort_NoDup|].
    intros x. symmetry. apply usort_In.
Qed.

Lemma zip3_of_pairs (g : Z -> Z) (pf : list (Z * Z)) :
  zip3 (map fst pf) (map g (map fst pf)) (map snd pf) = map (fun x => (fst x, g (fst x), snd x)) pf.
Proof. induction pf as [|[p f] l IH]; cbn; [reflexivity|]. f_equal. exact IH. Qed.

(* readspec(plates, fiber=None): the requests are (p, latest MJD of p, 1..nfiber(p)), plates in increasing order *)
Theorem all_fibers_requests sv pl r2 r1 plates nf :
  NoDup plates ->
  number_of_fibers sv pl r2 r1 plates = Some nf -> (forall n, In n nf -> (0 <= n)%Z) ->
  request_vectors_all sv pl r2 r1 (Ar plates) None =
  Some (flat_map (fun p => map (fun f => (p, latest_mjd sv p, Z.of_nat f)) (seq 1 (Z.to_nat (nf_first plates nf p))))
                 (usort plates)).
Proof.
  intros Hnd Hnf Hpos. unfold request_vectors_all. cbn [avals]. rewrite Hnf.
  assert (length nf = length plates) as Hlen.
  { unfold number_of_fibers in Hnf. destruct (forallb _ _).
    - inversion Hnf. apply map_length.
    - rewrite (mapM_length _ _ _ Hnf), combine_length, map_length. lia. }
  rewrite (all_fiber_vectors_nodup plates nf Hnd Hlen Hpos). rewrite zip3_of_pairs. f_equal.
  unfold all_fiber_pairs. generalize (usort plates) as ps. induction ps as [|p ps IH]; cbn; [reflexivity|].
  rewrite map_app, IH, map_map. reflexivity.
Qed.

(* the same for a scalar plate *)
Theorem all_fibers_requests_scalar sv pl r2 r1 p n :
  number_of_fibers sv pl r2 r1 [p] = Some [n] -> (0 <= n)%Z ->
  request_vectors_all sv pl r2 r1 (Sc p) None = Some (map (fun f => (p, latest_mjd sv p, Z.of_nat f)) (seq 1 (Z.to_nat n))).
Proof.
  intros Hnf Hpos.
  assert (request_vectors_all sv pl r2 r1 (Sc p) None = request_vectors_all sv pl r2 r1 (Ar [p]) None) as -> by reflexivity.
  rewrite (all_fibers_requests sv pl r2 r1 [p] [n]).
  - cbn. unfold nf_first. cbn. rewrite Z.eqb_refl. cbn. rewrite app_nil_r. reflexivity.
  - constructor; [intros []|constructor].
  - exact Hnf.
  - intros x [<-|[]]. exact Hpos.
Qed.

(* whole all-fibre calls = specification on the expanded requests *)
Theorem readspec_model_all_eq_S sv pl r2 r1 plate mjd znum reqs :
  wf_survey sv = true ->
  request_vectors_all sv pl r2 r1 plate mjd = Some reqs ->
  (forall r, In r reqs -> valid_req r) ->
  readspec_model_all sv pl r2 r1 plate mjd znum = readspec_S sv reqs znum.
Proof.
  intros Hwf Hreq Hv. unfold readspec_model_all, readspec_S. rewrite Hreq.
  apply sequenceM_map_ext. intros w _. apply readspec_core_eq_spec; [exact Hv|].
  apply wf_survey_uniform. exact Hwf.
Qed.
