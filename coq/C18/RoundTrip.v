(* C18 -- the mu/nu frame transforms at the level of ANGLES (not only unit vectors):
   radec_to_munu (munu_to_radec (mu, nu)) = (mu reduced to node + (-PI, PI], nu) for |nu| < PI/2, the converse for
   |dec| < PI/2, every inclination and node; and great-circle distances (gcirc) are preserved.
   Longitudes are  atan2 y x + node, latitudes asin z  as GENERATED from the source (Generated/Coord.v: m2r_lon, m2r_lat,
   r2m_lon, r2m_lat), with atan2 := Spec.atan2. *)
From Coq Require Import Reals ZArith Lra Lia.
From PV Require Import C18.Spec C18.SpecProofs Generated.Coord C18.Model C18.Proofs C18.Angles.
Open Scope R_scope.

(* ---- atan2 returns the polar angle of (x, y) ---- *)

Lemma sqrt_ratio : forall x y, 0 < x -> sqrt (1 + (y / x)²) = sqrt (x * x + y * y) / x.
Proof.
  intros x y Hx. unfold Rsqr.
  replace (1 + y / x * (y / x)) with ((x * x + y * y) / (x * x)) by (field; lra).
  rewrite sqrt_div_alt by nra. rewrite sqrt_square by lra. reflexivity.
Qed.

Lemma atan2_spec : forall x y, 0 < sqrt (x * x + y * y) ->
  cos (atan2 y x) = x / sqrt (x * x + y * y) /\ sin (atan2 y x) = y / sqrt (x * x + y * y).
Proof.
  intros x y Hr. set (rho := sqrt (x * x + y * y)) in *. unfold atan2.
  destruct (Rlt_dec 0 x) as [Hx|Hx].
  - rewrite cos_atan, sin_atan, sqrt_ratio by exact Hx. fold rho. split; field; lra.
  - destruct (Rlt_dec x 0) as [Hx'|Hx'].
    + assert (E : sqrt (1 + (y / x)²) = rho / (- x)).
      { replace (y / x) with ((- y) / (- x)) by (field; lra). rewrite sqrt_ratio by lra.
        unfold rho. f_equal. f_equal. ring. }
      destruct (Rle_dec 0 y) as [Hy|Hy].
      * rewrite neg_cos, neg_sin, cos_atan, sin_atan, E. split; field; lra.
      * rewrite cos_minus, sin_minus, cos_PI, sin_PI, cos_atan, sin_atan, E. split; field; lra.
    + assert (X0 : x = 0) by lra. subst x.
      assert (Ry : rho = sqrt (y * y)) by (unfold rho; f_equal; ring).
      destruct (Rlt_dec 0 y) as [Hy|Hy].
      * rewrite cos_PI2, sin_PI2. rewrite Ry, sqrt_square by lra. split; field; lra.
      * destruct (Rlt_dec y 0) as [Hy'|Hy'].
        -- rewrite cos_neg, sin_neg, cos_PI2, sin_PI2.
           replace (y * y) with ((- y) * (- y)) in Ry by ring. rewrite Ry, sqrt_square by lra. split; field; lra.
        -- assert (Y0 : y = 0) by lra. subst y. exfalso.
           rewrite Ry, Rmult_0_l, sqrt_0 in Hr. lra.
Qed.

(* every unit vector is the vector of its own (asin z, atan2 y x) -- also at the poles, where cos(asin z) = 0 *)
Lemma vec_of_angles : forall x y z, x * x + y * y + z * z = 1 -> vec (asin z) (atan2 y x) = (x, y, z).
Proof.
  intros x y z U.
  assert (Z : -1 <= z <= 1) by (split; nra).
  unfold vec. rewrite sin_asin by exact Z. rewrite cos_asin by exact Z.
  replace (1 - z²) with (x * x + y * y) by (unfold Rsqr; lra).
  destruct (Rle_lt_or_eq_dec 0 _ (sqrt_pos (x * x + y * y))) as [P|P].
  - destruct (atan2_spec x y P) as [C S]. rewrite C, S. apply pair3_eq; try reflexivity; field; lra.
  - assert (E : x * x + y * y = 0).
    { apply sqrt_eq_0. nra. symmetry. exact P. }
    assert (X0 : x = 0) by nra. assert (Y0 : y = 0) by nra. subst x y.
    rewrite <- P. apply pair3_eq; ring.
Qed.

(* angles of the unit vector of (d, a): latitude d, longitude a reduced to (-PI, PI] *)
Lemma angles_of_vec : forall d a0 k, - (PI / 2) < d < PI / 2 -> - PI < a0 <= PI ->
  atan2 (cos d * sin (a0 + 2 * IZR k * PI)) (cos d * cos (a0 + 2 * IZR k * PI)) = a0 /\ asin (sin d) = d.
Proof.
  intros d a0 k Hd Ha. destruct (sin_cos_period_Z a0 k) as [S C]. rewrite S, C. split.
  - apply atan2_polar. apply cos_gt_0; lra. exact Ha.
  - apply asin_sin. lra.
Qed.

(* ---- the transforms on angles, as the source computes them ---- *)

Definition m2r_angles (mu nu incl node : R) : R * R :=
  let v := m2r_vec mu nu incl node in (m2r_lon atan2 v node, m2r_lat v).
Definition r2m_angles (ra dec incl node : R) : R * R :=
  let v := r2m_vec ra dec incl node in (r2m_lon atan2 v node, r2m_lat v).

(* the returned (ra, dec) represent exactly the rotated unit vector *)
Lemma m2r_angles_vec : forall mu nu incl node,
  let '(ra, dec) := m2r_angles mu nu incl node in vec dec (ra - node) = m2r_vec mu nu incl node.
Proof.
  intros. unfold m2r_angles. pose proof (m2r_unit mu nu incl node) as U.
  destruct (m2r_lat_legal mu nu incl node) as [L _].
  destruct (m2r_vec mu nu incl node) as [[x y] z] eqn:E. cbn [snd] in L. rewrite L.
  unfold m2r_lon. replace (atan2 y x + node - node) with (atan2 y x) by ring.
  apply vec_of_angles. unfold dot in U. lra.
Qed.

Lemma r2m_angles_vec : forall ra dec incl node,
  let '(mu, nu) := r2m_angles ra dec incl node in vec nu (mu - node) = r2m_vec ra dec incl node.
Proof.
  intros. unfold r2m_angles. pose proof (r2m_unit ra dec incl node) as U.
  destruct (r2m_lat_legal ra dec incl node) as [L _].
  destruct (r2m_vec ra dec incl node) as [[x y] z] eqn:E. cbn [snd] in L. rewrite L.
  unfold r2m_lon. replace (atan2 y x + node - node) with (atan2 y x) by ring.
  apply vec_of_angles. unfold dot in U. lra.
Qed.

(* angles read off a vector of the form vec d (a0 + 2 k PI) *)
Lemma lon_lat_of_vec : forall (lon : (R -> R -> R) -> R * R * R -> R -> R) (lat : R * R * R -> R) v d a0 k node,
  (forall x y z, lon atan2 (x, y, z) node = atan2 y x + node) ->
  (forall x y z, -1 <= z <= 1 -> lat (x, y, z) = asin z) ->
  v = vec d (a0 + 2 * IZR k * PI) -> - (PI / 2) < d < PI / 2 -> - PI < a0 <= PI ->
  (lon atan2 v node, lat v) = (a0 + node, d).
Proof.
  intros lon lat v d a0 k node Hlon Hlat -> Hd Ha. unfold vec.
  rewrite Hlon, Hlat by (generalize (SIN_bound d); lra).
  destruct (angles_of_vec d a0 k Hd Ha) as [A B]. rewrite A, B. reflexivity.
Qed.

Lemma m2r_lon_eq : forall x y z node, m2r_lon atan2 (x, y, z) node = atan2 y x + node.
Proof. reflexivity. Qed.
Lemma r2m_lon_eq : forall x y z node, r2m_lon atan2 (x, y, z) node = atan2 y x + node.
Proof. reflexivity. Qed.
Lemma m2r_lat_eq : forall x y z, -1 <= z <= 1 -> m2r_lat (x, y, z) = asin z.
Proof. intros x y z Z. unfold m2r_lat. first [reflexivity | rewrite (clip_id _ Z); reflexivity]. Qed.
Lemma r2m_lat_eq : forall x y z, -1 <= z <= 1 -> r2m_lat (x, y, z) = asin z.
Proof. intros x y z Z. unfold r2m_lat. first [reflexivity | rewrite (clip_id _ Z); reflexivity]. Qed.

(* (mu, nu) -> (ra, dec) -> (mu, nu): the starting point comes back, mu reduced to node + (-PI, PI] *)
Theorem munu_radec_munu_angles : forall mu0 nu incl node k,
  - (PI / 2) < nu < PI / 2 -> - PI < mu0 - node <= PI ->
  let '(ra, dec) := m2r_angles (mu0 + 2 * IZR k * PI) nu incl node in
  r2m_angles ra dec incl node = (mu0, nu).
Proof.
  intros mu0 nu incl node k Hnu Hmu.
  pose proof (m2r_angles_vec (mu0 + 2 * IZR k * PI) nu incl node) as V.
  destruct (m2r_angles (mu0 + 2 * IZR k * PI) nu incl node) as [ra dec].
  pose proof (munu_radec_inverse _ _ _ _ _ _ V) as W.
  unfold r2m_angles. cbv zeta.
  replace (mu0 + 2 * IZR k * PI - node) with ((mu0 - node) + 2 * IZR k * PI) in W by ring.
  rewrite (lon_lat_of_vec r2m_lon r2m_lat _ nu (mu0 - node) k node
             (fun x y z => r2m_lon_eq x y z node) r2m_lat_eq W Hnu Hmu).
  f_equal. ring.
Qed.

(* (ra, dec) -> (mu, nu) -> (ra, dec) *)
Theorem radec_munu_radec_angles : forall ra0 dec incl node k,
  - (PI / 2) < dec < PI / 2 -> - PI < ra0 - node <= PI ->
  let '(mu, nu) := r2m_angles (ra0 + 2 * IZR k * PI) dec incl node in
  m2r_angles mu nu incl node = (ra0, dec).
Proof.
  intros ra0 dec incl node k Hdec Hra.
  pose proof (r2m_angles_vec (ra0 + 2 * IZR k * PI) dec incl node) as V.
  destruct (r2m_angles (ra0 + 2 * IZR k * PI) dec incl node) as [mu nu].
  pose proof (radec_munu_inverse _ _ _ _ _ _ V) as W.
  unfold m2r_angles. cbv zeta.
  replace (ra0 + 2 * IZR k * PI - node) with ((ra0 - node) + 2 * IZR k * PI) in W by ring.
  rewrite (lon_lat_of_vec m2r_lon m2r_lat _ dec (ra0 - node) k node
             (fun x y z => m2r_lon_eq x y z node) m2r_lat_eq W Hdec Hra).
  f_equal. ring.
Qed.

(* ---- separations are preserved at the level of gcirc ---- *)

Lemma dot_vec_shift : forall d1 a1 d2 a2 s, dot (vec d1 (a1 - s)) (vec d2 (a2 - s)) = dot (vec d1 a1) (vec d2 a2).
Proof. intros. rewrite !dot_vec. replace (a2 - s - (a1 - s)) with (a2 - a1) by ring. reflexivity. Qed.

Theorem gcirc_preserved_m2r : forall mu1 nu1 mu2 nu2 incl node,
  let '(ra1, dec1) := m2r_angles mu1 nu1 incl node in
  let '(ra2, dec2) := m2r_angles mu2 nu2 incl node in
  gcirc_rad ra1 dec1 ra2 dec2 = gcirc_rad mu1 nu1 mu2 nu2.
Proof.
  intros.
  pose proof (m2r_angles_vec mu1 nu1 incl node) as V1. pose proof (m2r_angles_vec mu2 nu2 incl node) as V2.
  destruct (m2r_angles mu1 nu1 incl node) as [ra1 dec1]. destruct (m2r_angles mu2 nu2 incl node) as [ra2 dec2].
  rewrite !gcirc_is_vector_formula. unfold gcirc_vec. f_equal.
  rewrite <- (dot_vec_shift dec1 ra1 dec2 ra2 node), V1, V2, m2r_preserves_dot. apply dot_vec_shift.
Qed.

Theorem gcirc_preserved_r2m : forall ra1 dec1 ra2 dec2 incl node,
  let '(mu1, nu1) := r2m_angles ra1 dec1 incl node in
  let '(mu2, nu2) := r2m_angles ra2 dec2 incl node in
  gcirc_rad mu1 nu1 mu2 nu2 = gcirc_rad ra1 dec1 ra2 dec2.
Proof.
  intros.
  pose proof (r2m_angles_vec ra1 dec1 incl node) as V1. pose proof (r2m_angles_vec ra2 dec2 incl node) as V2.
  destruct (r2m_angles ra1 dec1 incl node) as [mu1 nu1]. destruct (r2m_angles ra2 dec2 incl node) as [mu2 nu2].
  rewrite !gcirc_is_vector_formula. unfold gcirc_vec. f_equal.
  rewrite <- (dot_vec_shift nu1 mu1 nu2 mu2 node), V1, V2, r2m_preserves_dot. apply dot_vec_shift.
Qed.

Lemma angles_represent_vector : forall a b incl node,
  (let '(ra, dec) := m2r_angles a b incl node in vec dec (ra - node) = m2r_vec a b incl node) /\
  (let '(mu, nu) := r2m_angles a b incl node in vec nu (mu - node) = r2m_vec a b incl node).
Proof. intros. split. apply m2r_angles_vec. apply r2m_angles_vec. Qed.
