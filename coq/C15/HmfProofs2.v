(* C15: HMF corollaries -- badness never increases in an a-step; the multiplicative (non-negative) updates keep
   non-negative factors non-negative; the normalisation does not change the model and gives unit rms. *)
From Coq Require Import QArith Qabs Lqa List Bool Lia ZArith.
From PV Require Import Lib.WLS C13.LinAlg C13.LinAlgProofs Generated.Chi2 C15.Model C15.Chi2Proofs C15.HmfProofs.
Import ListNotations.
Open Scope Q_scope.

(* ------------------------------------------------------------------ chi2_mat as a sum over rows *)
Definition rowterm (si wi mi : vec) : Q := vsum (map2 (fun p mij => sqr (fst p - mij) * snd p) (combine si wi) mi).

Lemma rowterm_chi2 Gt : forall si wi ai,
  rowterm si wi (map (fun c => dot ai c) Gt) == chi2 (combine (combine Gt wi) si) ai.
Proof.
  unfold rowterm. induction Gt as [|c Gt IH]; intros [|s si] [|w wi] ai; simpl; try reflexivity.
  unfold vsum in *. simpl. rewrite IH. unfold sqr. rewrite (dot_comm ai c). ring.
Qed.

Definition rowchi2 (g : mat) (sw : vec * vec) (ai : vec) : Q := chi2 (hmf_row_data g (snd sw) (fst sw)) ai.

Lemma chi2_mat_rows g : forall s w a, chi2_mat s w a g == vsum (map2 (rowchi2 g) (combine s w) a).
Proof.
  intros s w a. unfold chi2_mat, mat_mul. generalize (combine s w) as l. intros l. revert a.
  induction l as [|[si wi] l IH]; intros [|ai a]; simpl; try reflexivity.
  unfold vsum in *. simpl. rewrite IH. unfold rowchi2, hmf_row_data. simpl.
  pose proof (rowterm_chi2 (transpose g) si wi ai) as E. unfold rowterm, vsum in E. rewrite E. reflexivity.
Qed.

Lemma map2_combine {A B C : Type} (f : A -> B -> C) : forall u v, map2 f u v = map (fun p => f (fst p) (snd p)) (combine u v).
Proof. induction u as [|a u IH]; intros [|b v]; simpl; try reflexivity. f_equal. apply IH. Qed.

Lemma rows_monotone g (l : list (vec * vec)) : forall a anew,
  opt_all (map (fun p => wls_solve (length g) (hmf_row_data g (snd p) (fst p))) l) = Some anew ->
  Forall (fun p => Forall (fun v => 0 <= v) (snd p)) l -> rows_len (length g) a -> length a = length l ->
  vsum (map2 (rowchi2 g) l anew) <= vsum (map2 (rowchi2 g) l a).
Proof.
  induction l as [|[si wi] l IH]; intros a anew H Hw Ha La; simpl in *.
  - lra.
  - destruct (wls_solve _ _) as [ainew|] eqn:E; [|discriminate].
    destruct (opt_all _) as [r|] eqn:E2; [|discriminate]. inversion H; subst; clear H.
    destruct a as [|ai a]; [discriminate|]. simpl.
    inversion Hw; inversion Ha; subst. unfold vsum in *. simpl.
    assert (IHa := IH a r eq_refl H2 H6 ltac:(simpl in La; lia)).
    assert (rowchi2 g (si, wi) ainew <= rowchi2 g (si, wi) ai).
    { unfold rowchi2. simpl. destruct (wls_solve_optimal _ _ _ (hmf_row_data_wf g wi si H1) E) as [_ O]. apply O. exact H5. }
    lra.
Qed.

Lemma Forall_combine_snd {A B : Type} (P : B -> Prop) : forall (u : list A) (v : list B),
  Forall P v -> Forall (fun p => P (snd p)) (combine u v).
Proof.
  induction u as [|a u IH]; intros [|b v] H; simpl; try constructor.
  - simpl. inversion H; assumption.
  - apply IH. inversion H; assumption.
Qed.

(* badness_nonincreasing (a-step): replacing a by astep_ref() never increases chi-square + penalty *)
Theorem badness_nonincreasing_astep s w a g eps anew :
  astep_ref s w g = Some anew ->
  length a = length s -> length w = length s -> rows_len (length g) a -> Forall (Forall (fun v => 0 <= v)) w ->
  badness s w anew g eps <= badness s w a g eps.
Proof.
  intros H La Lw Ha Hw. unfold badness. rewrite !chi2_mat_rows.
  unfold astep_ref in H. rewrite map2_combine in H.
  assert (vsum (map2 (rowchi2 g) (combine s w) anew) <= vsum (map2 (rowchi2 g) (combine s w) a)).
  { apply rows_monotone; auto.
    - apply Forall_combine_snd. exact Hw.
    - rewrite combine_length. lia. }
  lra.
Qed.

(* ------------------------------------------------------------------ non-negative updates *)
Definition vnn (v : vec) : Prop := Forall (fun x => 0 <= x) v.
Definition mnn (A : mat) : Prop := Forall vnn A.

Lemma dot_nn u : forall v, vnn u -> vnn v -> 0 <= dot u v.
Proof.
  induction u as [|a u IH]; intros [|b v] Hu Hv; simpl; try lra.
  inversion Hu; inversion Hv; subst. specialize (IH v H2 H6).
  assert (0 <= a * b) by (apply Qmult_le_0_compat; assumption). lra.
Qed.
Lemma map2_mult_nn u : forall v, vnn u -> vnn v -> vnn (map2 Qmult u v).
Proof.
  induction u as [|a u IH]; intros [|b v] Hu Hv; simpl; try constructor.
  - inversion Hu; inversion Hv; subst. apply Qmult_le_0_compat; assumption.
  - inversion Hu; inversion Hv; subst. apply IH; assumption.
Qed.
Lemma nth_nn j r : vnn r -> 0 <= nth j r 0.
Proof.
  intros H. destruct (nth_in_or_default j r 0) as [Hin|Hd]; [|rewrite Hd; lra].
  unfold vnn in H. rewrite Forall_forall in H. apply H. exact Hin.
Qed.
Lemma col_nn j A : mnn A -> vnn (col j A).
Proof.
  intros H. unfold col, vnn. apply Forall_forall. intros v Hv. apply in_map_iff in Hv.
  destruct Hv as [r [E Hr]]. subst. apply nth_nn. unfold mnn in H. rewrite Forall_forall in H. apply H. exact Hr.
Qed.
Lemma transpose_nn A : mnn A -> mnn (transpose A).
Proof.
  intros H. unfold transpose, mnn. apply Forall_forall. intros r Hr. apply in_map_iff in Hr.
  destruct Hr as [j [E _]]. subst. apply col_nn. exact H.
Qed.
Lemma mat_mul_nn A B : mnn A -> mnn B -> mnn (mat_mul A B).
Proof.
  intros HA HB. unfold mat_mul, mnn. apply Forall_forall. intros r Hr. apply in_map_iff in Hr.
  destruct Hr as [a [E Ha]]. subst. apply Forall_forall. intros v Hv. apply in_map_iff in Hv.
  destruct Hv as [c [E Hc]]. subst. apply dot_nn.
  - unfold mnn in HA. rewrite Forall_forall in HA. apply HA. exact Ha.
  - pose proof (transpose_nn B HB) as HT. unfold mnn in HT. rewrite Forall_forall in HT. apply HT. exact Hc.
Qed.
Lemma hadamard_nn A : forall B, mnn A -> mnn B -> mnn (hadamard A B).
Proof.
  unfold hadamard. induction A as [|a A IH]; intros [|b B] HA HB; simpl; try constructor.
  - inversion HA; inversion HB; subst. apply map2_mult_nn; assumption.
  - inversion HA; inversion HB; subst. apply IH; assumption.
Qed.
Lemma Qdiv_nn a b : 0 <= a -> 0 <= b -> 0 <= a / b.
Proof.
  intros Ha Hb. unfold Qdiv. apply Qmult_le_0_compat; [exact Ha|]. apply Qinv_le_0_compat. exact Hb.
Qed.
Lemma vsum_nn v : vnn v -> 0 <= vsum v.
Proof. unfold vsum. induction 1; simpl; lra. Qed.

Lemma Forall_map2 {A B C : Type} (P : A -> Prop) (Q : B -> Prop) (R : C -> Prop) (f : A -> B -> C) :
  (forall a b, P a -> Q b -> R (f a b)) -> forall u v, Forall P u -> Forall Q v -> Forall R (map2 f u v).
Proof.
  intros Hf. induction u as [|a u IH]; intros [|b v] Hu Hv; simpl; try constructor.
  - inversion Hu; inversion Hv; subst. apply Hf; assumption.
  - inversion Hu; inversion Hv; subst. apply IH; assumption.
Qed.

Lemma Forall_combine3 (P : vec -> Prop) : forall s w ag : mat, Forall P s -> Forall P w -> Forall P ag ->
  Forall (fun t : vec * vec * vec => P (fst (fst t)) /\ P (snd (fst t)) /\ P (snd t)) (combine (combine s w) ag).
Proof.
  induction s as [|a s IH]; intros [|b w] [|c ag] Hs Hw Hag; simpl; try constructor.
  - simpl. inversion Hs; inversion Hw; inversion Hag; auto.
  - inversion Hs; inversion Hw; inversion Hag; subst. apply IH; assumption.
Qed.

(* nn_updates_nonneg: with non-negative data, weights and factors both multiplicative updates (numerator, denominator,
   ratio, smoothing terms as the source writes them) are non-negative
   (in Q a zero denominator gives 0; the harness keeps denominators positive) *)
Theorem astepnn_nonneg s w a g : mnn s -> mnn w -> mnn a -> mnn g -> mnn (astepnn s w a g).
Proof.
  intros Hs Hw Ha Hg. unfold astepnn.
  pose proof (mat_mul_nn a g Ha Hg) as Hag.
  apply (Forall_map2 (fun t : vec * vec * vec => vnn (fst (fst t)) /\ vnn (snd (fst t)) /\ vnn (snd t)) vnn vnn);
    [| apply Forall_combine3; assumption | exact Ha].
  intros [[si wi] agi] ai [H1 [H2 H3]] Hai. simpl in *.
  apply (Forall_map2 vnn (fun x => 0 <= x) (fun x => 0 <= x)); [| exact Hg | exact Hai].
  intros gk aik Hgk Haik. unfold g_nn_upd. apply Qmult_le_0_compat; [exact Haik|].
  apply Qdiv_nn; apply dot_nn; try assumption.
  - apply (map2_mult_nn si wi); assumption.
  - apply (map2_mult_nn agi wi); assumption.
Qed.

Lemma eps_active_gen_pos eps e : eps_active_gen eps = Some e -> 0 < e.
Proof.
  unfold eps_active_gen. destruct eps as [e0|]; [|discriminate]. unfold g_eps_pos, gQlt_bool.
  destruct (Qle_bool e0 (0 # 1)) eqn:E; simpl; [discriminate|]. intros H; inversion H; subst.
  destruct (Qlt_le_dec 0 e); [assumption|]. apply Qle_bool_iff in q. congruence.
Qed.

Lemma gat_nn g k n : mnn g -> 0 <= gat g k n.
Proof.
  intros H. unfold gat. apply nth_nn.
  destruct (nth_in_or_default k g []) as [Hin|Hd]; [|rewrite Hd; constructor].
  unfold mnn in H. rewrite Forall_forall in H. apply H. exact Hin.
Qed.

Lemma gen_e_nn e g M j k : 0 <= e -> mnn g -> 0 <= gen_e e g M j k.
Proof.
  intros He Hg. unfold gen_e, g_e_first, g_e_last, g_e_mid.
  destruct (Nat.eqb j 0); [apply Qmult_le_0_compat; [exact He | apply gat_nn; exact Hg]|].
  destruct (Nat.eqb j (M - 1)); [apply Qmult_le_0_compat; [exact He | apply gat_nn; exact Hg]|].
  apply Qmult_le_0_compat; [exact He|].
  pose proof (gat_nn g k (g_e_mid_src_a j) Hg). pose proof (gat_nn g k (g_e_mid_src_b j) Hg). lra.
Qed.

Lemma gen_dmult_nn M j : 0 <= gen_dmult M j.
Proof. unfold gen_dmult, g_d_factor. destruct (g_d_interior j M); unfold Qle; simpl; lia. Qed.

Theorem gstepnn_nonneg s w a g eps : mnn s -> mnn w -> mnn a -> mnn g -> mnn (gstepnn s w a g eps).
Proof.
  intros Hs Hw Ha Hg. unfold gstepnn.
  pose proof (hadamard_nn s w Hs Hw) as Hsw.
  pose proof (hadamard_nn _ w (mat_mul_nn a g Ha Hg) Hw) as Hagw.
  change (map2 (map2 g_nn_num) s w) with (hadamard s w).
  change (map2 (map2 g_nn_den) (mat_mul a g) w) with (hadamard (mat_mul a g) w).
  apply (Forall_map2 vnn (fun kg : nat * vec => vnn (snd kg)) vnn);
    [| apply transpose_nn; exact Ha | apply Forall_combine_snd; exact Hg].
  intros atk [k gk] Hat Hgk. simpl in Hgk. apply Forall_forall. intros v Hv. apply in_map_iff in Hv. destruct Hv as [j [E _]]. subst.
  unfold g_nn_upd. apply Qmult_le_0_compat; [apply nth_nn; exact Hgk|].
  apply Qdiv_nn.
  - assert (0 <= dot atk (col j (hadamard s w))) by (apply dot_nn; [exact Hat | apply col_nn; exact Hsw]).
    destruct (eps_active_gen eps) as [e|] eqn:Ee; [|lra].
    pose proof (gen_e_nn e g (ncols g) j k (Qlt_le_weak _ _ (eps_active_gen_pos eps e Ee)) Hg). lra.
  - assert (0 <= dot atk (col j (hadamard (mat_mul a g) w))) by (apply dot_nn; [exact Hat | apply col_nn; exact Hagw]).
    destruct (eps_active_gen eps) as [e|] eqn:Ee; [|lra].
    assert (0 <= g_nn_d e (nth j gk 0) * gen_dmult (ncols g) j).
    { apply Qmult_le_0_compat; [|apply gen_dmult_nn]. unfold g_nn_d.
      apply Qmult_le_0_compat; [apply Qlt_le_weak, (eps_active_gen_pos eps e Ee) | apply nth_nn; exact Hgk]. }
    lra.
Qed.

(* ------------------------------------------------------------------ normalisation *)
Lemma dot_normalise ai : forall n gc, Forall (fun v => ~ v == 0) n ->
  length n = length ai -> length gc = length ai ->
  dot (map2 Qmult ai n) (map2 Qdiv gc n) == dot ai gc.
Proof.
  induction ai as [|a ai IH]; intros [|nk n] [|c gc] Hn L1 L2; simpl in *; try discriminate; try reflexivity.
  inversion Hn; subst. rewrite IH by (try assumption; lia). field. assumption.
Qed.

Lemma nth_map_div j nk gk : nth j (map (fun v => v / nk) gk) 0 == nth j gk 0 / nk.
Proof.
  revert j; induction gk as [|x gk IH]; intros j.
  - assert (Z : 0 == 0 / nk) by (unfold Qdiv; rewrite Qmult_0_l; reflexivity). destruct j; simpl; exact Z.
  - destruct j as [|j]; simpl; [reflexivity | apply IH].
Qed.

Lemma col_normalise j g : forall n, veq (col j (map2 (fun gk nk => map (fun v => v / nk) gk) g n)) (map2 Qdiv (col j g) n).
Proof.
  unfold col. induction g as [|gk g IH]; intros [|nk n]; simpl; try constructor.
  - apply nth_map_div.
  - apply IH.
Qed.

(* normalise_preserves_model: (a diag(n)) (diag(1/n) g) = a g entry by entry, for non-zero n of the right length
   (stated for every column index j: row i of a times column j of g) *)
Theorem normalise_preserves_model n a g ai j :
  Forall (fun v => ~ v == 0) n -> length n = length g -> length ai = length g -> In ai a ->
  let '(a2, g2) := normalise n a g in
  dot (map2 Qmult ai n) (col j g2) == dot ai (col j g).
Proof.
  intros Hn Ln La _. unfold normalise.
  rewrite (dot_veq _ _ _ _ (veq_refl (map2 Qmult ai n)) (col_normalise j g n)).
  apply dot_normalise; [exact Hn | lia | rewrite col_length; lia].
Qed.

(* normalise_unit_rms in squared form: if n_k^2 = mean_j g_kj^2 (not zero) then mean_j (g_kj / n_k)^2 = 1 *)
Lemma vsum_sqr_div nk gk : ~ nk == 0 -> vsum (map sqr (map (fun v => v / nk) gk)) == vsum (map sqr gk) / (nk * nk).
Proof.
  intros H. unfold vsum. induction gk as [|x gk IH]; simpl.
  - field. exact H.
  - rewrite IH. unfold sqr. field. exact H.
Qed.

Theorem normalise_unit_rms gk nk :
  ~ nk == 0 -> nk * nk == vsum (map sqr gk) / inject_Z (Z.of_nat (length gk)) -> (0 < length gk)%nat ->
  vsum (map sqr (map (fun v => v / nk) gk)) / inject_Z (Z.of_nat (length (map (fun v => v / nk) gk))) == 1.
Proof.
  intros Hn E Hl. rewrite map_length, vsum_sqr_div by exact Hn.
  assert (HM : ~ inject_Z (Z.of_nat (length gk)) == 0) by (unfold Qeq, inject_Z; simpl; lia).
  assert (Hnn : ~ nk * nk == 0).
  { intro Z. apply Hn. destruct (Qeq_dec nk 0) as [Y|Y]; [exact Y|]. exfalso.
    assert (0 < nk * nk). { destruct (Qlt_le_dec 0 nk); [nra|]. assert (nk < 0) by (apply Qle_lteq in q; destruct q as [q|q]; [exact q | exfalso; apply Y; exact q]). nra. }
    lra. }
  assert (E2 : vsum (map sqr gk) == nk * nk * inject_Z (Z.of_nat (length gk))).
  { rewrite E. field. exact HM. }
  rewrite E2. field. split; [exact Hn | exact HM].
Qed.
