(* C13: converting positions to a trace set and evaluating it at the same positions returns the fitted values;
   the default grid is xmin, xmin+1, ... with floor(xmax-xmin+1) columns. *)
From Coq Require Import QArith Qabs Qround Qminmax Lqa List Bool Lia ZArith.
From PV Require Import Lib.WLS C13.LinAlg C13.LinAlgProofs Generated.Trace C13.Model C13.FitProofs C13.FitProofs2 C13.FitGenProofs.
Import ListNotations.
Open Scope Q_scope.

Lemma dot_zeros_r r k : dot r (zeros k) == 0.
Proof. rewrite dot_comm. apply dot_zeros_l. Qed.

Lemma dot_app u v u' v' : length u = length v -> dot (u ++ u') (v ++ v') == dot u v + dot u' v'.
Proof.
  revert v; induction u as [|a u IH]; intros [|b v] H; simpl in *; try discriminate; [ring|].
  rewrite IH by lia. ring.
Qed.

Lemma map_all_zero {A : Type} (g : A -> Q) xs : (forall x, g x == 0) -> veq (map g xs) (zeros (length xs)).
Proof. intros H. induction xs; simpl; constructor; auto. Qed.
Lemma map_all_const {A : Type} (g : A -> Q) c xs : (forall x, g x == c) -> veq (map g xs) (repeat c (length xs)).
Proof. intros H. induction xs; simpl; constructor; auto. Qed.
Lemma map_veq {A : Type} (g h : A -> Q) xs : (forall x, g x == h x) -> veq (map g xs) (map h xs).
Proof. intros H. induction xs; simpl; constructor; auto. Qed.

Lemma basis_0 f x : f <> ChebSplit -> basis f 0 x = 1.
Proof. destruct f; intros H; try reflexivity. contradiction H; reflexivity. Qed.

Lemma basis_row_split f a b x : basis_row f (a + b) x = basis_row f a x ++ map (fun k => basis f k x) (seq a b).
Proof. unfold basis_row. rewrite seq_app, map_app. reflexivity. Qed.

Lemma all_true_length n : length (all_true n) = n.
Proof. apply repeat_length. Qed.

(* evaluating the full coefficient vector with the ncoeff-term basis reproduces the fitted values *)
Lemma func_fit_eval f xv y w ncoeff res yfit :
  func_fit_ref f xv y w ncoeff (all_true ncoeff) [] None = Some (res, yfit) ->
  f <> ChebSplit -> (1 <= ncoeff)%nat ->
  veq (map (fun x => dot (basis_row f ncoeff x) res) xv) yfit.
Proof.
  intros H Hf Hn.
  destruct (le_lt_dec 2 (ngood_of y w)) as [Hg|Hg].
  - (* main branch *)
    destruct (func_fit_main _ _ _ _ _ _ _ _ _ _ H Hg) as [resf [Hc Hres]]. subst res.
    set (ncfit := Nat.min (ngood_of y w) ncoeff) in *.
    unfold scale_rows in Hc. unfold fit_core in Hc.
    destruct (wls_solve _ _) as [sol|]; [|discriminate]. inversion Hc as [[E1 E2]]; clear Hc.
    rewrite map_map.
    assert (Lr : length (scatter 0 (firstn ncfit (all_true ncoeff)) sol []) = ncfit).
    { rewrite scatter_length. apply firstn_length_le. rewrite all_true_length. unfold ncfit. lia. }
    apply map_veq. intros x.
    replace ncoeff with (ncfit + (ncoeff - ncfit))%nat at 1 by (unfold ncfit; lia).
    rewrite basis_row_split. rewrite dot_app.
    + rewrite dot_zeros_r. ring.
    + rewrite basis_row_length. symmetry. exact Lr.
  - (* no or one good point *)
    unfold func_fit_ref in H. unfold ngood_of in Hg.
    destruct (length (filter (fun p => Qlt_bool 0 (snd p)) (combine y w))) as [|[|k]] eqn:E; try lia.
    + inversion H; subst. apply map_all_zero. intros x. apply dot_zeros_r.
    + inversion H; subst. apply map_all_const. intros x.
      destruct ncoeff as [|k]; [lia|]. simpl. rewrite Nat.sub_0_r.
      change (basis_row f (S k) x) with (basis f 0 x :: map (fun j => basis f j x) (seq 1 k)).
      simpl. rewrite basis_0 by exact Hf. rewrite dot_zeros_r. ring.
Qed.

(* ------------------------------------------------------------------ the trace set *)
Lemma opt_all_map_eval {T : Type} (F : T -> option (vec * vec)) (X : T -> vec) (G : vec -> vec -> vec) :
  forall (ts : list T) l,
  opt_all (map F ts) = Some l ->
  (forall t res yf, In t ts -> F t = Some (res, yf) -> veq (G (X t) res) yf) ->
  meq (map2 G (map X ts) (map fst l)) (map snd l).
Proof.
  induction ts as [|t ts IH]; intros l H HG; simpl in *.
  - inversion H; subst. constructor.
  - destruct (F t) as [[res yf]|] eqn:E; [|discriminate].
    destruct (opt_all (map F ts)) as [l'|] eqn:E'; [|discriminate].
    inversion H; subst; clear H. simpl. constructor.
    + apply (HG t); auto.
    + apply IH; auto.
Qed.

Lemma combine4_fst (xs ys ws : mat) (ms : list (list bool)) :
  length ys = length xs -> length ws = length xs -> length ms = length xs ->
  map (fun t : vec * vec * vec * list bool => fst (fst (fst t))) (combine (combine (combine xs ys) ws) ms) = xs.
Proof.
  revert ys ws ms; induction xs as [|x xs IH]; intros [|y ys] [|w ws] [|m ms] H1 H2 H3; simpl in *; try discriminate; try reflexivity.
  f_equal. apply IH; lia.
Qed.

(* the jump handed to xnorm while fitting is the jump handed to xnorm while evaluating (ignore_jump = False):
   breaks if __init__ or xy pass a different jump argument, or if do_jump / has_jump change *)
Lemma jump_args_consistent j : xy_jump j false = fit_jump j.
Proof. destruct j; reflexivity. Qed.

(* xnorm assembled from the source's expressions = the reference form used by the checkers *)
Lemma xnorm_is_spec xmin xmax j x : xnorm xmin xmax j x = xnorm_spec xmin xmax j x.
Proof. destruct j as [[[lo hi] val]|]; reflexivity. Qed.
Lemma ts_nx_is_spec t : ts_nx t = ts_nx_spec t.
Proof. reflexivity. Qed.

(* traceset_fit_eval_consistent: xy (fit xpos ypos) xpos = (xpos, yfit), for every trace, with and without jump
   (the jump j is whatever the trace set was built with) *)
Theorem traceset_fit_eval_consistent f ncoeff oxmin oxmax j xpos ypos ivar inmask t yfit :
  ts_fit f ncoeff oxmin oxmax j xpos ypos ivar inmask = Some (t, yfit) ->
  f <> ChebSplit -> (1 <= ncoeff)%nat ->
  length ypos = length xpos -> length ivar = length xpos -> length inmask = length xpos ->
  exists ys, ts_xy t (Some xpos) false = Some (xpos, ys) /\ meq ys yfit.
Proof.
  intros H Hf Hn L1 L2 L3. unfold ts_fit in H.
  set (xmin := match oxmin with Some v => v | None => mat_min xpos end) in *.
  set (xmax := match oxmax with Some v => v | None => mat_max xpos end) in *.
  match type of H with match opt_all (map ?F0 ?T0) with _ => _ end = _ => set (F := F0) in *; set (T := T0) in * end.
  destruct (opt_all (map F T)) as [l|] eqn:E; [|discriminate].
  inversion H; subst t yfit; clear H.
  unfold ts_xy. simpl ts_func. assert (Hs : xy_supported f = true) by (destruct f; try reflexivity; contradiction Hf; reflexivity).
  rewrite Hs. eexists. split; [reflexivity|]. simpl ts_coeff.
  rewrite <- (combine4_fst xpos ypos ivar inmask L1 L2 L3) at 1. fold T.
  apply (opt_all_map_eval F) with (l := l); [exact E|].
  intros [[[xr yr] wr] mr] res yf _ HF. simpl. unfold ts_eval_row. simpl.
  unfold F in HF. rewrite func_fit_eq_ref in HF. rewrite jump_args_consistent.
  pose proof (func_fit_eval _ _ _ _ _ _ _ HF Hf Hn) as HE. rewrite map_map in HE. exact HE.
Qed.

(* ------------------------------------------------------------------ default grid *)
Theorem default_grid_spec t ig : xy_supported (ts_func t) = true ->
  exists ys, ts_xy t None ig = Some (default_grid t, ys) /\
    length (default_grid t) = length (ts_coeff t) /\
    forall i row, nth_error (default_grid t) i = Some row ->
      length row = Z.to_nat (Qfloor (ts_xmax t - ts_xmin t + 1)) /\
      forall k v, nth_error row k = Some v -> v = inject_Z (Z.of_nat k) + ts_xmin t.
Proof.
  intros Hs. unfold ts_xy. rewrite Hs. eexists. split; [reflexivity|]. split.
  - unfold default_grid. apply map_length.
  - intros i row Hrow. unfold default_grid in Hrow.
    apply nth_error_In in Hrow. apply in_map_iff in Hrow. destruct Hrow as [c [E _]]. subst row. split.
    + rewrite map_length, seq_length. reflexivity.
    + intros k v Hv. rewrite nth_error_map in Hv.
      destruct (nth_error (seq 0 (ts_nx t)) k) as [k'|] eqn:Ek; [|discriminate].
      simpl in Hv. inversion Hv; subst.
      assert (k' = k).
      { pose proof Ek as Ek2. apply nth_error_nth with (d := O) in Ek2.
        assert (k < length (seq 0 (ts_nx t)))%nat by (apply nth_error_Some; congruence).
        rewrite seq_length in H. rewrite seq_nth in Ek2 by exact H. simpl in Ek2. congruence. }
      subst. reflexivity.
Qed.

(* the jump fraction (expression from the source) is clamped to [0, 1] *)
Lemma jfrac_range x lo hi : 0 <= g_jfrac x lo hi <= 1.
Proof.
  unfold g_jfrac. split.
  - apply Q.min_glb; [apply Q.le_max_r | unfold Qle; simpl; lia].
  - apply Q.le_min_r.
Qed.
