(* C11 -- property theorems only (temporary skeleton) *)
From Coq Require Import QArith List Bool Arith.
Import ListNotations.
From PV Require Import Lib.WLS BSpline.Eval C11.Model C11.Proofs.
Open Scope Q_scope.

Theorem C11_grow_length : forall v, length (grow v) = length v.
Proof. exact grow_length. Qed.
Print Assumptions C11_grow_length.
