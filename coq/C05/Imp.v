(* A tiny shallow embedding of the Python statements that translate/c05.py (and translate/c04.py) extract:
   a store of integer scalars and integer arrays (indexed by Z, total), statements as store transformers,
   `while` with fuel, `for x in range(a, b, step)` with `break` (a reserved flag), `continue` by nesting.
   Definitions and the few lemmas the bridge proofs need. *)
From Coq Require Import ZArith String List Bool Lia.
Import ListNotations.
Open Scope string_scope.
Open Scope Z_scope.

Definition store := ((string -> Z) * (string -> Z -> Z))%type.
Definition sv (s : store) (x : string) : Z := fst s x.
Definition rd (s : store) (a : string) (i : Z) : Z := snd s a i.
Definition setv (s : store) (x : string) (v : Z) : store :=
  (fun y => if String.eqb y x then v else fst s y, snd s).
Definition seta (s : store) (a : string) (i v : Z) : store :=
  (fst s, fun b j => if String.eqb b a && Z.eqb j i then v else snd s b j).

Definition stmt := store -> store.
Definition skip : stmt := fun s => s.
Definition sq (a b : stmt) : stmt := fun s => b (a s).
Definition assign (x : string) (e : store -> Z) : stmt := fun s => setv s x (e s).
Definition aassign (a : string) (i e : store -> Z) : stmt := fun s => seta s a (i s) (e s).
Definition ifte (c : store -> bool) (a b : stmt) : stmt := fun s => if c s then a s else b s.
Fixpoint while (fuel : nat) (c : store -> bool) (body : stmt) : stmt :=
  fun s => match fuel with O => s | S f => if c s then while f c body (body s) else s end.

(* range(a, b, step) as a list (step <> 0; at most `fuel` elements) *)
Fixpoint range_list (fuel : nat) (a b step : Z) : list Z :=
  match fuel with
  | O => []
  | S f => if (if 0 <? step then a <? b else b <? a) then a :: range_list f (a + step) b step else []
  end.
Definition range_fuel (a b step : Z) : nat := Z.to_nat (Z.abs (b - a) + 1).

(* for x in range(a, b, step): body      (`break` sets the reserved scalar "__break") *)
Definition for_range (x : string) (a b step : store -> Z) (body : stmt) : stmt :=
  fun s => fold_left (fun st v => if Z.eqb (sv st "__break") 1 then st else body (setv st x v))
                     (range_list (range_fuel (a s) (b s) (step s)) (a s) (b s) (step s)) (setv s "__break" 0).
Definition do_break : stmt := fun s => setv s "__break" 1.

Lemma sv_setv_same : forall s x v, sv (setv s x v) x = v.
Proof. intros. unfold sv, setv. simpl. rewrite String.eqb_refl. reflexivity. Qed.
Lemma sv_setv_other : forall s x y v, y <> x -> sv (setv s x v) y = sv s y.
Proof. intros. unfold sv, setv. simpl. apply String.eqb_neq in H. rewrite H. reflexivity. Qed.
Lemma rd_setv : forall s x v a i, rd (setv s x v) a i = rd s a i.
Proof. reflexivity. Qed.
Lemma sv_seta : forall s a i v x, sv (seta s a i v) x = sv s x.
Proof. reflexivity. Qed.
Lemma rd_seta_same : forall s a i v, rd (seta s a i v) a i = v.
Proof. intros. unfold rd, seta. simpl. rewrite String.eqb_refl, Z.eqb_refl. reflexivity. Qed.


(* unconditional read-after-write lemmas (string comparisons between literals are then computed) *)
Lemma sv_setv : forall s x v y, sv (setv s x v) y = if String.eqb y x then v else sv s y.
Proof. reflexivity. Qed.
Lemma rd_seta : forall s a i v b j, rd (seta s a i v) b j = if String.eqb b a && Z.eqb j i then v else rd s b j.
Proof. reflexivity. Qed.

Ltac no_var t := match t with context [?x] => is_var x; fail 1 | _ => idtac end.
Ltac streq := repeat (match goal with |- context [String.eqb ?a ?b] =>
                        no_var a; no_var b;
                        let v := eval vm_compute in (String.eqb a b) in change (String.eqb a b) with v end); cbn [andb].
Ltac imp := unfold sq, assign, aassign, ifte, skip; repeat (rewrite ?sv_setv, ?rd_setv, ?sv_seta, ?rd_seta; streq).
