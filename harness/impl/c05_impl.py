"""Runs pydl.pydlutils.spheregroup.spheregroup of the repository under test on a list of calls (JSON on
stdin -> JSON on stdout).  Two adjacency matrices are reported: `adj`, computed with the implementation's own gcirc
exactly as class groups does it (radians, units=0, `sep <= deg2rad(linklength)`) -- it only breaks ties inside the
rounding band of C05/Sky.v -- and `adj_indep`, from a formula of this file that does not touch pydl (screening,
messages, near-threshold rule; the certified decision is taken in Coq from the coordinates).  By wrapping `chunks` from this
process (no change to pydl) it records: the chunk geometry, the cell lists in the order friendsoffriends
visits them, each per-cell groups() result, and the value chunk.friendsoffriends returned."""
import json
import sys
import warnings

import numpy as np

import pydl
import pydl.pydlutils.spheregroup as SG

_orig_chunks = SG.chunks
REC = {}


class RecChunks(_orig_chunks):
    def __init__(self, ra, dec, minSize):
        REC.clear()
        REC.update({'cells': [], 'minSize': float(minSize)})
        super().__init__(ra, dec, minSize)
        REC['nRa'] = [int(x) for x in self.nRa]
        REC['nDec'] = int(self.nDec)
        REC['decBounds'] = [float(x) for x in self.decBounds]
        REC['raBounds'] = [[float(x) for x in rb] for rb in self.raBounds]
        REC['raOffset'] = float(self.raOffset)

    def chunkfriendsoffriends(self, ra, dec, chunkList, linkSep):
        g = super().chunkfriendsoffriends(ra, dec, chunkList, linkSep)
        REC['cells'].append({'list': [int(x) for x in chunkList], 'nGroups': int(g.nGroups),
                             'inGroup': [int(x) for x in g.inGroup], 'multGroup': [int(x) for x in g.multGroup],
                             'firstGroup': [int(x) for x in g.firstGroup], 'nextGroup': [int(x) for x in g.nextGroup]})
        return g

    def friendsoffriends(self, ra, dec, linkSep):
        r = super().friendsoffriends(ra, dec, linkSep)
        REC['fof'] = {'inGroup': [int(x) for x in r[0]], 'multGroup': [int(x) for x in r[1]],
                      'firstGroup': [int(x) for x in r[2]], 'nextGroup': [int(x) for x in r[3]], 'nGroups': int(r[4])}
        return r


def adjacency(ra, dec, linklength):
    x = np.deg2rad(np.vstack((ra, dec)))
    rad = np.deg2rad(linklength)
    n = ra.size
    rows = []
    near = None
    for i in range(n):
        bits = 0
        for j in range(n):
            sep = SG.gcirc(x[0, i], x[1, i], x[0, j], x[1, j], units=0)
            if sep <= rad:
                bits |= (1 << j)
            if sep != rad:
                rel = abs(float(sep) - float(rad)) / float(rad)
                if near is None or rel < near:
                    near = rel
        rows.append(bits)
    return rows, near


def laid(values, dtype, layout):
    """a 1-D coordinate array holding `values` with the requested memory layout / byte order (round 6, class B)"""
    dt = np.dtype(dtype)
    n = len(values)
    if layout in (None, 'contig'):
        return np.array(values, dtype=dt)
    if layout == 'strided':                      # every other element of a buffer whose other elements are junk
        buf = np.full(2 * n + 1, 77, dtype=dt)
        buf[1::2] = values
        return buf[1::2]
    if layout == 'reversed':                     # negative stride
        return np.array(list(values)[::-1], dtype=dt)[::-1]
    if layout == 'col2d':                        # a column of a C-ordered 2-D table (catalogue[:, k])
        m = np.full((n, 3), 55, dtype=dt)
        m[:, 1] = values
        return m[:, 1]
    if layout == 'fortran-row':                  # a row of a Fortran-ordered table
        m = np.asfortranarray(np.full((2, n), 33, dtype=dt))
        m[1, :] = values
        return m[1, :]
    if layout == 'bigendian':
        return np.array(values, dtype=dt.newbyteorder('>'))
    if layout == 'readonly':
        a = np.array(values, dtype=dt)
        a.flags.writeable = False
        return a
    raise ValueError('unknown layout %r' % (layout,))


def scalar(v, kind):
    """linklength / chunksize in the Python / NumPy type the case asks for (class E)"""
    if kind in (None, 'float', 'explicit-None'):     # (explicit-None: limit_cost replaced the None by a number)
        return float(v)
    if kind == 'int':
        return int(v)
    if kind == '0-d-float':
        return np.array(float(v))
    return getattr(np, kind)(v)                  # float64, float32, int64, int32 ...


def typed(c):
    """coordinate arrays with the dtypes and memory layouts the case asks for (default float64, contiguous); whole-degree
    values for integer dtypes"""
    dt = c.get('dtype') or {}
    lay = c.get('layout') or {}
    return laid(c['ra'], dt.get('ra', 'd'), lay.get('ra')), laid(c['dec'], dt.get('dec', 'd'), lay.get('dec'))


def call_args(c):
    at = c.get('argtypes') or {}
    kw = {}
    if c.get('chunksize') is not None:
        kw['chunksize'] = scalar(c['chunksize'], at.get('chunksize'))
    elif at.get('chunksize') == 'explicit-None':
        kw['chunksize'] = None
    return scalar(c['linklength'], at.get('linklength')), kw


def one(c):
    ra, dec = typed(c)
    try:
        rows, near_impl = adjacency(ra, dec, float(c['linklength']))
    except Exception:  # noqa: BLE001 -- the separation routine itself raised; spheregroup below will show it
        rows, near_impl = [1 << i for i in range(ra.size)], None
    irows, near = indep_adjacency(ra, dec, float(c['linklength']), rows)
    out = {'adj': [str(r) for r in rows], 'adj_indep': [str(r) for r in irows], 'nearest_threshold_rel': near,
           'nearest_threshold_rel_impl': near_impl}
    ll, kw = call_args(c)
    REC.clear()
    SG.chunks = RecChunks
    try:
        with warnings.catch_warnings(record=True) as w:
            warnings.simplefilter('always')
            r = SG.spheregroup(ra, dec, ll, **kw)
        out['ok'] = [[int(x) for x in a] for a in r]
        out['warnings'] = [str(x.message)[:80] for x in w]
    except Exception as e:  # noqa: BLE001 -- the error class is the observation
        out['err'] = type(e).__name__
        out['msg'] = str(e)[:160]
    finally:
        SG.chunks = _orig_chunks
    if 'nRa' in REC:
        out['rec'] = dict(REC)
    return out


def py_components(rows, n):
    lab = [-1] * n
    g = 0
    for i in range(n):
        if lab[i] >= 0:
            continue
        stack = [i]
        lab[i] = g
        while stack:
            a = stack.pop()
            for b in range(n):
                if lab[b] < 0 and ((rows[a] >> b) & 1 or (rows[b] >> a) & 1):
                    lab[b] = g
                    stack.append(b)
        g += 1
    return lab


BAND_REL, BAND_ABS = 1e-9, 1e-13      # the band of C05/Sky.v around the linking length (relative, radians)


def indep_sep(ra, dec):
    """all pairwise separations in radians WITHOUT pydl: chord between unit vectors built from the differences
    (float64 numpy, own formula; the certified decision is taken in Coq, this one is for screening, messages and
    the near-threshold rule)"""
    a = np.deg2rad(np.asarray(ra, dtype='d'))
    d = np.deg2rad(np.asarray(dec, dtype='d'))
    sd = np.sin((d[:, None] - d[None, :]) / 2.0)
    sa = np.sin((a[:, None] - a[None, :]) / 2.0)
    h = sd * sd + np.cos(d)[:, None] * np.cos(d)[None, :] * sa * sa
    return 2.0 * np.arcsin(np.sqrt(np.clip(h, 0.0, 1.0)))


def indep_adjacency(ra, dec, linklength, impl_rows=None):
    """rows of the link matrix from indep_sep; inside the band the implementation's bit (if given) is kept.
    Returns (rows, smallest relative distance of an off-diagonal separation from the linking length)"""
    sep = indep_sep(ra, dec)
    rad = float(np.deg2rad(float(linklength)))
    n = sep.shape[0]
    link = sep <= rad
    band = np.abs(sep - rad) <= BAND_REL * rad + BAND_ABS
    rows = []
    for i in range(n):
        bits = 1 << i
        for j in range(n):
            if i == j:
                continue
            b = bool(link[i, j])
            if band[i, j] and impl_rows is not None:
                b = bool(((impl_rows[i] >> j) & 1) or ((impl_rows[j] >> i) & 1))
            if b:
                bits |= 1 << j
        rows.append(bits)
    off = np.abs(sep - rad)[~np.eye(n, dtype=bool)]
    near = float(off.min() / rad) if off.size and rad > 0 else None
    return rows, near


def fast_adjacency(ra, dec, linklength):
    """used only by the uncertified screening pass; independent of pydl's gcirc except inside the band"""
    x = np.deg2rad(np.vstack((ra, dec)))
    rad = np.deg2rad(linklength)
    impl_rows = []
    try:
        for i in range(ra.size):
            s = SG.gcirc(x[0, i], x[1, i], x[0], x[1], units=0)
            bits = 0
            for j in np.nonzero(s <= rad)[0]:
                bits |= 1 << int(j)
            impl_rows.append(bits)
    except Exception:  # noqa: BLE001
        impl_rows = None
    return indep_adjacency(ra, dec, linklength, impl_rows)[0]


def py_lists(lab):
    """(multgroup, firstgroup, nextgroup) of a labelling numbered in order of first appearance; unused entries 0 / -1"""
    n = len(lab)
    mult, first, nxt, last = [0] * n, [-1] * n, [-1] * n, {}
    for i, g in enumerate(lab):
        mult[g] += 1
        if first[g] < 0:
            first[g] = i
        else:
            nxt[last[g]] = i
        last[g] = i
    return mult, first, nxt


def screen(c):
    """uncertified screening of a sky case: does ingroup equal a brute-force labelling?  -> True = suspicious"""
    ra, dec = typed(c)
    ll, kw = call_args(c)
    try:
        with warnings.catch_warnings():
            warnings.simplefilter('ignore')
            r = SG.spheregroup(ra, dec, ll, **kw)
        lab = py_components(fast_adjacency(ra, dec, float(c['linklength'])), ra.size)
        return [[int(x) for x in a] for a in r] != [lab] + list(py_lists(lab))
    except Exception:  # noqa: BLE001
        return True


# ---- synthetic cell lists: the real groups / friendsoffriends / spheregroup tail driven with arbitrary link and cells
SYN = {}


def _syn_sep(x1, x2):
    i = int(round(float(np.rad2deg(x1[0]))))
    j = int(round(float(np.rad2deg(x2[0]))))
    return 0.0 if (SYN['adj'][i] >> j) & 1 else 10.0


class SynChunks(RecChunks):
    def assign(self, ra, dec, marginSize, *args, **kwargs):     # extra arguments of a changed signature are accepted
        cells = SYN['cells']
        self.nDec = 1
        self.nRa = [len(cells)]
        self.chunkList = [[list(c) for c in cells]]


def synthetic(c, record=True):
    """point i sits at RA = i degrees; separation(i, j) is 0 when linked and 10 rad otherwise (stub installed in place of
    groups.sphereradec); chunks.assign is replaced by one that installs the given cell lists.  Everything else is the real code."""
    n = int(c['n'])
    SYN['adj'] = [int(x) for x in c['adj']]
    SYN['cells'] = c['cells']
    out = {'adj': [str(x) for x in SYN['adj']], 'nearest_threshold_rel': None}
    orig_sep = SG.groups.__dict__['sphereradec']
    SG.groups.sphereradec = staticmethod(_syn_sep)
    SG.chunks = SynChunks
    REC.clear()
    try:
        with warnings.catch_warnings():
            warnings.simplefilter('ignore')
            r = SG.spheregroup(np.arange(n, dtype='d'), np.zeros(n), 1.0, chunksize=30.0)
        out['ok'] = [[int(x) for x in a] for a in r]
    except Exception as e:  # noqa: BLE001
        out['err'] = type(e).__name__
        out['msg'] = str(e)[:160]
    finally:
        SG.chunks = _orig_chunks
        SG.groups.sphereradec = orig_sep
    if record and 'cells' in REC:
        out['rec'] = dict(REC)
    return out


def history(calls):
    """several spheregroup calls in THIS process with the unwrapped module; returned arrays are kept and only read after
    the last call; caller-owned inputs are compared with copies taken before each call"""
    held = []
    out = []
    prev = None
    for c in calls:
        ra, dec = typed(c)
        reused = None
        if c.get('reuse') and prev is not None:
            # class A (round 6): the caller refills the coordinate arrays of the PREVIOUS call in place and passes the same
            # objects again
            reused = all(p.shape == a.shape and p.dtype == a.dtype and p.flags.writeable for p, a in zip(prev, (ra, dec)))
            if reused:
                prev[0][...] = ra
                prev[1][...] = dec
                ra, dec = prev
        prev = (ra, dec)
        before = (ra.copy(), dec.copy())
        try:
            rows, near_impl = adjacency(ra, dec, float(c['linklength']))
        except Exception:  # noqa: BLE001
            rows, near_impl = [1 << i for i in range(ra.size)], None
        irows, near = indep_adjacency(ra, dec, float(c['linklength']), rows)
        r = {'adj': [str(x) for x in rows], 'adj_indep': [str(x) for x in irows], 'nearest_threshold_rel': near,
             'nearest_threshold_rel_impl': near_impl, 'reused': reused}
        ll, kw = call_args(c)
        try:
            with warnings.catch_warnings():
                warnings.simplefilter('ignore')
                res = SG.spheregroup(ra, dec, ll, **kw)
            r['immediate'] = [[int(x) for x in a] for a in res]
            held.append(res)
        except Exception as e:  # noqa: BLE001
            r['err'] = type(e).__name__
            r['msg'] = str(e)[:160]
            held.append(None)
        r['inputs_unchanged'] = (ra.tobytes() == before[0].tobytes() and dec.tobytes() == before[1].tobytes())
        out.append(r)
    for r, res in zip(out, held):
        if res is not None:
            r['ok'] = [[int(x) for x in a] for a in res]
    return out


def main():
    calls = json.load(sys.stdin)
    if isinstance(calls, dict) and calls.get('mode') == 'history':
        json.dump({'pydl_file': pydl.__file__, 'histories': [history(h) for h in calls['histories']]}, sys.stdout)
        return
    if isinstance(calls, dict) and calls.get('mode') == 'screen':
        sus = []
        inapplicable = False
        for k, c in enumerate(calls['cases']):
            if 'cells' in c:
                r = synthetic(c, record=False)
                if r.get('err') == 'TypeError':
                    inapplicable = True      # signature of the real code changed: the driver glue does not fit
                    continue
                bad = 'ok' not in r or r['ok'][0] != py_components([int(x) for x in c['adj']], int(c['n']))
            else:
                bad = screen(c)
            if bad:
                sus.append(k)
        json.dump({'pydl_file': pydl.__file__, 'suspicious': sus, 'n': len(calls['cases']), 'synthetic_driver_inapplicable': inapplicable}, sys.stdout)
        return
    if isinstance(calls, dict) and calls.get('mode') == 'synthetic':
        json.dump({'pydl_file': pydl.__file__, 'results': [synthetic(c) for c in calls['cases']]}, sys.stdout)
        return
    json.dump({'pydl_file': pydl.__file__, 'numpy': np.__version__, 'results': [one(c) for c in calls]}, sys.stdout)


if __name__ == '__main__':
    main()
