"""C06 extractor: bit-layout expressions and range checks of the four SDSS ID
functions -> coq/Generated/SdssIds.v.  Fail-closed: any unrecognised shape
makes `recognised` false and a *stub* file is emitted (so the rest of the
development still builds, with the obligations about the generated terms
then failing in Props) -- see DESIGN.md section 1.
"""
import ast
import os

from . import pyexpr as P

OBJID_ARGS = ['skyversion', 'rerun', 'run', 'camcol', 'firstfield', 'field', 'objnum']
SPEC_ARGS = ['plate', 'fiber', 'mjd', 'run2d', 'line', 'index']
UNWRAP_OBJID_FIELDS = ['skyversion', 'rerun', 'run', 'camcol', 'firstfield', 'frame', 'id']


def fold(node):
    """Constant-fold integer sub-expressions so that 2**14 - 1 becomes a literal."""
    class F(ast.NodeTransformer):
        def visit_BinOp(self, n):
            self.generic_visit(n)
            try:
                return ast.copy_location(ast.Constant(P.const_value(n)), n)
            except P.Unrecognised:
                return n
    return F().visit(node)


def strip_tolist(node):
    if isinstance(node, ast.Call) and isinstance(node.func, ast.Attribute) and node.func.attr == 'tolist' and not node.args:
        return node.func.value
    return node


def final_assign(fn, target):
    """Last top-level assignment `target = ...` in function fn."""
    found = None
    for st in fn.body:
        if isinstance(st, ast.Assign) and len(st.targets) == 1 and isinstance(st.targets[0], ast.Name) \
                and st.targets[0].id == target:
            found = st
    if found is None:
        raise P.Unrecognised('no assignment to %s' % target)
    return found


def checks_of(fn, args):
    out = []
    for st in fn.body:
        rc = P.range_check(st)
        if rc is not None:
            name, lo, hi, exc = rc
            if name not in args:
                raise P.Unrecognised('range check on unknown name %s' % name)
            out.append((args.index(name), lo, hi, exc))
    if sorted(set(c[0] for c in out)) != list(range(len(args))):
        # the checks are not written in the idiom this extractor understands (e.g. moved into a helper):
        # say so instead of emitting a model without range checks; the correspondence run then decides alone
        raise P.Unrecognised('range checks found for fields %s only' % sorted(set(args[c[0]] for c in out)))
    return out


def mjd_offsets(fn):
    """(scalar_offset, array_offset): what is subtracted from mjd on each path."""
    for st in fn.body:
        if isinstance(st, ast.If) and isinstance(st.test, ast.Call) and isinstance(st.test.func, ast.Name) \
                and st.test.func.id == 'isinstance' and isinstance(st.test.args[0], ast.Name) \
                and st.test.args[0].id == 'mjd':
            def off(stmts):
                o = 0
                for s in stmts:
                    if isinstance(s, ast.Assign) and isinstance(s.targets[0], ast.Name) and s.targets[0].id == 'mjd':
                        v = s.value
                        if isinstance(v, ast.BinOp) and isinstance(v.op, ast.Sub):
                            o += P.const_value(v.right)
                        elif isinstance(v, ast.BinOp) and isinstance(v.op, ast.Add):
                            o -= P.const_value(v.right)
                    elif isinstance(s, ast.AugAssign) and isinstance(s.target, ast.Name) and s.target.id == 'mjd':
                        if isinstance(s.op, ast.Sub):
                            o += P.const_value(s.value)
                        elif isinstance(s.op, ast.Add):
                            o -= P.const_value(s.value)
                        else:
                            raise P.Unrecognised('mjd aug-assign')
                return o
            return off(st.body), off(st.orelse)
    raise P.Unrecognised('isinstance(mjd, int) branch not found')


def run2d_formula(fn):
    for n in ast.walk(fn):
        if isinstance(n, ast.ExceptHandler):
            for s in ast.walk(n):
                if isinstance(s, ast.Assign) and isinstance(s.targets[0], ast.Name) and s.targets[0].id == 'run2d':
                    v = s.value
                    # np.array([expr], dtype=...)
                    if isinstance(v, ast.Call) and v.args and isinstance(v.args[0], ast.List) and len(v.args[0].elts) == 1:
                        e = fold(v.args[0].elts[0])
                        return P.to_gallina(e, {'N': 'N', 'M': 'M', 'P': 'P'})
    raise P.Unrecognised('run2d vN_M_P formula not found')


def unwrap_fields(fn, idname, attr_targets):
    """attribute assignments  unwrap.<attr> = expr(tempobjid) ; returns {attr: gallina}"""
    res = {}
    locals_ = {}
    for st in fn.body:
        if isinstance(st, ast.Assign) and len(st.targets) == 1:
            t = st.targets[0]
            val = fold(strip_tolist(st.value))
            env = dict(locals_)
            env['tempobjid'] = idname
            if isinstance(t, ast.Attribute) and isinstance(t.value, ast.Name) and t.value.id == 'unwrap':
                try:
                    res[t.attr] = P.to_gallina(val, env)
                except P.Unrecognised:
                    if t.attr in attr_targets:
                        raise
            elif isinstance(t, ast.Subscript) and isinstance(t.value, ast.Name) and t.value.id == 'unwrap':
                res['line'] = P.to_gallina(val, env)
            elif isinstance(t, ast.Name) and t.id in ('run2d',):
                g = P.to_gallina(val, env)
                locals_[t.id] = g
                res['run2d_int'] = g
        elif isinstance(st, ast.If):
            # N/M/P formulas live in the else branch of `if run2d_integer`
            for s in st.orelse:
                if isinstance(s, ast.Assign) and isinstance(s.targets[0], ast.Name) and s.targets[0].id in ('N', 'M', 'P'):
                    res['run2d_' + s.targets[0].id] = P.to_gallina(fold(strip_tolist(s.value)), {'run2d': 'r'})
    return res


ITY = {'int8': 'I8', 'uint8': 'U8', 'int16': 'I16', 'uint16': 'U16', 'int32': 'I32', 'uint32': 'U32',
       'int64': 'I64', 'uint64': 'U64'}


def to_texpr(node, env, subst=None):
    """Typed form (Lib/NumpyInt.texpr) of a packing expression: keeps the astype casts that to_gallina erases.
    env: python name -> index; subst: python name -> texpr text replacing the variable (for composed assignments)."""
    subst = subst or {}
    if isinstance(node, ast.Name):
        if node.id in subst:
            return subst[node.id]
        if node.id in env:
            return '(TVar %d%%nat)' % env[node.id]
        raise P.Unrecognised('free name %s' % node.id)
    if isinstance(node, ast.BinOp):
        if isinstance(node.op, ast.LShift):
            return '(TShl %s %s)' % (to_texpr(node.left, env, subst), P.zlit(P.const_value(node.right)))
        if isinstance(node.op, ast.BitOr):
            return '(TOr %s %s)' % (to_texpr(node.left, env, subst), to_texpr(node.right, env, subst))
        if isinstance(node.op, ast.Sub):
            return '(TSubLit %s %s)' % (to_texpr(node.left, env, subst), P.zlit(P.const_value(node.right)))
        raise P.Unrecognised('typed operator %s' % type(node.op).__name__)
    if isinstance(node, ast.Call):
        f = node.func
        if isinstance(f, ast.Attribute) and f.attr == 'astype' and len(node.args) == 1 and not node.keywords:
            a = node.args[0]
            if isinstance(a, ast.Attribute) and a.attr in ITY:
                return '(TCast %s %s)' % (ITY[a.attr], to_texpr(f.value, env, subst))
            raise P.Unrecognised('astype target')
        if isinstance(f, ast.Attribute) and f.attr == 'bitwise_or' and len(node.args) == 2:
            return '(TOr %s %s)' % (to_texpr(node.args[0], env, subst), to_texpr(node.args[1], env, subst))
        raise P.Unrecognised('typed call %s' % ast.dump(f)[:60])
    raise P.Unrecognised('typed node %s' % type(node).__name__)


def mjd_array_texpr(fn, env):
    """What the array branch of `if isinstance(mjd, int)` does to mjd, as a typed expression of the argument."""
    for st in fn.body:
        if isinstance(st, ast.If) and isinstance(st.test, ast.Call) and isinstance(st.test.func, ast.Name) \
                and st.test.func.id == 'isinstance' and isinstance(st.test.args[0], ast.Name) \
                and st.test.args[0].id == 'mjd':
            cur = '(TVar %d%%nat)' % env['mjd']
            for s in st.orelse:
                if isinstance(s, ast.Assign) and len(s.targets) == 1 and isinstance(s.targets[0], ast.Name) \
                        and s.targets[0].id == 'mjd':
                    cur = to_texpr(fold(s.value), env, {'mjd': cur})
                elif isinstance(s, ast.AugAssign) and isinstance(s.target, ast.Name) and s.target.id == 'mjd' \
                        and isinstance(s.op, ast.Sub):
                    cur = '(TSubLit %s %s)' % (cur, P.zlit(P.const_value(s.value)))
                elif isinstance(s, ast.Pass):
                    pass
                else:
                    raise P.Unrecognised('statement in the array branch of the mjd conversion')
            return cur
    raise P.Unrecognised('isinstance(mjd, int) branch not found')


def defn(name, args, body):
    return 'Definition %s (%s : Z) : Z :=\n  %s.\n' % (name, ' '.join(args), body)


def checks_lit(checks):
    return '[' + '; '.join('(%d%%nat, %s, %s)' % (i, P.zlit(lo), P.zlit(hi)) for i, lo, hi, _ in checks) + ']'


def generate(repo):
    info = {'recognised': True, 'detail': []}
    sdss_src = open(os.path.join(repo, 'pydl/pydlutils/sdss.py')).read()
    photo_src = open(os.path.join(repo, 'pydl/photoop/photoobj.py')).read()
    out = ['(* GENERATED by translate/c06.py from pydl/pydlutils/sdss.py and pydl/photoop/photoobj.py -- do not edit *)',
           'From Coq Require Import ZArith List.', 'From PV Require Import Lib.NumpyInt.', 'Import ListNotations.', 'Open Scope Z_scope.', '']
    try:
        t1 = ast.parse(sdss_src)
        t2 = ast.parse(photo_src)
        f_obj = P.find_function(t1, 'sdss_objid')
        f_spec = P.find_function(t1, 'sdss_specobjid')
        f_uspec = P.find_function(t1, 'unwrap_specobjid')
        f_uobj = P.find_function(t2, 'unwrap_objid')

        a = final_assign(f_obj, 'objid')
        casts = []
        out.append('(* sdss_objid, source line %d *)' % a.lineno)
        out.append(defn('objid_expr', OBJID_ARGS, P.to_gallina(fold(a.value), {x: x for x in OBJID_ARGS}, casts)))
        out.append('Definition objid_texpr : texpr :=\n  %s.\n' % to_texpr(fold(a.value), {x: i for i, x in enumerate(OBJID_ARGS)}))
        ch = checks_of(f_obj, OBJID_ARGS)
        out.append('Definition objid_checks : list (nat * Z * Z) := %s.\n' % checks_lit(ch))
        info['objid_check_exceptions'] = sorted(set(c[3] for c in ch))

        a = final_assign(f_spec, 'specObjID')
        casts = []
        out.append('(* sdss_specobjid, source line %d *)' % a.lineno)
        out.append(defn('specobjid_expr', SPEC_ARGS, P.to_gallina(fold(a.value), {x: x for x in SPEC_ARGS}, casts)))
        senv = {x: i for i, x in enumerate(SPEC_ARGS)}
        out.append('Definition specobjid_texpr : texpr :=\n  %s.\n' % to_texpr(fold(a.value), senv))
        out.append('(* the array branch of the MJD conversion, as a typed expression of the mjd argument *)')
        out.append('Definition mjd_array_texpr : texpr :=\n  %s.\n' % mjd_array_texpr(f_spec, senv))
        ch = checks_of(f_spec, SPEC_ARGS)
        out.append('Definition specobjid_checks : list (nat * Z * Z) := %s.\n' % checks_lit(ch))
        info['specobjid_check_exceptions'] = sorted(set(c[3] for c in ch))
        info['specobjid_casts'] = sorted(set(casts))
        so, ao = mjd_offsets(f_spec)
        out.append('Definition mjd_offset_scalar : Z := %s.' % P.zlit(so))
        out.append('Definition mjd_offset_array : Z := %s.\n' % P.zlit(ao))
        out.append(defn('run2d_of_NMP', ['N', 'M', 'P'], run2d_formula(f_spec)))

        uf = unwrap_fields(f_uobj, 'id', UNWRAP_OBJID_FIELDS)
        for k in UNWRAP_OBJID_FIELDS:
            if k not in uf:
                raise P.Unrecognised('unwrap_objid field %s' % k)
            out.append(defn('unwrap_objid_' + k, ['id'], uf[k]))
        us = unwrap_fields(f_uspec, 'id', ['plate', 'fiber', 'mjd'])
        for k in ['plate', 'fiber', 'mjd', 'run2d_int', 'line']:
            if k not in us:
                raise P.Unrecognised('unwrap_specobjid field %s' % k)
            out.append(defn('unwrap_spec_' + k, ['id'], us[k]))
        for k in ['run2d_N', 'run2d_M', 'run2d_P']:
            if k not in us:
                raise P.Unrecognised('unwrap_specobjid %s' % k)
            out.append(defn(k, ['r'], us[k]))
        out.append('Definition sdssids_recognised : bool := true.')
    except (P.Unrecognised, SyntaxError) as e:
        info['recognised'] = False
        info['detail'].append('%s: %s' % (type(e).__name__, e))
        return None, info
    return '\n'.join(out) + '\n', info


if __name__ == '__main__':
    import sys
    text, info = generate(sys.argv[1] if len(sys.argv) > 1 else '/repo')
    print(info)
    print(text)
