(* C11 -- combine1fiber: resampling / combining spectra.  Executable definitions ONLY.
   Mirrors combine1fiber of /repo/pydl/pydlspec2d/spec2d.py stage by stage, over exact rationals Q:
     grouping of the sorted good pixels by maxsep (ig1/ig2 on the padded difference list),
     per-group B-spline (the fit itself is a parameter: either the implementation's recorded iterfit result or
       the C10 model iterfit_model -- see `fitter`), evaluation on the output pixels inside the group range, newmask,
     inverse variance = clamped linear interpolation (np.interp) of ivar*fullcombmask, zeroed where the
       interpolated mask is < 1-EPS, times newmask, summed over exposures,
     growth of 3-pixel bad regions by +-2, aesthetics.
   Arrays are flat lists (numpy ravel order); `specnum` gives the exposure of every input pixel.
   Specification checkers (the spec_ functions) use only the inputs, the recorded rejection mask and the outputs. *)
From Coq Require Import QArith Qround Qabs List Bool Arith ZArith Lia.
Import ListNotations.
From PV Require Import Lib.WLS BSpline.Eval BSpline.Fit BSpline.Iter.
From PV Require Import Generated.Combine1fiber.   (* only c1f_bad (the bad-region test as the source has it) and c1f_damp2_floor *)
Open Scope Q_scope.

Definition EPS : Q := 1 # 8388608.      (* np.finfo(np.float32).eps = 2^-23 *)

Definition nthB (l : list bool) (i : nat) : bool := nth i l false.
Definition b2q (b : bool) : Q := if b then 1 else 0.

(* ------------------------------------------------------------------ np.interp (increasing xp), clamped *)
Fixpoint interp_from (x0 y0 : Q) (rest : list (Q * Q)) (x : Q) : Q :=
  match rest with
  | [] => y0
  | (x1, y1) :: rest' =>
      if Qltb x x1 then y0 + (y1 - y0) * ((x - x0) / (x1 - x0)) else interp_from x1 y1 rest' x
  end.
Definition interp (pts : list (Q * Q)) (x : Q) : Q :=
  match pts with
  | [] => 0
  | (x0, y0) :: rest => if Qle_bool x x0 then y0 else interp_from x0 y0 rest x
  end.

(* ------------------------------------------------------------------ grouping *)
(* wavesort = wavelengths of the good pixels in increasing order; a new group starts at position i when
   padwave[i+1]-padwave[i] > maxsep and ends at i when padwave[i+2]-padwave[i+1] > maxsep, padwave being
   wavesort padded with min-2*maxsep and max+2*maxsep: position 0 always starts, the last always ends. *)
Fixpoint gap_after (maxsep : Q) (w : list Q) : list bool :=   (* for each position: is the gap to the next > maxsep (last: true) *)
  match w with
  | [] => []
  | [a] => [true]
  | a :: ((b :: _) as r) => Qltb maxsep (b - a) :: gap_after maxsep r
  end.

(* split a list into runs, cutting after every position flagged true *)
Fixpoint split_runs {A} (l : list A) (cut : list bool) (cur : list A) : list (list A) :=
  match l, cut with
  | a :: l', c :: cut' => if c then rev (a :: cur) :: split_runs l' cut' [] else split_runs l' cut' (a :: cur)
  | _, _ => match cur with [] => [] | _ => [rev cur] end
  end.

Definition groups (maxsep : Q) (inloglam : list Q) (isort : list nat) : list (list nat) :=
  split_runs isort (gap_after maxsep (map (nthQ inloglam) isort)) [].

(* ------------------------------------------------------------------ per-group spline *)
(* what iterfit returned for one group: sset.breakpoints, sset.mask, sset.coeff, outmask (group order) *)
Record gfit := mkGfit { g_bk : list Q; g_bkmask : list bool; g_coeff : list Q; g_bmask : list bool }.

Definition all_zero_coeff (c : list Q) : bool := forallb (fun a => Qeq_bool a 0) c.

(* `sset = None` cases: group of <= 2 pixels, or all coefficients zero *)
Definition usable (ss : list nat) (f : option gfit) : option gfit :=
  if (length ss <=? 2)%nat then None
  else match f with Some g => if all_zero_coeff (g_coeff g) then None else Some g | None => None end.

Definition spline_at (k : nat) (g : gfit) (p : Q) : Q * bool :=
  let gb := select (g_bkmask g) (g_bk g) in
  let gc := select (skipn k (g_bkmask g)) (g_coeff g) in
  (* fewer than 2*nord unmasked breakpoints: action() returns its (-2, 0, 0) sentinel and value() leaves zeros *)
  (if (2 * k <=? length gb)%nat then eval1 gb k gc p else 0, point_mask (g_bk g) (g_bkmask g) k p).

Definition inside_b (lo hi p : Q) : bool := Qle_bool (lo - EPS) p && Qle_bool p (hi + EPS).

Fixpoint set_many {A} (idx : list nat) (vals : list A) (l : list A) : list A :=
  match idx, vals with
  | i :: idx', v :: vals' => set_many idx' vals' (set_nth i v l)
  | _, _ => l
  end.

Record st := mkSt { s_flux : list Q; s_mask : list bool; s_comb : list bool }.

Definition step_group (k : nat) (inloglam newloglam : list Q) (s : st) (grp : list nat * option gfit) : st :=
  let '(ss, f0) := grp in
  let f := usable ss f0 in
  let xs := map (nthQ inloglam) ss in
  let lo := lminQ xs in let hi := lmaxQ xs in
  let bmask := match f with Some g => g_bmask g | None => map (fun _ : nat => false) ss end in
  let comb := set_many ss bmask (s_comb s) in
  match f with
  | None => mkSt (s_flux s) (s_mask s) comb
  | Some g =>
      let upd := map (fun p => if inside_b lo hi p then Some (spline_at k g p) else None) newloglam in
      mkSt (map (fun t : Q * option (Q * bool) => match snd t with Some v => fst v | None => fst t end) (combine (s_flux s) upd))
           (map (fun t : bool * option (Q * bool) => match snd t with Some v => if snd v then true else fst t | None => fst t end)
                (combine (s_mask s) upd))
           comb
  end.

(* ------------------------------------------------------------------ width-101 running median of the weights
   (stacked exposures only): pydl.median(array, width) = window median for (w-1)/2 <= i <= n-(w+1)/2, else unchanged *)
Fixpoint qinsert (a : Q) (l : list Q) : list Q :=
  match l with [] => [a] | b :: r => if Qle_bool a b then a :: l else b :: qinsert a r end.
Definition qsort (l : list Q) : list Q := fold_right qinsert [] l.
Definition median_filter (width : nat) (l : list Q) : list Q :=
  let n := length l in
  let h := ((width - 1) / 2)%nat in
  map (fun i => if (h <=? i)%nat && (i + (width + 1) / 2 <=? n)%nat
                then nthQ (qsort (firstn width (skipn (i - h) l))) h
                else nthQ l i) (seq 0 n).

(* smoothed weights: per exposure, the positive ivars are replaced by their running median *)
Definition smooth_weights (nspec : nat) (specnum : list nat) (ivar : list Q) : list Q :=
  fold_left (fun iv j =>
      let idx := filter (fun i => (nth i specnum O =? j)%nat && Qltb 0 (nthQ ivar i)) (seq 0 (length ivar)) in
      set_many idx (median_filter 101 (map (nthQ ivar) idx)) iv)
    (seq 0 nspec) ivar.

(* ------------------------------------------------------------------ inverse variance *)
Definition ivar_of_exposure (inloglam wts : list Q) (comb : list bool) (these : list nat)
           (newloglam : list Q) (newmask : list bool) : list Q :=
  let xs := map (nthQ inloglam) these in
  let lo := lminQ xs in let hi := lmaxQ xs in
  let pv := map (fun i => (nthQ inloglam i, nthQ wts i * b2q (nthB comb i))) these in
  let pm := map (fun i => (nthQ inloglam i, b2q (nthB comb i))) these in
  map (fun t => let '(p, m) := t in
         if Qle_bool lo p && Qle_bool p hi then
           (if Qle_bool (1 - EPS) (interp pm p) then interp pv p else 0) * b2q m
         else 0) (combine newloglam newmask).

Definition vsum (a b : list Q) : list Q := map (fun t => Qred (fst t + snd t)) (combine a b).

(* ------------------------------------------------------------------ growth of bad regions *)
Definition smooth3 (v : list Q) : list Q :=
  let n := length v in
  map (fun i => if (1 <=? i)%nat && (i + 2 <=? n)%nat
                then (nthQ v (i - 1) + nthQ v i + nthQ v (i + 1)) / 3 else nthQ v i) (seq 0 n).

Definition grow (v : list Q) : list Q :=
  let n := length v in
  let bad := map c1f_bad (smooth3 v) in       (* source: np.absolute(foo) < EPS  (or foo == 0.0 once repaired) *)
  let ibad := filter (fun i => nthB bad i) (seq 0 n) in
  let lower := map (fun i => (i - 2)%nat) ibad in
  let upper := map (fun i => Nat.min (i + 2) (n - 1)) ibad in
  set_many upper (map (fun _ => 0) upper) (set_many lower (map (fun _ => 0) lower) v).

(* ------------------------------------------------------------------ aesthetics (own copy, reduced fractions)
   djs_maskinterp1(yval, mask) with xval = None: the good samples at their indices are interpolated linearly
   (np.interp clamps, so `const` makes no difference); 'mean' puts the mean of the good fluxes everywhere else *)
Definition qnat (n : nat) : Q := inject_Z (Z.of_nat n).
Fixpoint good_table (i : nat) (ys : list Q) (bad : list bool) : list (Q * Q) :=
  match ys, bad with
  | y :: ys', b :: bad' => if b then good_table (S i) ys' bad' else (qnat i, y) :: good_table (S i) ys' bad'
  | _, _ => []
  end.
Definition maskinterp_idx (ys : list Q) (bad : list bool) : list Q :=
  if forallb negb bad then ys
  else match good_table 0 ys bad with
       | [] => ys
       | [g] => map (fun _ : Q => snd g) ys
       | tbl => map (fun t : nat * (Q * bool) => if snd (snd t) then Qred (interp tbl (qnat (fst t))) else fst (snd t))
                    (combine (seq 0 (length ys)) (combine ys bad))
       end.
Definition qsum_red (l : list Q) : Q := fold_left (fun acc v => Qred (acc + v)) l 0.

Inductive amethod := Traditional | Noconst | Mean | Nothing.
(* the body after the `badpts.all()` early return *)
Definition aesthetics_core (meth : amethod) (flux iv : list Q) : list Q :=
  let bad := map (fun v => Qeq_bool v 0) iv in
  if existsb (fun b => b) bad then
    match meth with
    | Traditional | Noconst => maskinterp_idx flux bad
    | Mean =>
        let gs := select (map (fun v => Qltb 0 v) iv) flux in
        let mu := Qred (qsum_red gs / qnat (length gs)) in
        map (fun fg : Q * Q => if Qltb 0 (snd fg) then fst fg else mu) (combine flux iv)
    | Nothing => flux
    end
  else flux.
(* aesthetics(): `badpts = invvar == 0; if badpts.all(): return flux` comes first (no good pixel at all -- also the
   empty output grid --: nothing to base nice values on) *)
Definition aesthetics_model (meth : amethod) (flux iv : list Q) : list Q :=
  if forallb (fun b : bool => b) (map (fun v => Qeq_bool v 0) iv) then flux else aesthetics_core meth flux iv.

(* ---- aesthetics(method='damp'): djs_maskinterp(const=True), then the WHOLE spectrum is multiplied by the tapers
     0.5*(1+erf((pixels-mingood)/damp1))  if mingood > 0,          damp1 = min(mingood, 250)
     0.5*(1+erf((maxgood-pixels)/damp2))  if maxgood < nflux-1,    damp2 = min(maxgood, 250)   [sic]
   (round 6: damp2 = 0.0 when only pixel 0 is good -- NaN in the code; fixes/C11-damp-only-first-pixel-good.diff makes it
    max(min(maxgood, 250), 1); the floor is read from the source: c1f_damp2_floor = 0 without the max())
   erf is not rational: the half-error-function  erfh x = 0.5*(1+erf x)  is a PARAMETER (a Section variable with the
   hypothesis 0 <= erfh x <= 1 in the theorems; a finite table of scipy values in the correspondence run). *)
Definition damp_len : nat := 250.
Definition aesthetics_damp (erfh : Q -> Q) (flux iv : list Q) : list Q :=
  let bad := map (fun v => Qeq_bool v 0) iv in
  if forallb (fun b : bool => b) bad then flux
  else if existsb (fun b => b) bad then
    let good := filter (fun i => negb (nthB bad i)) (seq 0 (length iv)) in       (* invvar.nonzero()[0] *)
    let mingood := hd O good in
    let maxgood := last good O in
    let n := length flux in
    let t1 := fun i : nat => if (0 <? mingood)%nat
                             then erfh ((qnat i - qnat mingood) / qnat (Nat.min mingood damp_len)) else 1 in
    let t2 := fun i : nat => if (maxgood <? n - 1)%nat
                             then erfh ((qnat maxgood - qnat i) / qnat (Nat.max (Nat.min maxgood damp_len) c1f_damp2_floor)) else 1 in
    map (fun t : nat * Q => snd t * t1 (fst t) * t2 (fst t)) (combine (seq 0 n) (maskinterp_idx flux bad))
  else flux.
(* the taper as a finite table (exact rational argument -> value); 0 for an argument that is not listed *)
Definition table_fun (tbl : list (Q * Q)) (x : Q) : Q :=
  match find (fun e : Q * Q => Qeq_bool (fst e) x) tbl with Some e => snd e | None => 0 end.

(* ------------------------------------------------------------------ the whole function *)
Record cin := mkCin {
  c_inloglam : list Q; c_flux : list Q; c_ivar : option (list Q);   (* flat *)
  c_specnum : list nat; c_nspec : nat; c_newloglam : list Q;
  c_maxsep : Q; c_k : nat; c_method : amethod;
  c_isort : list nat;                    (* nonzero[inloglam[nonzero].argsort()] as numpy computed it *)
  c_stacked : bool                       (* the input arrays are 2-D (objivar.ndim > 1), even with a single row *)
}.

Definition good_index (c : cin) : list nat :=
  match c_ivar c with
  | None => seq 0 (length (c_inloglam c))
  | Some iv => filter (fun i => Qltb 0 (nthQ iv i)) (seq 0 (length iv))
  end.

(* weights entering the inverse-variance interpolation: unit weights without objivar (the repaired behaviour),
   the running-median weights for stacked exposures, the input ivar for a single spectrum *)
Definition weights (c : cin) : list Q :=
  match c_ivar c with
  | None => map (fun _ => 1) (c_inloglam c)
  | Some iv => if c_stacked c then smooth_weights (c_nspec c) (c_specnum c) iv else iv
  end.

(* stages up to newivar before growth; fits = one optional recorded/model fit per group, in group order *)
Definition stages (c : cin) (fits : list (option gfit)) : st * list Q :=
  let n := length (c_newloglam c) in
  let grps := groups (c_maxsep c) (c_inloglam c) (c_isort c) in
  let s0 := mkSt (map (fun _ => 0) (c_newloglam c)) (map (fun _ => false) (c_newloglam c))
                 (map (fun _ => false) (c_inloglam c)) in
  let s := fold_left (step_group (c_k c) (c_inloglam c) (c_newloglam c)) (combine grps fits) s0 in
  let wts := weights c in
  let iv := fold_left (fun acc j =>
              let these := filter (fun i => (nth i (c_specnum c) O =? j)%nat) (seq 0 (length (c_inloglam c))) in
              vsum acc (ivar_of_exposure (c_inloglam c) wts (s_comb s) these (c_newloglam c) (s_mask s)))
            (seq 0 (c_nspec c)) (map (fun _ => 0) (c_newloglam c)) in
  (s, iv).

(* (newflux, newivar, fullcombmask) *)
Definition combine1fiber_full (c : cin) (fits : list (option gfit)) : list Q * list Q * list bool :=
  match good_index c with
  | [] => (map (fun _ => 0) (c_newloglam c), map (fun _ => 0) (c_newloglam c), map (fun _ => false) (c_inloglam c))
  | _ =>
      let '(s, iv) := stages c fits in
      let newivar := grow iv in
      (aesthetics_model (c_method c) (s_flux s) newivar, newivar, s_comb s)
  end.
Definition combine1fiber_model (c : cin) (fits : list (option gfit)) : list Q * list Q :=
  fst (combine1fiber_full c fits).

(* the fits computed by the C10 model instead of being recorded: knots from the bkspace option on the group's
   abscissae, no breakpoint masked (requiren = 1 never fires when every knot interval holds a pixel) *)
Definition model_fit (sv : solver) (maxiter : nat) (lower upper bkspace : Q) (k : nat)
           (c : cin) (ss : list nat) : option gfit :=
  let wts := match c_ivar c with
             | Some iv => if c_stacked c then smooth_weights (c_nspec c) (c_specnum c) iv else iv
             | None => map (fun _ => 1) (c_inloglam c) end in
  let ds := map (fun i => mkDatum (nthQ (c_inloglam c) i) (nthQ (c_flux c) i) (nthQ wts i)) ss in
  let gb := knots_of_option (OBkspace bkspace) (map dx ds) k 1 in
  match iter_loop sv (S maxiter) gb k lower upper ds (initial_mask ds) with
  | Some (coef, m) => Some (mkGfit gb (map (fun _ => true) gb) coef m)
  | None => None
  end.

(* ------------------------------------------------------------------ the whole chain inside the model
   (round 5): the per-group iterfit call  iterfit(x[ss], flux[ss], invvar=objivar[ss] | None, nord=nord,
   requiren=1, bkspace=bkptbin)  computed here instead of being recorded:
     default weights 1/var (var = ydata.var()*nx/(nx-1), 1 when var = 0) without invvar,
     knots = knots_of_option (OBkspace bkptbin) on the group's abscissae (C08),
     every pass of the loop: the requiren walk masks breakpoints whose interval holds fewer than `requiren` good
       pixels (the port's walk never counts the last pixel, so the last real breakpoint is ALWAYS masked),
       bspline.fit on the unmasked knots (error -2 = fewer than nord good coefficients: coefficients stay 0),
       djs_reject at lower = upper = 5 (C10: reject),
     at most maxiter + 1 = 11 fits. *)
Definition qsum (l : list Q) : Q := fold_left (fun acc v => Qred (acc + v)) l 0.
Definition default_invvar (ys : list Q) : Q :=
  let n := qnat (length ys) in
  let mu := qsum ys / n in
  let var := (qsum (map (fun y => (y - mu) * (y - mu)) ys) / n) * (n / (n - 1)) in
  if Qeq_bool var 0 then 1 else Qred (1 / var).

Fixpoint drop_while {A} (f : A -> bool) (l : list A) : list A :=
  match l with a :: r => if f a then drop_while f r else l | [] => [] end.
(* `while x[i] >= lo and x[i] < hi and i < nx-1: ct += w[i]*m[i] > 0; i += 1` on the pixels that are left *)
Fixpoint count_span (lo hi : Q) (l : list (Q * bool)) (ct : nat) : nat * list (Q * bool) :=
  match l with
  | (x, g) :: r => if Qle_bool lo x && Qltb x hi then count_span lo hi r (if g then S ct else ct) else (ct, l)
  | [] => (ct, [])
  end.
Fixpoint requiren_walk (requiren : nat) (gbk : list Q) (ilefts : list nat) (rem : list (Q * bool)) (ct : nat) : list nat :=
  match ilefts with
  | [] => []
  | il :: rest =>
      let '(ct', rem') := count_span (nthQ gbk il) (nthQ gbk (S il)) rem ct in
      if (requiren <=? ct')%nat then requiren_walk requiren gbk rest rem' 0
      else il :: requiren_walk requiren gbk rest rem' ct'
  end.
(* clear the mask at the positions (counted among the TRUE entries) listed in `targets` *)
Fixpoint clear_goods (bkm : list bool) (targets : list nat) (pos : nat) : list bool :=
  match bkm with
  | [] => []
  | true :: r => negb (existsb (Nat.eqb pos) targets) :: clear_goods r targets (S pos)
  | false :: r => false :: clear_goods r targets pos
  end.
Definition requiren_update (requiren k : nat) (bk : list Q) (bkm : list bool) (xs : list Q) (good : list bool) : list bool :=
  let gbk := select bkm bk in
  let nmask := length gbk in
  let pts := removelast (combine xs good) in                        (* i < nx-1: the last pixel is never consumed *)
  let rem := drop_while (fun t : Q * bool => Qltb (fst t) (nthQ gbk k)) pts in
  clear_goods bkm (requiren_walk requiren gbk (seq k (nmask - k + 1 - k)) rem 0) 0.

(* the full-length coefficient vector: solution values at the unmasked positions, 0 elsewhere *)
Fixpoint spread (m : list bool) (vals : list Q) : list Q :=
  match m with
  | [] => []
  | true :: m' => match vals with v :: vs => v :: spread m' vs | [] => 0 :: spread m' [] end
  | false :: m' => 0 :: spread m' vals
  end.
Definition count_true (l : list bool) : nat := length (filter (fun b : bool => b) l).

Fixpoint chain_loop (sv : solver) (fuel requiren k : nat) (lower upper : Q) (bk : list Q) (bkm : list bool)
         (ds : list datum) (mask : list bool) : option gfit :=
  match fuel with
  | O => None
  | S f =>
      if (count_true mask <=? 1)%nat || negb (existsb (fun b : bool => b) bkm) then None   (* `sset.coeff = 0` exit: outside *)
      else
      let bkm' := requiren_update requiren k bk bkm (map dx ds) (map (fun t : datum * bool => Qltb 0 (dw (fst t)) && snd t) (combine ds mask)) in
      if (count_true (skipn k bkm') <? k)%nat
      then Some (mkGfit bk bkm' (map (fun _ => 0) (skipn k bk)) mask)                      (* fit() error -2 *)
      else
      let gb := select bkm' bk in
      match fit_masked sv gb k ds mask with
      | None => None
      | Some c =>
          let mask' := reject lower upper ds (yfit_of gb k c (map dx ds)) mask in
          if mask_eqb mask' mask || (f =? 0)%nat
          then Some (mkGfit bk bkm' (spread (skipn k bkm') c) mask')
          else chain_loop sv f requiren k lower upper bk bkm' ds mask'
      end
  end.

Definition chain_fit (sv : solver) (bkspace : Q) (c : cin) (ss : list nat) : option gfit :=
  let ys := map (nthQ (c_flux c)) ss in
  let ws := match c_ivar c with
            | Some iv => map (nthQ (weights c)) ss
            | None => let w := default_invvar ys in map (fun _ => w) ss end in
  let ds := map (fun t : nat * Q => mkDatum (nthQ (c_inloglam c) (fst t)) (nthQ (c_flux c) (fst t)) (snd t)) (combine ss ws) in
  let bk := knots_of_option (OBkspace bkspace) (map dx ds) (c_k c) 1 in
  chain_loop sv 11 1 (c_k c) 5 5 bk (map (fun _ => true) bk) ds (initial_mask ds).

(* groups of <= 2 pixels are not fitted at all *)
Definition chain_fits (sv : solver) (bkspace : Q) (c : cin) : list (option gfit) :=
  map (fun ss => if (length ss <=? 2)%nat then None else chain_fit sv bkspace c ss)
      (groups (c_maxsep c) (c_inloglam c) (c_isort c)).
Definition combine1fiber_chain (sv : solver) (bkspace : Q) (c : cin) : list Q * list Q :=
  combine1fiber_model c (chain_fits sv bkspace c).

(* damp: same stages and inverse variance, the cosmetic step is aesthetics_damp *)
Definition combine1fiber_damp (erfh : Q -> Q) (c : cin) (fits : list (option gfit)) : list Q * list Q :=
  match good_index c with
  | [] => (map (fun _ => 0) (c_newloglam c), map (fun _ => 0) (c_newloglam c))
  | _ =>
      let '(s, iv) := stages c fits in
      let newivar := grow iv in
      (aesthetics_damp erfh (s_flux s) newivar, newivar)
  end.

(* ------------------------------------------------------------------ preprocess_spectra: de-redshifting
   every object's wavelength vector is handed to combine1fiber as rowloglam - logshift, logshift = log10(1+z)
   (a parameter here: the logarithm is not rational) *)
Definition shift_grid (shift : Q) (loglam : list Q) : list Q := map (fun L => L - shift) loglam.
Definition with_inloglam (c : cin) (l : list Q) : cin :=
  mkCin l (c_flux c) (c_ivar c) (c_specnum c) (c_nspec c) (c_newloglam c) (c_maxsep c) (c_k c) (c_method c) (c_isort c) (c_stacked c).
Definition preprocess_model (shift : Q) (c : cin) (fits : list (option gfit)) : list Q * list Q :=
  combine1fiber_model (with_inloglam c (shift_grid shift (c_inloglam c))) fits.

(* joint rescaling of the data: flux * s, ivar / s^2 ; and of recorded fits: coefficients * s *)
Definition scale_cin (s : Q) (c : cin) : cin :=
  mkCin (c_inloglam c) (map (fun f => f * s) (c_flux c))
        (match c_ivar c with Some iv => Some (map (fun v => v / (s * s)) iv) | None => None end)
        (c_specnum c) (c_nspec c) (c_newloglam c) (c_maxsep c) (c_k c) (c_method c) (c_isort c) (c_stacked c).
Definition scale_fit (s : Q) (f : option gfit) : option gfit :=
  match f with
  | Some g => Some (mkGfit (g_bk g) (g_bkmask g) (map (fun a => a * s) (g_coeff g)) (g_bmask g))
  | None => None
  end.

(* ------------------------------------------------------------------ specification checkers *)
(* adjacent input pixels i, i+1 of one exposure (positions in `these`) bracket p with both good and unrejected,
   or p is within EPS of a pixel width of the good one *)
Definition allowed_between (x0 x1 : Q) (g0 g1 : bool) (p : Q) : bool :=
  Qle_bool x0 p && Qle_bool p x1 &&
  ((g0 && g1) || (g0 && Qle_bool (p - x0) (EPS * (x1 - x0))) || (g1 && Qle_bool (x1 - p) (EPS * (x1 - x0)))).

Fixpoint exists_bracket (pts : list (Q * bool)) (p : Q) : bool :=
  match pts with
  | (x0, g0) :: (((x1, g1) :: _) as r) => allowed_between x0 x1 g0 g1 p || exists_bracket r p
  | _ => false
  end.

(* good = positive weight and not rejected by the fit *)
Definition good_flags (c : cin) (comb : list bool) : list bool :=
  map (fun i => nthB comb i && match c_ivar c with Some iv => Qltb 0 (nthQ iv i) | None => true end)
      (seq 0 (length (c_inloglam c))).

Definition spec_zero_pattern (c : cin) (comb : list bool) (newivar : list Q) : bool :=
  let gf := good_flags c comb in
  all2 (fun p v => Qeq_bool v 0 ||
          existsb (fun j =>
             let these := filter (fun i => (nth i (c_specnum c) O =? j)%nat) (seq 0 (length (c_inloglam c))) in
             exists_bracket (map (fun i => (nthQ (c_inloglam c) i, nthB gf i)) these) p) (seq 0 (c_nspec c)))
       (c_newloglam c) newivar.

(* single spectrum: every non-zero output ivar is the linear interpolation of the (masked) input ivar and does
   not exceed the larger of the two neighbouring input values *)
Fixpoint bracket_of (pts : list (Q * Q)) (p : Q) : option (Q * Q * Q * Q) :=
  match pts with
  | (x0, y0) :: (((x1, y1) :: _) as r) =>
      if Qle_bool x0 p && Qle_bool p x1 then Some (x0, y0, x1, y1) else bracket_of r p
  | _ => None
  end.
Definition spec_interp_law (rtol : Q) (c : cin) (comb : list bool) (newivar : list Q) : bool :=
  match c_ivar c with
  | None => true
  | Some iv =>
      if c_stacked c || (2 <=? c_nspec c)%nat then true else
      let gf := good_flags c comb in
      let pts := map (fun i => (nthQ (c_inloglam c) i, nthQ iv i * b2q (nthB gf i))) (seq 0 (length iv)) in
      let raw := map (fun i => (nthQ (c_inloglam c) i, nthQ iv i)) (seq 0 (length iv)) in
      all2 (fun p v => Qeq_bool v 0 ||
              match bracket_of raw p with
              | Some (x0, y0, x1, y1) =>
                  close_rel rtol v (interp pts p) &&
                  Qle_bool v ((if Qltb y0 y1 then y1 else y0) * (1 + rtol))
              | None => false
              end) (c_newloglam c) newivar
  end.

(* any number of exposures: an exposure can contribute at most its largest input weight, and only where it brackets
   the output pixel with passing pixels; so newivar_p <= sum over the bracketing exposures of max(ivar of that exposure)
   (the running median of the weights only selects input values) *)
Definition spec_stack_bound (rtol : Q) (c : cin) (comb : list bool) (newivar : list Q) : bool :=
  let gf := good_flags c comb in
  let n := length (c_inloglam c) in
  let wt := fun i => match c_ivar c with Some iv => nthQ iv i | None => 1 end in
  let per := map (fun j =>
                let these := filter (fun i => (nth i (c_specnum c) O =? j)%nat) (seq 0 n) in
                (map (fun i => (nthQ (c_inloglam c) i, nthB gf i)) these,
                 fold_left (fun acc i => if Qltb acc (wt i) then wt i else acc) these 0)) (seq 0 (c_nspec c)) in
  all2 (fun p v =>
          Qle_bool v ((1 + rtol) * fold_left (fun acc e => if exists_bracket (fst e) p then acc + snd e else acc) per 0))
       (c_newloglam c) newivar.

Definition spec_basic (c : cin) (newflux newivar : list Q) : bool :=
  (length newflux =? length (c_newloglam c))%nat && (length newivar =? length (c_newloglam c))%nat &&
  forallb (fun v => Qle_bool 0 v) newivar.

(* ------------------------------------------------------------------ correspondence cases *)
Definition rtol9 : Q := 1 # 1000000000.
Definition rtol6 : Q := 1 # 1000000.

Inductive case :=
  (* inputs, recorded per-group fits, recorded fullcombmask (as the harness reconstructs it), outputs *)
| CComb (c : cin) (fits : list (option gfit)) (obs_comb : list bool) (newflux newivar : list Q)
| CStage (c : cin) (fits : list (option gfit)) (obs_comb : list bool) (pre_flux pre_ivar newflux newivar : list Q)
  (* the whole chain in the model: nothing recorded but argsort; bkspace = bkptbin as the code computed it *)
| CChain (c : cin) (bkspace : Q) (obs_comb : list bool) (newflux newivar : list Q)
  (* aesthetics='damp': recorded fits, the taper given as a table of scipy erf values *)
| CDamp (c : cin) (fits : list (option gfit)) (obs_comb : list bool) (tbl : list (Q * Q)) (newflux newivar : list Q).

Definition model_ok (c : cin) (fits : list (option gfit)) (obs_comb : list bool) (newflux newivar : list Q) : bool :=
  let '(mf, mi, comb) := combine1fiber_full c fits in
  all2 Bool.eqb comb obs_comb &&
  all2 (fun a b => Bool.eqb (Qeq_bool a 0) (Qeq_bool b 0) && close_rel rtol9 a b) newivar mi &&
  all2 (close_rel rtol6) newflux mf.

(* stage-by-stage: the harness also records newivar as handed to smooth() (before growth) and newflux as handed to
   aesthetics() (the spline values, before the cosmetic fill) *)
Definition stages_ok (c : cin) (fits : list (option gfit)) (pre_flux pre_ivar : list Q) : bool :=
  match good_index c with
  | [] => true
  | _ =>
      let '(s, iv) := stages c fits in
      all2 (fun a b => Bool.eqb (Qeq_bool a 0) (Qeq_bool b 0) && close_rel rtol9 a b) pre_ivar iv &&
      all2 (close_rel rtol6) pre_flux (s_flux s)
  end.

Definition damp_ok (c : cin) (fits : list (option gfit)) (tbl : list (Q * Q)) (obs_comb : list bool) (newflux newivar : list Q) : bool :=
  (* = combine1fiber_damp (table_fun tbl) c fits, with the stages evaluated once and fullcombmask compared as well *)
  let '(mf, mi, comb) :=
    match good_index c with
    | [] => (map (fun _ => 0) (c_newloglam c), map (fun _ => 0) (c_newloglam c), map (fun _ => false) (c_inloglam c))
    | _ => let '(s, iv) := stages c fits in
           let ni := grow iv in (aesthetics_damp (table_fun tbl) (s_flux s) ni, ni, s_comb s)
    end in
  all2 Bool.eqb comb obs_comb &&
  all2 (fun a b => Bool.eqb (Qeq_bool a 0) (Qeq_bool b 0) && close_rel rtol9 a b) newivar mi &&
  all2 (close_rel rtol6) newflux mf.
(* the instance of the taper satisfies the hypothesis of the damp theorems *)
Definition table_in_unit (tbl : list (Q * Q)) : bool := forallb (fun e : Q * Q => Qle_bool 0 (snd e) && Qle_bool (snd e) 1) tbl.

Definition run_case (cs : case) : Z :=
  match cs with
  | CChain c bkspace obs_comb newflux newivar =>
      let fits := chain_fits fit_fast bkspace c in
      (* +4: the chain model declines -- a group's least-squares problem has no unique solution in exact arithmetic
         (more coefficients than pixels) or the rejection left <= 1 pixel; the recorded-fit case of the same call stands *)
      let solved := forallb (fun t : list nat * option gfit =>
                             (length (fst t) <=? 2)%nat || match snd t with Some _ => true | None => false end)
                          (combine (groups (c_maxsep c) (c_inloglam c) (c_isort c)) fits) in
      let m_ok := model_ok c fits obs_comb newflux newivar in
      let s_ok := spec_basic c newflux newivar && spec_zero_pattern c obs_comb newivar
                  && spec_interp_law rtol9 c obs_comb newivar && spec_stack_bound rtol9 c obs_comb newivar in
      ((if solved then (if m_ok then 0 else 1) else 4) + (if s_ok then 0 else 2))%Z
  | CDamp c fits obs_comb tbl newflux newivar =>
      let m_ok := damp_ok c fits tbl obs_comb newflux newivar && table_in_unit tbl in
      let s_ok := spec_basic c newflux newivar && spec_zero_pattern c obs_comb newivar
                  && spec_interp_law rtol9 c obs_comb newivar && spec_stack_bound rtol9 c obs_comb newivar in
      ((if m_ok then 0 else 1) + (if s_ok then 0 else 2))%Z
  | CComb c fits obs_comb newflux newivar =>
      let m_ok := model_ok c fits obs_comb newflux newivar in
      let s_ok := spec_basic c newflux newivar && spec_zero_pattern c obs_comb newivar
                  && spec_interp_law rtol9 c obs_comb newivar && spec_stack_bound rtol9 c obs_comb newivar in
      ((if m_ok then 0 else 1) + (if s_ok then 0 else 2))%Z
  | CStage c fits obs_comb pre_flux pre_ivar newflux newivar =>
      let m_ok := model_ok c fits obs_comb newflux newivar && stages_ok c fits pre_flux pre_ivar in
      let s_ok := spec_basic c newflux newivar && spec_zero_pattern c obs_comb newivar
                  && spec_interp_law rtol9 c obs_comb newivar && spec_stack_bound rtol9 c obs_comb newivar in
      ((if m_ok then 0 else 1) + (if s_ok then 0 else 2))%Z
  end.
Definition run_cases : list case -> list Z := map run_case.

Definition diagnose (cs : case) : list bool :=
  let d := fun c fits obs_comb newflux newivar =>
      let '(mf, mi, comb) := combine1fiber_full c fits in
      [all2 Bool.eqb comb obs_comb;
       all2 (fun a b => Bool.eqb (Qeq_bool a 0) (Qeq_bool b 0)) newivar mi;
       all2 (close_rel rtol9) newivar mi;
       all2 (close_rel rtol6) newflux mf;
       spec_basic c newflux newivar; spec_zero_pattern c obs_comb newivar; spec_interp_law rtol9 c obs_comb newivar;
       spec_stack_bound rtol9 c obs_comb newivar] in
  match cs with
  | CComb c fits obs_comb newflux newivar => d c fits obs_comb newflux newivar
  | CStage c fits obs_comb pre_flux pre_ivar newflux newivar =>
      d c fits obs_comb newflux newivar ++ [stages_ok c fits pre_flux pre_ivar]
  | CChain c bkspace obs_comb newflux newivar => d c (chain_fits fit_fast bkspace c) obs_comb newflux newivar
  | CDamp c fits obs_comb tbl newflux newivar =>
      d c fits obs_comb newflux newivar ++ [damp_ok c fits tbl obs_comb newflux newivar; table_in_unit tbl]
  end.
