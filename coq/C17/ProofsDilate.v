(* C17: dilation.  dil_at decides "some flagged sample within r"; the index-assignment loop of
   djs_reject (grow_model) and the smooth()-based loop of skymask both compute it. *)
From Coq Require Import ZArith QArith List Bool Lia.
Import ListNotations.
From PV Require Import Generated.Reject C17.Model.

Lemma nth_false_iff : forall (m : list bool) j, nth j m false = true <-> nth_error m j = Some true.
Proof.
  induction m as [|b m IH]; intros [|j]; cbn; try (split; congruence).
  apply IH.
Qed.

Lemma near_iff : forall r i j, near r i j = true <-> (i <= j + r /\ j <= i + r)%nat.
Proof.
  intros. unfold near. rewrite andb_true_iff, !Nat.leb_le. tauto.
Qed.

(* S is the property's statement: exists j, |i-j| <= r /\ m j *)
Lemma dil_at_spec : forall m r i,
  dil_at m r i = true <-> exists j, (i <= j + r /\ j <= i + r)%nat /\ nth_error m j = Some true.
Proof.
  intros. unfold dil_at. rewrite existsb_exists. split.
  - intros (j & _ & H). apply andb_true_iff in H as [H1 H2].
    exists j. split; [apply near_iff, H1 | apply nth_false_iff, H2].
  - intros (j & H1 & H2). exists j. split.
    + apply in_seq. assert (j < length m)%nat by (apply nth_error_Some; congruence). lia.
    + apply andb_true_iff. split; [apply near_iff, H1 | apply nth_false_iff, H2].
Qed.

Lemma dilate_spec_nth : forall m r i, (i < length m)%nat ->
  nth_error (dilate_spec m r) i = Some (dil_at m r i).
Proof.
  intros. unfold dilate_spec.
  rewrite nth_error_map, nth_error_nth' with (d := O) by (rewrite seq_length; lia).
  rewrite seq_nth by lia. reflexivity.
Qed.

(* ---------------------------------------------------------------- grow_model (djs_reject) *)

(* "rejected at j": the mask holds False at j (and j is inside the array) *)
Definition rej (m : list bool) (j : nat) : Prop := nth j m true = false.

Lemma rej_lt : forall m j, rej m j -> (j < length m)%nat.
Proof.
  intros m j H. destruct (Nat.lt_ge_cases j (length m)) as [|G]; [assumption|].
  unfold rej in H. rewrite nth_overflow in H by lia. discriminate.
Qed.

Lemma rej_nth_error : forall m j, rej m j <-> nth_error m j = Some false.
Proof.
  unfold rej. induction m as [|b m IH]; intros [|j]; cbn; try (split; congruence).
  apply IH.
Qed.

Lemma set_false_length : forall i m, length (set_false i m) = length m.
Proof.
  intros. unfold set_false. destruct (i <? length m)%nat eqn:E; [|reflexivity].
  apply Nat.ltb_lt in E. rewrite app_length, firstn_length. cbn [length]. rewrite skipn_length. lia.
Qed.

Lemma set_false_rej : forall i m j, rej (set_false i m) j <-> rej m j \/ (j = i /\ (i < length m)%nat).
Proof.
  intros. unfold set_false. destruct (i <? length m)%nat eqn:E.
  - apply Nat.ltb_lt in E. unfold rej.
    destruct (Nat.lt_trichotomy j i) as [L|[L|L]].
    + rewrite app_nth1 by (rewrite firstn_length; lia).
      rewrite <- (firstn_skipn i m) at 2. rewrite (app_nth1 (firstn i m)) by (rewrite firstn_length; lia).
      split; [tauto | intros [H|H]; [assumption | lia]].
    + subst. rewrite app_nth2 by (rewrite firstn_length; lia).
      rewrite firstn_length. replace (i - Nat.min i (length m))%nat with O by lia. cbn. tauto.
    + rewrite app_nth2 by (rewrite firstn_length; lia).
      rewrite firstn_length. replace (j - Nat.min i (length m))%nat with (S (j - S i)) by lia. cbn.
      rewrite <- (firstn_skipn (S i) m) at 2.
      rewrite (app_nth2 (firstn (S i) m)) by (rewrite firstn_length; lia).
      rewrite firstn_length. replace (j - Nat.min (S i) (length m))%nat with (j - S i)%nat by lia.
      split; [tauto | intros [H|H]; [assumption | lia]].
  - apply Nat.ltb_ge in E. split; [tauto | intros [H|H]; [assumption | lia]].
Qed.

Lemma fold_set_false : forall (f : nat -> nat) ps m j,
  let out := fold_left (fun acc p => set_false (f p) acc) ps m in
  length out = length m /\
  (rej out j <-> rej m j \/ ((j < length m)%nat /\ exists p, In p ps /\ f p = j)).
Proof.
  intros f ps. induction ps as [|p ps IH]; intros m j; cbn.
  - split; [reflexivity|]. split; [tauto | intros [H|(_ & p & [] & _)]; assumption].
  - destruct (IH (set_false (f p) m) j) as [L R]. rewrite set_false_length in L. split; [exact L|].
    rewrite R, set_false_rej, set_false_length. split.
    + intros [[H|[H1 H2]]|(H1 & q & H2 & H3)].
      * left; assumption.
      * right. split; [lia|]. exists p. split; [left; reflexivity | congruence].
      * right. split; [assumption|]. exists q. split; [right; assumption | assumption].
    + intros [H|(H1 & q & [H2|H2] & H3)].
      * left; left; assumption.
      * subst q. left; right. split; [congruence | lia].
      * right. split; [assumption|]. exists q. tauto.
Qed.

(* canonical form of the growth loop (what the generated index expressions must amount to) *)
Definition grow_pass_c (n k : nat) (rej : list nat) (m : list bool) : list bool :=
  let m1 := fold_left (fun acc p => set_false (p - k) acc) rej m in
  fold_left (fun acc p => set_false (Nat.min (p + k) (n - 1)) acc) rej m1.
Definition grow_model_c (g : nat) (m : list bool) : list bool :=
  let rej := positions_from 0 m false in
  fold_left (fun acc k => grow_pass_c (length m) k rej acc) (seq 1 g) m.

Lemma grow_pass_spec : forall n k R m j,
  length (grow_pass_c n k R m) = length m /\
  (rej (grow_pass_c n k R m) j <->
   rej m j \/ ((j < length m)%nat /\ exists p, In p R /\ ((p - k)%nat = j \/ Nat.min (p + k) (n - 1) = j))).
Proof.
  intros. unfold grow_pass_c.
  set (m1 := fold_left (fun acc p => set_false (p - k) acc) R m).
  destruct (fold_set_false (fun p => (p - k)%nat) R m j) as [L1 R1]. fold m1 in L1, R1.
  destruct (fold_set_false (fun p => Nat.min (p + k) (n - 1)) R m1 j) as [L2 R2].
  cbv zeta in *. split; [congruence|].
  rewrite R2, R1, L1. split.
  - intros [[H|(H1 & p & H2 & H3)]|(H1 & p & H2 & H3)]; [left; assumption| |];
      (right; split; [assumption|]; exists p; tauto).
  - intros [H|(H1 & p & H2 & [H3|H3])]; [left; left; assumption | |].
    + left; right. split; [assumption|]. exists p. tauto.
    + right. split; [assumption|]. exists p. tauto.
Qed.

Lemma grow_fold_spec : forall n R g a m j,
  let out := fold_left (fun acc k => grow_pass_c n k R acc) (seq a g) m in
  length out = length m /\
  (rej out j <->
   rej m j \/ ((j < length m)%nat /\ exists k p, (a <= k < a + g)%nat /\ In p R /\
                                       ((p - k)%nat = j \/ Nat.min (p + k) (n - 1) = j))).
Proof.
  intros n R g. induction g as [|g IH]; intros a m j; cbn.
  - split; [reflexivity|]. split; [tauto | intros [H|(_ & k & p & H & _)]; [assumption | lia]].
  - destruct (IH (S a) (grow_pass_c n a R m) j) as [L1 R1].
    destruct (grow_pass_spec n a R m j) as [L2 R2].
    split; [congruence|]. rewrite R1, R2, L2. split.
    + intros [[H|(H1 & p & H2 & H3)]|(H1 & k & p & H2 & H3)]; [left; assumption| |].
      * right. split; [assumption|]. exists a, p. split; [lia | tauto].
      * right. split; [assumption|]. exists k, p. split; [lia | tauto].
    + intros [H|(H1 & k & p & H2 & H3)]; [left; left; assumption|].
      destruct (Nat.eq_dec k a) as [->|N].
      * left; right. split; [assumption|]. exists p. tauto.
      * right. split; [assumption|]. exists k, p. split; [lia | tauto].
Qed.

Lemma positions_from_spec : forall m k p,
  In p (positions_from k m false) <-> (k <= p)%nat /\ rej m (p - k).
Proof.
  induction m as [|b m IH]; intros k p; cbn.
  - split; [tauto | intros [_ H]; unfold rej in H; destruct (p - k)%nat; discriminate].
  - destruct b; cbn.
    + rewrite IH. unfold rej. split.
      * intros [H1 H2]. split; [lia|]. replace (p - k)%nat with (S (p - S k)) by lia. exact H2.
      * intros [H1 H2]. destruct (p - k)%nat as [|d] eqn:E; [discriminate|].
        split; [lia|]. replace (p - S k)%nat with d by lia. exact H2.
    + rewrite IH. unfold rej. split.
      * intros [H|[H1 H2]].
        -- subst. split; [lia|]. replace (p - p)%nat with O by lia. reflexivity.
        -- split; [lia|]. replace (p - k)%nat with (S (p - S k)) by lia. exact H2.
      * intros [H1 H2]. destruct (p - k)%nat as [|d] eqn:E.
        -- left. lia.
        -- right. split; [lia|]. replace (p - S k)%nat with d by lia. exact H2.
Qed.

(* the index-assignment loop is exactly dilation by g of the set of rejected points *)
Lemma grow_model_c_spec : forall g m j,
  length (grow_model_c g m) = length m /\
  (rej (grow_model_c g m) j <->
   (j < length m)%nat /\ exists p, rej m p /\ (j <= p + g /\ p <= j + g)%nat).
Proof.
  intros. unfold grow_model_c.
  destruct (grow_fold_spec (length m) (positions_from 0 m false) g 1 m j) as [L R].
  cbv zeta in *. split; [exact L|]. rewrite R. split.
  - intros [H|(H1 & k & p & H2 & H3 & H4)].
    + split; [apply rej_lt, H|]. exists j. split; [assumption | lia].
    + split; [assumption|]. apply positions_from_spec in H3 as [_ H3].
      rewrite Nat.sub_0_r in H3. exists p. split; [assumption|].
      pose proof (rej_lt _ _ H3). lia.
  - intros (H1 & p & H2 & H3).
    destruct (Nat.eq_dec p j) as [->|N]; [left; assumption|].
    right. split; [assumption|].
    assert (P : In p (positions_from 0 m false)) by (apply positions_from_spec; rewrite Nat.sub_0_r; split; [lia | assumption]).
    destruct (Nat.lt_ge_cases j p).
    + exists (p - j)%nat, p. split; [lia|]. split; [assumption|]. left. lia.
    + exists (j - p)%nat, p. split; [lia|]. split; [assumption|]. right. lia.
Qed.

(* ---------------------------------------------------------------- the GENERATED loop is the canonical one *)

Lemma fold_left_ext_in : forall {A B} (f g : A -> B -> A) (l : list B) a,
  (forall a b, f a b = g a b) -> fold_left f l a = fold_left g l a.
Proof. intros A B f g l. induction l as [|b l IH]; intros a H; cbn; [reflexivity|]. rewrite H. apply IH, H. Qed.

Lemma fold_left_map : forall {A B C} (f : A -> C -> A) (h : B -> C) (l : list B) a,
  fold_left f (map h l) a = fold_left (fun a x => f a (h x)) l a.
Proof. intros A B C f h l. induction l as [|b l IH]; intros a; cbn; [reflexivity | apply IH]. Qed.

Lemma grow_left_index : forall p k n : nat,
  np_index (Z.of_nat n) (rej_grow_left (Z.of_nat p) (Z.of_nat k) (Z.of_nat n)) = (p - k)%nat.
Proof. intros. unfold np_index, rej_grow_left. destruct (_ <? 0)%Z eqn:E; lia. Qed.

Lemma grow_right_index : forall p k n : nat,
  np_index (Z.of_nat n) (rej_grow_right (Z.of_nat p) (Z.of_nat k) (Z.of_nat n)) = Nat.min (p + k) (n - 1).
Proof. intros. unfold np_index, rej_grow_right. destruct (_ <? 0)%Z eqn:E; lia. Qed.

Lemma grow_pass_eq : forall n k R m, grow_pass n (Z.of_nat k) R m = grow_pass_c n k R m.
Proof.
  intros n k R m. unfold grow_pass, grow_pass_c. cbv zeta.
  set (F1 := fun acc p => set_false (np_index (Z.of_nat n) (rej_grow_left (Z.of_nat p) (Z.of_nat k) (Z.of_nat n))) acc).
  set (F2 := fun acc p => set_false (np_index (Z.of_nat n) (rej_grow_right (Z.of_nat p) (Z.of_nat k) (Z.of_nat n))) acc).
  assert (E1 : forall acc p, F1 acc p = set_false (p - k) acc)
    by (intros; unfold F1; rewrite grow_left_index; reflexivity).
  assert (E2 : forall acc p, F2 acc p = set_false (Nat.min (p + k) (n - 1)) acc)
    by (intros; unfold F2; rewrite grow_right_index; reflexivity).
  rewrite (fold_left_ext_in F1 _ R m E1). apply fold_left_ext_in, E2.
Qed.

Lemma zrange_1 : forall g, zrange 1 g = map Z.of_nat (seq 1 g).
Proof. intros. unfold zrange. rewrite <- seq_shift, map_map. apply map_ext. intros. lia. Qed.

Lemma grow_model_eq : forall g m, grow_model g m = grow_model_c g m.
Proof.
  intros. unfold grow_model, grow_model_c. cbv zeta. unfold rej_grow_guard, rej_grow_klo, rej_grow_khi.
  destruct (0 <? Z.of_nat g)%Z eqn:E.
  - replace (Z.to_nat (Z.of_nat g + 1 - 1)) with g by lia. rewrite zrange_1, fold_left_map.
    apply fold_left_ext_in. intros. apply grow_pass_eq.
  - assert (g = O) by lia. subst. reflexivity.
Qed.

(* the index-assignment loop is exactly dilation by g of the set of rejected points *)
Lemma grow_model_spec : forall g m j,
  length (grow_model g m) = length m /\
  (rej (grow_model g m) j <->
   (j < length m)%nat /\ exists p, rej m p /\ (j <= p + g /\ p <= j + g)%nat).
Proof. intros. rewrite grow_model_eq. apply grow_model_c_spec. Qed.
