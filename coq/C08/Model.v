(* C08 -- correspondence cases: the implementation's knots / values / masks against the algorithmic
   model (BSpline/Eval.v: knots_of_option, intrv, bsplvn, action_ranges, value) and against the
   specification (Cox-de Boor spline, range mask, partition of unity).  Definitions only. *)
From Coq Require Import QArith Qround Qabs List Bool Arith ZArith Lia.
Import ListNotations.
From PV Require Import Lib.WLS BSpline.Eval.
Open Scope Q_scope.

Definition rtol9 : Q := 1 # 1000000000.
Definition knot_rtol : Q := 1 # 1048576.   (* 2^-20: the knot placement runs partly in float32 *)

Definition all_true (n : nat) : list bool := repeat true n.

Record obsv := mkObsv {
  o_bk : list Q;            (* sset.breakpoints *)
  o_xe : list Q;            (* evaluation points, caller order *)
  o_perm : list nat;        (* numpy argsort of o_xe *)
  o_yy : list Q;            (* value(xe)[0] *)
  o_mask : list bool;       (* value(xe)[1] *)
  o_indx : list nat;        (* intrv(sorted xe) *)
  o_bs : list (list Q);     (* bsplvn(sorted xe, indx) *)
  o_lower : list Z; o_upper : list Z   (* action(sorted xe) ranges *)
}.

Inductive case :=
| CVal (opt : bkopt) (xs : list Q) (k : nat) (bkspread : Q) (coeff : list Q) (ob : obsv)
  (* a later call in a history on the SAME object: knots / coefficients were changed (in place or by assignment) after
     earlier evaluations; the answer must be the pure one for the current knots and coefficients *)
| CHist (k : nat) (coeff : list Q) (ob : obsv).

(* ---- specification side: depends only on the implementation's own knots and the textbook recursion *)
Definition spec_knots (bk : list Q) (k : nat) (xs : list Q) (computed : bool) : bool :=
  let xmin := lminQ xs in let xmax := lmaxQ xs in
  let scale := Qabs xmin + Qabs xmax + 1 in
  let tol := knot_rtol * scale in
  sortedQ bk && (2 * k <=? length bk)%nat &&
  Qle_bool (nthQ bk (k - 1)) (xmin + tol) && Qle_bool (xmax - tol) (nthQ bk (length bk - k)) &&
  (* computed options start exactly (to rounding) at the data range *)
  (if computed then close tol (nthQ bk (k - 1)) xmin && close tol (nthQ bk (length bk - k)) xmax else true).

Definition in_range (bk : list Q) (k : nat) (x : Q) : bool :=
  Qle_bool (nthQ bk (k - 1)) x && Qle_bool x (nthQ bk (length bk - k)).

(* the Cox-de Boor recursion evaluated with reduced fractions (Qred after every step): Bq == B, Blq == Bl,
   splineq == spline (C08/Proofs.v: Bq_eq, Blq_eq, splineq_eq, splineq_left_eq) -- only faster *)
Definition zmul (r b : Q) : Q := if Qeq_bool b 0 then 0 else r * b.   (* r * b, skipping the ratio when b = 0 *)
Fixpoint Bq (t : list Q) (m : nat) (i : nat) (x : Q) : Q :=
  match m with
  | O => if Qle_bool (nthQ t i) x && Qltb x (nthQ t (S i)) then 1 else 0
  | S m' =>
      Qred (zmul ((x - nthQ t i) / (nthQ t (i + m' + 1) - nthQ t i)) (Bq t m' i x)
            + zmul ((nthQ t (i + m' + 2) - x) / (nthQ t (i + m' + 2) - nthQ t (S i))) (Bq t m' (S i) x))
  end.
Fixpoint Blq (t : list Q) (m : nat) (i : nat) (x : Q) : Q :=
  match m with
  | O => if Qltb (nthQ t i) x && Qle_bool x (nthQ t (S i)) then 1 else 0
  | S m' =>
      Qred (zmul ((x - nthQ t i) / (nthQ t (i + m' + 1) - nthQ t i)) (Blq t m' i x)
            + zmul ((nthQ t (i + m' + 2) - x) / (nthQ t (i + m' + 2) - nthQ t (S i))) (Blq t m' (S i) x))
  end.
Fixpoint splineq_from (Bf : nat -> Q -> Q) (c : list Q) (i : nat) (x : Q) : Q :=
  match c with [] => 0 | a :: c' => Qred (a * Bf i x + splineq_from Bf c' (S i) x) end.
Definition splineq (t c : list Q) (k : nat) (x : Q) : Q := splineq_from (Bq t (k - 1)) c 0 x.
Definition splineq_left (t c : list Q) (k : nat) (x : Q) : Q := splineq_from (Blq t (k - 1)) c 0 x.

(* yy_i is the Cox-de Boor value with the (t_l, t_{l+1}] convention (C08_eval1_is_spline_left / _at_left_end); for k >= 2 on
   distinct knots this is also the textbook right-continuous value (C08_spline_left_eq_spline) *)
(* for orders >= 5 the (exponential, exact) textbook recursion is evaluated on every stride-th point only *)
Fixpoint every_nth {A} (stride phase : nat) (l : list A) : list A :=
  match l with
  | [] => []
  | a :: r => match phase with O => a :: every_nth stride (stride - 1) r | S p => every_nth stride p r end
  end.
Definition spec_stride (k n : nat) : nat := if (k <=? 4)%nat then 1%nat else S (n / 10).

Definition spec_values (bk : list Q) (k : nat) (coeff xe0 yy0 : list Q) : bool :=
  let st := spec_stride k (length xe0) in
  let xe := every_nth st 0 xe0 in let yy := every_nth st 0 yy0 in
  (length xe0 =? length yy0)%nat &&
  all2 (fun x y => if in_range bk k x
                   then (* the half-open convention of the reference implementation (IDL bspline_valu / pydl): segments are
                           (t_l, t_{l+1}], the first one also owns its left end t_{k-1}: left-continuous spline, except at t_{k-1} *)
                        if Qeq_bool x (nthQ bk (k - 1)) then close_rel rtol9 y (splineq bk coeff k x)
                        else close_rel rtol9 y (splineq_left bk coeff k x)
                   else true) xe yy.

Definition spec_mask (bk : list Q) (k : nat) (xe : list Q) (mask : list bool) : bool :=
  all2 (fun x m => Bool.eqb m (in_range bk k x)) xe mask.

(* basis values at in-range points: non-negative, sum to one *)
Definition spec_basis (bk : list Q) (k : nat) (xs_sorted : list Q) (bs : list (list Q)) : bool :=
  all2 (fun x row => if in_range bk k x
                     then close rtol9 (sumQ row) 1 && forallb (fun v => Qle_bool (- rtol9) v) row
                     else true) xs_sorted bs.

(* ---- model side *)
Definition model_knots (opt : bkopt) (xs : list Q) (k : nat) (bkspread : Q) (bk : list Q) : bool :=
  let scale := Qabs (lminQ xs) + Qabs (lmaxQ xs) + 1 in
  all2 (close (knot_rtol * scale)) (knots_of_option opt xs k bkspread) bk.

Definition model_eval (k : nat) (coeff : list Q) (ob : obsv) : bool :=
  let bk := o_bk ob in
  let bm := all_true (length bk) in
  let '(yy, mask) := value bk bm k coeff (o_xe ob) (o_perm ob) in
  let xs_sorted := apply_perm 0 (o_perm ob) (o_xe ob) in
  let idx := intrv bk k xs_sorted in
  sortedQ xs_sorted && is_perm (o_perm ob) (length (o_xe ob)) &&
  all2 (close_rel rtol9) (o_yy ob) yy &&
  all2 Bool.eqb (o_mask ob) mask &&
  all2 Nat.eqb (o_indx ob) idx &&
  all2 (fun row p => all2 (close_rel rtol9) row (bsplvn bk k (fst p) (snd p))) (o_bs ob) (combine xs_sorted idx) &&
  all2 (fun p q => Z.eqb (fst p) (fst q) && Z.eqb (snd p) (snd q))
       (combine (o_lower ob) (o_upper ob)) (action_ranges idx k (length bk - 2 * k + 1)).

Definition is_computed (o : bkopt) : bool :=
  match o with OBkpt _ => false | OPlaced _ => false | _ => true end.

(* verdict: +1 model differs from the implementation; +2 the implementation contradicts the specification *)
Definition run_case (c : case) : Z :=
  match c with
  | CVal opt xs k bkspread coeff ob =>
      let bk := o_bk ob in
      let xs_sorted := apply_perm 0 (o_perm ob) (o_xe ob) in
      let m_ok := model_knots opt xs k bkspread bk && model_eval k coeff ob in
      let s_ok := spec_knots bk k xs (is_computed opt) &&
                  spec_values bk k coeff (o_xe ob) (o_yy ob) &&
                  spec_mask bk k (o_xe ob) (o_mask ob) &&
                  spec_basis bk k xs_sorted (o_bs ob) in
      ((if m_ok then 0 else 1) + (if s_ok then 0 else 2))%Z
  | CHist k coeff ob =>
      let bk := o_bk ob in
      let xs_sorted := apply_perm 0 (o_perm ob) (o_xe ob) in
      let m_ok := model_eval k coeff ob in
      let s_ok := sortedQ bk && (2 * k <=? length bk)%nat &&
                  spec_values bk k coeff (o_xe ob) (o_yy ob) &&
                  spec_mask bk k (o_xe ob) (o_mask ob) &&
                  spec_basis bk k xs_sorted (o_bs ob) in
      ((if m_ok then 0 else 1) + (if s_ok then 0 else 2))%Z
  end.

Definition run_cases : list case -> list Z := map run_case.

(* diagnostic: which component failed (bit per component), used only in replay output *)
Definition diagnose (c : case) : list bool :=
  match c with
  | CVal opt xs k bkspread coeff ob =>
      let bk := o_bk ob in
      let xs_sorted := apply_perm 0 (o_perm ob) (o_xe ob) in
      [model_knots opt xs k bkspread bk; model_eval k coeff ob;
       spec_knots bk k xs (is_computed opt); spec_values bk k coeff (o_xe ob) (o_yy ob);
       spec_mask bk k (o_xe ob) (o_mask ob); spec_basis bk k xs_sorted (o_bs ob)]
  | CHist k coeff ob =>
      let bk := o_bk ob in
      let xs_sorted := apply_perm 0 (o_perm ob) (o_xe ob) in
      [true; model_eval k coeff ob; sortedQ bk; spec_values bk k coeff (o_xe ob) (o_yy ob);
       spec_mask bk k (o_xe ob) (o_mask ob); spec_basis bk k xs_sorted (o_bs ob)]
  end.
