(* C16 -- align=True: the pieces extracted from spec1d.py (Generated/Readspec.v: gen_align_ps, the rounding rule spelled
   over the rationals as np.floor(x/y + 0.5); gen_align_shift_new, gen_align_new_c0, gen_align_old_c0, the COEFF0
   updates) are the ones C16/AlignModel.v uses.  Hold or fail with the source. *)
From Coq Require Import ZArith List Bool Lia QArith Qround.
From PV Require Import Generated.Readspec C16.Model C16.AlignModel C16.Align.
Import ListNotations.
Open Scope Z_scope.

Lemma src_align_ps c0 min0 c1 : 0 < c1 -> gen_align_ps c0 min0 c1 = pixshift_of c0 min0 c1.
Proof.
  intros H. rewrite (pixshift_is_floor_half_up c0 min0 c1 H). unfold gen_align_ps, floor_half_up.
  apply Qfloor_comp. unfold Z.sub. rewrite inject_Z_plus, inject_Z_opp. reflexivity.
Qed.

Lemma src_align_step c1 acc all0 b c0 :
  align_step c1 (acc, all0) (b, c0) =
  let ps := pixshift_of c0 (list_min_Z 0 all0) c1 in
  (spec_append acc b ps,
   (if gen_align_shift_new ps then all0 else map (fun a => gen_align_old_c0 a ps c1) all0)
   ++ repeat (if gen_align_shift_new ps then gen_align_new_c0 c0 ps c1 else c0) (length b)).
Proof. reflexivity. Qed.
