From Coq Require Import QArith List.
From PV Require Import Lib.WLS C13.LinAlg C15.Model.
Open Scope Q_scope.
Lemma dof_spec0 : forall sq n, cc_dof sq n = (Z.of_nat (length (filter (fun s => Qlt_bool 0 s) sq)) - Z.of_nat n)%Z.
Proof. reflexivity. Qed.
