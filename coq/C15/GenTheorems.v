(* C15: the theorems of Chi2Proofs / HmfProofs* restated for computechi2, astep, gstep as assembled from the source's
   expressions (Generated/Chi2.v), through the bridging equalities of GenProofs.v.  The g-step statements carry the
   hypothesis 2 <= ncols s (the source's e[:, 0] = eps*g[:, 1] needs a second pixel). *)
From Coq Require Import QArith Qabs Lqa List Bool Lia ZArith.
From PV Require Import Lib.WLS C13.LinAlg C13.LinAlgProofs Generated.Chi2 C15.Model C15.Chi2Proofs C15.HmfProofs
                       C15.HmfProofs2 C15.HmfProofs3 C15.GenProofs.
Import ListNotations.
Open Scope Q_scope.

Theorem gen_chi2_optimal : forall b sq A r, computechi2 b sq A = Some r -> rows_len (ncols A) A ->
  length (c_acoeff r) = ncols A /\
  forall z, length z = ncols A -> chi2 (cc_data A sq b) (c_acoeff r) <= chi2 (cc_data A sq b) z.
Proof. intros b sq A r. rewrite computechi2_eq_ref. apply chi2_optimal. Qed.

Theorem gen_chi2_gradient_zero : forall b sq A r, computechi2 b sq A = Some r -> rows_len (ncols A) A ->
  forall d, gdot (cc_data A sq b) (c_acoeff r) d == 0.
Proof. intros b sq A r. rewrite computechi2_eq_ref. apply chi2_gradient_zero. Qed.

Theorem gen_chi2_value : forall b sq A r, computechi2 b sq A = Some r -> c_chi2 r == chi2 (cc_data A sq b) (c_acoeff r).
Proof. intros b sq A r. rewrite computechi2_eq_ref. apply chi2_value. Qed.

Theorem gen_covar_is_inverse : forall b sq A r, computechi2 b sq A = Some r ->
  let N := normal_mat (ncols A) (cc_data A sq b) in
  exists mm, meq mm N /\ meq (mat_mul (c_covar r) mm) (identity (length mm)) /\
             meq (mat_mul mm (c_covar r)) (identity (length mm)).
Proof. intros b sq A r. rewrite computechi2_eq_ref. apply covar_is_inverse. Qed.

Theorem gen_var_is_diag : forall b sq A r, computechi2 b sq A = Some r -> c_var r = diag (c_covar r).
Proof. intros b sq A r. rewrite computechi2_eq_ref. apply var_is_diag. Qed.

Theorem gen_dof_spec : forall b sq A r, computechi2 b sq A = Some r ->
  c_dof r = (Z.of_nat (length (filter (fun s => Qlt_bool 0 s) sq)) - Z.of_nat (ncols A))%Z.
Proof. intros b sq A r. rewrite computechi2_eq_ref. apply dof_spec. Qed.

Theorem gen_yfit_spec : forall b sq A r, computechi2 b sq A = Some r -> c_yfit r = mat_vec A (c_acoeff r).
Proof. intros b sq A r. rewrite computechi2_eq_ref. apply yfit_spec. Qed.

Theorem gen_astep_optimal_rowwise : forall s w g a' i si wi ai,
  astep s w g = Some a' ->
  nth_error s i = Some si -> nth_error w i = Some wi -> nth_error a' i = Some ai ->
  Forall (fun v => 0 <= v) wi ->
  length ai = length g /\
  (forall d, gdot (hmf_row_data g wi si) ai d == 0) /\
  forall z, length z = length g -> chi2 (hmf_row_data g wi si) ai <= chi2 (hmf_row_data g wi si) z.
Proof. intros s w g. rewrite astep_eq_ref. apply astep_optimal_rowwise. Qed.

Theorem gen_gstep_col_optimal : forall s w a g eps j x,
  (2 <= ncols s)%nat -> (j < ncols s)%nat ->
  gstep_col s w a g eps (ncols a) (ncols s) j = Some x ->
  rows_len (ncols a) a -> Forall (fun v => 0 <= v) (col j w) ->
  length x = ncols a /\
  (forall d, length d = ncols a -> gdot (gstep_objective s w a g eps j) x d == 0) /\
  forall z, length z = ncols a -> chi2 (gstep_objective s w a g eps j) x <= chi2 (gstep_objective s w a g eps j) z.
Proof. intros s w a g eps j x HM Hj. rewrite (gstep_col_eq_ref _ _ _ _ _ _ _ _ HM Hj). apply gstep_col_optimal. Qed.

Theorem gen_gstep_optimal_colwise : forall s w a g eps g',
  (2 <= ncols s)%nat ->
  gstep s w a g eps = Some g' -> rows_len (ncols a) a -> Forall (Forall (fun v => 0 <= v)) w ->
  exists cols, g' = transpose cols /\ length cols = ncols s /\
    forall j x, nth_error cols j = Some x ->
      length x = ncols a /\
      forall z, length z = ncols a -> chi2 (gstep_objective s w a g eps j) x <= chi2 (gstep_objective s w a g eps j) z.
Proof. intros s w a g eps g' HM. rewrite (gstep_eq_ref _ _ _ _ _ HM). apply gstep_optimal_colwise. Qed.

Theorem gen_badness_nonincreasing_astep : forall s w a g eps anew,
  astep s w g = Some anew ->
  length a = length s -> length w = length s -> rows_len (length g) a -> Forall (Forall (fun v => 0 <= v)) w ->
  badness s w anew g eps <= badness s w a g eps.
Proof. intros s w a g eps anew. rewrite astep_eq_ref. apply badness_nonincreasing_astep. Qed.

Theorem gen_badness_nonincreasing_gstep : forall s w a g eps gnew,
  (2 <= ncols s)%nat ->
  gstep s w a g eps = Some gnew -> eps_active eps = None ->
  (0 < length s)%nat -> (0 < ncols s)%nat ->
  Forall (fun r => length r = ncols s) s -> Forall (fun r => length r = ncols s) w ->
  length w = length s -> length a = length s -> rows_len (ncols a) a ->
  length g = ncols a -> ncols g = ncols s ->
  Forall (Forall (fun v => 0 <= v)) w ->
  chi2_mat s w a gnew <= chi2_mat s w a g.
Proof. intros s w a g eps gnew HM. rewrite (gstep_eq_ref _ _ _ _ _ HM). apply badness_nonincreasing_gstep. Qed.

Theorem gen_badness_nonincreasing_gstep_None : forall s w a g gnew,
  (2 <= ncols s)%nat ->
  gstep s w a g None = Some gnew ->
  (0 < length s)%nat -> (0 < ncols s)%nat ->
  Forall (fun r => length r = ncols s) s -> Forall (fun r => length r = ncols s) w ->
  length w = length s -> length a = length s -> rows_len (ncols a) a ->
  length g = ncols a -> ncols g = ncols s ->
  Forall (Forall (fun v => 0 <= v)) w ->
  badness s w a gnew None <= badness s w a g None.
Proof. intros s w a g gnew HM. rewrite (gstep_eq_ref _ _ _ _ _ HM). apply badness_nonincreasing_gstep_None. Qed.
