(* Yanny/TokenFacts.v -- token level: protect / get_token / arrays / quote parity / the double-brace
   rewrite / strip, each as a lemma of the form  F (token ++ rest) = ... *)
From Coq Require Import NArith ZArith List Bool Lia.
Import ListNotations.
From PV Require Import Yanny.Bytes Yanny.BytesFacts Yanny.Types Yanny.Parse Yanny.Render.
Open Scope N_scope.

(* what get_token needs of a string to give it back: no double quote, no leading brace *)
Definition tok_ok (s : bytes) : bool :=
  negb (mem QUOTE s) && match s with c :: _ => negb (c =? LBRACE) | [] => true end.
Definition etok_ok (s : bytes) : bool := tok_ok s && negb (mem RBRACE s).

Lemma forallb_impl {A} (p q : A -> bool) l : (forall x, p x = true -> q x = true) -> forallb p l = true -> forallb q l = true.
Proof. intros H. induction l; simpl; auto. intros E. apply andb_true_iff in E as [E1 E2]. rewrite H, IHl; auto. Qed.

Lemma str_ok_tok_ok s : str_ok s = true -> tok_ok s = true.
Proof.
  unfold str_ok, tok_ok. intros H. apply andb_true_iff in H as [H _]. apply andb_true_iff in H as [H1 H2].
  rewrite H2, andb_true_r. apply negb_true_iff. apply mem_false_forallb.
  eapply forallb_impl; [|exact H1]. intros x Hx. now apply andb_true_iff in Hx as [_ Hx].
Qed.

Lemma elt_ok_etok_ok s : elt_ok s = true -> etok_ok s = true.
Proof.
  unfold elt_ok, etok_ok. intros H. apply andb_true_iff in H as [H1 H2]. now rewrite str_ok_tok_ok, H2.
Qed.

(* ---- protect ---- *)
Lemma needs_quote_false s : needs_quote s = false ->
  s <> [] /\ forallb not_ws s = true /\ mem HASH s = false.
Proof.
  unfold needs_quote. destruct s as [|c s]; [discriminate|]. intros H. split; [discriminate|].
  remember (c :: s) as t. clear Heqt. unfold mem. induction t as [|x t IH]; cbn [existsb forallb] in *; auto.
  apply orb_false_iff in H as [Hx Ht]. apply orb_false_iff in Hx as [Hh Hw].
  destruct (IH Ht) as [A B]. split.
  - unfold not_ws at 1. now rewrite Hw, A.
  - apply orb_false_iff. split; auto. now rewrite N.eqb_sym.
Qed.

Lemma protect_quoted s : needs_quote s = true -> protect s = QUOTE :: s ++ [QUOTE].
Proof. unfold protect. now intros ->. Qed.
Lemma protect_bare s : needs_quote s = false -> protect s = s.
Proof. unfold protect. now intros ->. Qed.

Definition head_is (p : N -> bool) (r : bytes) : Prop := match r with c :: _ => p c = true | [] => True end.

Lemma not_ws_head s : s <> [] -> forallb not_ws s = true -> head_not_ws s.
Proof. destruct s; [congruence|]. simpl. intros _ H. apply andb_true_iff in H as [H _]. now apply negb_true_iff. Qed.

Lemma protect_head_not_ws s : head_not_ws (protect s).
Proof.
  destruct (needs_quote s) eqn:E.
  - rewrite protect_quoted by auto. reflexivity.
  - rewrite protect_bare by auto. destruct (needs_quote_false s E) as [A [B _]]. now apply not_ws_head.
Qed.

Lemma protect_nonempty s : protect s <> [].
Proof.
  destruct (needs_quote s) eqn:E.
  - rewrite protect_quoted by auto. discriminate.
  - rewrite protect_bare by auto. now destruct (needs_quote_false s E).
Qed.

Lemma protect_last_not_ws s : last_not_ws (protect s).
Proof.
  destruct (needs_quote s) eqn:E.
  - rewrite protect_quoted by auto. change (QUOTE :: s ++ [QUOTE]) with ((QUOTE :: s) ++ [QUOTE]).
    now apply last_not_ws_app.
  - rewrite protect_bare by auto. destruct (needs_quote_false s E) as [A [B _]].
    unfold last_not_ws. destruct (rev s) as [|c r] eqn:Er; auto.
    assert (In c s) by (apply in_rev; rewrite Er; now left).
    rewrite forallb_forall in B. apply B in H. now apply negb_true_iff.
Qed.

(* ---- get_token ---- *)
Lemma get_token_quoted s r : mem QUOTE s = false -> get_token (QUOTE :: s ++ QUOTE :: r) = Some (s, lstrip r).
Proof.
  intros H. cbn [get_token]. change (QUOTE =? QUOTE) with true. cbv iota.
  rewrite span_app_stop; [reflexivity| |].
  - apply mem_false_forallb in H. eapply forallb_impl; [|exact H]. auto.
  - unfold not_c. now rewrite N.eqb_refl.
Qed.

Lemma get_token_bare_eol s : s <> [] -> tok_ok s = true -> forallb not_ws s = true -> get_token s = Some (s, []).
Proof.
  intros Hn Hok Hw. destruct s as [|c s]; [congruence|]. unfold tok_ok in Hok.
  apply andb_true_iff in Hok as [Hq Hb]. cbn [get_token].
  assert (c =? QUOTE = false) as ->.
  { apply negb_true_iff in Hq. simpl in Hq. apply orb_false_iff in Hq as [Hq _]. now rewrite N.eqb_sym. }
  apply negb_true_iff in Hb. rewrite Hb. now rewrite span_all.
Qed.

Lemma get_token_bare s c r : s <> [] -> tok_ok s = true -> forallb not_ws s = true -> is_ws c = true ->
  get_token (s ++ c :: r) = Some (s, lstrip (c :: r)).
Proof.
  intros Hn Hok Hw Hc. destruct s as [|x s]; [congruence|]. unfold tok_ok in Hok.
  apply andb_true_iff in Hok as [Hq Hb]. cbn [get_token app].
  assert (x =? QUOTE = false) as ->.
  { apply negb_true_iff in Hq. simpl in Hq. apply orb_false_iff in Hq as [Hq _]. now rewrite N.eqb_sym. }
  apply negb_true_iff in Hb. rewrite Hb.
  change (x :: s ++ c :: r) with ((x :: s) ++ c :: r).
  rewrite span_app_stop; auto. unfold not_ws. now rewrite Hc.
Qed.

(* the round trip of one protected token, for every separator the writer emits *)
Theorem protect_token_sep s w rest : tok_ok s = true -> w <> [] -> all_ws w = true -> head_not_ws rest ->
  get_token (protect s ++ w ++ rest) = Some (s, rest).
Proof.
  intros Hok Hw Haw Hr. destruct (needs_quote s) eqn:E.
  - rewrite protect_quoted by auto.
    change ((QUOTE :: s ++ [QUOTE]) ++ w ++ rest) with (QUOTE :: (s ++ [QUOTE]) ++ w ++ rest).
    rewrite <- app_assoc. cbn [app].
    assert (Hq : mem QUOTE s = false).
    { unfold tok_ok in Hok. apply andb_true_iff in Hok as [Hq _]. now apply negb_true_iff. }
    destruct w as [|c w]; [congruence|]. rewrite get_token_quoted by auto.
    now rewrite lstrip_ws_app_id.
  - rewrite protect_bare by auto. destruct (needs_quote_false s E) as [A [B _]].
    destruct w as [|c w]; [congruence|]. cbn [app]. simpl in Haw. apply andb_true_iff in Haw as [Hc Haw].
    rewrite get_token_bare; auto. change (c :: w ++ rest) with ((c :: w) ++ rest).
    f_equal. f_equal. apply lstrip_ws_app_id; auto. simpl. now rewrite Hc.
Qed.

Theorem protect_token_eol s : tok_ok s = true -> get_token (protect s) = Some (s, []).
Proof.
  intros Hok. destruct (needs_quote s) eqn:E.
  - rewrite protect_quoted by auto.
    assert (Hq : mem QUOTE s = false).
    { unfold tok_ok in Hok. apply andb_true_iff in Hok as [Hq _]. now apply negb_true_iff. }
    pose proof (get_token_quoted s [] Hq) as H. exact H.
  - rewrite protect_bare by auto. destruct (needs_quote_false s E) as [A [B _]]. now apply get_token_bare_eol.
Qed.

(* ---- arrays ---- *)
Lemma join_protect_head l : head_not_ws (join [SP] (map protect l)).
Proof.
  destruct l as [|x l]; simpl; auto. destruct (map protect l) eqn:E.
  - apply protect_head_not_ws.
  - pose proof (protect_head_not_ws x) as H. pose proof (protect_nonempty x) as Hn.
    destruct (protect x); [congruence|]. exact H.
Qed.

Lemma split_array_join l : forall fuel, forallb tok_ok l = true ->
  (length (join [SP] (map protect l)) < fuel)%nat ->
  split_array fuel (join [SP] (map protect l)) = Some l.
Proof.
  induction l as [|x l IH]; intros fuel Hok Hf.
  - destruct fuel; reflexivity.
  - cbn [forallb] in Hok. apply andb_true_iff in Hok as [Hx Hl].
    destruct fuel as [|k]; [lia|].
    destruct l as [|y l].
    + cbn [map join] in *. pose proof (protect_nonempty x) as Hn.
      cbn [split_array]. destruct (protect x) eqn:E; [congruence|]. rewrite <- E.
      rewrite protect_token_eol by auto. simpl. destruct k; reflexivity.
    + change (map protect (x :: y :: l)) with (protect x :: protect y :: map protect l) in *.
      rewrite join_cons in *. pose proof (protect_nonempty x) as Hn.
      cbn [split_array]. destruct (protect x ++ [SP] ++ join [SP] (protect y :: map protect l)) eqn:E.
      { destruct (protect x); [congruence|discriminate]. }
      rewrite <- E.
      rewrite (protect_token_sep x [SP]); auto; [|discriminate|apply (join_protect_head (y :: l))].
      change (protect y :: map protect l) with (map protect (y :: l)).
      rewrite IH; auto. rewrite <- E in Hf. rewrite !app_length in Hf.
      change (length [SP]) with 1%nat in Hf.
      change (protect y :: map protect l) with (map protect (y :: l)) in Hf. lia.
Qed.

Lemma mem_join_protect c l : c <> QUOTE -> c <> SP -> forallb (fun s => negb (mem c s)) l = true ->
  mem c (join [SP] (map protect l)) = false.
Proof.
  intros Hq Hs. induction l as [|x l IH]; intros H; [reflexivity|].
  cbn [forallb] in H. apply andb_true_iff in H as [Hx Hl]. apply negb_true_iff in Hx.
  assert (Hp : mem c (protect x) = false).
  { unfold protect. destruct (needs_quote x); auto. simpl. rewrite mem_app. simpl.
    rewrite Hx. apply N.eqb_neq in Hq. rewrite Hq. reflexivity. }
  destruct l as [|y l]; [exact Hp|].
  change (map protect (x :: y :: l)) with (protect x :: protect y :: map protect l).
  rewrite join_cons. rewrite !mem_app, Hp. simpl. apply N.eqb_neq in Hs. rewrite Hs. simpl.
  apply IH. exact Hl.
Qed.

(* the brace token as a whole, then its elements *)
Theorem array_token l w rest : forallb etok_ok l = true -> all_ws w = true -> head_not_ws rest ->
  get_token (LBRACE :: join [SP] (map protect l) ++ [RBRACE] ++ w ++ rest)
  = Some (join [SP] (map protect l), rest).
Proof.
  intros Hok Hw Hr. cbn [get_token]. change (LBRACE =? QUOTE) with false. change (LBRACE =? LBRACE) with true. cbv iota.
  rewrite lstrip_id.
  - cbn [app]. rewrite span_app_stop.
    + now rewrite lstrip_ws_app_id.
    + apply mem_false_forallb. apply mem_join_protect; try discriminate.
      eapply forallb_impl; [|exact Hok]. intros x Hx. unfold etok_ok in Hx. now apply andb_true_iff in Hx as [_ Hx].
    + unfold not_c. now rewrite N.eqb_refl.
  - pose proof (join_protect_head l) as H. destruct (join [SP] (map protect l)); simpl; auto.
Qed.

Theorem array_roundtrip l : forallb etok_ok l = true ->
  split_array (S (length (join [SP] (map protect l)))) (join [SP] (map protect l)) = Some l.
Proof.
  intros H. apply split_array_join; [|lia].
  eapply forallb_impl; [|exact H]. intros x Hx. unfold etok_ok in Hx. now apply andb_true_iff in Hx as [Hx _].
Qed.

(* ---- quote parity: trailing_comment leaves a line alone when every # is followed by an odd number of quotes ---- *)
Fixpoint qscan (s : bytes) : bool * bool :=
  match s with
  | [] => (true, true)
  | c :: s' => let '(ok, ev) := qscan s' in
               if c =? QUOTE then (ok, negb ev) else if c =? HASH then (ok && negb ev, ev) else (ok, ev)
  end.
Definition hash_safe (s : bytes) : bool := fst (qscan s).
Definition quotes_even (s : bytes) : bool := snd (qscan s).

Lemma qscan_even s : snd (qscan s) = Nat.even (count QUOTE s).
Proof.
  induction s as [|c s IH]; [reflexivity|]. unfold count in *. cbn [qscan filter].
  destruct (qscan s) as [ok ev]. cbn [snd] in IH.
  rewrite (N.eqb_sym QUOTE c). destruct (c =? QUOTE) eqn:E.
  - cbn [snd length]. rewrite IH, Nat.even_succ. now rewrite Nat.negb_even.
  - destruct (c =? HASH); cbn [snd]; auto.
Qed.

Lemma qscan_app a b : quotes_even b = true ->
  qscan (a ++ b) = (hash_safe a && hash_safe b, quotes_even a).
Proof.
  unfold hash_safe, quotes_even. intros Hb. induction a as [|c a IH]; cbn [app qscan].
  - destruct (qscan b); cbn [fst snd] in *. now subst.
  - rewrite IH. destruct (qscan a) as [ok ev]. cbn [fst snd].
    destruct (c =? QUOTE); cbn [fst snd]; auto. destruct (c =? HASH); cbn [fst snd]; auto.
    f_equal. destruct ok, (fst (qscan b)), ev; reflexivity.
Qed.

Lemma hash_safe_app a b : quotes_even b = true -> hash_safe (a ++ b) = hash_safe a && hash_safe b.
Proof. intros H. unfold hash_safe at 1. now rewrite qscan_app. Qed.
Lemma quotes_even_app a b : quotes_even b = true -> quotes_even (a ++ b) = quotes_even a.
Proof. intros H. unfold quotes_even at 1. now rewrite qscan_app. Qed.

Lemma mem_cons_false c x s : mem c (x :: s) = false -> (x =? c) = false /\ mem c s = false.
Proof. unfold mem. cbn [existsb]. intros H. apply orb_false_iff in H as [H1 H2]. split; auto. now rewrite N.eqb_sym. Qed.

Lemma qscan_plain s : mem QUOTE s = false -> mem HASH s = false -> qscan s = (true, true).
Proof.
  induction s as [|c s IH]; [reflexivity|]. intros Hq Hh.
  apply mem_cons_false in Hq as [Hq1 Hq2]. apply mem_cons_false in Hh as [Hh1 Hh2].
  cbn [qscan]. rewrite IH by auto. now rewrite Hq1, Hh1.
Qed.

Lemma qscan_noquote s : mem QUOTE s = false -> snd (qscan s) = true.
Proof.
  induction s as [|c s IH]; [reflexivity|]. intros Hq. apply mem_cons_false in Hq as [Hq1 Hq2].
  specialize (IH Hq2). cbn [qscan]. destruct (qscan s). cbn [snd] in *. subst. rewrite Hq1.
  destruct (c =? HASH); reflexivity.
Qed.

(* inside a quoted token any # is fine *)
Lemma qscan_quoted s : mem QUOTE s = false -> qscan (QUOTE :: s ++ [QUOTE]) = (true, true).
Proof.
  intros Hq. cbn [qscan]. change (QUOTE =? QUOTE) with true.
  assert (H : qscan (s ++ [QUOTE]) = (true, false)).
  { induction s as [|c s IH]; [reflexivity|]. apply mem_cons_false in Hq as [Hq1 Hq2].
    cbn [app qscan]. rewrite IH by auto. rewrite Hq1. destruct (c =? HASH); reflexivity. }
  now rewrite H.
Qed.

Lemma qscan_protect s : mem QUOTE s = false -> qscan (protect s) = (true, true).
Proof.
  intros Hq. destruct (needs_quote s) eqn:E.
  - rewrite protect_quoted by auto. now apply qscan_quoted.
  - rewrite protect_bare by auto. apply qscan_plain; auto. now destruct (needs_quote_false s E) as [_ [_ H]].
Qed.

Lemma trailing_comment_safe s : hash_safe s = true -> trailing_comment s = s.
Proof.
  unfold trailing_comment, hash_safe. intros H. destruct (rsplit_at HASH s) as [[a b]|] eqn:E; auto.
  destruct (rsplit_at_spec _ _ _ _ E) as [-> [b' [-> Hb']]].
  assert (Hev : Nat.even (count QUOTE (HASH :: b')) = false).
  { rewrite <- qscan_even.
    assert (G : forall a, fst (qscan (a ++ HASH :: b')) = true -> snd (qscan (HASH :: b')) = false).
    { clear. induction a as [|c a IH]; cbn [app].
      - cbn [qscan]. destruct (qscan b') as [ok ev]. change (HASH =? QUOTE) with false. rewrite N.eqb_refl. cbn [fst snd].
        intros H. apply andb_true_iff in H as [_ H]. now apply negb_true_iff.
      - cbn [qscan]. destruct (qscan (a ++ HASH :: b')) as [ok ev] eqn:E. cbn [fst snd] in IH.
        destruct (c =? QUOTE); cbn [fst]; auto. destruct (c =? HASH); cbn [fst]; auto.
        intros H. apply andb_true_iff in H as [H _]. auto. }
    apply (G a H). }
  now rewrite Hev.
Qed.

(* ---- the double-brace rewrite ---- *)
Lemma dbl_copy a : forall r, dbl_aux (length a) 0 (a ++ r) = a ++ dbl_aux 0 0 r.
Proof. induction a as [|c a IH]; intros r; [reflexivity|]. cbn [length app dbl_aux]. now rewrite IH. Qed.

Lemma dbl_word w r : w <> [] -> forallb not_ws w = true ->
  match w with c :: _ => (c =? QUOTE) = false /\ (c =? LBRACE) = false | [] => True end ->
  match r with c :: _ => is_ws c = true | [] => True end ->
  dbl_aux 0 0 (w ++ r) = w ++ dbl_aux 0 0 r.
Proof.
  intros Hn Hw Hh Hr. destruct w as [|c w]; [congruence|]. destruct Hh as [Hq Hb].
  cbn [forallb] in Hw. apply andb_true_iff in Hw as [Hc Hw]. unfold not_ws in Hc.
  cbn [app dbl_aux]. rewrite Hq, Hb. simpl andb. rewrite Hc. cbv iota.
  assert (E : fst (span not_ws (w ++ r)) = w).
  { destruct r as [|x r].
    - rewrite app_nil_r. now rewrite span_all.
    - rewrite span_app_stop; auto. unfold not_ws. now rewrite Hr. }
  rewrite E. now rewrite dbl_copy.
Qed.

Lemma dbl_quoted s r : mem QUOTE s = false ->
  dbl_aux 0 0 (QUOTE :: s ++ QUOTE :: r) = QUOTE :: s ++ QUOTE :: dbl_aux 0 0 r.
Proof.
  intros Hq. cbn [dbl_aux]. change (QUOTE =? QUOTE) with true.
  assert (M : mem QUOTE (s ++ QUOTE :: r) = true).
  { rewrite mem_app. simpl. now rewrite orb_true_r. }
  rewrite M. simpl andb. cbv iota.
  rewrite span_app_stop.
  - cbn [fst]. f_equal.
    change (S (length s)) with (length (s ++ [QUOTE])) || idtac.
    replace (S (length s)) with (length (s ++ [QUOTE])) by (rewrite app_length; simpl; lia).
    replace (s ++ QUOTE :: r) with ((s ++ [QUOTE]) ++ r) by (now rewrite <- app_assoc).
    rewrite dbl_copy. now rewrite <- app_assoc.
  - apply mem_false_forallb in Hq. eapply forallb_impl; [|exact Hq]. auto.
  - unfold not_c. now rewrite N.eqb_refl.
Qed.

Lemma dbl_ws c r : is_ws c = true -> dbl_aux 0 0 (c :: r) = c :: dbl_aux 0 0 r.
Proof.
  intros Hc. cbn [dbl_aux].
  assert (c =? QUOTE = false) as ->.
  { apply N.eqb_neq. intros ->. discriminate. }
  rewrite Hc. simpl andb. cbv iota.
  assert (c =? LBRACE = false) as E.
  { apply N.eqb_neq. intros ->. discriminate. }
  unfold match_dbl. now rewrite E.
Qed.

(* an opening brace directly followed by something that is neither blank nor another opening brace *)
Lemma dbl_open r : match r with c :: _ => is_ws c = false /\ (c =? LBRACE) = false | [] => True end ->
  dbl_aux 0 0 (LBRACE :: r) = LBRACE :: dbl_aux 0 0 r.
Proof.
  intros Hr. cbn [dbl_aux]. change (LBRACE =? QUOTE) with false. change (is_ws LBRACE) with false.
  change (LBRACE =? LBRACE) with true. simpl andb. cbv iota.
  unfold match_dbl. change (LBRACE =? LBRACE) with true. cbv iota.
  destruct r as [|c r]; [reflexivity|]. destruct Hr as [Hw Hb]. cbn [lstrip]. rewrite Hw, Hb. reflexivity.
Qed.

Lemma dbl_nil : dbl_aux 0 0 [] = [].
Proof. reflexivity. Qed.
