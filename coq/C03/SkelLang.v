(* C03 -- the statement language in which translate/c03.py writes down yanny.write() and yanny.append()
   (coq/Generated/YannyOps.v).  TYPES ONLY (plus one syntactic test); the meaning is C03/SkelSem.v. *)
From Coq Require Import List String Bool.
Import ListNotations.
Local Open Scope string_scope.

(* expressions (strings, lists of strings) *)
Inductive sx :=
  | XLit (s : string)                       (* a string constant *)
  | XLocal (v : string)                     (* a local variable / argument *)
  | XSelf (a : string)                      (* self.filename, self._contents *)
  | XCat (a b : sx)                         (* a + b *)
  | XFmt (fmt : string) (args : list sx)    (* fmt.format(args) *)
  | XNow (fmt : string)                     (* datetime.datetime.utcnow().strftime(fmt) *)
  | XJoin (sep : string) (l : sx)           (* sep.join(l) *)
  | XMapFmt (fmt : string) (l : sx)         (* [fmt.format(c) for c in l] *)
  | XSymbols (kind : string)                (* self._symbols[kind] *)
  | XSelfItem (k : sx)                      (* self[k] *)
  | XItem (d : string) (k : sx)             (* d[k] *)
  | XUpper (a : sx) | XLower (a : sx)       (* a.upper(), a.lower() *)
  | XOpaque (src : string).                 (* anything else, by its source text *)

Inductive scont := CSelfTables | CName (d : string) | COpaque (src : string).

(* conditions *)
Inductive sg :=
  | GIsNone (v : string)                    (* v is None *)
  | GLenPos (a : sx) | GLenZero (a : sx)    (* len(a) > 0, len(a) == 0 *)
  | GAccess (p : sx) (mode : string)        (* os.access(p, os.<mode>) *)
  | GNot (g : sg) | GOr (a b : sg) | GAnd (a b : sg)
  | GEq (a b : sx)
  | GIn (a : sx) (c : scont)                (* a in c *)
  | GIsInstance (v : string) (ty : string)
  | GEndsWith (a : sx) (suffix : string) | GStartsWith (a : sx) (prefix : string)
  | GOpaque (src : string).

Inductive siter := ISelfPairs | ISelfTables | IDictKeys (d : string) | IOpaque (src : string).

(* statements *)
Inductive st :=
  | SIf (g : sg) (a b : list st)
  | SRaise (exc : string)
  | SWarn (cat : string)
  | SReturn
  | SContinue
  | SAssign (v : string) (e : sx) | SAug (v : string) (e : sx)            (* v = e, v += e *)
  | SSetSelf (a : string) (e : sx) | SAugSelf (a : string) (e : sx)      (* self.a = e, self.a += e *)
  | SOpenWrite (path : sx) (mode : string) (data : sx)                   (* with open(path, mode) as f: f.write(data) *)
  | SParse                                                               (* self._parse() *)
  | SFor (v : string) (it : siter) (body : list st)
  | SRows (src : string)                                                 (* the per-row loop `for k in range(..)`, by its source text *)
  | SOpaque (src : string).

(* does append() terminate an unterminated last line before its marker?  (a statement
   `if len(self._contents) > 0 and not self._contents.endswith('\n'): contents = '\n' + contents` inside the
   `if len(contents) > 0:` branch; the obligation C03_source_append_skeleton pins the exact shape and place) *)
Definition is_terminator (s : st) : bool :=
  match s with SIf (GAnd _ (GNot (GEndsWith _ _))) _ _ => true | _ => false end.
Definition skel_has_terminator (l : list st) : bool :=
  existsb (fun s => match s with SIf (GLenPos (XLocal _)) body _ => existsb is_terminator body | _ => false end) l.
