(* C06 -- SDSS objID/specObjID packing is a bijection with the documented bit layout.
   Property theorems only; each is closed by `exact` and followed by Print Assumptions.
   The expressions and range checks objid_expr, objid_checks, unwrap_..., run2d_..., mjd_offset_...
   are GENERATED from /repo on every run (Generated/SdssIds.v). *)
From Coq Require Import ZArith List Bool.
Import ListNotations.
From PV Require Import Lib.Bits Lib.NumpyInt C06.Strings C06.StringProofs Generated.SdssIds C06.Model C06.Proofs C06.Typed
  C06.TypedProofs C06.Unwrap C06.UnwrapProofs.
Open Scope Z_scope.

(* the range checks in the source are exactly the documented ranges *)
Theorem C06_objid_checks_are_documented : forall s rr r c f fi o,
  checks_ok objid_checks [s; rr; r; c; f; fi; o] = objid_doc_ranges [s; rr; r; c; f; fi; o].
Proof. exact objid_checks_are_documented. Qed.
Print Assumptions C06_objid_checks_are_documented.

(* packed value = documented layout: each field at its own position *)
Theorem C06_objid_layout : forall s rr r c f fi o,
  checks_ok objid_checks [s; rr; r; c; f; fi; o] = true ->
  objid_expr s rr r c f fi o = pack objid_table [s; rr; r; c; f; fi; o].
Proof. exact objid_layout. Qed.
Print Assumptions C06_objid_layout.

(* ... and no other bit set: every bit of the ID is owned by the field whose range contains it *)
Theorem C06_objid_bits : forall s rr r c f fi o b,
  checks_ok objid_checks [s; rr; r; c; f; fi; o] = true -> 0 <= b ->
  Z.testbit (objid_expr s rr r c f fi o) b = bit_owner objid_table [s; rr; r; c; f; fi; o] b.
Proof. exact objid_bits. Qed.
Print Assumptions C06_objid_bits.

(* the int64 arithmetic never wraps (bit 63 stays clear) *)
Theorem C06_objid_no_wrap : forall s rr r c f fi o,
  checks_ok objid_checks [s; rr; r; c; f; fi; o] = true -> 0 <= objid_expr s rr r c f fi o < 2 ^ 63.
Proof. exact objid_no_wrap. Qed.
Print Assumptions C06_objid_no_wrap.

Theorem C06_unwrap_objid_pack : forall s rr r c f fi o,
  checks_ok objid_checks [s; rr; r; c; f; fi; o] = true ->
  unwrap_objid_model (objid_expr s rr r c f fi o) = [s; rr; r; c; f; fi; o].
Proof. exact unwrap_objid_pack. Qed.
Print Assumptions C06_unwrap_objid_pack.

Theorem C06_pack_unwrap_objid : forall id, 0 <= id < 2 ^ 63 -> objid_of (unwrap_objid_model id) = id.
Proof. exact pack_unwrap_objid. Qed.
Print Assumptions C06_pack_unwrap_objid.

(* out-of-range => ValueError in the model, never an ID *)
Theorem C06_objid_model_rejects : forall d run camcol field objnum rerun sky ff ids,
  objid_model d (Sc run) (Sc camcol) (Sc field) (Sc objnum) (Sc rerun) (Sc sky) (Sc ff) = Ok ids ->
  objid_doc_ranges [sky; rerun; run; camcol; ff; field; objnum] = true.
Proof. exact objid_model_rejects. Qed.
Print Assumptions C06_objid_model_rejects.

Theorem C06_specobjid_checks_are_documented : forall p f m r l i,
  checks_ok specobjid_checks [p; f; m; r; l; i] = specobjid_doc_ranges [p; f; m; r; l; i].
Proof. exact specobjid_checks_are_documented. Qed.
Print Assumptions C06_specobjid_checks_are_documented.

Theorem C06_specobjid_layout : forall p f m r l i,
  checks_ok specobjid_checks [p; f; m; r; l; i] = true -> (l = 0 \/ i = 0) ->
  specobjid_expr p f m r l i = pack specobjid_table [p; f; m; r; l + i].
Proof. exact specobjid_layout. Qed.
Print Assumptions C06_specobjid_layout.

Theorem C06_specobjid_bits : forall p f m r l i b,
  checks_ok specobjid_checks [p; f; m; r; l; i] = true -> (l = 0 \/ i = 0) -> 0 <= b ->
  Z.testbit (specobjid_expr p f m r l i) b = bit_owner specobjid_table [p; f; m; r; l + i] b.
Proof. exact specobjid_bits. Qed.
Print Assumptions C06_specobjid_bits.

(* the uint64 arithmetic never wraps *)
Theorem C06_specobjid_no_wrap : forall p f m r l i,
  checks_ok specobjid_checks [p; f; m; r; l; i] = true -> (l = 0 \/ i = 0) ->
  0 <= specobjid_expr p f m r l i < 2 ^ 64.
Proof. exact specobjid_no_wrap. Qed.
Print Assumptions C06_specobjid_no_wrap.

Theorem C06_unwrap_specobjid_pack : forall p f m r l i,
  checks_ok specobjid_checks [p; f; m; r; l; i] = true -> (l = 0 \/ i = 0) ->
  let id := specobjid_expr p f m r l i in
  unwrap_spec_plate id = p /\ unwrap_spec_fiber id = f /\ unwrap_spec_mjd id = m + 50000 /\
  unwrap_spec_run2d_int id = r /\ unwrap_spec_line id = l + i.
Proof. exact unwrap_specobjid_pack. Qed.
Print Assumptions C06_unwrap_specobjid_pack.

Theorem C06_pack_unwrap_specobjid : forall id, 0 <= id < 2 ^ 64 ->
  specobjid_expr (unwrap_spec_plate id) (unwrap_spec_fiber id) (unwrap_spec_mjd id - 50000)
                 (unwrap_spec_run2d_int id) (unwrap_spec_line id) 0 = id.
Proof. exact pack_unwrap_specobjid. Qed.
Print Assumptions C06_pack_unwrap_specobjid.

(* run2d: string form vN_M_P <-> integer form *)
Theorem C06_run2d_roundtrip : forall N M P, 0 <= M <= 99 -> 0 <= P <= 99 -> 5 <= N ->
  let r := run2d_of_NMP N M P in run2d_N r = N /\ run2d_M r = M /\ run2d_P r = P.
Proof. exact run2d_roundtrip. Qed.
Print Assumptions C06_run2d_roundtrip.

Theorem C06_run2d_roundtrip_inv : forall r, 0 <= r -> run2d_of_NMP (run2d_N r) (run2d_M r) (run2d_P r) = r.
Proof. exact run2d_roundtrip_inv. Qed.
Print Assumptions C06_run2d_roundtrip_inv.

Theorem C06_run2d_is_documented : forall N M P, run2d_of_NMP N M P = (N - 5) * 10000 + M * 100 + P.
Proof. exact run2d_is_documented. Qed.
Print Assumptions C06_run2d_is_documented.

(* MJD is a true MJD (> 50000) in both calling conventions *)
Theorem C06_mjd_conventions_agree : mjd_offset_scalar = 50000 /\ mjd_offset_array = 50000.
Proof. exact mjd_conventions_agree. Qed.
Print Assumptions C06_mjd_conventions_agree.

Theorem C06_specobjid_scalar_array_agree : forall p f m r,
  specobjid_model (Sc p) (Sc f) (Sc m) (R2int r) None None
  = specobjid_model (Ar [p]) (Ar [f]) (Ar [m]) (R2arr [r]) None None.
Proof. exact specobjid_scalar_array_agree. Qed.
Print Assumptions C06_specobjid_scalar_array_agree.

(* array calling convention, every length: the glue model is the row-wise documented behaviour *)
Theorem C06_objid_model_arrays : forall d r c f o rr s ff,
  objid_model d (Ar r) (Ar c) (Ar f) (Ar o) (Ar rr) (Ar s) (Ar ff) =
  let n := length r in
  let cols := [s; rr; r; c; ff; f; o] in
  if forallb (fun col => Nat.eqb (length col) n) cols then
    let rows := zip_rows cols n in
    if forallb objid_doc_ranges rows then Ok (map (pack objid_table) rows) else ValueError
  else ValueError.
Proof. exact objid_model_arrays. Qed.
Print Assumptions C06_objid_model_arrays.

Theorem C06_specobjid_model_arrays : forall p f m r (line : option (list Z)),
  specobjid_model (Ar p) (Ar f) (Ar m) (R2arr r) (option_map Ar line) None =
  let n := length p in
  let l := match line with Some l => l | None => repeat 0 n end in
  let cols := [p; f; map (fun z => z - 50000) m; r; l; repeat 0 n] in
  if forallb (fun col => Nat.eqb (length col) n) cols then
    let rows := zip_rows cols n in
    if forallb specobjid_doc_ranges rows then Ok (map spec_row_pack rows) else ValueError
  else ValueError.
Proof. exact specobjid_model_arrays. Qed.
Print Assumptions C06_specobjid_model_arrays.

(* ---- storage types: the same results in NumPy's fixed-width arithmetic, for array arguments of ANY integer type
   (int8 .. uint64) whose values are the given numbers.  objid_texpr / specobjid_texpr / mjd_array_texpr are the
   GENERATED typed expressions (they keep the astype casts of the source). ---- *)

(* the range analysis that licenses replacing fixed-width by unbounded arithmetic is sound, for every expression *)
Theorem C06_range_analysis_sound : forall ivs e st lo hi, tcheck ivs e = Some (st, lo, hi) ->
  forall env, env_ok ivs env ->
  exists t, teval env e = TVal t (zeval (map snd env) e)
            /\ match st with Some T => t = T | None => True end
            /\ lo <= zeval (map snd env) e <= hi.
Proof. exact tcheck_sound. Qed.
Print Assumptions C06_range_analysis_sound.

Theorem C06_objid_any_integer_type : forall ts vs, length vs = 7%nat -> all_fit ts vs ->
  objid_doc_ranges vs = true ->
  objid_typed_row (combine ts vs) = TOk I64 (pack objid_table vs).
Proof. exact objid_typed_layout. Qed.
Print Assumptions C06_objid_any_integer_type.

Theorem C06_objid_any_integer_type_rejects : forall ts vs, length vs = 7%nat -> length ts = 7%nat ->
  objid_doc_ranges vs = false -> objid_typed_row (combine ts vs) = TValueError.
Proof. exact objid_typed_rejects. Qed.
Print Assumptions C06_objid_any_integer_type_rejects.

(* m is the TRUE MJD; the conversion to MJD-50000 happens inside, in fixed-width arithmetic *)
Theorem C06_specobjid_any_integer_type : forall ts p f m r l i, all_fit ts [p; f; m; r; l; i] ->
  specobjid_doc_ranges [p; f; m - 50000; r; l; i] = true -> l = 0 \/ i = 0 ->
  specobjid_typed_row (combine ts [p; f; m; r; l; i]) = TOk U64 (pack specobjid_table [p; f; m - 50000; r; l + i]).
Proof. exact specobjid_typed_layout. Qed.
Print Assumptions C06_specobjid_any_integer_type.

(* an out-of-range value can never be wrapped into the accepted range by the fixed-width MJD conversion *)
Theorem C06_specobjid_any_integer_type_rejects : forall ts p f m r l i, all_fit ts [p; f; m; r; l; i] ->
  specobjid_doc_ranges [p; f; m - 50000; r; l; i] = false ->
  specobjid_typed_row (combine ts [p; f; m; r; l; i]) = TValueError.
Proof. exact specobjid_typed_rejects. Qed.
Print Assumptions C06_specobjid_any_integer_type_rejects.

(* ================= round 5 ================= *)

(* ---- the whole call, every argument a Python int or an array (any mix), defaults included ---- *)

Theorem C06_objid_model_total : forall d run camcol field objnum rerun sky ff,
  objid_model d run camcol field objnum rerun sky ff =
  let n := length (promote run) in
  let cols := objid_cols d run camcol field objnum rerun sky ff in
  if forallb (fun col => Nat.eqb (length col) n) cols then
    let rows := zip_rows cols n in
    if forallb objid_doc_ranges rows then Ok (map (pack objid_table) rows) else ValueError
  else ValueError.
Proof. exact objid_model_total. Qed.
Print Assumptions C06_objid_model_total.

Theorem C06_objid_never_other_error : forall d run camcol field objnum rerun sky ff,
  objid_model d run camcol field objnum rerun sky ff <> OtherError.
Proof. exact objid_model_never_other. Qed.
Print Assumptions C06_objid_never_other_error.

Theorem C06_specobjid_model_total : forall plate fiber mjd run2d line index,
  specobjid_model plate fiber mjd run2d line index =
  match line, index with
  | Some _, Some _ => ValueError
  | _, _ =>
    let n := length (promote plate) in
    let li := match line with Some a => promote a | None => repeat 0 n end in
    let ix := match index with Some a => promote a | None => repeat 0 n end in
    let cols := [promote plate; promote fiber; map (fun z => z - 50000) (promote mjd); r2col run2d; li; ix] in
    if forallb (fun col => Nat.eqb (length col) n) cols then
      let rows := zip_rows cols n in
      if forallb specobjid_doc_ranges rows then Ok (map spec_row_pack rows) else ValueError
    else ValueError
  end.
Proof. exact specobjid_model_total. Qed.
Print Assumptions C06_specobjid_model_total.

Theorem C06_specobjid_never_other_error : forall plate fiber mjd run2d line index,
  specobjid_model plate fiber mjd run2d line index <> OtherError.
Proof. exact specobjid_model_never_other. Qed.
Print Assumptions C06_specobjid_never_other_error.

(* the signature defaults, None replacements and broadcast constants GENERATED from the source are the documented
   rerun=301, skyversion=2, firstfield=0 *)
Theorem C06_objid_call_defaults : forall run camcol field objnum rerun sky ff,
  objid_call run camcol field objnum rerun sky ff =
  objid_model 2 run camcol field objnum (dflt rerun 301) (dflt sky 2) (dflt ff 0).
Proof. exact objid_call_defaults. Qed.
Print Assumptions C06_objid_call_defaults.

Theorem C06_objid_call_documented : forall run camcol field objnum rerun sky ff,
  objid_call run camcol field objnum rerun sky ff = doc_objid_call run camcol field objnum rerun sky ff.
Proof. exact objid_call_documented. Qed.
Print Assumptions C06_objid_call_documented.

(* every argument is promoted and shape-checked; line/index exclusivity is tested first *)
Theorem C06_glue_obligations :
  default_skyversion_value = 2 /\
  covers 7 2 objid_shape_checked = true /\ covers 7 7 objid_scalar_promoted = true /\
  specobjid_line_index_exclusive = true /\ covers 6 0 specobjid_shape_checked = true.
Proof. exact glue_obligations. Qed.
Print Assumptions C06_glue_obligations.

(* ---- unwrap direction at the storage-type level ---- *)

Theorem C06_unwrap_range_analysis_sound : forall t lo hi e T l h, ucheck t lo hi e = Some (T, l, h) ->
  forall z, fits t z = true -> lo <= z <= hi ->
  ueval (t, z) e = TVal T (uzeval z e) /\ l <= uzeval z e <= h /\ in_type T l h = true.
Proof. exact ucheck_sound. Qed.
Print Assumptions C06_unwrap_range_analysis_sound.

(* field names and storage types of both records, the accepted integer type and the type strings are converted to *)
Theorem C06_unwrap_record_dtypes :
  record_names unwrap_objid_record = doc_objid_names /\ record_types unwrap_objid_record = repeat I32 7 /\
  record_names unwrap_spec_record = doc_spec_names /\ record_types unwrap_spec_record = repeat I32 5 /\
  unwrap_spec_line_names = (nth 4 doc_spec_names [], [105; 110; 100; 101; 120]).
Proof. exact unwrap_record_dtypes. Qed.
Print Assumptions C06_unwrap_record_dtypes.

Theorem C06_unwrap_input_types :
  unwrap_objid_intype = I64 /\ unwrap_objid_strtype = I64 /\ unwrap_spec_intype = U64 /\ unwrap_spec_strtype = U64.
Proof. exact unwrap_input_types. Qed.
Print Assumptions C06_unwrap_input_types.

(* for EVERY int64 / uint64 word, every record field (shift, mask, +50000, store into the 32-bit field) is computed
   without wrap: the stored record is the unbounded-integer answer *)
Theorem C06_unwrap_objid_any_word : forall id, fits I64 id = true ->
  unwrap_typed unwrap_objid_record (I64, id) = map (TVal I32) (unwrap_objid_model id).
Proof. exact unwrap_objid_typed_any. Qed.
Print Assumptions C06_unwrap_objid_any_word.

Theorem C06_unwrap_spec_any_word : forall id, fits U64 id = true ->
  unwrap_typed unwrap_spec_record (U64, id) =
  map (TVal I32) [unwrap_spec_plate id; unwrap_spec_fiber id; unwrap_spec_mjd id; unwrap_spec_run2d_int id; unwrap_spec_line id].
Proof. exact unwrap_spec_typed_any. Qed.
Print Assumptions C06_unwrap_spec_any_word.

(* unwrap(pack v) = v with argument arrays of ANY integer types and the record's own storage types *)
Theorem C06_objid_roundtrip_any_integer_type : forall ts vs, length vs = 7%nat -> all_fit ts vs ->
  objid_doc_ranges vs = true ->
  exists id, objid_typed_row (combine ts vs) = TOk I64 id /\
  unwrap_typed unwrap_objid_record (I64, id) = map (TVal I32) vs.
Proof. exact objid_typed_roundtrip. Qed.
Print Assumptions C06_objid_roundtrip_any_integer_type.

Theorem C06_specobjid_roundtrip_any_integer_type : forall ts p f m r l i, all_fit ts [p; f; m; r; l; i] ->
  specobjid_doc_ranges [p; f; m - 50000; r; l; i] = true -> l = 0 \/ i = 0 ->
  exists id, specobjid_typed_row (combine ts [p; f; m; r; l; i]) = TOk U64 id /\
             unwrap_typed unwrap_spec_record (U64, id) = map (TVal I32) [p; f; m; r; l + i].
Proof. exact specobjid_typed_roundtrip. Qed.
Print Assumptions C06_specobjid_roundtrip_any_integer_type.

(* ---- decimal strings ---- *)

Theorem C06_int_of_decimal : forall n, 0 <= n -> parse_pyint (dec n) = Some n.
Proof. exact parse_pyint_dec. Qed.
Print Assumptions C06_int_of_decimal.

Theorem C06_decimal_of_int_canonical : forall ds, canonical ds -> digits_of (undec 0 ds) = ds.
Proof. exact digits_of_undec. Qed.
Print Assumptions C06_decimal_of_int_canonical.

Theorem C06_unwrap_objid_decimal_string : forall id, 0 <= id < 2 ^ 63 ->
  unwrap_objid_of_string (dec id) = XRows (unwrap_objid_model id).
Proof. exact unwrap_objid_decimal. Qed.
Print Assumptions C06_unwrap_objid_decimal_string.

(* in particular for IDs with bit 63 set (plate >= 8192) *)
Theorem C06_unwrap_spec_decimal_string : forall id, 0 <= id < 2 ^ 64 ->
  unwrap_spec_of_string (dec id) = XRows (unwrap_specobjid_model id).
Proof. exact unwrap_spec_decimal. Qed.
Print Assumptions C06_unwrap_spec_decimal_string.

Theorem C06_unwrap_spec_decimal_string_overflow : forall z, 2 ^ 64 <= z -> unwrap_spec_of_string (dec z) = XOther.
Proof. exact unwrap_spec_decimal_overflow. Qed.
Print Assumptions C06_unwrap_spec_decimal_string_overflow.

(* ---- the run2d tag 'vN_M_P', byte level; pattern, format template, checks and dtype are GENERATED ---- *)

Theorem C06_run2d_tag_parses : forall a N M P, 0 <= N -> 0 <= M -> 0 <= P ->
  re_match a run2d_pattern (format_pieces run2d_format [N; M; P]) = Some [N; M; P].
Proof. exact run2d_tag_parses. Qed.
Print Assumptions C06_run2d_tag_parses.

Theorem C06_run2d_tag_canonical : forall d1 d2 d3, canonical d1 -> canonical d2 -> canonical d3 ->
  let s := [118] ++ chars d1 ++ [95] ++ chars d2 ++ [95] ++ chars d3 in
  re_match true run2d_pattern s = Some [undec 0 d1; undec 0 d2; undec 0 d3] /\
  format_pieces run2d_format [undec 0 d1; undec 0 d2; undec 0 d3] = s.
Proof. exact run2d_tag_canonical. Qed.
Print Assumptions C06_run2d_tag_canonical.

Theorem C06_run2d_tag_is_documented : forall r, 0 <= r < 2 ^ 14 -> run2d_tag r = doc_tag r.
Proof. exact tag_is_documented. Qed.
Print Assumptions C06_run2d_tag_is_documented.

(* all 16384 codes: the tag is read back as the code by sdss_specobjid's own string decoding *)
Theorem C06_run2d_tag_read_back : forall r, 0 <= r < 2 ^ 14 -> run2d_of_string (run2d_tag r) = R2val r.
Proof. exact run2d_of_string_tag. Qed.
Print Assumptions C06_run2d_tag_read_back.

(* the fixed-width string field ('U8') holds every tag completely *)
Theorem C06_run2d_tag_fits_field : forall r, 0 <= r < 2 ^ 14 -> run2d_tag_stored r = run2d_tag r.
Proof. exact run2d_tag_fits. Qed.
Print Assumptions C06_run2d_tag_fits_field.

Theorem C06_unwrap_tag_roundtrip : forall id, run2d_of_string (unwrap_spec_tag id) = R2val (unwrap_spec_run2d_int id).
Proof. exact unwrap_tag_roundtrip. Qed.
Print Assumptions C06_unwrap_tag_roundtrip.

Theorem C06_specobjid_string_and_integer_agree : forall p f m r l i, 0 <= r < 2 ^ 14 ->
  specobjid_call p f m (RStr (run2d_tag r)) l i = specobjid_call p f m (RInt r) l i.
Proof. exact specobjid_call_tag. Qed.
Print Assumptions C06_specobjid_string_and_integer_agree.

(* the source anchors the pattern and enforces 5<=N<=6, 0<=M,P<=99 (false before pydl 0f16a43) ... *)
Theorem C06_run2d_tag_ranges_enforced : tag_ranges_enforced = true.
Proof. exact tag_ranges_enforced_now. Qed.
Print Assumptions C06_run2d_tag_ranges_enforced.

(* ... hence every run2d string the function accepts is a documented form with the documented value *)
Theorem C06_run2d_accepted_strings_documented : forall s z,
  run2d_of_string s = R2val z -> doc_run2d_of_string s = Some z.
Proof. exact run2d_accepted_strings_documented. Qed.
Print Assumptions C06_run2d_accepted_strings_documented.

(* ... and if it did not, 'v5_100_0' and 'v6_0_0' would collide (the defect found in this round) *)
Theorem C06_run2d_tag_collision_if_unenforced : tag_ranges_enforced = false ->
  run2d_of_string [118; 53; 95; 49; 48; 48; 95; 48] = R2val 10000 /\
  run2d_of_string [118; 54; 95; 48; 95; 48] = R2val 10000 /\
  doc_run2d_of_string [118; 53; 95; 49; 48; 48; 95; 48] = None.
Proof. exact tag_ranges_not_enforced_collision. Qed.
Print Assumptions C06_run2d_tag_collision_if_unenforced.

(* non-vacuity: the documented example IDs satisfy the hypotheses *)
Example C06_example_objid :
  checks_ok objid_checks [2; 301; 3704; 3; 0; 91; 146] = true /\
  objid_expr 2 301 3704 3 0 91 146 = 1237661382772195474.
Proof. split; vm_compute; reflexivity. Qed.
Example C06_example_specobjid :
  checks_ok specobjid_checks [4055; 408; 5359; 700; 0; 0] = true /\
  specobjid_expr 4055 408 5359 700 0 0 = 4565636362342690816.
Proof. split; vm_compute; reflexivity. Qed.
Example C06_example_unwrap_record :
  unwrap_typed unwrap_spec_record (U64, 4565636362342690816) = map (TVal I32) [4055; 408; 55359; 700; 0] /\
  unwrap_spec_tag 4565636362342690816 = [118; 53; 95; 55; 95; 48] /\
  unwrap_spec_of_string (dec 4565636362342690816) = XRows [4055; 408; 55359; 700; 5; 7; 0; 0].
Proof. repeat split; vm_compute; reflexivity. Qed.
Example C06_example_strings :
  parse_pyint [32; 43; 49; 95; 48; 10] = Some 10 /\ parse_pyint [49; 95; 95; 48] = None /\
  canonical [1; 0; 0] /\ run2d_of_string [118; 53; 95; 49; 48; 48; 95; 48] = R2ValueError /\
  run2d_of_string [118; 53; 95; 55; 95; 48; 120] = R2ValueError /\ run2d_of_string [118; 54; 95; 54; 51; 95; 56; 51] = R2val 16383.
Proof. repeat split; try (vm_compute; reflexivity); try (repeat constructor; unfold digit; cbn; try discriminate; try Lia.lia). Qed.
(* ---- round 6: the private helpers reachable from the packers, and the spellings of a scalar argument ---- *)

(* _int64_array as GENERATED from its source: a Python int or bool v becomes the int64 array [v] when it fits 64 bits
   and ValueError otherwise -- whatever the spelling (a helper that lets NumPy infer the type, and so sees a Python
   bool as a boolean array, does not satisfy this) *)
Theorem C06_int64_array_exact : forall k v,
  int64_array_model k v = if fits I64 v then PrArr I64 [v] else PrErr EValueError.
Proof. exact int64_array_exact. Qed.
Print Assumptions C06_int64_array_exact.

(* ... and that ValueError never hides an in-range value: a rejected value is outside the generated range check of
   whatever field it is given for, and outside the documented ranges *)
Theorem C06_int64_array_rejects_only_out_of_range : forall k row i,
  (i < 7)%nat -> int64_array_model k (nth i row 0) = PrErr EValueError ->
  checks_ok objid_checks row = false /\ objid_doc_ranges row = false.
Proof. exact int64_array_rejects_only_out_of_range. Qed.
Print Assumptions C06_int64_array_rejects_only_out_of_range.

(* the scalar promotions of sdss_specobjid as GENERATED (np.array([x]) with the type left to NumPy) apply to all six
   arguments, never fail, and the array holds exactly the integer meaning of x (bool, int64, uint64 or object array) *)
Theorem C06_specobjid_promotion_exact : forall k v,
  promo_values (specobjid_promotion_model k v) = Some [v] /\ covers 6 6 specobjid_scalar_promoted = true.
Proof. exact specobjid_promotion_exact. Qed.
Print Assumptions C06_specobjid_promotion_exact.

(* NumPy integer / boolean scalars and zero-dimensional arrays: the source has a normalising helper, it handles all
   three classes and is applied to every argument of both packers before the isinstance(x, int) tests, so that every
   spelling of a scalar reaches the promotion as a Python integer *)
Theorem C06_scalar_forms_are_integers :
  (forall i f, (i < 7)%nat -> form_is_int numpy_scalar_normaliser objid_scalar_normalised i f = true) /\
  (forall i f, (i < 6)%nat -> form_is_int numpy_scalar_normaliser specobjid_scalar_normalised i f = true).
Proof. exact scalar_forms_are_integers. Qed.
Print Assumptions C06_scalar_forms_are_integers.

Example C06_example_promotions :
  run_promoter {| pr_dtype := Some I64; pr_handlers := [(EOverflowError, EValueError)] |} KBool 1 = PrArr I64 [1] /\
  run_promoter {| pr_dtype := Some I64; pr_handlers := [(EOverflowError, EValueError)] |} KInt (2 ^ 63) = PrErr EValueError /\
  run_promoter {| pr_dtype := Some I64; pr_handlers := [] |} KInt (2 ^ 63) = PrErr EOverflowError /\
  run_promoter {| pr_dtype := None; pr_handlers := [] |} KBool 1 = PrBoolArr [1] /\
  run_promoter {| pr_dtype := None; pr_handlers := [] |} KInt (2 ^ 63) = PrArr U64 [2 ^ 63] /\
  run_promoter {| pr_dtype := None; pr_handlers := [] |} KInt (2 ^ 64) = PrObjArr [2 ^ 64] /\
  form_is_int (Some [NpIntegerScalar; NpBoolScalar; ZeroDimArray]) [4%nat] 4 (FNp NpBoolScalar) = true /\
  form_is_int (Some [NpIntegerScalar; NpBoolScalar; ZeroDimArray]) [4%nat] 3 (FNp NpBoolScalar) = false /\
  form_is_int None [] 4 (FNp NpBoolScalar) = false /\
  run_xcase (XObjidForms [FPy; FPy; FPy; FPy; FPy; FPy; FPy] (Sc 752) (Sc 5) (Sc 618) (Sc 459) (Some (Sc 40)) (Some (Sc 1)) (Some (Sc 1))
               ValueError) >= 2.
Proof. repeat split; vm_compute; try reflexivity; discriminate. Qed.

Example C06_example_defaults :
  objid_call (Sc 3704) (Sc 3) (Sc 91) (Sc 146) None None None = Ok [1237661382772195474] /\
  objid_call (Ar [3704; 3704]) (Ar [3; 3]) (Ar [91; 91]) (Ar [146; 147]) None None None = Ok [1237661382772195474; 1237661382772195475].
Proof. split; vm_compute; reflexivity. Qed.
