"""C16 extractor: the integer expressions of readspec / spec_append (pydl/pydlspec2d/spec1d.py)
-> coq/Generated/Readspec.v.

Extracted (fail-closed; any unrecognised shape => recognised: false, previous file kept):
  readspec   : pmjd = (platevec << N) + mjdvec;  zupmjd = zip(upmjd >> N, upmjd & ((1 << N) - 1));
               the row index expressions  spplate[k].data[<e>, :], spplate[k].data[<e>], photop[1].data[<e>],
               spz[1].data[<e>];  zfiber in the two branches;  presence of  j = allpmjdindex.argsort().
  spec_append: symbolic execution of the straight-line body: nadd1, nadd2, maxpix and the two slice
               assignments  spec3[r0:r1, c0:c1] = specK.
C16/Source.v proves that these expressions are the ones the hand-written model C16/Model.v uses.
"""
import ast
import os
import re

from . import pyexpr as P

SRC = 'pydl/pydlspec2d/spec1d.py'


class Strip(ast.NodeTransformer):
    """np.array(x, dtype=...) -> x ;  kwargs['name'] -> name"""

    def visit_Call(self, n):
        self.generic_visit(n)
        f = n.func
        if isinstance(f, ast.Attribute) and f.attr == 'array' and isinstance(f.value, ast.Name) and f.value.id == 'np' \
                and len(n.args) == 1 and all(k.arg == 'dtype' for k in n.keywords):
            return n.args[0]
        return n

    def visit_Subscript(self, n):
        self.generic_visit(n)
        if isinstance(n.value, ast.Name) and n.value.id == 'kwargs' and isinstance(n.slice, ast.Constant) \
                and isinstance(n.slice.value, str):
            return ast.copy_location(ast.Name(id=n.slice.value, ctx=ast.Load()), n)
        return n


def expr(node, env):
    """integer expression -> Gallina, with max(a, b) and substitution of already computed names"""
    if isinstance(node, ast.Call) and isinstance(node.func, ast.Name) and node.func.id == 'max' and len(node.args) == 2:
        return '(Z.max %s %s)' % (expr(node.args[0], env), expr(node.args[1], env))
    if isinstance(node, ast.BinOp):
        op = P.BIN.get(type(node.op))
        if op is None:
            raise P.Unrecognised('operator %s' % type(node.op).__name__)
        return '(%s %s %s)' % (op, expr(node.left, env), expr(node.right, env))
    if isinstance(node, ast.UnaryOp) and isinstance(node.op, ast.USub):
        return '(Z.opp %s)' % expr(node.operand, env)
    return P.to_gallina(node, env)


def cond(test, env):
    if not (isinstance(test, ast.Compare) and len(test.ops) == 1):
        raise P.Unrecognised('condition')
    a, b = expr(test.left, env), expr(test.comparators[0], env)
    op = test.ops[0]
    if isinstance(op, ast.NotEq):
        return '(negb (Z.eqb %s %s))' % (a, b)
    if isinstance(op, ast.Eq):
        return '(Z.eqb %s %s)' % (a, b)
    if isinstance(op, ast.Lt):
        return '(Z.ltb %s %s)' % (a, b)
    if isinstance(op, ast.Gt):
        return '(Z.ltb %s %s)' % (b, a)
    if isinstance(op, ast.LtE):
        return '(Z.leb %s %s)' % (a, b)
    if isinstance(op, ast.GtE):
        return '(Z.leb %s %s)' % (b, a)
    raise P.Unrecognised('comparison')


def sym_exec(stmts, state, blocks):
    """straight-line integer code with if/else; state: name -> Gallina expression"""
    for st in stmts:
        if isinstance(st, ast.Expr) and isinstance(st.value, ast.Constant) and isinstance(st.value.value, str):
            continue   # docstring
        if isinstance(st, ast.Assign) and len(st.targets) == 1:
            t, v = st.targets[0], st.value
            if isinstance(t, ast.Tuple) and len(t.elts) == 2 and all(isinstance(e, ast.Name) for e in t.elts) \
                    and isinstance(v, ast.Attribute) and v.attr == 'shape' and isinstance(v.value, ast.Name):
                for e in t.elts:
                    state[e.id] = e.id       # nrows1, npix1, ... are parameters of the generated functions
                continue
            if isinstance(t, ast.Name):
                if isinstance(v, ast.Call) and isinstance(v.func, ast.Attribute) and v.func.attr == 'zeros':
                    sh = v.args[0]
                    if not (isinstance(sh, ast.Tuple) and len(sh.elts) == 2):
                        raise P.Unrecognised('zeros shape')
                    state['__shape_rows'] = expr(sh.elts[0], state)
                    state['__shape_cols'] = expr(sh.elts[1], state)
                    state['__zeros'] = t.id
                    continue
                state[t.id] = expr(v, state)
                continue
            if isinstance(t, ast.Subscript) and isinstance(t.value, ast.Name) and t.value.id == state.get('__zeros') \
                    and isinstance(t.slice, ast.Tuple) and len(t.slice.elts) == 2 \
                    and all(isinstance(s, ast.Slice) and s.step is None and s.lower is not None and s.upper is not None
                            for s in t.slice.elts) and isinstance(v, ast.Name):
                r, c = t.slice.elts
                blocks.append((v.id, expr(r.lower, state), expr(r.upper, state), expr(c.lower, state), expr(c.upper, state)))
                continue
            raise P.Unrecognised('assignment %s' % ast.dump(st)[:80])
        if isinstance(st, ast.If):
            c = cond(st.test, state)
            s1, s2 = dict(state), dict(state)
            b1, b2 = [], []
            sym_exec(st.body, s1, b1)
            sym_exec(st.orelse, s2, b2)
            if b1 or b2:
                raise P.Unrecognised('slice assignment under a condition')
            for k in set(s1) | set(s2):
                if s1.get(k) != s2.get(k):
                    if k not in s1 or k not in s2:
                        raise P.Unrecognised('name %s defined on one branch only' % k)
                    state[k] = '(if %s then %s else %s)' % (c, s1[k], s2[k])
            continue
        if isinstance(st, ast.Return):
            if not (isinstance(st.value, ast.Name) and st.value.id == state.get('__zeros')):
                raise P.Unrecognised('return value')
            state['__returned'] = True
            continue
        raise P.Unrecognised('statement %s' % type(st).__name__)
    return state


def first_index(sub):
    """the row index of  X.data[<e>, :]  or  X.data[<e>]"""
    s = sub.slice
    if isinstance(s, ast.Tuple):
        if not (len(s.elts) == 2 and isinstance(s.elts[1], ast.Slice) and s.elts[1].lower is None and s.elts[1].upper is None):
            raise P.Unrecognised('row subscript tuple')
        return s.elts[0]
    return s



def blit(text):
    return '[' + '; '.join('%d' % c for c in text.encode('ascii')) + ']'


def format_calls(fn):
    """all  "literal".format(...)  calls in a function -> list of literal strings (source order)"""
    out = []
    for n in ast.walk(fn):
        if isinstance(n, ast.Call) and isinstance(n.func, ast.Attribute) and n.func.attr == 'format' \
                and isinstance(n.func.value, ast.Constant) and isinstance(n.func.value.value, str):
            out.append((n.lineno, n.col_offset, n.func.value.value))
    return [t for _, _, t in sorted(out)]


def name_parts(fmts, stem):
    """'spPlate-{0}.fits' -> ('spPlate-', '.fits'); all occurrences must agree"""
    found = set(f for f in fmts if f.startswith(stem) and '{0}' in f)
    if len(found) != 1:
        raise P.Unrecognised('file name format %s: %s' % (stem, sorted(found)))
    pre, suf = list(found)[0].split('{0}')
    return pre, suf


def nfiber_constants(fn):
    """nfiber[mjd < T] = N  and  (nfiber == N).all()"""
    t = nn = None
    for n in ast.walk(fn):
        if isinstance(n, ast.Assign) and len(n.targets) == 1 and isinstance(n.targets[0], ast.Subscript) \
                and isinstance(n.targets[0].value, ast.Name) and n.targets[0].value.id == 'nfiber' \
                and isinstance(n.targets[0].slice, ast.Compare) and len(n.targets[0].slice.ops) == 1 \
                and isinstance(n.targets[0].slice.ops[0], ast.Lt) and isinstance(n.targets[0].slice.left, ast.Name) \
                and n.targets[0].slice.left.id == 'mjd':
            t = P.const_value(n.targets[0].slice.comparators[0])
            nn = P.const_value(n.value)
    if t is None:
        raise P.Unrecognised('nfiber[mjd < T] = N not found')
    short = [P.const_value(n.comparators[0]) for n in ast.walk(fn)
             if isinstance(n, ast.Compare) and isinstance(n.left, ast.Name) and n.left.id == 'nfiber'
             and len(n.ops) == 1 and isinstance(n.ops[0], ast.Eq)]
    if short != [nn]:
        raise P.Unrecognised('short-circuit constant %s vs %s' % (short, nn))
    return t, nn


def env_names(fn):
    """env = "A"; try: int(run2d) except ValueError: env = "B"  ->  (A, B)"""
    for n in ast.walk(fn):
        if isinstance(n, ast.Try) and len(n.handlers) == 1 and isinstance(n.handlers[0].type, ast.Name) \
                and n.handlers[0].type.id == 'ValueError':
            calls = [c for c in ast.walk(ast.Module(body=n.body, type_ignores=[])) if isinstance(c, ast.Call)
                     and isinstance(c.func, ast.Name) and c.func.id == 'int' and len(c.args) == 1
                     and isinstance(c.args[0], ast.Name) and c.args[0].id == 'run2d']
            hb = n.handlers[0].body
            if len(calls) == 1 and len(hb) == 1 and isinstance(hb[0], ast.Assign) and isinstance(hb[0].targets[0], ast.Name) \
                    and hb[0].targets[0].id == 'env' and isinstance(hb[0].value, ast.Constant):
                other = hb[0].value.value
                first = [a.value.value for a in ast.walk(fn) if isinstance(a, ast.Assign) and isinstance(a.targets[0], ast.Name)
                         and a.targets[0].id == 'env' and isinstance(a.value, ast.Constant) and a is not hb[0]]
                if len(first) == 1:
                    return first[0], other
    raise P.Unrecognised('environment variable selection in spec_path')


def generate(repo):
    info = {'recognised': False, 'source': SRC}
    try:
        tree = ast.parse(open(os.path.join(repo, SRC)).read())
        rs = Strip().visit(P.find_function(tree, 'readspec'))
        sa = P.find_function(tree, 'spec_append')
        defs = []
        key = unzip = None
        rows = {}
        zfib = []
        argsort = False
        for n in ast.walk(rs):
            if isinstance(n, ast.Assign) and len(n.targets) == 1 and isinstance(n.targets[0], ast.Name):
                name = n.targets[0].id
                if name == 'pmjd':
                    key = expr(n.value, {'platevec': 'platevec', 'mjdvec': 'mjdvec'})
                elif name == 'zupmjd':
                    v = n.value
                    if not (isinstance(v, ast.Call) and isinstance(v.func, ast.Name) and v.func.id == 'list' and
                            isinstance(v.args[0], ast.Call) and isinstance(v.args[0].func, ast.Name) and
                            v.args[0].func.id == 'zip' and len(v.args[0].args) == 2):
                        raise P.Unrecognised('zupmjd')
                    unzip = [expr(a, {'upmjd': 'upmjd'}) for a in v.args[0].args]
                elif name == 'zfiber':
                    zfib.append(expr(n.value, {'thisfiber': 'thisfiber', 'nper': 'nper', 'znum': 'znum'}))
                elif name == 'j':
                    v = n.value
                    argsort = (isinstance(v, ast.Call) and isinstance(v.func, ast.Attribute) and v.func.attr == 'argsort'
                               and isinstance(v.func.value, ast.Name) and v.func.value.id == 'allpmjdindex' and not v.args)
            if isinstance(n, ast.Subscript) and isinstance(n.value, ast.Attribute) and n.value.attr == 'data' \
                    and isinstance(n.value.value, ast.Subscript) and isinstance(n.value.value.value, ast.Name):
                base = n.value.value.value.id
                e = expr(first_index(n), {'thisfiber': 'thisfiber', 'zfiber': 'zfiber'})
                rows.setdefault(base, set()).add(e)
        if key is None or unzip is None or not argsort:
            raise P.Unrecognised('pmjd / zupmjd / argsort statement not found')
        for base in ('spplate', 'photop', 'spz'):
            if len(rows.get(base, ())) != 1:
                raise P.Unrecognised('row index of %s: %s' % (base, sorted(rows.get(base, ()))))
        if len(zfib) != 2:
            raise P.Unrecognised('zfiber assignments: %d' % len(zfib))
        zn = [z for z in zfib if 'znum' in z]
        zb = [z for z in zfib if 'znum' not in z]
        if len(zn) != 1 or len(zb) != 1:
            raise P.Unrecognised('zfiber branches')
        blocks = []
        st = sym_exec(sa.body, {'pixshift': 'pixshift'}, blocks)
        if not st.get('__returned') or len(blocks) != 2 or [b[0] for b in blocks] != ['spec1', 'spec2']:
            raise P.Unrecognised('spec_append body')
        for k in ('nadd1', 'nadd2', 'maxpix', 'nrows'):
            if k not in st:
                raise P.Unrecognised('spec_append: %s' % k)
        if st['__shape_rows'] != st['nrows'] or st['__shape_cols'] != st['maxpix']:
            raise P.Unrecognised('spec_append: shape of the result')
        # ---- number_of_fibers constants, format strings, environment variable names
        tboss, nsdss = nfiber_constants(P.find_function(tree, 'number_of_fibers'))
        spf = format_calls(P.find_function(tree, 'spec_path'))
        m = [re.fullmatch(r'\{0:0?(\d*)d\}', f) for f in spf]
        if len(spf) != 1 or m[0] is None:
            raise P.Unrecognised('spec_path format strings %s' % spf)
        dir_width = int(m[0].group(1) or 0)
        rsf = format_calls(P.find_function(tree, 'readspec'))
        pm = [re.fullmatch(r'\{0:0?(\d*)d\}([^{}]*)\{1:0?(\d*)d\}', f) for f in rsf]
        pm = [x for x in pm if x is not None]
        if len(pm) != 1:
            raise P.Unrecognised('pmjdstr format')
        wp, sep, wm = int(pm[0].group(1) or 0), pm[0].group(2), int(pm[0].group(3) or 0)
        parts = {stem: name_parts(rsf, stem) for stem in ('spPlate-', 'spZbest-', 'spZall-', 'photoPlate-')}
        env_int, env_other = env_names(P.find_function(tree, 'spec_path'))
        defs.append('Definition gen_nfiber_boss_mjd : Z := %d.' % tboss)
        defs.append('Definition gen_nfiber_sdss : Z := %d.' % nsdss)
        defs.append('Definition gen_dir_plate_width : nat := %d.' % dir_width)
        defs.append('Definition gen_pmjd_plate_width : nat := %d.' % wp)
        defs.append('Definition gen_pmjd_mjd_width : nat := %d.' % wm)
        defs.append('Definition gen_pmjd_sep : list Z := %s.   (* %r *)' % (blit(sep), sep))
        for stem, nm in (('spPlate-', 'spplate'), ('spZbest-', 'spzbest'), ('spZall-', 'spzall'), ('photoPlate-', 'photoplate')):
            defs.append('Definition gen_pre_%s : list Z := %s.   (* %r *)' % (nm, blit(parts[stem][0]), parts[stem][0]))
            defs.append('Definition gen_suf_%s : list Z := %s.   (* %r *)' % (nm, blit(parts[stem][1]), parts[stem][1]))
        defs.append('Definition gen_env_int_run2d : list Z := %s.   (* %r *)' % (blit(env_int), env_int))
        defs.append('Definition gen_env_other_run2d : list Z := %s.   (* %r *)' % (blit(env_other), env_other))
        defs.append('Definition gen_key (platevec mjdvec : Z) : Z := %s.' % key)
        defs.append('Definition gen_key_plate (upmjd : Z) : Z := %s.' % unzip[0])
        defs.append('Definition gen_key_mjd (upmjd : Z) : Z := %s.' % unzip[1])
        defs.append('Definition gen_img_row (thisfiber : Z) : Z := %s.' % list(rows['spplate'])[0])
        defs.append('Definition gen_photo_row (thisfiber : Z) : Z := %s.' % list(rows['photop'])[0])
        defs.append('Definition gen_z_row (zfiber : Z) : Z := %s.' % list(rows['spz'])[0])
        defs.append('Definition gen_zbest_fiber (thisfiber : Z) : Z := %s.' % zb[0])
        defs.append('Definition gen_znum_fiber (thisfiber nper znum : Z) : Z := %s.' % zn[0])
        defs.append('Definition gen_sa_nadd1 (pixshift : Z) : Z := %s.' % st['nadd1'])
        defs.append('Definition gen_sa_nadd2 (pixshift : Z) : Z := %s.' % st['nadd2'])
        defs.append('Definition gen_sa_nrows (nrows1 nrows2 : Z) : Z := %s.' % st['nrows'])
        defs.append('Definition gen_sa_maxpix (npix1 npix2 pixshift : Z) : Z := %s.' % st['maxpix'])
        for i, b in enumerate(blocks, 1):
            defs.append('Definition gen_sa_block%d (nrows1 nrows2 npix1 npix2 pixshift : Z) : Z * Z * Z * Z :=\n  (%s, %s, %s, %s).'
                        % (i, b[1], b[2], b[3], b[4]))
        text = ('(* GENERATED by translate/c16.py from %s -- do not edit. *)\n'
                'From Coq Require Import ZArith Bool List.\nImport ListNotations.\nOpen Scope Z_scope.\n\n' % SRC) + '\n'.join(defs) + '\n'
        info.update({'recognised': True, 'nfiber': [tboss, nsdss], 'widths': [dir_width, wp, wm], 'env': [env_int, env_other], 'key': key, 'znum_fiber': zn[0], 'img_row': list(rows['spplate'])[0],
                     'nadd1': st['nadd1'], 'nadd2': st['nadd2']})
        return text, info
    except (P.Unrecognised, OSError, SyntaxError, IndexError, AttributeError, ValueError, UnicodeError) as e:
        info['error'] = '%s: %s' % (type(e).__name__, e)
        return None, info
