(* C04, round 5 -- the spherical geometry of `coverage`, continued (over Coq's classical reals, radians):
   * strict versions of the two margin theorems: a point q with separation < L from p has |ddec| < L and an RA
     difference < asin (sin L / cos dec_q) -- the walks of getbounds stop at the first bound that is NOT closer than
     the margin, so the strict form is what the discrete theorems consume;
   * the reduction of the RA difference: for RA in [0, 2 PI) the bound holds for the CIRCULAR distance
     min (|dra|, 2 PI - |dra|), whatever the two right ascensions are (no "difference in [-PI, PI]" premise);
   * the margin never exceeds one cell of the grid: asin y <= 2 y, hence raMargin <= 2 sin L / cos dec_q, and the
     cosine c of the far edge of any slice the point visits (within L in declination) is at most 2 cos dec_q, so
     raMargin <= 4 L / c <= chunksize / c whenever chunksize >= 4 L (the width chunks.__init__ gives the RA cells). *)
From Coq Require Import Reals Lra Lia.
From Interval Require Import Tactic.
From PV Require Import C04.Geometry.
Open Scope R_scope.

Lemma dotp_le_cosdiff : forall dp ap dq aq, 0 <= cos dp -> 0 <= cos dq ->
  dotp dp ap dq aq <= cos (dp - dq).
Proof.
  intros dp ap dq aq Hp Hq. unfold dotp. rewrite (cos_minus dp dq).
  destruct (COS_bound (ap - aq)) as [_ Hc1].
  assert (cos dp * cos dq * cos (ap - aq) <= cos dp * cos dq).
  { rewrite <- (Rmult_1_r (cos dp * cos dq)) at 2. apply Rmult_le_compat_l; [apply Rmult_le_pos; assumption|exact Hc1]. }
  lra.
Qed.

Lemma dotp_ge_m1 : forall dp ap dq aq, 0 <= cos dp -> 0 <= cos dq -> -1 <= dotp dp ap dq aq.
Proof.
  intros dp ap dq aq Hp Hq. unfold dotp.
  destruct (COS_bound (ap - aq)) as [Hc0 _]. destruct (COS_bound (dp + dq)) as [_ Hs1].
  rewrite cos_plus in Hs1.
  assert (- (cos dp * cos dq) <= cos dp * cos dq * cos (ap - aq)).
  { replace (- (cos dp * cos dq)) with (cos dp * cos dq * -1) by ring.
    apply Rmult_le_compat_l; [apply Rmult_le_pos; assumption|exact Hc0]. }
  lra.
Qed.

Lemma dotp_le_1 : forall dp ap dq aq, 0 <= cos dp -> 0 <= cos dq -> dotp dp ap dq aq <= 1.
Proof.
  intros. eapply Rle_trans; [apply dotp_le_cosdiff; assumption|]. apply COS_bound.
Qed.

(* (a') separation < L  ==>  |ddec| < L *)
Theorem dec_margin_strict : forall dp ap dq aq L,
  - (PI / 2) <= dp <= PI / 2 -> - (PI / 2) <= dq <= PI / 2 -> 0 <= L <= PI ->
  cos L < dotp dp ap dq aq ->
  Rabs (dp - dq) < L.
Proof.
  intros dp ap dq aq L Hp Hq HL H.
  assert (Hcp : 0 <= cos dp) by (apply cos_ge_0; lra).
  assert (Hcq : 0 <= cos dq) by (apply cos_ge_0; lra).
  pose proof (dotp_le_cosdiff dp ap dq aq Hcp Hcq) as Hle.
  rewrite <- (cos_Rabs (dp - dq)) in Hle.
  pose proof PI_RGT_0.
  apply cos_decreasing_0; [lra|lra|apply Rabs_pos|unfold Rabs; destruct (Rcase_abs (dp - dq)); lra|lra].
Qed.

Lemma asin_le : forall x y, -1 <= x -> x <= y -> y <= 1 -> asin x <= asin y.
Proof.
  intros x y Hx Hxy Hy. destruct (Rle_or_lt (asin x) (asin y)) as [H|H]; [exact H|]. exfalso.
  pose proof (asin_bound x). pose proof (asin_bound y).
  assert (sin (asin y) < sin (asin x)) by (apply sin_increasing_1; lra).
  rewrite !sin_asin in H2 by lra. lra.
Qed.

Lemma asin_lt : forall x y, -1 <= x -> x < y -> y <= 1 -> asin x < asin y.
Proof.
  intros x y Hx Hxy Hy. destruct (Rlt_or_le (asin x) (asin y)) as [H|H]; [exact H|]. exfalso.
  pose proof (asin_bound x). pose proof (asin_bound y).
  assert (sin (asin y) <= sin (asin x)) by (apply sin_incr_1; lra).
  rewrite !sin_asin in H2 by lra. lra.
Qed.

(* (b') separation < L  ==>  |dra| < asin (sin L / cos dec_q), RA difference already reduced *)
Theorem ra_margin_strict : forall dp ap dq aq L,
  - (PI / 2) <= dp <= PI / 2 -> - (PI / 2) < dq < PI / 2 -> 0 <= L <= PI / 2 ->
  sin L < cos dq ->
  cos L < dotp dp ap dq aq ->
  - PI <= ap - aq <= PI ->
  Rabs (ap - aq) < asin (sin L / cos dq).
Proof.
  intros dp ap dq aq L Hp Hq HL Hcap H Hda.
  pose proof PI_RGT_0 as Hpi.
  assert (Hcp : 0 <= cos dp) by (apply cos_ge_0; lra).
  assert (Hcq : 0 < cos dq) by (apply cos_gt_0; lra).
  set (t := dotp dp ap dq aq) in *.
  assert (Ht1 : t <= 1) by (apply dotp_le_1; lra).
  assert (HcL : 0 <= cos L) by (apply cos_ge_0; lra).
  set (m := acos t).
  assert (Hm : 0 <= m <= PI) by (apply acos_bound).
  assert (Hcm : cos m = t) by (apply cos_acos; lra).
  assert (HmL : m < L).
  { apply cos_decreasing_0; [lra|lra|lra|lra|rewrite Hcm; exact H]. }
  assert (Hsm : sin m < sin L) by (apply sin_increasing_1; lra).
  assert (Hsm0 : 0 <= sin m) by (apply sin_ge_0; lra).
  assert (Hle : Rabs (ap - aq) <= asin (sin m / cos dq)).
  { apply (ra_margin_covers dp ap dq aq m); try lra. fold t. lra. }
  eapply Rle_lt_trans; [exact Hle|].
  assert (Hinv : 0 < / cos dq) by (apply Rinv_0_lt_compat; exact Hcq).
  apply asin_lt.
  - assert (0 <= sin m / cos dq) by (apply Rmult_le_pos; lra). lra.
  - unfold Rdiv. apply Rmult_lt_compat_r; assumption.
  - apply (Rmult_le_reg_r (cos dq)); [exact Hcq|]. unfold Rdiv. rewrite Rmult_assoc, Rinv_l by lra. lra.
Qed.

(* circular distance of two right ascensions in [0, 2 PI) *)
Definition circ (a b : R) : R := Rmin (Rabs (a - b)) (2 * PI - Rabs (a - b)).

Lemma dotp_shift : forall dp ap dq aq, dotp dp (ap - 2 * PI) dq aq = dotp dp ap dq aq.
Proof.
  intros. unfold dotp. replace (ap - 2 * PI - aq) with (ap - aq - 2 * PI) by ring.
  replace (cos (ap - aq - 2 * PI)) with (cos (ap - aq)); [reflexivity|].
  rewrite <- (cos_period (ap - aq - 2 * PI) 1). f_equal. simpl. ring.
Qed.

Lemma dotp_shift_plus : forall dp ap dq aq, dotp dp (ap + 2 * PI) dq aq = dotp dp ap dq aq.
Proof. intros. rewrite <- (dotp_shift dp (ap + 2 * PI) dq aq). f_equal. ring. Qed.

(* (b'') the same without a premise on the difference: RA anywhere in [0, 2 PI), circular distance *)
Theorem ra_margin_circ : forall dp ap dq aq L,
  - (PI / 2) <= dp <= PI / 2 -> - (PI / 2) < dq < PI / 2 -> 0 <= L <= PI / 2 ->
  sin L < cos dq ->
  cos L < dotp dp ap dq aq ->
  0 <= ap < 2 * PI -> 0 <= aq < 2 * PI ->
  circ ap aq < asin (sin L / cos dq).
Proof.
  intros dp ap dq aq L Hp Hq HL Hcap H Hap Haq. pose proof PI_RGT_0 as Hpi. unfold circ.
  destruct (Rle_or_lt (ap - aq) PI) as [H1|H1]; [destruct (Rle_or_lt (- PI) (ap - aq)) as [H2|H2]|].
  - eapply Rle_lt_trans; [apply Rmin_l|]. apply (ra_margin_strict dp ap dq aq L); auto.
  - (* ap - aq < -PI : shift ap up by one turn *)
    eapply Rle_lt_trans; [apply Rmin_r|].
    assert (E : 2 * PI - Rabs (ap - aq) = Rabs (ap + 2 * PI - aq)).
    { rewrite (Rabs_left (ap - aq)) by lra. rewrite Rabs_right by lra. ring. }
    rewrite E. apply (ra_margin_strict dp (ap + 2 * PI) dq aq L); auto; [rewrite dotp_shift_plus; exact H|lra].
  - eapply Rle_lt_trans; [apply Rmin_r|].
    assert (E : 2 * PI - Rabs (ap - aq) = Rabs (ap - 2 * PI - aq)).
    { rewrite (Rabs_right (ap - aq)) by lra. rewrite Rabs_left by lra. ring. }
    rewrite E. apply (ra_margin_strict dp (ap - 2 * PI) dq aq L); auto; [rewrite dotp_shift; exact H|lra].
Qed.

(* ------------------------------------------------------------------ the margin against the cell width *)
Lemma PI_lt_34 : PI < 34 / 10.
Proof. pose proof (PI_ineq 2) as [_ H]. unfold tg_alt, PI_tg in H. simpl in H. lra. Qed.

Lemma sqrt2_lt_2 : sqrt 2 < 2.
Proof.
  replace 2 with (sqrt 4) at 2; [apply sqrt_lt_1; lra|].
  replace 4 with (2 * 2) by ring. apply sqrt_square. lra.
Qed.

(* sin x >= x - x^3/6 + x^5/120 - x^7/5040 >= x - x^3/6 >= x/2  for x^2 <= 3 *)
Lemma half_le_sin : forall x, 0 <= x <= 17 / 10 -> x / 2 <= sin x.
Proof.
  intros x Hx. pose proof PI_RGT_0. pose proof PI2_3_2.
  assert (Hm : 0 <= x * (1 / 2 - x * x / 6 + x * x * (x * x) / 120 - x * x * (x * x) * (x * x) / 5040)).
  { assert (Hx2 : 0 <= x * x <= 289 / 100) by nra.
    generalize dependent (x * x). intros t Ht.
    assert (0 <= t * t) by nra. assert (t * t * t <= 289 / 100 * (289 / 100) * (289 / 100)) by nra.
    apply Rmult_le_pos; lra. }
  destruct (SIN x ltac:(lra) ltac:(lra)) as [Hlb _].
  unfold sin_lb, sin_approx in Hlb. simpl in Hlb. unfold sin_term in Hlb. simpl in Hlb.
  eapply Rle_trans; [|exact Hlb]. lra.
Qed.

Theorem asin_le_2x : forall y, 0 <= y <= 1 -> asin y <= 2 * y.
Proof.
  intros y Hy. pose proof (asin_bound y) as [_ Hub]. pose proof PI_lt_34. pose proof PI_RGT_0.
  destruct (Rle_or_lt (PI / 2) (2 * y)) as [H1|H1]; [lra|].
  assert (Hs : y <= sin (2 * y)).
  { replace y with (2 * y / 2) at 1 by field. apply half_le_sin. lra. }
  rewrite <- (asin_sin (2 * y)) by lra. apply asin_le; try lra. apply SIN_bound.
Qed.

(* raMargin is at most twice the flat-sky estimate *)
Theorem ra_margin_le_twice_flat : forall L dq,
  0 <= L <= PI / 2 -> - (PI / 2) < dq < PI / 2 -> sin L < cos dq ->
  asin (sin L / cos dq) <= 2 * (sin L / cos dq).
Proof.
  intros L dq HL Hq Hcap. pose proof PI_RGT_0.
  assert (Hcq : 0 < cos dq) by (apply cos_gt_0; lra).
  assert (Hs : 0 <= sin L) by (apply sin_ge_0; lra).
  apply asin_le_2x. split.
  - apply Rmult_le_pos; [exact Hs|left; apply Rinv_0_lt_compat; exact Hcq].
  - apply (Rmult_le_reg_r (cos dq)); [exact Hcq|]. unfold Rdiv. rewrite Rmult_assoc, Rinv_l by lra. lra.
Qed.

(* a slice that the point (declination dq) visits has an edge within L of dq; c = the cosine of its larger |edge|,
   so c <= cos (|dq| - L) when |dq| >= L.  Then c <= 2 cos dq. *)
Theorem visited_slice_cos : forall L dq c,
  0 <= L <= PI / 2 -> - (PI / 2) < dq < PI / 2 -> sin L < cos dq ->
  0 <= c <= 1 -> (L <= Rabs dq -> c <= cos (Rabs dq - L)) ->
  c <= 2 * cos dq.
Proof.
  intros L dq c HL Hq Hcap Hc Hvis. pose proof PI_RGT_0 as Hpi.
  rewrite <- (cos_Rabs dq) in *. set (d := Rabs dq) in *.
  assert (Hd : 0 <= d < PI / 2) by (unfold d, Rabs; destruct (Rcase_abs dq); lra).
  assert (Hcd : 0 < cos d) by (apply cos_gt_0; lra).
  destruct (Rle_or_lt L d) as [H1|H1].
  - specialize (Hvis H1). rewrite cos_minus in Hvis.
    assert (Hsd : 0 <= sin d <= 1) by (split; [apply sin_ge_0; lra|apply SIN_bound]).
    assert (HsL : 0 <= sin L) by (apply sin_ge_0; lra).
    assert (HcL : cos L <= 1) by apply COS_bound.
    assert (sin d * sin L <= 1 * sin L) by (apply Rmult_le_compat_r; lra).
    assert (cos d * cos L <= cos d * 1) by (apply Rmult_le_compat_l; lra).
    lra.
  - (* d < L and sin L < cos d : d < PI/4, cos d > 1/2 *)
    assert (Hd4 : d < PI / 4).
    { destruct (Rlt_or_le d (PI / 4)) as [H|H]; [exact H|]. exfalso.
      assert (sin d < sin L) by (apply sin_increasing_1; lra).
      assert (cos d <= cos (PI / 4)) by (apply cos_decr_1; lra).
      assert (sin (PI / 4) <= sin d) by (apply sin_incr_1; lra).
      rewrite cos_PI4 in *. rewrite sin_PI4 in *. lra. }
    assert (cos (PI / 4) < cos d) by (apply cos_decreasing_1; lra).
    rewrite cos_PI4 in *.
    assert (1 / 2 < 1 / sqrt 2).
    { pose proof sqrt2_lt_2. assert (0 < sqrt 2) by (apply sqrt_lt_R0; lra).
      unfold Rdiv. rewrite !Rmult_1_l. apply Rinv_lt_contravar; lra. }
    lra.
Qed.

(* With cells of width w / c in RA (w = chunksize >= 4 L, c = cosDecMin of the slice): the margin fits in one cell.
   Everything in radians; the statement is homogeneous, so it holds in degrees as well. *)
Theorem ra_margin_le_cell : forall L dq c w,
  0 <= L <= PI / 2 -> - (PI / 2) < dq < PI / 2 -> sin L < cos dq ->
  0 < c <= 1 -> (L <= Rabs dq -> c <= cos (Rabs dq - L)) ->
  4 * L <= w ->
  asin (sin L / cos dq) <= w / c.
Proof.
  intros L dq c w HL Hq Hcap Hc Hvis Hw. pose proof PI_RGT_0 as Hpi.
  assert (Hcq : 0 < cos dq) by (apply cos_gt_0; lra).
  pose proof (ra_margin_le_twice_flat L dq HL Hq Hcap) as H1.
  pose proof (visited_slice_cos L dq c HL Hq Hcap ltac:(lra) Hvis) as H2.
  assert (HsL : 0 <= sin L <= L).
  { split; [apply sin_ge_0; lra|]. destruct (Req_dec L 0) as [E|E]; [rewrite E, sin_0; lra|]. left. apply sin_lt_x. lra. }
  eapply Rle_trans; [exact H1|].
  apply (Rmult_le_reg_r (cos dq * c)); [apply Rmult_lt_0_compat; lra|].
  replace (2 * (sin L / cos dq) * (cos dq * c)) with (2 * sin L * c) by (field; lra).
  replace (w / c * (cos dq * c)) with (w * cos dq) by (field; lra).
  assert (2 * sin L * c <= 2 * L * c) by (apply Rmult_le_compat_r; lra).
  assert (2 * L * c <= 2 * L * (2 * cos dq)) by (apply Rmult_le_compat_l; lra).
  assert (4 * L * cos dq <= w * cos dq) by (apply Rmult_le_compat_r; lra).
  lra.
Qed.

(* non-vacuity of the premises of the theorems above *)
Lemma sphere_premises_example :
  let dp := 0 in let ap := 1 / 10 in let dq := 1 / 20 in let aq := 6 in let L := 1 / 2 in
  (- (PI / 2) <= dp <= PI / 2) /\ (- (PI / 2) < dq < PI / 2) /\ (0 <= L <= PI / 2) /\ sin L < cos dq /\
  cos L < dotp dp ap dq aq /\ (0 <= ap < 2 * PI) /\ (0 <= aq < 2 * PI) /\ PI < Rabs (ap - aq).
Proof.
  cbv zeta. unfold dotp. rewrite Rabs_left by lra.
  repeat split; try interval.
Qed.

Lemma cell_premises_example :
  let L := 1 / 10 in let dq := 1 in let c := 1 / 2 in let w := 1 in
  (0 <= L <= PI / 2) /\ (- (PI / 2) < dq < PI / 2) /\ sin L < cos dq /\ (0 < c <= 1) /\
  (L <= Rabs dq -> c <= cos (Rabs dq - L)) /\ 4 * L <= w.
Proof.
  cbv zeta. rewrite Rabs_right by lra. repeat split; try intro; try interval.
Qed.
