(* C05 -- the tail of spheregroup(): renumbering in order of appearance, list rebuild, multiplicities.
   renumber_refines: for ANY labelling lab0 given with its true lists (first_of, next_of), renumber_model
   returns the canonical renumbering `canon lab0` and lists_of it.
   canon_is_label: if lab0 is constant exactly on the classes of E then canon lab0 = label (components). *)
From Coq Require Import ZArith List Bool Arith Lia Relations Sorted.
Import ListNotations.
From PV Require Import C05.Model C05.Proofs.

Section Renumber.
  Variable n : nat.
  Variable lab0 : nat -> nat.

  Notation same i := (fun j => Nat.eqb (lab0 j) (lab0 i)).
  Notation fidx := (firstidx n lab0).
  Notation isf := (isfirst n lab0).
  Notation cn := (canon n lab0).

  (* ------------------------------------------------------------ facts about firstidx / isfirst / canon *)
  Lemma hd_filter_seq : forall (P : nat -> bool) m a d x,
    hd d (filter P (seq a m)) = x -> (exists y, a <= y < a + m /\ P y = true) ->
    a <= x < a + m /\ P x = true /\ forall y, a <= y < x -> P y = false.
  Proof.
    induction m as [|m IH]; intros a d x H [y [Hy Py]]; [lia|].
    change (seq a (S m)) with (a :: seq (S a) m) in H. cbn [filter] in H.
    destruct (P a) eqn:Ea.
    - simpl in H. subst x. split; [lia|]. split; [exact Ea|]. intros; lia.
    - assert (Hex : exists y, S a <= y < S a + m /\ P y = true).
      { exists y. split; [|exact Py]. destruct (Nat.eq_dec y a) as [->|]; [congruence|lia]. }
      destruct (IH (S a) d x H Hex) as [H1 [H2 H3]].
      split; [lia|]. split; [exact H2|]. intros z Hz.
      destruct (Nat.eq_dec z a) as [->|]; [exact Ea|apply H3; lia].
  Qed.

  Lemma fidx_spec : forall i, i < n ->
    fidx i <= i /\ lab0 (fidx i) = lab0 i /\ forall y, y < fidx i -> lab0 y <> lab0 i.
  Proof.
    intros i Hi. unfold firstidx.
    destruct (hd_filter_seq (same i) n 0 i (hd i (filter (same i) (seq 0 n))) eq_refl) as [H1 [H2 H3]].
    - exists i. split; [lia|apply Nat.eqb_refl].
    - apply Nat.eqb_eq in H2. split; [|split; [exact H2|]].
      + destruct (le_lt_dec (hd i (filter (same i) (seq 0 n))) i) as [H|H]; [exact H|].
        specialize (H3 i ltac:(lia)). rewrite Nat.eqb_refl in H3. discriminate.
      + intros y Hy. specialize (H3 y ltac:(lia)). apply Nat.eqb_neq in H3. exact H3.
  Qed.

  Lemma fidx_same : forall i j, i < n -> j < n -> lab0 i = lab0 j -> fidx i = fidx j.
  Proof.
    intros i j Hi Hj H. destruct (fidx_spec i Hi) as [A1 [A2 A3]]. destruct (fidx_spec j Hj) as [B1 [B2 B3]].
    destruct (Nat.lt_trichotomy (fidx i) (fidx j)) as [Hlt|[He|Hgt]]; [|exact He|].
    - exfalso. apply (B3 _ Hlt). congruence.
    - exfalso. apply (A3 _ Hgt). congruence.
  Qed.

  Lemma fidx_idem : forall i, i < n -> fidx (fidx i) = fidx i.
  Proof.
    intros i Hi. destruct (fidx_spec i Hi) as [A1 [A2 A3]].
    apply fidx_same; [lia|exact Hi|exact A2].
  Qed.

  Lemma isf_iff : forall j, j < n -> (isf j = true <-> fidx j = j).
  Proof. intros. unfold isfirst. apply Nat.eqb_eq. Qed.

  Definition nfirst (a : nat) : nat := length (filter isf (seq 0 a)).

  Lemma nfirst_S : forall a, nfirst (S a) = nfirst a + (if isf a then 1 else 0).
  Proof.
    intro a. unfold nfirst. rewrite seq_S, filter_app, app_length. simpl.
    destruct (isf a); reflexivity.
  Qed.

  Lemma nfirst_mono : forall a b, a <= b -> nfirst a <= nfirst b.
  Proof. induction 1; [lia|]. rewrite nfirst_S. lia. Qed.

  Lemma nfirst_lt : forall a b, a < b -> isf a = true -> nfirst a < nfirst b.
  Proof.
    intros a b Hab Ha. pose proof (nfirst_mono (S a) b Hab) as H. rewrite nfirst_S, Ha in H. lia.
  Qed.

  Lemma canon_eq : forall i, cn i = nfirst (fidx i).
  Proof. reflexivity. Qed.

  Lemma isf_fidx : forall i, i < n -> isf (fidx i) = true.
  Proof. intros i Hi. destruct (fidx_spec i Hi) as [A1 _]. apply isf_iff; [lia|]. apply fidx_idem. exact Hi. Qed.

  (* canon separates exactly the classes of lab0 *)
  Lemma canon_same_iff : forall i j, i < n -> j < n -> (cn i = cn j <-> lab0 i = lab0 j).
  Proof.
    intros i j Hi Hj. rewrite !canon_eq. split.
    - intro H. destruct (fidx_spec i Hi) as [A1 [A2 _]]. destruct (fidx_spec j Hj) as [B1 [B2 _]].
      destruct (Nat.lt_trichotomy (fidx i) (fidx j)) as [Hlt|[He|Hgt]].
      + pose proof (nfirst_lt _ _ Hlt (isf_fidx i Hi)). lia.
      + congruence.
      + pose proof (nfirst_lt _ _ Hgt (isf_fidx j Hj)). lia.
    - intro H. rewrite (fidx_same i j Hi Hj H). reflexivity.
  Qed.

  Lemma canon_lt_total : forall i, i < n -> cn i < nfirst n.
  Proof.
    intros i Hi. rewrite canon_eq. destruct (fidx_spec i Hi) as [A1 _].
    apply nfirst_lt; [lia|apply isf_fidx; exact Hi].
  Qed.

  (* ------------------------------------------------------------ the relabelling walk *)
  Definition upd_class (a : nat) (g : nat) (c : Z) (ing : arr) : arr :=
    fun x => if (a <=? x) && (x <? n) && Nat.eqb (lab0 x) g then c else ing x.
  Definition upd_ren (a : nat) (g : nat) (ren : nat -> bool) : nat -> bool :=
    fun x => if (a <=? x) && (x <? n) && Nat.eqb (lab0 x) g then true else ren x.

  (* the list arrays the loop reads: any arrays that agree with the true lists of lab0 *)
  Variables f0 nx0 : arr.
  Hypothesis Hf0 : forall g, f0 g = first_of n lab0 g.
  Hypothesis Hnx0 : forall i, i < n -> nx0 i = next_of n lab0 i.

  Lemma relabel_walk_spec : forall g c m a fuel ing ren, a + m = n -> m < fuel ->
    forall x,
    fst (relabel_walk fuel nx0 ing ren (hdz (filter (fun j => Nat.eqb (lab0 j) g) (seq a m))) c) x
      = upd_class a g c ing x /\
    snd (relabel_walk fuel nx0 ing ren (hdz (filter (fun j => Nat.eqb (lab0 j) g) (seq a m))) c) x
      = upd_ren a g ren x.
  Proof.
    induction m as [|m IH]; intros a fuel ing ren Ham Hf x.
    - destruct fuel; [lia|]. simpl. unfold upd_class, upd_ren.
      assert (E : (a <=? x) && (x <? n) = false).
      { destruct (a <=? x) eqn:E1; [|reflexivity]. apply Nat.leb_le in E1.
        simpl. apply Nat.ltb_ge. lia. }
      rewrite E. simpl. split; reflexivity.
    - destruct fuel as [|fuel]; [lia|].
      change (seq a (S m)) with (a :: seq (S a) m). cbn [filter].
      destruct (Nat.eqb (lab0 a) g) eqn:Ea.
      + cbn [hdz relabel_walk].
        assert (Hne : (Z.of_nat a =? -1)%Z = false) by (apply Z.eqb_neq; lia).
        rewrite Hne. unfold aget. rewrite Nat2Z.id, Hnx0 by lia.
        assert (Hnext : next_of n lab0 a = hdz (filter (fun j => Nat.eqb (lab0 j) g) (seq (S a) m))).
        { unfold next_of. apply Nat.eqb_eq in Ea. rewrite Ea. replace (n - S a) with m by lia. reflexivity. }
        rewrite Hnext.
        destruct (IH (S a) fuel (aset ing a c) (bset ren a true) ltac:(lia) ltac:(lia) x) as [H1 H2].
        rewrite H1, H2. unfold upd_class, upd_ren, aset, bset.
        destruct (Nat.eq_dec x a) as [->|Hxa].
        * rewrite Nat.eqb_refl, Ea.
          assert (E1 : (S a <=? a) = false) by (apply Nat.leb_gt; lia).
          assert (E2 : (a <=? a) = true) by (apply Nat.leb_le; lia).
          assert (E3 : (a <? n) = true) by (apply Nat.ltb_lt; lia).
          rewrite E1, E2, E3. simpl. split; reflexivity.
        * assert (E0 : Nat.eqb x a = false) by (apply Nat.eqb_neq; exact Hxa).
          rewrite E0.
          assert (E1 : (S a <=? x) = (a <=? x)).
          { destruct (a <=? x) eqn:E; [apply Nat.leb_le in E; apply Nat.leb_le; lia|apply Nat.leb_gt in E; apply Nat.leb_gt; lia]. }
          rewrite E1. split; reflexivity.
      + destruct (IH (S a) (S fuel) ing ren ltac:(lia) ltac:(lia) x) as [H1 H2].
        rewrite H1, H2. unfold upd_class, upd_ren.
        destruct (Nat.eq_dec x a) as [->|Hxa].
        * rewrite Ea, !andb_false_r. split; reflexivity.
        * assert (E1 : (S a <=? x) = (a <=? x)).
          { destruct (a <=? x) eqn:E; [apply Nat.leb_le in E; apply Nat.leb_le; lia|apply Nat.leb_gt in E; apply Nat.leb_gt; lia]. }
          rewrite E1. split; reflexivity.
  Qed.

  (* ------------------------------------------------------------ the renumbering loop *)
  Definition rinv (i : nat) (ing : arr) (ren : nat -> bool) (c : Z) : Prop :=
    c = Z.of_nat (nfirst i) /\
    forall x, x < n ->
      (ren x = true <-> fidx x < i) /\
      (ren x = true -> ing x = Z.of_nat (cn x)) /\
      (ren x = false -> ing x = Z.of_nat (lab0 x)).

  Lemma first_of_first : forall i, i < n -> fidx i = i -> first_of n lab0 (lab0 i) = Z.of_nat i.
  Proof.
    intros i Hi Hf. pose proof (first_least n lab0 (lab0 i)) as H.
    destruct (members n lab0 (lab0 i)) as [|j l] eqn:Em.
    - exfalso. assert (Hin : In i (members n lab0 (lab0 i))) by (apply members_spec; auto).
      rewrite Em in Hin. contradiction.
    - destruct H as [H1 H2]. rewrite H1. f_equal.
      assert (Hj : In j (members n lab0 (lab0 i))) by (rewrite Em; left; reflexivity).
      apply members_spec in Hj. destruct Hj as [Hjn Hjl].
      specialize (H2 i Hi eq_refl).
      destruct (fidx_spec i Hi) as [_ [_ A3]].
      destruct (Nat.eq_dec j i) as [|Hne]; [assumption|]. exfalso.
      apply (A3 j); [lia|exact Hjl].
  Qed.

  (* the loop establishes rinv n: stated with an arbitrary postcondition Q of the returned (ingroup, iclump) *)
  Lemma renumber_loop_post : forall (Q : arr * Z -> Prop),
    (forall ing ren c, rinv n ing ren c -> Q (ing, c)) ->
    forall m i ing ren c, i + m = n -> rinv i ing ren c ->
    Q (renumber_loop (S n) f0 nx0 (seq i m) ing ren c).
  Proof.
    intros Q HQ.
    induction m as [|m IH]; intros i ing ren c Him [Hc Hinv].
    - simpl. apply (HQ ing ren c). replace n with i by lia. split; assumption.
    - change (seq i (S m)) with (i :: seq (S i) m). cbn [renumber_loop].
      assert (Hi : i < n) by lia.
      destruct (ren i) eqn:Eri.
      + (* i already renumbered: it is not the first of its class *)
        apply (IH (S i)); [lia|].
        assert (Hfi : fidx i < i) by (apply (Hinv i Hi); exact Eri).
        assert (Hnf : isf i = false).
        { destruct (isf i) eqn:E; [|reflexivity]. apply isf_iff in E; [lia|exact Hi]. }
        split; [rewrite nfirst_S, Hnf, Hc; f_equal; lia|].
        intros y Hy. destruct (Hinv y Hy) as [H1 [H2 H3]]. split; [|split; assumption].
        rewrite H1. split; [lia|]. intro H. destruct (Nat.eq_dec (fidx y) i) as [He|]; [|lia].
        exfalso. assert (fidx (fidx y) = fidx y) by (apply fidx_idem; exact Hy). rewrite He in H0. lia.
      + (* i starts a new group *)
        assert (Hfi : fidx i = i).
        { destruct (fidx_spec i Hi) as [A1 _]. destruct (Hinv i Hi) as [H1 _].
          destruct (Nat.eq_dec (fidx i) i); [assumption|]. exfalso.
          assert (ren i = true) by (apply H1; lia). congruence. }
        assert (Hing : ing i = Z.of_nat (lab0 i)) by (apply (Hinv i Hi); exact Eri).
        unfold aget at 1. rewrite Hing, Nat2Z.id, Hf0, (first_of_first i Hi Hfi).
        assert (Hhd : Z.of_nat i = hdz (filter (fun j => Nat.eqb (lab0 j) (lab0 i)) (seq i (S m)))).
        { change (seq i (S m)) with (i :: seq (S i) m). cbn [filter]. rewrite Nat.eqb_refl. reflexivity. }
        rewrite Hhd.
        pose proof (relabel_walk_spec (lab0 i) c (S m) i (S n) ing ren Him ltac:(lia)) as Hw.
        destruct (relabel_walk (S n) nx0 ing ren
                    (hdz (filter (fun j => Nat.eqb (lab0 j) (lab0 i)) (seq i (S m)))) c) as [ing' ren'] eqn:Ew.
        cbn [fst snd] in Hw.
        apply (IH (S i)); [lia|].
        assert (Hisf : isf i = true) by (apply isf_iff; assumption).
        split; [rewrite nfirst_S, Hisf, Hc; lia|].
        intros y Hy. destruct (Hw y) as [Hy1 Hy2]. rewrite Hy1, Hy2. unfold upd_class, upd_ren.
        destruct (Hinv y Hy) as [H1 [H2 H3]].
        assert (Eyn : (y <? n) = true) by (apply Nat.ltb_lt; exact Hy). rewrite Eyn, andb_true_r.
        destruct (Nat.eqb (lab0 y) (lab0 i)) eqn:Eyl.
        * apply Nat.eqb_eq in Eyl.
          assert (Hfy : fidx y = i) by (rewrite (fidx_same y i Hy Hi Eyl); exact Hfi).
          assert (Eiy : (i <=? y) = true).
          { apply Nat.leb_le. destruct (fidx_spec y Hy) as [A1 _]. lia. }
          rewrite Eiy. simpl. split; [split; [lia|reflexivity]|]. split; [|discriminate].
          intros _. rewrite canon_eq, Hfy, Hc. reflexivity.
        * rewrite andb_false_r. split; [|split; assumption].
          rewrite H1. split; [lia|]. intro H. destruct (Nat.eq_dec (fidx y) i) as [He|]; [|lia].
          exfalso. apply Nat.eqb_neq in Eyl. apply Eyl.
          destruct (fidx_spec y Hy) as [_ [A2 _]]. rewrite <- A2, He. reflexivity.
  Qed.

  Lemma renumber_loop_spec : forall m i ing ren c, i + m = n -> rinv i ing ren c ->
    forall x, x < n ->
    fst (renumber_loop (S n) f0 nx0 (seq i m) ing ren c) x = Z.of_nat (cn x).
  Proof.
    intros m i ing ren c Him Hr x Hx.
    apply (renumber_loop_post (fun r => fst r x = Z.of_nat (cn x))); [|exact Him|exact Hr].
    intros ing' ren' c' [Hc Hinv]. cbn [fst]. destruct (Hinv x Hx) as [H1 [H2 _]]. apply H2. apply H1.
    destruct (fidx_spec x Hx). lia.
  Qed.

  Lemma renumber_loop_count : forall m i ing ren c, i + m = n -> rinv i ing ren c ->
    snd (renumber_loop (S n) f0 nx0 (seq i m) ing ren c) = Z.of_nat (nfirst n).
  Proof.
    intros m i ing ren c Him Hr.
    apply (renumber_loop_post (fun r => snd r = Z.of_nat (nfirst n))); [|exact Him|exact Hr].
    intros ing' ren' c' [Hc _]. exact Hc.
  Qed.

  (* ------------------------------------------------------------ list rebuild *)
  Variable lab : nat -> nat.     (* the labelling the lists are rebuilt from *)

  Lemma build_lists_spec : forall a first next ing,
    a <= n ->
    (forall i, i < n -> ing i = Z.of_nat (lab i)) ->
    (forall g, first g = hdz (filter (fun i => Nat.eqb (lab i) g) (seq a (n - a)))) ->
    (forall i, a <= i < n -> next i = next_of n lab i) ->
    let r := build_lists (rev (seq 0 a)) ing first next in
    (forall g, fst r g = first_of n lab g) /\ (forall i, i < n -> snd r i = next_of n lab i).
  Proof.
    induction a as [|a IH]; intros first next ing Ha Hing Hf Hn.
    - simpl. split.
      + intro g. rewrite Hf. rewrite Nat.sub_0_r. reflexivity.
      + intros i Hi. apply Hn. lia.
    - rewrite seq_S, rev_app_distr. simpl rev. simpl app. cbn [build_lists].
      assert (Hia : ing a = Z.of_nat (lab a)) by (apply Hing; lia).
      apply IH; [lia|exact Hing| |].
      + intro g. unfold aset. rewrite Hia, Nat2Z.id.
        replace (n - a) with (S (n - S a)) by lia.
        change (seq a (S (n - S a))) with (a :: seq (S a) (n - S a)). cbn [filter].
        destruct (Nat.eq_dec g (lab a)) as [->|Hne].
        * rewrite !Nat.eqb_refl. reflexivity.
        * assert (E1 : Nat.eqb g (lab a) = false) by (apply Nat.eqb_neq; exact Hne).
          assert (E2 : Nat.eqb (lab a) g = false) by (apply Nat.eqb_neq; auto).
          rewrite E1, E2. apply Hf.
      + intros i Hi. unfold aset. destruct (Nat.eq_dec i a) as [->|Hne].
        * rewrite Nat.eqb_refl. unfold aget. rewrite Hia, Nat2Z.id, Hf. reflexivity.
        * assert (E1 : Nat.eqb i a = false) by (apply Nat.eqb_neq; exact Hne).
          rewrite E1. apply Hn. lia.
  Qed.

  Lemma count_walk_filter : forall nx, (forall i, i < n -> nx i = next_of n lab i) ->
    forall g m a fuel acc, a + m = n -> m < fuel ->
    count_walk fuel nx (hdz (filter (fun i => Nat.eqb (lab i) g) (seq a m))) acc
    = (acc + Z.of_nat (length (filter (fun i => Nat.eqb (lab i) g) (seq a m))))%Z.
  Proof.
    intros nx Hnx g. induction m as [|m IH]; intros a fuel acc Ham Hf.
    - destruct fuel; [lia|]. simpl. lia.
    - destruct fuel as [|fuel]; [lia|].
      change (seq a (S m)) with (a :: seq (S a) m). cbn [filter].
      destruct (Nat.eqb (lab a) g) eqn:Ea.
      + cbn [hdz count_walk length].
        assert (Hne : (Z.of_nat a =? -1)%Z = false) by (apply Z.eqb_neq; lia).
        rewrite Hne. unfold aget. rewrite Nat2Z.id, Hnx by lia.
        assert (Hnext : next_of n lab a = hdz (filter (fun j => Nat.eqb (lab j) g) (seq (S a) m))).
        { unfold next_of. apply Nat.eqb_eq in Ea. rewrite Ea. replace (n - S a) with m by lia. reflexivity. }
        rewrite Hnext, IH by lia. lia.
      + apply IH; lia.
  Qed.
End Renumber.

(* ------------------------------------------------------------ the tail of spheregroup() *)
Theorem renumber_refines_gen : forall n lab0 ing0 f0 nx0 K,
  (forall i, i < n -> ing0 i = Z.of_nat (lab0 i)) ->
  (forall g, f0 g = first_of n lab0 g) ->
  (forall i, i < n -> nx0 i = next_of n lab0 i) ->
  length (filter (isfirst n lab0) (seq 0 n)) <= K ->
  renumber_model n ing0 f0 nx0 K
  = (map (fun i => Z.of_nat (canon n lab0 i)) (seq 0 n), lists_of n (canon n lab0)).
Proof.
  intros n lab0 ing0 f0 nx0 K Hi0 Hf0 Hnx0 HK. unfold renumber_model.
  destruct (renumber_loop (S n) f0 nx0 (seq 0 n) ing0 (fun _ => false) 0%Z) as [ing c] eqn:El.
  assert (Hing : forall x, x < n -> ing x = Z.of_nat (canon n lab0 x)).
  { intros x Hx. pose proof (renumber_loop_spec n lab0 f0 nx0 Hf0 Hnx0 n 0 ing0 (fun _ => false) 0%Z) as H.
    rewrite El in H. apply H; [lia| |exact Hx].
    split; [reflexivity|]. intros y Hy. split; [split; [discriminate|lia]|]. split; [discriminate|intros _; apply Hi0; exact Hy]. }
  pose proof (build_lists_spec n (canon n lab0) n (const (-1)%Z) nx0 ing (le_n n) Hing) as Hb.
  destruct (build_lists (rev (seq 0 n)) ing (const (-1)%Z) nx0) as [first next] eqn:Eb.
  destruct Hb as [Hf Hn].
  { intro g. rewrite Nat.sub_diag. reflexivity. }
  { intros i Hi. lia. }
  cbn [fst snd] in Hf, Hn.
  unfold lists_of, tolist. f_equal; [|f_equal; [f_equal|]].
  - apply map_ext_in. intros x Hx. apply in_seq in Hx. apply Hing. lia.
  - apply map_ext_in. intros g Hg. apply in_seq in Hg. unfold mult_loop.
    fold (nfirst n lab0 n) in HK.
    destruct (g <? K) eqn:Eg.
    + rewrite Hf. unfold first_of, members.
      rewrite (count_walk_filter n (canon n lab0) next Hn g n 0 (S n) 0%Z) by lia. reflexivity.
    + apply Nat.ltb_ge in Eg. symmetry.
      apply (beyond_groups n (canon n lab0) (nfirst n lab0 n) g); [|lia].
      intros i Hi. apply canon_lt_total. exact Hi.
  - apply map_ext_in. intros g Hg. apply Hf.
  - apply map_ext_in. intros i Hi. apply in_seq in Hi. apply Hn. lia.
Qed.

Theorem renumber_refines : forall n lab0,
  renumber_model n (fun i => Z.of_nat (lab0 i)) (first_of n lab0) (next_of n lab0)
                 (length (filter (isfirst n lab0) (seq 0 n)))
  = (map (fun i => Z.of_nat (canon n lab0 i)) (seq 0 n), lists_of n (canon n lab0)).
Proof. intros. apply renumber_refines_gen; auto. Qed.

Lemma NoDup_map_inj_in : forall (f : nat -> nat) l,
  (forall x y, In x l -> In y l -> f x = f y -> x = y) -> NoDup l -> NoDup (map f l).
Proof.
  induction l as [|a r IH]; intros Hinj Hnd; simpl; [constructor|].
  inversion Hnd; subst. constructor.
  - intro Hin. apply in_map_iff in Hin. destruct Hin as [x [Hx Hxr]].
    assert (x = a) by (apply Hinj; [right; exact Hxr|left; reflexivity|exact Hx]). subst x. contradiction.
  - apply IH; [|assumption]. intros x y Hx Hy. apply Hinj; right; assumption.
Qed.

(* distinct groups have distinct labels: there are at most as many groups as label values *)
Lemma nfirst_le_bound : forall n lab0 K, (forall i, i < n -> lab0 i < K) ->
  length (filter (isfirst n lab0) (seq 0 n)) <= K.
Proof.
  intros n lab0 K HK.
  rewrite <- (map_length lab0), <- (seq_length K 0).
  apply NoDup_incl_length.
  - apply NoDup_map_inj_in; [|apply NoDup_filter; apply seq_NoDup].
    intros x y Hx Hy Hxy. apply filter_In in Hx. apply filter_In in Hy.
    destruct Hx as [Hx Fx]. destruct Hy as [Hy Fy]. apply in_seq in Hx. apply in_seq in Hy.
    apply isf_iff in Fx; [|lia]. apply isf_iff in Fy; [|lia].
    rewrite <- Fx, <- Fy. apply fidx_same; [lia|lia|exact Hxy].
  - intros v Hv. apply in_map_iff in Hv. destruct Hv as [x [<- Hx]]. apply filter_In in Hx.
    destruct Hx as [Hx _]. apply in_seq in Hx. apply in_seq. split; [lia|]. simpl. apply HK. lia.
Qed.
