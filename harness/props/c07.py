"""C07 -- Bitmask names and values convert consistently for any maskbits file.

Correspondence: random maskbits .par files are written to disk, loaded through the real
set_maskbits(maskbits_file=...), queried through the real sdss_flagval / sdss_flagname / sdss_flagexist;
the Coq model M (C07/Model.v: load, flagval, flagname, flagexist) and the specification S (spec_*) are
evaluated by vm_compute on the rows the real raw yanny reader returned for the same file.
"""
import os
import re

from harness import common as C
from translate import c07 as T

ID = 'C07'
PROPS_V = 'C07/Props.v'
LEVEL = 'proof'
TRUSTED = [
    'translate/c07.py: reads off the ast of set_maskbits / sdss_flagval / sdss_flagname / sdss_flagexist the eight facts of '
    'Generated/Maskbits.v (load_upper, scan_bits, ...), the return chain of sdss_flagexist (exist_ret_code) and the table / column '
    'names set_maskbits reads (src_*); each is a proof obligation in C07/Props.v',
    'hand-written models C07/Model.v of set_maskbits (python dict = insertion-ordered association list), sdss_flagval, '
    'sdss_flagname, sdss_flagexist and C07/FileModel.v of the cells set_maskbits reads from the raw yanny object -- tied to the '
    'code by exact correspondence on every run (answers, error classes, and the loaded dictionary cell by cell)',
    'the model of the raw yanny reader Yanny/Parse.v (proved and tied in C01/C02): Coq parses the text of every generated file '
    'itself, and its rows are compared with the rows the real yanny(raw=True) returned',
    'numpy uint64 scalar arithmetic (**, +=, <<, &) and str.upper() on ASCII (exercised, modelled as Z mod 2^64 / byte map)',
    'Coq stdlib ZArith, List, Sorting.Permutation/Sorted, Lia (theorems closed under the global context)',
]
ASSUMPTIONS = [
    'the network download path (maskbits_file=None) is outside the model',
    'names are ASCII identifiers; str.upper() on non-ASCII text is outside the model',
    'the property speaks about well-formed files (bits 0..63, one label per bit and one bit per label within a group '
    'modulo case, aliases naming an existing group and being new names); ill-formed files are compared model vs code, and '
    'their behaviour is pinned by C07_any_file_last_row_wins / C07_single_bit_first_label / C07_two_labels_one_bit_refuted',
    'flag values are Python ints or numpy.uint64 in [0, 2^64); label arguments are a str or a list of str; other argument '
    'types are outside the modelled calling conventions',
]

STRUCTS = '''typedef struct {
    char flag[20]; # Flag name
    short bit; # Bit number, 0-indexed
    char label[30]; # Bit label
    char description[100]; # text description
} maskbits;

typedef struct {
    char flag[20]; # Flag name
    short datatype; # Data type {8, 16, 32, 64}
    char description[100]; # text description
} masktype;

typedef struct {
    char flag[20]; # Flag (real) name
    char alias[20]; # Alias
    char description[100]; # text description
} maskalias;
'''

LETTERS = 'ABCDEFGHIJKLMNOPQRSTUVWXYZ'
REST = LETTERS + '0123456789_'


def translate(ctx):
    text, info = T.generate(C.REPO)
    path = os.path.join(C.COQ, 'Generated', 'Maskbits.v')
    if text is not None:
        info['changed'] = C.write_if_changed(path, text)
    else:
        info['note'] = ('shape of set_maskbits not recognised; the previous Generated/Maskbits.v is kept and the '
                        'correspondence run decides which load model matches the code')
    ctx.c07_translate = info
    return {'Maskbits': info}


# ---------------------------------------------------------------- generators

def ident(rng, lo=2, hi=9):
    n = rng.randint(lo, hi)
    return rng.choice(LETTERS) + ''.join(rng.choice(REST) for _ in range(n - 1))


def respell(rng, s):
    """a random ASCII-case spelling of s"""
    t = rng.random()
    if t < 0.3:
        return s.upper()
    if t < 0.55:
        return s.lower()
    if t < 0.7:
        return s.capitalize()
    return ''.join(ch.lower() if rng.random() < 0.5 else ch.upper() for ch in s)


LONG_MODES = ['short', 'short', 'short', 'edge', 'long']


def new_name(rng, mode, kind, existing=()):
    """a group / alias (kind 'g') or label (kind 'l') name.  mode 'short': 2-9 characters as before; 'edge': lengths
    around the widths the standard typedef declares (20 for flag / alias, 30 for label); 'long': well beyond them.
    With some probability the new name shares a long prefix (at least the declared width) with an existing one, so
    that names cut to a declared width would collide."""
    if mode == 'short':
        return ident(rng)
    w = 20 if kind == 'g' else 30
    ex = [e for e in existing if len(e) >= w + 1]
    if ex and rng.random() < 0.3:
        e = rng.choice(ex)
        keep = rng.randint(w, len(e))
        return e[:keep] + ident(rng, 1, 6)
    t = rng.random()
    if t < 0.35:
        return ident(rng)
    if mode == 'edge':
        return ident(rng, w - 2, w + 3)
    return ident(rng, w + 1, w + 14)


def near_miss(rng, valid):
    """a string that is NOT a name of the file although it is empty, blank, or made of valid names and white space:
    '', ' ', tab, 'NAME ', ' NAME', 'NAME1 NAME2', 'NA ME', 'NAME,NAME2' ... (random case)"""
    ws = rng.choice([' ', '\t', '  ', ' \t', '\n'])
    forms = ['', ws]
    if valid:
        a = rng.choice(valid)
        b = rng.choice(valid)
        h = max(1, len(a) // 2)
        forms += [a + ws, ws + a, ws + a + ws, a + ' ' + b, a + '\t' + b, a + ',' + b, a[:h] + ' ' + a[h:], a + ' ' + a,
                  a + ' ', ' ' + a]
    return respell(rng, rng.choice(forms))


def fresh(rng, used, lo=2, hi=9):
    while True:
        s = ident(rng, lo, hi)
        if s not in used:
            used.add(s)
            return s


def char_decl(rng, name, std, maxlen, stats):
    """declaration of a char column; the declared width is drawn independently of the longest value (maxlen):
    the standard width, exactly fitting, SHORTER than the values, longer, none (`char x[]`), the legacy <w> form,
    or a plain `char x;`"""
    form = rng.choices(['std', 'fit', 'short', 'long', 'none', 'angle', 'scalar'], [30, 12, 22, 12, 10, 9, 5])[0]
    if form == 'short' and maxlen < 2:
        form = 'fit'
    w = {'std': std, 'fit': max(1, maxlen), 'short': rng.randint(1, max(1, maxlen - 1)), 'long': maxlen + rng.randint(1, 40),
         'angle': rng.choice([std, max(1, maxlen), rng.randint(1, max(1, maxlen)), maxlen + 7])}.get(form)
    rel = 'none' if w is None else ('shorter' if w < maxlen else ('equal' if w == maxlen else 'longer'))
    stats.append('%s:%s' % (form, rel))
    if form == 'none':
        return 'char %s[];' % name
    if form == 'scalar':
        return 'char %s;' % name
    if form == 'angle':
        return 'char %s<%d>;' % (name, w)
    return 'char %s[%d];' % (name, w)


def gen_decl(rng, frows, faliases, with_alias):
    """-> (typedef text, row writers): the maskbits / maskalias typedefs with declared widths, integer type, column
    order, an optional extra column and the case of the struct name drawn at random"""
    stats = []
    ml = lambda xs: max([len(x) for x in xs] or [1])
    extra = rng.random() < 0.25
    cols = ['flag', 'bit', 'label', 'description'] + (['extra'] if extra else [])
    if rng.random() < 0.35:
        rng.shuffle(cols)
    decl = {'flag': char_decl(rng, 'flag', 20, ml([r[0] for r in frows]), stats),
            'label': char_decl(rng, 'label', 30, ml([r[2] for r in frows]), stats),
            'bit': '%s bit;' % rng.choice(['short', 'short', 'int', 'long']),
            'description': 'char description[%d];' % rng.choice([100, 100, 5, 200]),
            'extra': '%s extra;' % rng.choice(['int', 'float', 'char'])}
    name = rng.choice(['maskbits', 'maskbits', 'MASKBITS', 'Maskbits'])
    text = 'typedef struct {\n' + ''.join('    %s # column %s\n' % (decl[c], c) for c in cols) + '} %s;\n' % name
    acols = ['flag', 'alias', 'description']
    if rng.random() < 0.35:
        rng.shuffle(acols)
    adecl = {'flag': char_decl(rng, 'flag', 20, ml([a[0] for a in faliases]), stats),
             'alias': char_decl(rng, 'alias', 20, ml([a[1] for a in faliases]), stats),
             'description': 'char description[100];'}
    if with_alias:
        aname = rng.choice(['maskalias', 'maskalias', 'MASKALIAS', 'MaskAlias'])
        text += '\ntypedef struct {\n' + ''.join('    %s\n' % adecl[c] for c in acols) + '} %s;\n' % aname
    return text, cols, acols, stats


DEFECTS = ['dup-label', 'dup-bit', 'bit-range', 'alias-unknown', 'alias-shadows-group', 'alias-forward']


def gen_structure(rng, mode=None):
    """-> dict(gnames, groups {GROUP: {LABEL: bit}}, aliases [(TARGET, ALIAS)]) -- a well-formed set of definitions"""
    used = set()
    ngroups = rng.randint(1, 6)
    mode = rng.choice(LONG_MODES) if mode is None else mode
    gnames = []

    def fresh_g():
        while True:
            c = new_name(rng, mode, 'g', used)
            if c not in used:
                used.add(c)
                return c
    for _ in range(ngroups):
        if gnames and rng.random() < 0.15:      # a name that extends another one (FOO / FOOBAR)
            cand = rng.choice(gnames) + ident(rng, 1, 3)
            if cand not in used:
                used.add(cand)
                gnames.append(cand)
                continue
        gnames.append(fresh_g())
    pool = [new_name(rng, mode, 'l') for _ in range(rng.randint(3, 12))]
    groups = {}
    for g in gnames:
        groups[g] = gen_group(rng, pool, mode)
    aliases = []
    names = list(gnames)
    for _ in range(rng.choice([0, 0, 1, 1, 2, 3, 4])):
        tgt = rng.choice(names)
        al = fresh_g()
        aliases.append((tgt, al))
        names.append(al)
    return {'gnames': gnames, 'groups': groups, 'aliases': aliases, 'pool': pool, 'mode': mode}


def gen_group(rng, pool, mode='short'):
    t = rng.random()
    if t < 0.15:
        n = 1
    elif t < 0.6:
        n = rng.randint(2, 6)
    elif t < 0.93:
        n = rng.randint(7, 20)
    else:
        n = rng.randint(40, 64)
    bits = set(rng.sample(range(64), n))
    if rng.random() < 0.6:
        bits.add(63)
    if rng.random() < 0.3:
        bits.add(0)
    if rng.random() < 0.2:
        bits.update((31, 32))
    if rng.random() < 0.15:
        bits.add(62)
    labs = set()
    d = {}
    for b in sorted(bits):
        while True:
            lab = rng.choice(pool) if rng.random() < 0.4 else new_name(rng, mode, 'l', labs)
            if lab not in labs:
                labs.add(lab)
                break
        d[lab] = b
    return d


def vary_structure(rng, st):
    """A different, again well-formed, set of definitions that re-uses the names of st: what a newer maskbits
    file looks like (labels renamed, bits moved, bit 63 added, groups dropped / added / turned into aliases)."""
    gnames = list(st['gnames'])
    groups = {g: dict(d) for g, d in st['groups'].items()}
    pool = st['pool']
    mode = st.get('mode', 'short')
    old_aliases = list(st['aliases'])
    dropped = []
    for g in list(gnames):
        d = groups[g]
        t = rng.random()
        if t < 0.15 and len(gnames) > 1:
            gnames.remove(g)
            del groups[g]
            dropped.append(g)
            continue
        if t < 0.3:
            continue                                  # unchanged group
        labs = list(d)
        for lab in labs:
            u = rng.random()
            if u < 0.25:                              # renamed, same bit
                b = d.pop(lab)
                while True:
                    new = rng.choice(pool) if rng.random() < 0.3 else new_name(rng, mode, 'l', d)
                    if new not in d:
                        break
                d[new] = b
            elif u < 0.4:                             # moved to a free bit
                free = [b for b in range(64) if b not in d.values()]
                if free:
                    d[lab] = rng.choice(free)
            elif u < 0.5 and len(d) > 1:              # removed
                del d[lab]
        if len(d) >= 2 and rng.random() < 0.4:        # two labels exchange their bits
            a, b = rng.sample(list(d), 2)
            d[a], d[b] = d[b], d[a]
        if 63 not in d.values() and rng.random() < 0.6:
            new = new_name(rng, mode, 'l', d)
            if new not in d:
                d[new] = 63
        for _ in range(rng.choice([0, 0, 1, 2, 5])):
            free = [b for b in range(64) if b not in d.values()]
            new = new_name(rng, mode, 'l', d)
            if free and new not in d:
                d[new] = rng.choice(free)
        # the order of the rows changes too
        it = list(d.items())
        rng.shuffle(it)
        groups[g] = dict(it)
    used = set(gnames) | set(a for _, a in old_aliases) | set(dropped)
    for _ in range(rng.choice([0, 0, 1])):
        g = fresh(rng, used)
        gnames.append(g)
        groups[g] = gen_group(rng, pool, mode)
    rng.shuffle(gnames)
    # aliases: old alias names are kept, retargeted or dropped; a dropped group may come back as an alias,
    # an old alias may come back as a group of its own
    names = list(gnames)
    aliases = []
    for tgt, al in old_aliases:
        t = rng.random()
        if t < 0.2:
            dropped.append(al)
            continue
        if t < 0.3 and al not in groups:
            gnames.append(al)
            groups[al] = gen_group(rng, pool, mode)
            names.append(al)
            continue
        if tgt not in names or t < 0.55:
            tgt = rng.choice(names)
        aliases.append((tgt, al))
        names.append(al)
    for g in list(dropped):
        if g not in names and rng.random() < 0.4:
            aliases.append((rng.choice(names), g))
            names.append(g)
            dropped.remove(g)
    if rng.random() < 0.3:
        al = fresh(rng, used | set(names))
        aliases.append((rng.choice(names), al))
        names.append(al)
    ghosts = [g for g in dropped if g not in names]
    ghost_labels = {}
    old_alias_of = {}
    for tgt, al in old_aliases:
        old_alias_of[al] = old_alias_of.get(tgt, tgt)
    for nm in names:
        oldg = st['groups'].get(old_alias_of.get(nm, nm))
        if oldg:
            ghost_labels[nm] = list(oldg)
    return {'gnames': gnames, 'groups': groups, 'aliases': aliases, 'pool': pool, 'mode': mode,
            'ghost_groups': ghosts, 'ghost_labels': ghost_labels}


def check_structure(st):
    """the generator's own well-formedness check (so that a generator slip cannot silently switch S off)"""
    names = set()
    for g in st['gnames']:
        assert g not in names, ('group twice', g)
        names.add(g)
        d = st['groups'][g]
        assert d and len(set(d.values())) == len(d) and all(0 <= b < 64 for b in d.values()), ('bits', g, d)
    for tgt, al in st['aliases']:
        assert tgt in names and al not in names, ('alias', tgt, al)
        names.add(al)


def gen_file(rng, style=None, kind=None, st=None, header=None, mode=None):
    """-> dict(text, style, kind, groups {GROUP: {LABEL: bit}}, names [GROUP or ALIAS], rows, aliases)"""
    if style is None:
        style = 'upper' if rng.random() < 0.55 else 'mixed'
    if kind is None:
        kind = 'wf' if rng.random() < 0.82 else rng.choice(DEFECTS)
    if st is None:
        st = gen_structure(rng, mode)
    check_structure(st)
    gnames = list(st['gnames'])
    groups = {g: dict(d) for g, d in st['groups'].items()}
    used = set(gnames) | set(a for _, a in st['aliases'])
    rows = [(g, b, lab) for g in gnames for lab, b in groups[g].items()]
    order = rng.random()
    if order < 0.3:
        pass
    elif order < 0.65:
        rows = []
        for g in gnames:
            it = list(groups[g].items())
            rng.shuffle(it)
            rows += [(g, b, lab) for lab, b in it]
    else:
        rng.shuffle(rows)
    aliases = list(st['aliases'])
    names = list(gnames) + [a for _, a in aliases]
    alias_of = {}
    for tgt, al in aliases:
        alias_of[al] = alias_of.get(tgt, tgt)
    # ill-formed variants (model vs code only; the property does not speak about them)
    note = ''
    if kind == 'dup-label':
        g = rng.choice(gnames)
        lab = rng.choice(list(groups[g]))
        b = rng.choice([rng.randrange(64), rng.choice(list(groups[g].values()))])
        rows.insert(rng.randint(0, len(rows)), (g, b, lab))
        note = 'label %s of %s defined twice' % (lab, g)
    elif kind == 'dup-bit':
        g = rng.choice(gnames)
        b = rng.choice(list(groups[g].values()))
        rows.insert(rng.randint(0, len(rows)), (g, b, fresh(rng, set(groups[g]))))
        note = 'bit %d of %s carries two labels' % (b, g)
    elif kind == 'bit-range':
        g = rng.choice(gnames)
        b = rng.choice([64, 65, 100, 200, -1, -3])
        rows.insert(rng.randint(0, len(rows)), (g, b, fresh(rng, set(groups[g]))))
        note = 'bit %d out of range in %s' % (b, g)
    elif kind == 'alias-unknown':
        aliases.insert(rng.randint(0, len(aliases)), (fresh(rng, used), fresh(rng, used)))
        note = 'alias of an unknown group'
    elif kind == 'alias-shadows-group':
        if len(gnames) >= 2:
            a, b = rng.sample(gnames, 2)
            aliases.insert(rng.randint(0, len(aliases)), (a, b))
            note = 'alias %s re-defines an existing group' % b
        else:
            aliases.append((gnames[0], gnames[0]))
            note = 'alias of itself'
    elif kind == 'alias-forward':
        a = fresh(rng, used)
        b = fresh(rng, used)
        aliases += [(a, b), (gnames[0], a)]
        note = 'alias of a later alias'
    # spelling in the file
    if style == 'upper':
        def sp(s):
            return s
    else:
        fixed = {}

        def sp(s):
            if rng.random() < 0.6:      # mostly one spelling per name, sometimes a different one per occurrence
                if s not in fixed:
                    fixed[s] = respell(rng, s)
                return fixed[s]
            return respell(rng, s)
    frows = [(sp(g), b, sp(lab)) for g, b, lab in rows]
    faliases = [(sp(t), sp(a)) for t, a in aliases]
    # layout
    structs = STRUCTS
    no_alias_struct = not faliases and rng.random() < 0.4
    cols, acols, decl_stats = ['flag', 'bit', 'label', 'description'], ['flag', 'alias', 'description'], ['standard-header']
    if no_alias_struct:      # no maskalias struct: set_maskbits takes the `'MASKALIAS' in maskfile` exit
        structs = STRUCTS[:STRUCTS.index('typedef struct {\n    char flag[20]; # Flag (real) name')]
    if header == 'varied' or (header is None and rng.random() < 0.5):   # typedefs whose declared widths / types / column order do not follow the standard header
        structs, cols, acols, decl_stats = gen_decl(rng, frows, faliases, not no_alias_struct)
    lines = ['#', '# generated maskbits file (%s, %s) %s' % (style, kind, note), '#', structs, '#' + '-' * 40]

    def pad():
        return ' ' * rng.randint(1, 4)
    # round 6 (class G): rows that do not carry exactly one cell per declared column.  The raw reader fills the columns
    # from the left and stops at the end of the line (a SHORT row contributes nothing to the later columns) and never looks
    # beyond the last column (an OVER-LONG row).  set_maskbits reads flag / bit / label (flag / alias) only, so a row may
    # leave out every trailing column that is not one of those -- the description is documentation -- and still defines
    # its label: such a file is well formed in the sense of the property.
    irregular = rng.random() < 0.45
    rowforms = {'full': 0, 'short': 0, 'long': 0}

    def cells(colnames, val):
        vs = [val[c] for c in colnames]
        form = 'full'
        if irregular:
            droppable = 0
            for c in reversed(colnames):
                if c in ('flag', 'bit', 'label', 'alias'):
                    break
                droppable += 1
            t = rng.random()
            if t < 0.5 and droppable:
                vs = vs[:len(vs) - rng.randint(1, droppable)]
                form = 'short'
                if rng.random() < 0.25:
                    vs.append(rng.choice(['# no description', '#', '# "quoted" remark']))
            elif t < 0.7:
                vs = vs + rng.sample(['17', 'more', '"more text"', '{1 2}', '0.5', '{{}}'], rng.randint(1, 2))
                form = 'long'
        rowforms[form] += 1
        return ''.join(pad() + v for v in vs)
    body = []
    for g in gnames:
        if rng.random() < 0.7:
            body.append((None, 'masktype %s %d "%s"' % (sp(g), rng.choice([8, 16, 32, 64]), 'type of ' + g)))
    def kw(w):
        return rng.choice([w, w, w.upper(), w.capitalize()])
    for i, (g, b, lab) in enumerate(frows):
        val = {'flag': g, 'bit': '%d' % b, 'label': lab, 'description': '"bit %d of %s"' % (b, g.upper()), 'extra': '%d' % rng.randint(0, 99)}
        body.append((i, kw('maskbits') + cells(cols, val)))
    arows = []
    for t, a in faliases:
        val = {'flag': t, 'alias': a, 'description': '"%s is a synonym"' % a.upper()}
        arows.append(kw('maskalias') + cells(acols, val))
    out = []
    if rng.random() < 0.5:
        out = [l for _, l in body] + arows
    else:   # alias rows scattered between the bit rows (their relative order is kept)
        out = [l for _, l in body]
        pos = sorted(rng.randint(0, len(out)) for _ in arows)
        for k, (p, l) in enumerate(zip(pos, arows)):
            out.insert(p + k, l)
    final = []
    for l in out:
        if rng.random() < 0.08:
            final.append('')
        if rng.random() < 0.08:
            final.append('# a comment line')
        final.append(l)
    text = '\n'.join(lines + final) + '\n'
    return {'text': text, 'style': style, 'kind': kind, 'note': note, 'groups': groups, 'gnames': gnames, 'structure': st,
            'decl': decl_stats, 'name_mode': st.get('mode', 'short'), 'row_forms': rowforms,
            'names': names, 'alias_of': alias_of, 'rows': [list(r) for r in frows], 'aliases': [list(a) for a in faliases],
            'ghost_groups': list(st.get('ghost_groups', [])), 'ghost_labels': dict(st.get('ghost_labels', {}))}


def gen_calls(rng, fi, n):
    groups = fi['groups']
    names = fi['names']
    alias_of = fi['alias_of']
    allgroups = set(names)
    ghosts = [g for g in fi.get('ghost_groups', []) if g not in allgroups]
    ghost_labels = fi.get('ghost_labels', {})
    cur = [None]

    def pick_group():
        """-> (spelling, GROUP it stands for or None, tag)"""
        t = rng.random()
        if ghosts and t < 0.1:                      # a name the previously loaded file defined, this one does not
            return respell(rng, rng.choice(ghosts)), None, 'unknown-group'
        if t > 0.95:                                # empty / blank / a valid name with white space / two names in one string
            return near_miss(rng, names), None, 'blank-group'
        if t < (0.14 if ghosts else 0.08):
            while True:
                u = ident(rng)
                if u not in allgroups:
                    return respell(rng, u), None, 'unknown-group'
        nm = rng.choice(names)
        cur[0] = nm
        real = alias_of.get(nm, nm)
        return respell(rng, nm), groups.get(real), ('alias' if nm in alias_of else 'group')

    def pick_labels(d, allow_bad=True):
        labs = list(d) if d else []
        t = rng.random()
        if not labs:
            k = rng.choice([0, 1, 2])
            return [near_miss(rng, []) if rng.random() < 0.3 else respell(rng, ident(rng)) for _ in range(k)], \
                ('empty' if k == 0 else 'unknown-label')
        if t < 0.08:
            sel = []
        elif t < 0.25:
            sel = [rng.choice(labs)]
        elif t < 0.4:
            sel = list(labs)
        else:
            sel = rng.sample(labs, rng.randint(1, len(labs)))
        hi = [l for l in labs if d[l] == 63]
        if hi and rng.random() < 0.4 and hi[0] not in sel:
            sel.append(hi[0])
        rng.shuffle(sel)
        tag = 'subset' if sel else 'empty'
        sel = [respell(rng, l) for l in sel]
        if allow_bad:
            t = rng.random()
            if t > 0.93:                            # not a label: '', blanks, 'LABEL ', 'LABEL1 LABEL2', ...
                sel.insert(rng.randint(0, len(sel)), near_miss(rng, labs))
                tag = 'blank-label'
            elif t < 0.1:
                old_labs = [l for l in ghost_labels.get(cur[0], []) if l not in d]
                while True:
                    u = rng.choice(old_labs) if old_labs and rng.random() < 0.6 else ident(rng)
                    if u not in d:
                        break
                sel.insert(rng.randint(0, len(sel)), respell(rng, u))
                tag = 'unknown-label'
            elif t < 0.17 and sel:
                sel.insert(rng.randint(0, len(sel)), respell(rng, rng.choice(sel)))
                tag = 'repeated-label'
        return sel, tag

    def pick_value(d):
        t = rng.random()
        bits = sorted(d.values()) if d else []
        if t < 0.08:
            return 0, 'zero'
        if t < 0.14:
            return rng.choice([2 ** 63, 2 ** 64 - 1, 2 ** 63 - 1, 1, 2 ** 32, 2 ** 62 + 2 ** 63]), 'edge'
        if t < 0.18:
            return rng.choice([-1, 2 ** 64, 2 ** 64 + 5, -2 ** 63]), 'out-of-range'
        if t < 0.4:
            return rng.getrandbits(64), 'random64'
        if t < 0.55:
            return 1 << rng.randrange(64), 'single-bit'
        v = 0
        for b in bits:
            if 0 <= b < 64 and rng.random() < 0.5:
                v |= 1 << b
        if bits and 63 in bits and rng.random() < 0.5:
            v |= 1 << 63
        if t < 0.8:
            for _ in range(rng.randint(1, 6)):
                v |= 1 << rng.randrange(64)      # mostly undefined bits
            return v, 'defined+undefined'
        return v, 'defined-only'

    calls = []
    for _ in range(n):
        k = rng.choices(['val', 'name', 'exist', 'vnv', 'nvn'], [30, 30, 14, 13, 13])[0]
        g, d, gtag = pick_group()
        c = {'k': k, 'g': g}
        if k in ('val', 'nvn', 'exist'):
            labs, ltag = pick_labels(d, allow_bad=True)
            if k != 'nvn' and len(labs) == 1 and rng.random() < 0.5:
                c['label'] = labs[0]
                ltag += '-str'
            else:
                c['labels'] = labs
            if k == 'exist':
                c['fe'] = rng.random() < 0.5
                c['we'] = rng.random() < 0.5
            tag = '%s:%s:%s' % (k, gtag, ltag)
        else:
            v, vtag = pick_value(d)
            c['v'] = v
            if k == 'name':
                c['concat'] = rng.random() < 0.2
                c['np'] = (0 <= v < 2 ** 64) and rng.random() < 0.3
            tag = '%s:%s:%s' % (k, gtag, vtag)
        calls.append((tag, c))
    # the same call (same arguments) again later in the sequence: an answer must not depend on having been asked before
    for _ in range(max(1, n // 10)):
        tag, c = rng.choice(calls)
        calls.insert(rng.randint(0, len(calls)), (tag, dict(c)))
    return calls[:n]


# ---------------------------------------------------------------- Coq terms

def zl(z):
    """Z literal; big numbers in hexadecimal (Coq 8.16 interprets long decimal numerals ~3x slower)"""
    z = int(z)
    t = '%d' % abs(z) if abs(z) < 65536 else hex(abs(z))
    return '(-%s)' % t if z < 0 else t


def s_num(s):
    """string -> the base-256 number that C07.Model.sz decodes (latin-1, no NUL; '' -> 0)"""
    if not all(0 < ord(ch) < 256 for ch in s):
        raise ValueError('string %r cannot be encoded for the Coq model (non latin-1 or NUL)' % (s,))
    return zl(int.from_bytes(s.encode('latin-1'), 'big'))


def s_lit(s):
    return '(sz %s)' % s_num(s)


def nums(strings):
    return C.coq_list([s_num(x) for x in strings])


def res_term(r):
    if 'val' in r:
        return '(RVal %s)' % zl(r['val'])
    if 'names' in r:
        return '(rNames %s)' % nums(r['names'])
    if 'bools' in r:
        return '(RBools %s)' % C.coq_list([C.boollit(x) for x in r['bools']])
    if r.get('err') == 'KeyError':
        return 'RKeyError'
    return 'ROther'


def labels_of(c):
    return [c['label']] if 'label' in c else c.get('labels', [])


def call_term(c):
    """a term of type call (used by explain)"""
    k = c['k']
    g = s_lit(c['g'])
    labs = '(szs %s)' % nums(labels_of(c))
    if k == 'val':
        return '(KVal %s %s)' % (g, labs)
    if k == 'name':
        return '(KName %s %s %s)' % (g, zl(c['v']), C.boollit(c.get('concat')))
    if k == 'exist':
        return '(KExist %s %s %s %s)' % (g, labs, C.boollit(c['fe']), C.boollit(c['we']))
    if k == 'vnv':
        return '(KVNV %s %s)' % (g, zl(c['v']))
    if k == 'nvn':
        return '(KNVN %s %s)' % (g, labs)
    raise ValueError(k)


def call_res_term(c, r):
    """a term of type call * res built with the compact constructors of C07.Model"""
    k = c['k']
    g = s_num(c['g'])
    rt = res_term(r)
    if k == 'val':
        return '(cVal %s %s %s)' % (g, nums(labels_of(c)), rt)
    if k == 'name':
        return '(cName %s %s %s %s)' % (g, zl(c['v']), C.boollit(c.get('concat')), rt)
    if k == 'exist':
        return '(cExist %s %s %s %s %s)' % (g, nums(labels_of(c)), C.boollit(c['fe']), C.boollit(c['we']), rt)
    if k == 'vnv':
        return '(cVNV %s %s %s)' % (g, zl(c['v']), rt)
    if k == 'nvn':
        return '(cNVN %s %s %s)' % (g, nums(labels_of(c)), rt)
    raise ValueError(k)


def rows_term(rows):
    return C.coq_list(['R %s %s %s' % (s_num(f), zl(b), s_num(l)) for f, b, l in rows])


def aliases_term(aliases):
    return C.coq_list(['A %s %s' % (s_num(f), s_num(a)) for f, a in aliases])


def coq_string(text):
    if not all(ch == '\n' or 32 <= ord(ch) < 127 for ch in text):
        raise ValueError('file text is not printable ASCII')
    return '"%s"%%string' % text.replace('"', '""')


STD_CFG = {'load_upper': True, 'scan_bits': 64, 'accumulate_is_add': True, 'acc_dtype_uint64': True, 'lookup_first': True,
           'upper_group': True, 'upper_labels': True, 'exist_all': True}


def cfg_term(cfg):
    """cfg: 'code' (= C07.Code.code_cfg, from Generated/Maskbits.v) or a dict of the eight facts"""
    if cfg == 'code':
        return 'code_cfg'
    return '(mkcfg %s %d%%nat %s %s %s %s %s %s std_ret4)' % (
        C.boollit(cfg['load_upper']), cfg['scan_bits'], C.boollit(cfg['accumulate_is_add']), C.boollit(cfg['acc_dtype_uint64']),
        C.boollit(cfg['lookup_first']), C.boollit(cfg['upper_group']), C.boollit(cfg['upper_labels']), C.boollit(cfg['exist_all']))


def table_term(tb):
    """the dictionary set_maskbits returned, in its own order (a list of TG name [(label, bit); ...])"""
    if not isinstance(tb, list):
        return '[]'
    return C.coq_list(['TG %s %s' % (s_num(g), C.coq_list(['(%s, %s)' % (s_num(l), zl(b)) for l, b in ent])) for g, ent in tb])


def case_term(cfg, text, rows, aliases, load, table, calls, results):
    loaded = 0 if load.get('ok') and isinstance(table, list) else (1 if load.get('err') == 'KeyError' else 2)
    ct = C.coq_list([call_res_term(c, r) for c, r in zip(calls, results)])
    return '(FCase %s %s %s %s %s %d %s %s)' % (cfg_term(cfg), 'code_names' if cfg == 'code' else 'std_names', coq_string(text),
                                            rows_term(rows), aliases_term(aliases), loaded, table_term(table), ct)


HEADER = '''From Coq Require Import ZArith List Bool String. Import ListNotations.
From PV Require Import C07.Model C07.FileModel C07.Code. Open Scope Z_scope.'''


def decode_strings(text):
    """make Coq's printed code lists readable: [84; 65] -> "TA" """
    def rep(m):
        codes = [int(x) for x in re.findall(r'\d+', m.group(0))]
        if codes and all(32 <= c < 127 for c in codes):
            return '"%s"' % ''.join(chr(c) for c in codes)
        return m.group(0)
    return re.sub(r'\[\s*\d+(?:\s*;\s*\d+)*\s*\]', rep, text)


def outcome_key(r):
    """comparable form of an implementation answer (error message text ignored)"""
    if r is None:
        return None
    if 'err' in r:
        return ('err', r['err'])
    if 'ok' in r:
        return ('ok',)
    return tuple(sorted((k, str(v)) for k, v in r.items() if k != 'type'))


def outcome(r):
    if r is None:
        return 'none'
    if 'err' in r:
        return r['err']
    return 'ok'


# ---------------------------------------------------------------- the run

def build_and_run(ctx, files, chains, tag='par', fresh=False):
    """files: generated file dicts (with 'calls' and 'path_key'); chains: lists of indices -- the files of one chain are
    loaded one after the other in ONE implementation process (a process handles several chains).  The implementation
    runner writes each file just before loading it, so files of a chain that share a path_key REWRITE the same path.
    Returns impl output per file."""
    d = os.path.join(ctx.work, tag)
    os.makedirs(d, exist_ok=True)
    for k, fi in enumerate(files):
        fi['path'] = os.path.join(d, '%s.par' % fi.get('path_key', 'maskbits_%04d' % k))
    nb = len(chains) if fresh else min(C.NPROC, max(1, len(chains)))      # fresh: one process per chain
    batches = [[i for ch in chains[b::nb] for i in ch] for b in range(nb)]
    payloads = [{'files': [{'path': files[i]['path'], 'text': files[i]['text'], 'calls': [c for _, c in files[i]['calls']]}
                           for i in b]} for b in batches]
    outs = C.run_impl_parallel('c07_impl.py', payloads)
    res = [None] * len(files)
    for b, o in zip(batches, outs):
        for i, r in zip(b, o['files']):
            res[i] = r
    return res, outs[0]['pydl_file']


def file_case(fi, out, cfg):
    calls = [c for _, c in fi['calls']]
    results = out['results'] if out['load'].get('ok') else []
    return case_term(cfg, fi['text'], out['rows'], out['aliases'], out['load'], out.get('table'), calls[:len(results)], results)


def correspond(ctx, proof_ok=True):
    ok, log = C.coq_make(['C07/FileModel.vo', 'C07/Code.vo'])
    if not ok:
        raise RuntimeError('C07/FileModel.v / C07/Code.v do not build:\n' + log[-2000:])
    info = getattr(ctx, 'c07_translate', None) or T.generate(C.REPO)[1]
    rng = ctx.rng
    nfiles = ctx.n(128, 2500)
    ncalls = ctx.n(32, 60)
    files = []
    chains = []
    # a few fixed shapes first: every style x kind at least once (each alone in its chain)
    for style in ('upper', 'mixed'):
        for kind in ['wf'] + DEFECTS:
            chains.append([len(files)])
            files.append(gen_file(rng, style, kind))
    # long names under the standard header (what a real newer sdssMaskbits.par looks like), and the declared widths /
    # types / column order varied against short, boundary-length and long names
    for style, mode, header in (('upper', 'long', 'std'), ('mixed', 'edge', 'std'), ('upper', 'long', 'varied'),
                                ('mixed', 'edge', 'varied'), ('upper', 'short', 'varied'), ('mixed', 'short', 'varied')):
        chains.append([len(files)])
        files.append(gen_file(rng, style, 'wf', header=header, mode=mode))
    # then chains of 1-3 files sharing names: a file, then a newer edition of it (labels renamed, bits moved, bit 63
    # added, groups / aliases dropped, added or exchanged), loaded one after the other in the same process
    # Where the editions live: under ONE path that is rewritten between the loads ('same'), under a path each
    # ('distinct'), or alternately ('alt': A at p, B at q, then p again -- rewritten with a third edition, or file A
    # loaded once more unchanged).
    for ci in range(len(chains)):
        files[chains[ci][0]]['path_key'] = 'fixed_%02d' % ci
        files[chains[ci][0]]['path_mode'] = 'single'
    while len(files) < nfiles:
        n = min(rng.choice([1, 2, 2, 3, 3, 3]), nfiles - len(files))
        mode = 'single' if n == 1 else rng.choice(['same', 'same', 'distinct', 'alt'] if n == 3 else ['same', 'same', 'distinct'])
        cid = len(chains)
        ch = []
        st = None
        for j in range(n):
            if mode == 'alt' and j == 2 and rng.random() < 0.5:
                fi = dict(files[ch[0]])                       # file A again, unchanged, after B
                fi['ghost_groups'] = list(files[ch[1]]['gnames']) + [a for _, a in files[ch[1]]['structure']['aliases']]
            else:
                st = gen_structure(rng) if st is None else vary_structure(rng, st)
                fi = gen_file(rng, st=st)
            fi['chain_pos'] = j
            fi['path_mode'] = mode
            if mode == 'same':
                fi['path_key'] = 'chain%04d' % cid
            elif mode == 'alt':
                fi['path_key'] = 'chain%04d_%s' % (cid, 'q' if j == 1 else 'p')
            else:
                fi['path_key'] = 'chain%04d_%d' % (cid, j)
            ch.append(len(files))
            files.append(fi)
        chains.append(ch)
    pred = {}
    for ch in chains:
        for j, i in enumerate(ch):
            pred[i] = ch[:j]
    for fi in files:
        fi['calls'] = gen_calls(rng, fi, ncalls)
    import time
    t_impl = time.time()
    outs, pydl_file = build_and_run(ctx, files, chains)
    t_impl = time.time() - t_impl
    ctx.coverage['pydl_file'] = pydl_file

    # which load model matches the code?  the translator says; if it did not recognise the source, try both
    cc = C.CoqCases(ctx.work, HEADER, 'run_fcases', shard=ctx.n(8, 16))
    usable = []
    for k, (fi, out) in enumerate(zip(files, outs)):
        if out.get('reader_error') or out['rows'] is None:
            ctx.violation('C07:reader-error', 'the raw yanny reader failed on a generated maskbits file: %s' % out.get('reader_error'),
                          {'kind': 'broken-correspondence', 'item': 'yanny(raw=True) on a maskbits file', 'file_text': fi['text'],
                           'error': out.get('reader_error')}, False)
            continue
        if out['rows'] != fi['rows'] or out['aliases'] != fi['aliases']:
            ctx.violation('C07:reader-rows-differ', 'the raw yanny reader did not return the rows that were written',
                          {'kind': 'broken-correspondence', 'item': 'yanny(raw=True) rows of a maskbits file (C01/C02 territory)',
                           'file_text': fi['text'], 'written': [fi['rows'], fi['aliases']], 'read': [out['rows'], out['aliases']]}, False)
        usable.append(k)
    # caller-owned label lists must come back unmodified
    for k in usable:
        for (tag, c), r in zip(files[k]['calls'], outs[k]['results']):
            if r.get('mutated_argument'):
                ctx.violation('C07:%s:argument-mutated' % c['k'], 'the label list passed by the caller was modified by the call (%s)' % tag,
                              {'kind': 'broken-correspondence', 'item': 'caller-owned argument of sdss_%s' % c['k'], 'file_text': files[k]['text'],
                               'call': c, 'before_after': r['mutated_argument']}, False)
                break
    # python type / structure of the results (the flat comparison inside Coq does not see them): sdss_flagval returns a
    # numpy.uint64 scalar; sdss_flagexist returns a bare bool, or a tuple (l[, f][, which]) with `which` a list
    want_type = 'uint64' if (not info.get('recognised') or info['facts'].get('acc_dtype_uint64')) else 'int64'
    seen_shape = {}
    for k in usable:
        for (tag, c), r in zip(files[k]['calls'], outs[k]['results']):
            if 'val' in r and r.get('type') != want_type and ('val-type', r.get('type')) not in seen_shape:
                seen_shape[('val-type', r.get('type'))] = 1
                ctx.violation('C07:%s:result-type=%s' % (c['k'], r.get('type')), 'sdss_flagval returned a %s, not a numpy.%s scalar (%s)' % (r.get('type'), want_type, tag),
                              {'kind': 'broken-correspondence', 'item': 'type of the result of sdss_flagval', 'file_text': files[k]['text'], 'call': c, 'impl_result': r}, False)
            if 'shape' in r:
                want = {(True, True): 'tuple:bool,bool,list', (True, False): 'tuple:bool,bool', (False, True): 'tuple:bool,list',
                        (False, False): 'bool'}[(bool(c['fe']), bool(c['we']))]
                if r['shape'] != want and ('shape', c['fe'], c['we'], r['shape']) not in seen_shape:
                    seen_shape[('shape', c['fe'], c['we'], r['shape'])] = 1
                    ctx.violation('C07:exist:result-shape:fe=%d:we=%d:%s' % (c['fe'], c['we'], r['shape']),
                                  'sdss_flagexist(flagexist=%s, whichexist=%s) returned the structure %s, expected %s' % (c['fe'], c['we'], r['shape'], want),
                                  {'kind': 'broken-correspondence', 'item': 'structure of the result of sdss_flagexist', 'file_text': files[k]['text'],
                                   'call': c, 'impl_result': r, 'expected_shape': want}, False)
    # which configuration of the model matches the code?  the translator says (Generated/Maskbits.v -> code_cfg); if
    # it did not recognise the source, the standard model with and without normalisation at load are both tried
    if info.get('recognised'):
        cands = ['code']
    else:
        cands = [dict(STD_CFG), dict(STD_CFG, load_upper=False)]
    best = None
    for n, cand in enumerate(cands):
        verdicts = cc.run([file_case(files[k], outs[k], cand) for k in usable], tag='cases%d' % n)
        nbad = sum(1 for v in verdicts if v & 1)
        if best is None or nbad < best[0]:
            best = (nbad, cand, verdicts)
    _, up, verdicts = best
    ctx.coverage['model_cfg'] = ('code_cfg = %r (from translate/c07.py)' % (dict(info['facts'], load_upper=info['load_upper']),)
                                 if info.get('recognised') else 'source not recognised (%s): chosen by agreement: %r' % (info.get('why'), up))

    # per-call verdicts of the files that do not pass
    bad_files = [(k, v) for k, v in zip(usable, verdicts) if v != 0]
    bad_files.sort(key=lambda kv: (len(outs[kv[0]]['rows']), kv[0]))
    findings = {}     # signature -> (size, replay, summary, failing)
    detail_budget = ctx.n(24, 200)
    # the smallest files of every class (verdict bits, style, well-formed or not) in turn, so that one frequent defect
    # cannot hide another one
    classes = {}
    for k, v in bad_files:
        classes.setdefault((v & 3, files[k]['style'], files[k]['kind'] == 'wf', bool(pred[k])), []).append((k, v))
    detailed = []
    depth = 0
    while len(detailed) < min(detail_budget, len(bad_files)):
        for key in sorted(classes):
            if depth < len(classes[key]) and len(detailed) < detail_budget:
                detailed.append(classes[key][depth])
        depth += 1
    from concurrent.futures import ThreadPoolExecutor

    def detail(kv):
        k = kv[0]
        return cc.show('fcase_verdicts %s' % file_case(files[k], outs[k], up), tag='detail%d' % k)
    with ThreadPoolExecutor(max_workers=C.NPROC) as ex:
        texts = list(ex.map(detail, detailed))
    # is a failure of a file that was loaded after other files due to that history?  re-run it alone in a fresh process
    with_hist = [k for k, _ in detailed if pred[k]]
    alone = {}
    if with_hist:
        sub = [dict(files[k], path_key='alone_%04d' % k) for k in with_hist]
        souts, _ = build_and_run(ctx, sub, [[j] for j in range(len(sub))], tag='alone', fresh=True)
        alone = dict(zip(with_hist, souts))
    for (k, v), txt in zip(detailed, texts):
        fi, out = files[k], outs[k]
        vs = C.parse_nat_list(txt)
        if vs is None:
            raise C.CoqEvalError('cannot parse fcase_verdicts output: %r' % txt[-400:])
        base = {'file_text': fi['text'], 'file_style': fi['style'], 'file_kind': fi['kind'] + (' (' + fi['note'] + ')' if fi['note'] else ''),
                'rows_read': out['rows'], 'aliases_read': out['aliases'], 'load': out['load'], 'model_cfg': up,
                'path': fi.get('path_key'), 'path_mode': fi.get('path_mode'),
                'dict_keys_after_load': out.get('keys')}
        history = [{'path': files[i]['path_key'], 'file_text': files[i]['text'], 'calls': [c for _, c in files[i]['calls']]} for i in pred[k]]

        def hist_mark(alone_result, result):
            """-> (signature suffix, extra replay fields) for an answer of a file that had predecessors"""
            if not pred[k] or k not in alone:
                return '', {}
            if outcome_key(alone_result) == outcome_key(result):
                return '', {'standalone_result': alone_result, 'note_history': 'same answer when the file is loaded alone in a fresh process'}
            return ':history-dependent', {'standalone_result': alone_result, 'history': history,
                                          'note_history': 'the answer depends on the maskbits files loaded before in the same process '
                                                          '(alone in a fresh process the answer is standalone_result); `history` lists them in order with their path '
                                                          '(an equal path = the same file name rewritten with new contents) and the calls made'}
        if vs[0] != 0:
            findings.setdefault('C07:reader-model', (len(out['rows']), dict(
                base, kind='broken-correspondence', item='C07.FileModel.file_rows (Yanny.Parse.parse_raw + file_tables)', verdict=vs[0],
                meaning='the Coq model of the raw yanny reader, applied to the bytes of the file, does not give the MASKBITS / '
                        'MASKALIAS rows the real reader returned (or puts the file outside the model)'),
                'the Coq reader model and the real raw yanny reader disagree on the rows of a maskbits file', False))
        vs = vs[1:]
        if not vs:
            continue
        if vs[0] != 0 and out['load'].get('ok') and isinstance(out.get('table'), list):
            # the load succeeded on both sides: the DICTIONARY differs (cell by cell) from M's and / or from what S demands
            mark, extra = hist_mark({'table': alone[k].get('table')} if k in alone else None, {'table': out.get('table')})
            sig = 'C07:table:file=%s:%s%s' % (fi['style'], 'property' if vs[0] & 2 else 'model', mark)
            base = dict(base, **extra)
            rep = dict(base, kind='failing-input' if vs[0] & 2 else 'broken-correspondence', verdict=vs[0], call=None, table_loaded=out.get('table'),
                       item='C07.Model.load / spec_table_ok', meaning='bit 2: the dictionary set_maskbits returned for this well-formed file is not the one the '
                       'file defines (spec_table_ok on the rows Coq parsed from the text: a key that is no group / alias of the file, a group whose '
                       '(LABEL, bit) cells differ, a missing name, or two keys equal modulo case); bit 1: it differs cell by cell from the model M')
            findings.setdefault(sig, (len(out['rows']), rep, 'set_maskbits: the dictionary loaded from a %s file %s' % (
                fi['style'], 'is not the one the file defines' if vs[0] & 2 else 'differs from the model'), bool(vs[0] & 2)))
        elif vs[0] != 0:
            mark, extra = hist_mark(alone[k]['load'] if k in alone else None, out['load'])
            sig = 'C07:load:file=%s:impl=%s:%s%s' % (fi['style'], outcome(out['load']), 'property' if vs[0] & 2 else 'model', mark)
            base = dict(base, **extra)
            rep = dict(base, kind='failing-input' if vs[0] & 2 else 'broken-correspondence', verdict=vs[0], call=None,
                       item='C07.Model.load', meaning='set_maskbits on a well-formed file must return a dictionary' if vs[0] & 2 else
                       'model of set_maskbits and the code disagree on whether the load succeeds')
            findings.setdefault(sig, (len(out['rows']), rep, 'set_maskbits: impl %s on a %s file' % (outcome(out['load']), fi['style']), bool(vs[0] & 2)))
        for j, cv in enumerate(vs[1:]):
            if cv == 0:
                continue
            tag, c = fi['calls'][j]
            r = out['results'][j]
            ar = None
            if k in alone and alone[k]['load'].get('ok') and j < len(alone[k]['results']):
                ar = alone[k]['results'][j]
            mark, extra = hist_mark(ar, r)
            sig = 'C07:%s:file=%s:impl=%s:%s%s' % (c['k'], fi['style'], outcome(r), 'property' if cv & 2 else 'model', mark)
            if sig in findings and findings[sig][0] <= len(out['rows']):
                continue
            rep = dict(dict(base, **extra), kind='failing-input' if cv & 2 else 'broken-correspondence', call=c, call_tag=tag, impl_result=r, verdict=cv,
                       item='C07.Model.model_call', coq_call=call_term(c),
                       meaning='verdict bit 2: the answer of the real code contradicts the specification S (spec_call); bit 1: the model M differs from the code')
            findings[sig] = (len(out['rows']), rep,
                             '%s on a %s file: impl %s %s' % (tag, fi['style'], outcome(r),
                                                              'contradicts the specification' if cv & 2 else 'differs from the model (specification silent or satisfied)'),
                             bool(cv & 2))
    # explain the reported ones (what M and S say)
    def explain(rep):
        if rep.get('call') is None:
            return None
        rows_t = rows_term(rep['rows_read'])
        al_t = aliases_term(rep['aliases_read'])
        txt = cc.show('explain_c %s %s %s %s' % (cfg_term(up), rows_t, al_t, rep['coq_call']), tag='explain%s' % C.sha(rep['coq_call']))
        return decode_strings(' '.join(txt.split()))[-1500:]
    if bad_files and not findings:
        k, v = bad_files[0]
        ctx.violation('C07:unclassified:verdict=%d' % (v & 3), 'a file does not pass but no call could be singled out',
                      {'kind': 'broken-correspondence', 'item': 'C07.Model.run_case', 'file_text': files[k]['text'], 'verdict': v}, False)
    order = sorted(findings.items())
    with ThreadPoolExecutor(max_workers=C.NPROC) as ex:
        expl = list(ex.map(lambda kv: explain(kv[1][1]), order[:40]))
    for n, (sig, (size, rep, summary, failing)) in enumerate(order):
        if n < len(expl) and expl[n]:
            rep['model_spec_wf'] = expl[n]
        ctx.violation(sig, summary, rep, failing)

    # coverage
    dist = {}
    nev = 0
    for k in usable:
        fi, out = files[k], outs[k]
        nev += 1
        key = 'load:%s:%s:%s' % (fi['style'], 'wf' if fi['kind'] == 'wf' else 'illformed', outcome(out['load']))
        dist[key] = dist.get(key, 0) + 1
        for (tag, c), r in zip(fi['calls'], out['results']):
            nev += 1
            key = '%s:%s' % (tag, outcome(r))
            dist[key] = dist.get(key, 0) + 1
    distinct = set()
    for k in usable:
        for (tag, c), r in zip(files[k]['calls'], outs[k]['results']):
            distinct.add((k, call_term(c)))
    nrows = [len(outs[k]['rows']) for k in usable]
    ctx.coverage.update({
        'evaluations': nev,
        'distinct_nontrivial': len(distinct),
        'rule': 'one evaluation = one real call of set_maskbits / sdss_flagval / sdss_flagname / sdss_flagexist (or a round trip '
                'through two of them) on a generated maskbits file, compared inside Coq (vm_compute) with the model M and, for '
                'well-formed files, with the specification S; distinct = distinct (file, call) terms',
        'files': len(usable),
        'chains_by_length': {str(n): sum(1 for ch in chains if len(ch) == n) for n in (1, 2, 3)},
        'chains_by_path_mode': {m: sum(1 for ch in chains if files[ch[0]].get('path_mode') == m) for m in ('single', 'same', 'distinct', 'alt')},
        'files_loaded_after_another_edition': sum(1 for k in usable if pred[k]),
        'files_by_style_kind': {'%s/%s' % (s, kd): sum(1 for k in usable if files[k]['style'] == s and files[k]['kind'] == kd)
                                for s in ('upper', 'mixed') for kd in ['wf'] + DEFECTS},
        'files_by_name_mode': {m: sum(1 for k in usable if files[k].get('name_mode') == m) for m in ('short', 'edge', 'long')},
        'declared_width_forms': decl_dist(files, usable),
        'data_rows_by_form': {f: sum(files[k].get('row_forms', {}).get(f, 0) for k in usable) for f in ('full', 'short', 'long')},
        'files_with_short_or_overlong_rows': sum(1 for k in usable if files[k].get('row_forms', {}).get('short', 0) + files[k].get('row_forms', {}).get('long', 0)),
        'longest_group_alias_label': [max([len(r[0]) for k in usable for r in outs[k]['rows']] + [len(a[1]) for k in usable for a in outs[k]['aliases']] + [0]),
                                      max([len(r[2]) for k in usable for r in outs[k]['rows']] + [0])],
        'tables_compared_cell_by_cell': sum(1 for k in usable if isinstance(outs[k].get('table'), list)),
        'groups_per_file': {str(n): sum(1 for k in usable if len(files[k]['gnames']) == n) for n in range(1, 7)},
        'rows_per_file_min_med_max': [min(nrows), sorted(nrows)[len(nrows) // 2], max(nrows)] if nrows else [],
        'files_with_bit63': sum(1 for k in usable if any(b == 63 for _, b, _ in outs[k]['rows'])),
        'files_with_aliases': sum(1 for k in usable if outs[k]['aliases']),
        'calls_by_kind_and_outcome': dist,
        'files_not_passing': len(bad_files),
        'model_disagreements': sum(1 for _, v in bad_files if v & 1),
        'spec_violations': sum(1 for _, v in bad_files if v & 2),
        'coq_eval_s': round(cc.coq_seconds, 1),
        'impl_s': round(t_impl, 1),
        'samples': [{'file_text': files[k]['text'][-600:], 'calls': [c for _, c in files[k]['calls'][:4]],
                     'impl': outs[k]['results'][:4]} for k in usable[:2]],
    })


def decl_dist(files, usable):
    d = {}
    for k in usable:
        for t in files[k].get('decl', []):
            d[t] = d.get(t, 0) + 1
    return d


def replay(ctx, rep):
    text = rep.get('file_text')
    if not text:
        print('replay file has no maskbits file (kind=%s, item=%s)' % (rep.get('kind'), rep.get('item')))
        return 2
    calls = [rep['call']] if rep.get('call') else []

    def run(seq):
        fl = []
        for n, (key, t, cs) in enumerate(seq):
            fl.append({'path': os.path.join(ctx.work, 'replay', '%s.par' % (key or 'file_%d' % n)), 'text': t, 'calls': cs})
        return C.run_impl('c07_impl.py', {'files': fl})['files'][-1]
    hist = [(h.get('path'), h['file_text'], h['calls']) for h in rep.get('history', [])]
    me = rep.get('path')
    print('maskbits file:\n' + text)
    if hist:
        print('loaded in the same process after %d other file(s) (see `history` in the replay file), calls made under each' % len(hist))
        for h in hist:
            print('   history: path %s, %d calls' % (h[0], len(h[2])))
        print('   then   : path %s (this file)' % me)
        fo = run(hist + [(me, text, calls)])
        print('set_maskbits :', fo['load'], ' dictionary keys:', fo.get('keys'))
        if calls:
            print('call         :', calls[0])
            print('impl now, after the history :', fo['results'][0] if fo['results'] else None)
    fo = run([(me, text, calls)])
    if not hist:
        print('set_maskbits :', fo['load'], ' dictionary keys:', fo.get('keys'))
    if calls:
        if not hist:
            print('call         :', calls[0])
        print('impl now, file loaded alone  :', fo['results'][0] if fo['results'] else None)
        print('impl at the time of the finding:', rep.get('impl_result'))
        print('model / spec / well-formed file (Coq, at the time of the finding):', rep.get('model_spec_wf'))
    return 0
