(* C01 -- proofs.  The reusable token / row / type lemmas are in Yanny/{BytesFacts,TokenFacts,RowFacts,
   TypeFacts,DocFacts}.v; this file restates them over the document-level domain predicates. *)
From Coq Require Import String.
From Coq Require Import NArith ZArith List Bool Lia.
Import ListNotations.
From PV Require Import Yanny.Bytes Yanny.BytesFacts Yanny.Types Yanny.Parse Yanny.Render
  Yanny.TokenFacts Yanny.RowFacts Yanny.TypeFacts Yanny.DocFacts C01.Model.
Open Scope N_scope.

Lemma protect_token_roundtrip s w rest :
  str_ok s = true -> w <> [] -> all_ws w = true -> head_not_ws rest ->
  get_token (protect s ++ w ++ rest) = Some (s, rest).
Proof. intros. apply protect_token_sep; auto. now apply str_ok_tok_ok. Qed.

Lemma protect_token_roundtrip_eol s : str_ok s = true -> get_token (protect s) = Some (s, []).
Proof. intros. apply protect_token_eol. now apply str_ok_tok_ok. Qed.

Lemma array_roundtrip xs w rest :
  forallb elt_ok xs = true -> all_ws w = true -> head_not_ws rest ->
  let data := join [SP] (map protect xs) in
  get_token (render_array (map STok xs) ++ w ++ rest) = Some (data, rest) /\
  split_array (S (length data)) data = Some xs.
Proof.
  intros Hok Hw Hr data.
  assert (He : forallb etok_ok xs = true).
  { eapply forallb_impl; [|exact Hok]. apply elt_ok_etok_ok. }
  split.
  - unfold render_array. rewrite map_map.
    replace (map (fun x : bytes => render_sval (STok x)) xs) with (map protect xs) by (apply map_ext; reflexivity).
    cbn [app]. rewrite <- app_assoc. subst data. now apply array_token.
  - now apply array_roundtrip.
Qed.

Lemma table_row_fits es t r : forallb enum_ok es = true -> table_ok es t = true -> In r (t_rows t) ->
  row_fits (tcols_of es (t_cols t)) r = true.
Proof.
  intros Hes Ht Hr. destruct (table_ok_parts es t Ht) as [_ [_ [Hc [_ Hrows]]]].
  rewrite forallb_forall in Hrows. specialize (Hrows r Hr). apply andb_true_iff in Hrows as [Hrow _].
  apply row_ok_fits; auto. now apply enums_ok_names.
Qed.

Lemma row_comment_free_doc es t r : forallb enum_ok es = true -> table_ok es t = true -> In r (t_rows t) ->
  trailing_comment (render_row_line (upper (t_name t)) r) = render_row_line (upper (t_name t)) r.
Proof.
  intros Hes Ht Hr. destruct (table_ok_parts es t Ht) as [Hn _]. destruct (ident_word _ Hn) as [_ Hw].
  apply row_comment_free; [now apply upper_word|].
  eapply forallb_impl; [|apply (row_fits_tok_ok _ _ (table_row_fits es t r Hes Ht Hr))]. apply cell_tok_q.
Qed.

Definition np_of_int (t : btype) : npk := match t with TShort => NI2 | TInt => NI4 | _ => NI8 end.
Lemma int_cell_roundtrip t z : In t [TShort; TInt; TLong] -> int_range t z = true ->
  parse_Z (show_Z z) = Some z /\ conv_sval (np_of_int t) (SInt z) = Some (SInt z) /\
  render_sval (SInt z) = show_Z z.
Proof.
  intros Ht Hr. split; [apply parse_show_Z|]. split.
  - cbn [In] in Ht. destruct Ht as [<-|[<-|[<-|[]]]]; cbn [np_of_int conv_sval int_range in_range] in *; now rewrite Hr.
  - unfold render_sval, protect. cbn [show_sval]. rewrite num_no_quote_needed; auto; [apply show_Z_nonempty|apply show_Z_numch].
Qed.

Lemma omap_none {A B} (f : A -> option B) l x : In x l -> f x = None -> omap f l = None.
Proof.
  induction l as [|y l IH]; [contradiction|]. intros [->|H] Hx; cbn [omap].
  - now rewrite Hx.
  - destruct (f y); auto. now rewrite IH.
Qed.

Lemma unsupported_refused d t c code : In t (d_tables d) -> In c (t_cols t) -> c_type c = TUnsup code ->
  lookup code dtmap = None -> render_checked d = None.
Proof.
  intros Ht Hc Hty Hl. unfold render_checked. rewrite (omap_none _ _ t Ht); auto.
  unfold render_struct. rewrite (omap_none _ _ c Hc); auto.
  unfold decl_line, ctype_word. rewrite Hty. cbn [np_code]. now rewrite Hl.
Qed.

Lemma unsupported_codes : forallb (fun code => match lookup code dtmap with None => true | Some _ => false end)
  (map bs ["u1"; "u2"; "u4"; "u8"; "i1"; "b1"; "f2"; "f16"; "c8"; "c16"; "c32"; "O"; "M8[ns]"; "m8[ns]"]%string) = true.
Proof. vm_compute. reflexivity. Qed.
