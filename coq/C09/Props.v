(* C09 -- B-spline fit is the weighted least-squares optimum; failure is a status code.
   Property theorems only; each is closed by `exact` and followed by Print Assumptions.
   Models: BSpline/Eval.v (intrv, bsplvn), BSpline/Fit.v (design, grad/Avec from the data, fit_dense =
   certificate-checked dense solve, fit_fast = evaluator used by the correspondence run, checkers).
   chi2 D c = sum_i w_i (row_i . c - y_i)^2 with row_i the design row of x_i, i.e. sum invvar*(spline(x)-y)^2. *)
From Coq Require Import QArith List Bool Arith.
Import ListNotations.
From PV Require Import Lib.WLS BSpline.Eval BSpline.Fit BSpline.CoxDeBoor BSpline.FitProofs BSpline.BandProofs Generated.BSpline BSpline.GenBridge C09.Model C09.Proofs C09.Triangular C09.NonFinite.
Open Scope Q_scope.

(* the fit's coefficients minimise the weighted chi-square over ALL coefficient vectors *)
Theorem C09_bspline_fit_optimal : forall gb k xs ys ws c,
  (1 <= k)%nat -> (2 * k <= length gb)%nat -> sortedQ xs = true -> Forall (fun w => 0 <= w) ws ->
  fit_coeff gb k xs ys ws = Some c ->
  forall z, length z = (length gb - k)%nat ->
  chi2 (fit_obs gb k xs ys ws) c <= chi2 (fit_obs gb k xs ys ws) z.
Proof. exact bspline_fit_optimal. Qed.
Print Assumptions C09_bspline_fit_optimal.

(* generic form (instance of Lib.WLS.normal_eq_optimal), for the certified and for the evaluation solver *)
Theorem C09_fit_optimal : forall m D x, wf m D -> fit_dense m D = Some x ->
  forall z, length z = m -> chi2 D x <= chi2 D z.
Proof. exact fit_optimal. Qed.
Print Assumptions C09_fit_optimal.

Theorem C09_fit_fast_optimal : forall m D x, wf m D -> fit_fast m D = Some x ->
  forall z, length z = m -> chi2 D x <= chi2 D z.
Proof. exact fit_fast_optimal. Qed.
Print Assumptions C09_fit_fast_optimal.

(* what a returned vector satisfies: normal equations hold exactly and the normal matrix is invertible *)
Theorem C09_fit_dense_sound : forall m D x, fit_dense m D = Some x ->
  length x = m /\ Forall (fun g => g == 0) (grad m D x) /\
  (exists Binv : list (list Q), length Binv = m /\
     forall j, (j < m)%nat -> Forall2 Qeq (Avec m D (nth j Binv [])) (unit m j)).
Proof. exact fit_dense_sound. Qed.
Print Assumptions C09_fit_dense_sound.

(* the optimum is unique; the evaluation solver returns the same coefficients *)
Theorem C09_fit_unique : forall m D x z, rows_len m D -> fit_dense m D = Some x ->
  length z = m -> Forall (fun g => g == 0) (grad m D z) -> Forall2 Qeq z x.
Proof. exact fit_unique. Qed.
Print Assumptions C09_fit_unique.

Theorem C09_fit_fast_agrees : forall m D x z, rows_len m D -> fit_dense m D = Some x -> fit_fast m D = Some z ->
  Forall2 Qeq z x.
Proof. exact fit_fast_agrees. Qed.
Print Assumptions C09_fit_fast_agrees.

(* linear in y *)
Theorem C09_fit_linear_in_y : forall m rows ws y1 y2 a b x1 x2 x3,
  Forall (fun r : list Q => length r = m) rows -> length y1 = length y2 ->
  fit_dense m (mk_obs rows ws y1) = Some x1 ->
  fit_dense m (mk_obs rows ws y2) = Some x2 ->
  fit_dense m (mk_obs rows ws (vadd (vscale a y1) (vscale b y2))) = Some x3 ->
  Forall2 Qeq x3 (vadd (vscale a x1) (vscale b x2)).
Proof. exact fit_linear_in_y. Qed.
Print Assumptions C09_fit_linear_in_y.

(* unchanged when y is altered at zero-weight points *)
Theorem C09_fit_ignores_zero_weight_y : forall m rows ws y1 y2 x1 x2,
  Forall (fun r : list Q => length r = m) rows -> length y1 = length y2 ->
  (forall i, nth i ws 0 == 0 \/ nth i y1 0 == nth i y2 0) ->
  fit_dense m (mk_obs rows ws y1) = Some x1 ->
  fit_dense m (mk_obs rows ws y2) = Some x2 ->
  Forall2 Qeq x1 x2.
Proof. exact fit_ignores_zero_weight_y. Qed.
Print Assumptions C09_fit_ignores_zero_weight_y.

(* anything in the span of the basis is reproduced exactly (polynomials of degree < k are in the span) *)
Theorem C09_fit_exact_recovery : forall m rows ws ys c x,
  Forall (fun r : list Q => length r = m) rows -> length c = m ->
  Forall2 Qeq ys (map (fun r => dot r c) rows) ->
  fit_dense m (mk_obs rows ws ys) = Some x ->
  Forall2 Qeq x c.
Proof. exact fit_exact_recovery. Qed.
Print Assumptions C09_fit_exact_recovery.

(* constants are in the span: partition of unity of the BSPLVN basis *)
Theorem C09_constant_in_span : forall gb k x l c,
  nondecr gb -> (1 <= k)%nat -> (k - 1 <= l)%nat -> (l + k <= length gb)%nat ->
  nthQ gb l < nthQ gb (S l) ->
  let m := (length gb - k)%nat in
  (l <= m - 1)%nat -> (1 <= m)%nat ->
  dot (design_row gb k m x l) (repeat c m) == c.
Proof. exact constant_in_span. Qed.
Print Assumptions C09_constant_in_span.

Theorem C09_fit_reproduces_constant : forall m rows ws c x,
  Forall (fun r : list Q => length r = m) rows ->
  Forall (fun r => dot r (repeat c m) == c) rows ->
  fit_dense m (mk_obs rows ws (map (fun _ => c) rows)) = Some x ->
  Forall2 Qeq x (repeat c m).
Proof. exact fit_reproduces_constant. Qed.
Print Assumptions C09_fit_reproduces_constant.

(* the banded assembly of fit() (per-interval products scattered through bi/bo) holds exactly the lower band
   of the normal matrix A^T W A, zero padded -- for all data, sorted or not *)
Theorem C09_band_assemble_is_normal_matrix : forall gb k xs ys ws,
  (1 <= k)%nat -> (2 * k <= length gb)%nat -> length ws = length xs -> length ys = length xs ->
  let m := (length gb - k)%nat in
  forall r c, (r < k)%nat -> (c < m + k)%nat ->
  nthQ (nth r (band_assemble gb k xs ws) []) c ==
  nthQ (nth r (band_of k m (normal_matrix m (fit_obs gb k xs ys ws))) []) c.
Proof. exact band_assemble_is_normal_matrix. Qed.
Print Assumptions C09_band_assemble_is_normal_matrix.

(* why the diagonal screening is the right ill-posedness signal: a zero diagonal entry of A^T W A means
   that column j of sqrt(W) A vanishes (coefficient j is not supported by any weighted datum) *)
Theorem C09_zero_diagonal_singular : forall m D j, wf m D -> (j < m)%nat ->
  nth j (Avec m D (unit m j)) 0 == 0 ->
  Forall (fun o : obs => let '(r, w, y) := o in w * (nth j r 0 * nth j r 0) == 0) D.
Proof. exact zero_diagonal_singular. Qed.
Print Assumptions C09_zero_diagonal_singular.

(* the Cholesky pair: A = L L^T, L y = b, L^T x = y  ==>  A x = b ; and forward substitution solves L y = b *)
Theorem C09_llt_solves : forall (n : nat) (L A : nat -> nat -> Q) (x y b : nat -> Q),
  (forall i j, (i < n)%nat -> (j < n)%nat -> A i j == sumf (fun c => L i c * L j c) n) ->
  (forall i, (i < n)%nat -> sumf (fun c => L i c * y c) n == b i) ->
  (forall c, (c < n)%nat -> sumf (fun j => L j c * x j) n == y c) ->
  forall i, (i < n)%nat -> sumf (fun j => A i j * x j) n == b i.
Proof. exact llt_solves. Qed.
Print Assumptions C09_llt_solves.

Theorem C09_forward_substitution_solves : forall (n : nat) (L : nat -> nat -> Q) (b : nat -> Q),
  (forall i c, (i < c)%nat -> L i c == 0) ->
  (forall i, (i < n)%nat -> ~ L i i == 0) ->
  let y := fun c => nth c (fwd_list L b n) 0 in
  forall i, (i < n)%nat -> sumf (fun c => L i c * y c) n == b i.
Proof. exact forward_substitution_solves. Qed.
Print Assumptions C09_forward_substitution_solves.

(* ---- the reference models are built from exactly the arithmetic translate/c08.py extracts from bspline.py
   (fit, maskpoints, cholesky_band) on every run *)
Theorem C09_generated_fit : forall nn k bw kk i itop nfull npoly lo hi sumw nf,
  bs_fit_too_few nn k = (nn <? k)%nat /\
  (bs_fit_block_len bw kk = (bw - kk)%nat /\ bs_fit_bi bw kk i = (bw * kk + (kk + i))%nat /\
   bs_fit_bo bw kk i = (bw * kk + i)%nat) /\
  ((itop <= nfull)%nat -> (1 <= bw)%nat ->
   bs_fit_beta_start itop = itop /\
   (bs_fit_beta_stop (bs_fit_ibottom itop nfull bw) - bs_fit_beta_start itop = bw)%nat /\
   bs_fit_alpha_offset itop bw = (itop * bw)%nat) /\
  (bs_fit_nloop nn k = (nn - k + 1)%nat /\ bs_fit_itop kk npoly = (kk * npoly)%nat) /\
  bs_fit_ict_nonempty (bs_fit_ict hi lo) = (lo <=? hi)%Z /\
  bs_fit_mininf sumw nf == (1 # 10000000000) * sumw / nf.
Proof.
  exact (fun nn k bw kk i itop nfull npoly lo hi sumw nf =>
    conj (gen_fit_too_few nn k) (conj (gen_fit_bibo bw kk i) (conj (gen_fit_beta_slice itop nfull bw)
    (conj (gen_fit_loops nn k npoly kk) (conj (gen_fit_ict lo hi) (gen_fit_mininf sumw nf)))))).
Qed.
Print Assumptions C09_generated_fit.

Theorem C09_generated_maskpoints : forall nbkpt k err h s lo n,
  maskpoints_model nbkpt k err =
    (if bs_mp_give_up nbkpt k then ((-2)%Z, [])
     else
       let n := bs_mp_n nbkpt k in
       if existsb (fun h => bs_mp_beyond h n) err then ((-2)%Z, [])
       else
         let lo := ((k + 1) / 2)%nat in
         let hi := (k / 2)%nat in
         let test := flat_map (fun h => map (fun s => Nat.min ((h + s - lo) + k) (n - 1)) (seq 0 (lo + hi))) err in
         match nodup_nat test with
         | [] => ((-2)%Z, [])
         | t => ((-1)%Z, t)
         end) /\
  ((bs_mp_jj_start (Z.of_nat k) = - Z.of_nat ((k + 1) / 2))%Z /\ (bs_mp_jj_stop (Z.of_nat k) = Z.of_nat (k / 2))%Z) /\
  ((1 <= n)%nat ->
   Z.of_nat (Nat.min ((h + s - lo) + k) (n - 1)) =
   bs_mp_inside (bs_mp_foo (Z.of_nat h) (Z.of_nat s - Z.of_nat lo)) (Z.of_nat k) (Z.of_nat n)).
Proof.
  exact (fun nbkpt k err h s lo n =>
    conj (gen_maskpoints_head nbkpt k err) (conj (gen_maskpoints_jj k) (gen_maskpoints_clamp h s lo k n))).
Qed.
Print Assumptions C09_generated_maskpoints.

Theorem C09_generated_cholesky_screen : forall bmask k diag mininf,
  bs_chol_finite_whole_matrix = true /\
  (forall d, bs_chol_negative d mininf = Qle_bool d mininf) /\
  fit_status_model bmask k diag mininf =
  (let nn := length (filter (fun b => b) (skipn k bmask)) in
   if bs_fit_too_few nn k then ((-2)%Z, bmask)
   else
     let bad := filter (fun j => bs_chol_negative (nthQ diag j) mininf) (seq 0 (length diag)) in
     match bad with
     | [] => (0%Z, bmask)
     | _ =>
         let good := good_positions bmask 0 in
         let '(st, targets) := maskpoints_model (length good) k bad in
         (st, mask_positions good targets bmask)
     end).
Proof. exact gen_cholesky_screen. Qed.
Print Assumptions C09_generated_cholesky_screen.

(* ---- round 5: back substitution and the complete Cholesky solve *)
Theorem C09_back_substitution_solves : forall (n : nat) (U : nat -> nat -> Q) (b : nat -> Q),
  (forall i c, (c < i)%nat -> U i c == 0) ->
  (forall i, (i < n)%nat -> ~ U i i == 0) ->
  let x := fun c => nth c (back_list U b n) 0 in
  forall i, (i < n)%nat -> sumf (fun c => U i c * x c) n == b i.
Proof. exact back_substitution_solves. Qed.
Print Assumptions C09_back_substitution_solves.

(* A = L L^T with L lower triangular, non-zero diagonal: forward then back substitution returns x with A x = b *)
Theorem C09_cholesky_solve_solves : forall (n : nat) (L A : nat -> nat -> Q) (b : nat -> Q),
  (forall i j, (i < n)%nat -> (j < n)%nat -> A i j == sumf (fun c => L i c * L j c) n) ->
  (forall i c, (i < c)%nat -> L i c == 0) ->
  (forall i, (i < n)%nat -> ~ L i i == 0) ->
  let x := fun c => nth c (chol_solve_list L b n) 0 in
  forall i, (i < n)%nat -> sumf (fun j => A i j * x j) n == b i.
Proof. exact cholesky_solve_solves. Qed.
Print Assumptions C09_cholesky_solve_solves.

(* non-vacuity: L = [[2,0,0],[1,3,0],[-1,2,1]], b = (2, 7, 3): A = L L^T = [[4,2,-2],[2,10,5],[-2,5,6]], x = (44/9, -37/9, 11/2) *)
Example C09_example_cholesky_solve :
  let L := fun i c => nth c (nth i [[2; 0; 0]; [1; 3; 0]; [-1; 2; 1]] []) 0 in
  let A := fun i j => nth j (nth i [[4; 2; -2]; [2; 10; 5]; [-2; 5; 6]] []) 0 in
  let b := fun i => nth i [2; 7; 3] 0 in
  let x := chol_solve_list L b 3 in
  forallb (fun i => Qeq_bool (sumf (fun j => A i j * nth j x 0) 3) (b i)) [0; 1; 2]%nat && (length x =? 3)%nat = true.
Proof. vm_compute. reflexivity. Qed.

(* non-vacuity: a concrete cubic fit is solved by the certified solver and recovers a quadratic exactly *)
Example C09_example_recovery :
  let xs := [0; 1#2; 1; 3#2; 2; 5#2; 3; 7#2; 4; 9#2; 5; 11#2; 6; 13#2; 7; 15#2; 8; 17#2; 9] in
  let gb := knots_of_option (ONbkpts 4) xs 4 1 in
  let ys := map (fun x => x * x - 3 * x + 1) xs in
  match fit_coeff gb 4 xs ys (map (fun _ => 1) xs) with
  | Some c => all2 Qeq_bool (yfit_of gb 4 c xs) ys
  | None => false
  end = true.
Proof. vm_compute. reflexivity. Qed.

(* ---- round 6: "failure is a status code" for NON-FINITE normal equations (NaN / +-inf in invvar or xdata).
   screen_status_model (C09/Model.v) is the screening of cholesky_band in IEEE comparison semantics: diag = alpha[0, 0:n], the
   columns reported are those with diag_j <= mininf -- NaN never compares, so the reported index list can be EMPTY. *)

(* a non-finite band in which no diagonal entry is flagged (e.g. a NaN in invvar makes the threshold NaN): the fit has failed with
   status -2 and an unchanged breakpoint mask -- never "success" because nothing was flagged *)
Theorem C09_nonfinite_unflagged_is_status_minus2 :
  forall bmask k diag mininf,
    (forall j, (j < length diag)%nat -> xle (nth j diag XNaN) mininf = false) ->
    screen_status_model bmask k diag mininf false = Some ((-2)%Z, bmask).
Proof. exact screen_nonfinite_unflagged. Qed.
Print Assumptions C09_nonfinite_unflagged_is_status_minus2.

Theorem C09_nan_threshold_is_status_minus2 :
  forall bmask k diag, screen_status_model bmask k diag XNaN false = Some ((-2)%Z, bmask).
Proof. exact screen_nan_threshold. Qed.
Print Assumptions C09_nan_threshold_is_status_minus2.

(* whatever is flagged: a non-finite band never ends in status 0 *)
Theorem C09_nonfinite_band_is_failure :
  forall bmask k diag mininf st nm,
    screen_status_model bmask k diag mininf false = Some (st, nm) -> (st = (-1)%Z \/ st = (-2)%Z).
Proof. exact screen_nonfinite_is_failure. Qed.
Print Assumptions C09_nonfinite_band_is_failure.

(* on finite input the IEEE screening is the diagonal screening of the exact status model *)
Theorem C09_screen_finite_is_fit_status :
  forall bmask k (diag : list Q) (mininf : Q) r,
    screen_status_model bmask k (map XFin diag) (XFin mininf) true = Some r ->
    fit_status_model bmask k diag mininf = r.
Proof. exact screen_finite_is_fit_status. Qed.
Print Assumptions C09_screen_finite_is_fit_status.

(* non-vacuity: 7 breakpoints all good, nord 2, NaN threshold; and +inf weights flag every column (-1, breakpoints dropped) *)
Example C09_example_nonfinite :
  screen_status_model (repeat true 7) 2 [XFin 1; XNaN; XNaN; XFin 2; XFin 1] XNaN false = Some ((-2)%Z, repeat true 7)
  /\ (match screen_status_model (repeat true 7) 2 [XFin 1; XPInf; XPInf; XFin 2; XFin 1] XPInf false with
      | Some (st, nm) => Z.eqb st (-1) && existsb negb nm | None => false end) = true
  /\ screen_status_model (repeat true 7) 2 [XFin 1; XFin 1; XFin 1; XFin 2; XFin 1] (XFin 0) true = None.
Proof. vm_compute. repeat split; reflexivity. Qed.
