(* C12 -- proofs about the membership model: caps, polygons, window lookup, balkans slicing.
   The algorithmic model M (C12/Model.v) is built from the expressions extracted from the source
   (Generated/Mangle.v); every lemma that unfolds a gen_* definition holds or fails with the source. *)
From Coq Require Import ZArith QArith Qabs List Bool Lia Lqa.
Import ListNotations.
From PV Require Import C12.Spec Generated.Mangle C12.Model.
Open Scope Z_scope.

(* ------------------------------------------------------------------ caps *)

Lemma Qlt_bool_iff a b : Qlt_bool a b = true <-> (a < b)%Q.
Proof.
  unfold Qlt_bool. rewrite negb_true_iff. split; intro H.
  - apply Qnot_le_lt. intro L. apply Qle_bool_iff in L. congruence.
  - destruct (Qle_bool b a) eqn:E; [|reflexivity]. apply Qle_bool_iff in E.
    exfalso. apply (Qlt_not_le _ _ H E).
Qed.

Lemma Qlt_bool_false_iff a b : Qlt_bool a b = false <-> (b <= a)%Q.
Proof.
  unfold Qlt_bool. rewrite negb_false_iff. apply Qle_bool_iff.
Qed.

(* the property's wording: cm >= 0: 1 - x.p <= cm;  cm < 0: 1 - x.p >= |cm| *)
Lemma in_cap_spec c p :
  in_cap c p = true <->
  ((0 <= ccm c)%Q /\ (1 - dot (cx c) p <= ccm c)%Q) \/ ((ccm c < 0)%Q /\ (- ccm c <= 1 - dot (cx c) p)%Q).
Proof.
  unfold in_cap. cbv zeta. destruct (Qlt_bool (ccm c) 0) eqn:E.
  - apply Qlt_bool_iff in E. rewrite Qle_bool_iff. split.
    + intro H. right. split; assumption.
    + intros [[H0 _]|[_ H]]; [exfalso; apply (Qlt_not_le _ _ E H0) | exact H].
  - apply Qlt_bool_false_iff in E. rewrite Qle_bool_iff. split.
    + intro H. left. split; assumption.
    + intros [[_ H]|[H0 _]]; [exact H | exfalso; apply (Qlt_not_le _ _ H0 E)].
Qed.

(* a point at the cap's own centre (x.p = x.x >= 1 - cm, in particular x.x = 1 up to rounding) is inside
   every cap with cm >= 0, whatever side of 1 the rounded dot product falls on *)
Lemma centre_in_cap c : (0 <= ccm c)%Q -> (1 - ccm c <= dot (cx c) (cx c))%Q -> in_cap c (cx c) = true.
Proof.
  intros H0 H1. apply in_cap_spec. left. split; [exact H0|]. lra.
Qed.

Definition negate (c : cap) : cap := mkcap (cx c) (- ccm c).

(* the cap with negated cm is the complement, except on the common boundary (where the code says
   "inside" for both) *)
Lemma neg_cap_complement c p : (0 < ccm c)%Q -> ~ (1 - dot (cx c) p == ccm c)%Q ->
  in_cap (negate c) p = negb (in_cap c p).
Proof.
  intros Hpos Hb. unfold in_cap, negate. cbn [cx ccm]. cbv zeta.
  assert (Qlt_bool (- ccm c) 0 = true) as E1 by (apply Qlt_bool_iff; lra).
  assert (Qlt_bool (ccm c) 0 = false) as E2 by (apply Qlt_bool_false_iff; lra).
  rewrite E1, E2.
  generalize dependent (1 - dot (cx c) p)%Q. intros t Hb.
  destruct (Qle_bool t (ccm c)) eqn:A; cbn [negb].
  - apply Qle_bool_iff in A.
    destruct (Qle_bool (- - ccm c) t) eqn:B; [|reflexivity].
    apply Qle_bool_iff in B. exfalso. apply Hb. apply Qle_antisym; lra.
  - apply Qle_bool_iff. destruct (Qlt_le_dec (ccm c) t) as [L|L]; [lra|].
    apply Qle_bool_iff in L. congruence.
Qed.

Lemma boundary_in_both c p : (0 < ccm c)%Q -> (1 - dot (cx c) p == ccm c)%Q ->
  in_cap c p = true /\ in_cap (negate c) p = true.
Proof.
  intros Hpos Hb. split; apply in_cap_spec; cbn [negate cx ccm].
  - left. split; lra.
  - right. split; lra.
Qed.

(* in_cap (code's boundary convention) = strict complement reading of the property, off the boundary *)
Lemma in_cap_strict_off_boundary c p : on_boundary c p = false -> in_cap_strict c p = in_cap c p.
Proof.
  unfold on_boundary, in_cap_strict, in_cap. cbv zeta. intro Hb.
  destruct (Qlt_bool (ccm c) 0) eqn:E; [|reflexivity].
  apply Qlt_bool_iff in E.
  assert (~ (1 - dot (cx c) p == Qabs (ccm c))%Q) as Hne.
  { intro H. apply Qeq_bool_iff in H. congruence. }
  rewrite (Qabs_neg (ccm c)) in Hne by lra.
  generalize dependent (1 - dot (cx c) p)%Q. intros t _ Hne.
  destruct (Qle_bool t (- ccm c)) eqn:A; cbn [negb].
  - apply Qle_bool_iff in A. symmetry. apply not_true_is_false. intro B.
    apply Qle_bool_iff in B. apply Hne. apply Qle_antisym; assumption.
  - symmetry. apply Qle_bool_iff. destruct (Qlt_le_dec (- ccm c) t) as [L|L]; [lra|].
    apply Qle_bool_iff in L. congruence.
Qed.

(* ------------------------------------------------------------------ is_cap_used *)

Lemma is_cap_used_testbit u i : is_cap_used u i = Z.testbit u (Z.of_nat i).
Proof.
  unfold is_cap_used, gen_is_cap_used. rewrite Z.shiftl_1_l.
  set (k := Z.of_nat i). assert (0 <= k) as Hk by (subst k; lia).
  destruct (Z.testbit u k) eqn:T.
  - apply negb_true_iff. apply Z.eqb_neq. intro H.
    assert (Z.testbit (Z.land u (2 ^ k)) k = true) as B.
    { rewrite Z.land_spec, T, Z.pow2_bits_true by lia. reflexivity. }
    rewrite H, Z.bits_0 in B. discriminate.
  - apply negb_false_iff. apply Z.eqb_eq. apply Z.bits_inj'. intros n Hn.
    rewrite Z.land_spec, Z.bits_0, Z.pow2_bits_eqb by lia.
    destruct (Z.eqb_spec k n) as [->|]; [rewrite T; reflexivity | apply andb_false_r].
Qed.

(* ------------------------------------------------------------------ polygons *)

Lemma nth_error_firstn {A} (l : list A) : forall n i,
  nth_error (firstn n l) i = if (i <? n)%nat then nth_error l i else None.
Proof.
  induction l as [|a l IH]; intros n i.
  - rewrite firstn_nil. destruct i; destruct (_ <? _)%nat; reflexivity.
  - destruct n as [|n]; [destruct i; reflexivity|].
    destruct i as [|i]; [reflexivity|]. cbn [firstn nth_error]. rewrite IH.
    change (S i <? S n)%nat with (i <? n)%nat. reflexivity.
Qed.

Lemma all_used_from_spec use p : forall cs i0,
  all_used_from i0 use cs p = true <->
  (forall k c, nth_error cs k = Some c -> Z.testbit use (Z.of_nat (i0 + k)) = true -> in_cap c p = true).
Proof.
  induction cs as [|c cs IH]; intros i0; cbn [all_used_from].
  - split; [|reflexivity]. intros _ k c H. destruct k; discriminate.
  - rewrite andb_true_iff, IH. split.
    + intros [H1 H2] k c0 Hk Hb. destruct k as [|k]; cbn [nth_error] in Hk.
      * injection Hk as <-. rewrite Nat.add_0_r in Hb. rewrite Hb in H1. exact H1.
      * apply (H2 k c0 Hk). replace (S i0 + k)%nat with (i0 + S k)%nat by lia. exact Hb.
    + intros H. split.
      * destruct (Z.testbit use (Z.of_nat i0)) eqn:T; [|reflexivity].
        apply (H 0%nat c eq_refl). rewrite Nat.add_0_r. exact T.
      * intros k c0 Hk Hb. apply (H (S k) c0 Hk).
        replace (i0 + S k)%nat with (S i0 + k)%nat by lia. exact Hb.
Qed.

(* in_polygon_spec: inside <-> inside every used cap among the first usencaps *)
Lemma spec_in_polygon_spec P ncaps p :
  spec_in_polygon P ncaps p = true <->
  (forall i c, (i < spec_usencaps P ncaps)%nat -> nth_error (pcaps P) i = Some c ->
               Z.testbit (puse P) (Z.of_nat i) = true -> in_cap c p = true).
Proof.
  unfold spec_in_polygon. rewrite all_used_from_spec. split.
  - intros H i c Hi Hn Hb. apply (H i c); [|exact Hb].
    rewrite nth_error_firstn. destruct (Nat.ltb_spec i (spec_usencaps P ncaps)); [exact Hn|lia].
  - intros H k c Hk Hb. cbn [Nat.add] in Hb.
    rewrite nth_error_firstn in Hk.
    destruct (Nat.ltb_spec k (spec_usencaps P ncaps)) as [L|L]; [|discriminate].
    apply (H k c L Hk Hb).
Qed.

(* the loop of is_in_polygon, generalised over its start index and accumulator *)
Lemma in_polygon_loop use caps p : forall len i0 acc,
  (i0 + len <= length caps)%nat ->
  fold_left (fun acc i => if is_cap_used use i
                          then match nth_error caps i with Some c => gen_poly_acc acc (in_cap c p) | None => false end
                          else acc) (seq i0 len) acc
  = acc && all_used_from i0 use (firstn len (skipn i0 caps)) p.
Proof.
  induction len as [|len IH]; intros i0 acc Hlen; cbn [seq fold_left firstn all_used_from].
  - rewrite andb_true_r. reflexivity.
  - destruct (nth_error caps i0) as [c|] eqn:E.
    2:{ apply nth_error_None in E. lia. }
    assert (skipn i0 caps = c :: skipn (S i0) caps) as Sk.
    { clear - E. revert caps E. induction i0 as [|i0 IH]; intros [|a caps] E; try discriminate.
      - cbn in E. injection E as ->. reflexivity.
      - cbn [nth_error] in E. cbn [skipn]. rewrite (IH caps E). reflexivity. }
    rewrite Sk. cbn [firstn all_used_from].
    rewrite IH by lia. rewrite is_cap_used_testbit. unfold gen_poly_acc.
    destruct (Z.testbit use (Z.of_nat i0)); [rewrite andb_assoc|]; reflexivity.
Qed.

(* the generated restriction  usencaps = NCAPS; if ncaps > 0: usencaps = min(ncaps, NCAPS)  is the specified one *)
Lemma usencaps_eq P ncaps : usencaps P ncaps = spec_usencaps P ncaps.
Proof.
  unfold usencaps, gen_usencaps, spec_usencaps. destruct (Z.ltb_spec 0 ncaps); lia.
Qed.

Lemma usencaps_le P ncaps : (spec_usencaps P ncaps <= pn P)%nat.
Proof. unfold spec_usencaps. destruct (0 <? ncaps) eqn:E; lia. Qed.

(* M refines S for every well-formed polygon (as many stored caps as NCAPS says) *)
Lemma in_polygon_refines P ncaps p : (pn P <= length (pcaps P))%nat ->
  in_polygon P ncaps p = spec_in_polygon P ncaps p.
Proof.
  intro Hwf. unfold in_polygon, spec_in_polygon. rewrite usencaps_eq.
  pose proof (usencaps_le P ncaps).
  rewrite in_polygon_loop by lia. reflexivity.
Qed.

Lemma in_polygon_spec P ncaps p : (pn P <= length (pcaps P))%nat ->
  (in_polygon P ncaps p = true <->
   (forall i c, (i < spec_usencaps P ncaps)%nat -> nth_error (pcaps P) i = Some c ->
                Z.testbit (puse P) (Z.of_nat i) = true -> in_cap c p = true)).
Proof. intro H. rewrite (in_polygon_refines P ncaps p H). apply spec_in_polygon_spec. Qed.

(* a polygon without caps, or with an empty use-mask, contains every point *)
Lemma no_caps_contains_all P ncaps p : pn P = 0%nat -> in_polygon P ncaps p = true.
Proof.
  intro H. unfold in_polygon. rewrite usencaps_eq.
  assert (spec_usencaps P ncaps = 0%nat) as -> by (pose proof (usencaps_le P ncaps); lia).
  reflexivity.
Qed.

Lemma no_used_caps_contains_all P ncaps p : (pn P <= length (pcaps P))%nat ->
  (forall i, (i < pn P)%nat -> Z.testbit (puse P) (Z.of_nat i) = false) -> in_polygon P ncaps p = true.
Proof.
  intros Hwf H. apply in_polygon_spec; [exact Hwf|]. intros i c Hi _ Hb.
  pose proof (usencaps_le P ncaps). rewrite H in Hb by lia. discriminate.
Qed.

Lemma usencaps_pos P ncaps : 0 < ncaps -> spec_usencaps P ncaps = Nat.min (Z.to_nat ncaps) (pn P).
Proof. intro H. unfold spec_usencaps. destruct (Z.ltb_spec 0 ncaps); lia. Qed.

Lemma usencaps_zero P ncaps : ncaps <= 0 -> spec_usencaps P ncaps = pn P.
Proof. intro H. unfold spec_usencaps. destruct (Z.ltb_spec 0 ncaps); lia. Qed.

(* restricting to the first n caps ignores the rest: caps and mask bits at positions >= n are irrelevant *)
Lemma first_n_caps_ignores_rest P P' n p :
  0 < n -> (pn P <= length (pcaps P))%nat -> (pn P' <= length (pcaps P'))%nat ->
  Nat.min (Z.to_nat n) (pn P) = Nat.min (Z.to_nat n) (pn P') ->
  (forall i, (i < Z.to_nat n)%nat -> (i < pn P)%nat ->
             nth_error (pcaps P) i = nth_error (pcaps P') i /\
             Z.testbit (puse P) (Z.of_nat i) = Z.testbit (puse P') (Z.of_nat i)) ->
  in_polygon P n p = in_polygon P' n p.
Proof.
  intros Hn Hwf Hwf' Hmin Hsame.
  apply eq_true_iff_eq. rewrite !in_polygon_spec by assumption.
  rewrite !usencaps_pos by exact Hn. rewrite <- Hmin.
  split; intros H i c Hi Hc Hb.
  - destruct (Hsame i) as [E1 E2]; [lia|lia|]. apply (H i c Hi); congruence.
  - destruct (Hsame i) as [E1 E2]; [lia|lia|]. apply (H i c Hi); congruence.
Qed.

Lemma first_n_caps_spec P n p : 0 < n -> (pn P <= length (pcaps P))%nat ->
  (in_polygon P n p = true <->
   (forall i c, (i < Z.to_nat n)%nat -> (i < pn P)%nat -> nth_error (pcaps P) i = Some c ->
                Z.testbit (puse P) (Z.of_nat i) = true -> in_cap c p = true)).
Proof.
  intros Hn Hwf. rewrite in_polygon_spec by exact Hwf. rewrite usencaps_pos by exact Hn.
  split; intros H i c.
  - intros H1 H2. apply H. lia.
  - intros H1. apply H; lia.
Qed.

(* the default use-mask (1 << ncaps) - 1 of the keyword constructor, the .ply reader and the balkans *)
Lemma all_caps_mask_testbit n i : Z.testbit (Z.shiftl 1 (Z.of_nat n) - 1) (Z.of_nat i) = (i <? n)%nat.
Proof.
  rewrite Z.shiftl_1_l. replace (2 ^ Z.of_nat n - 1) with (Z.ones (Z.of_nat n)) by (rewrite Z.ones_equiv; lia).
  destruct (Nat.ltb_spec i n).
  - apply Z.ones_spec_low. lia.
  - apply Z.ones_spec_high. lia.
Qed.

Lemma gen_balkans_use_testbit n i : Z.testbit (gen_balkans_use (Z.of_nat n)) (Z.of_nat i) = (i <? n)%nat.
Proof. unfold gen_balkans_use. apply all_caps_mask_testbit. Qed.

(* ------------------------------------------------------------------ window lookup *)

Lemma first_match_from_spec ncaps p : forall Ps k0 k,
  first_match_from k0 Ps ncaps p = Some k <->
  (k0 <= k)%nat /\
  (exists P, nth_error Ps (k - k0) = Some P /\ spec_in_polygon P ncaps p = true) /\
  (forall j Pj, (j < k - k0)%nat -> nth_error Ps j = Some Pj -> spec_in_polygon Pj ncaps p = false).
Proof.
  induction Ps as [|P Ps IH]; intros k0 k; cbn [first_match_from].
  - split; [discriminate|]. intros (_ & (P & H & _) & _). destruct (k - k0)%nat; discriminate.
  - destruct (spec_in_polygon P ncaps p) eqn:E.
    + split.
      * intro H. injection H as <-. split; [lia|]. rewrite Nat.sub_diag. split.
        -- exists P. split; [reflexivity|exact E].
        -- intros j Pj Hj. lia.
      * intros (Hk & (P' & Hn & Hin) & Hbefore).
        destruct (k - k0)%nat as [|d] eqn:D; [f_equal; lia|].
        specialize (Hbefore 0%nat P ltac:(lia) eq_refl). congruence.
    + rewrite IH. split.
      * intros (Hk & (P' & Hn & Hin) & Hbefore). split; [lia|].
        replace (k - k0)%nat with (S (k - S k0)) by lia. split.
        -- exists P'. split; [exact Hn|exact Hin].
        -- intros j Pj Hj Hnj. destruct j as [|j]; cbn [nth_error] in Hnj.
           ++ injection Hnj as <-. exact E.
           ++ apply (Hbefore j Pj); [lia|exact Hnj].
      * intros (Hk & (P' & Hn & Hin) & Hbefore).
        destruct (k - k0)%nat as [|d] eqn:D.
        -- cbn [nth_error] in Hn. injection Hn as <-. congruence.
        -- cbn [nth_error] in Hn. split; [lia|].
           replace (k - S k0)%nat with d by lia. split.
           ++ exists P'. split; assumption.
           ++ intros j Pj Hj Hnj. apply (Hbefore (S j) Pj); [lia|exact Hnj].
Qed.

Lemma first_match_from_none ncaps p : forall Ps k0,
  first_match_from k0 Ps ncaps p = None <->
  (forall j Pj, nth_error Ps j = Some Pj -> spec_in_polygon Pj ncaps p = false).
Proof.
  induction Ps as [|P Ps IH]; intros k0; cbn [first_match_from].
  - split; [|reflexivity]. intros _ j Pj H. destruct j; discriminate.
  - destruct (spec_in_polygon P ncaps p) eqn:E.
    + split; [discriminate|]. intro H. specialize (H 0%nat P eq_refl). congruence.
    + rewrite IH. split.
      * intros H j Pj Hn. destruct j as [|j]; cbn [nth_error] in Hn.
        -- injection Hn as <-. exact E.
        -- apply (H j Pj Hn).
      * intros H j Pj Hn. apply (H (S j) Pj Hn).
Qed.

(* Some k <-> polygon k contains the point and no earlier polygon does *)
Lemma first_match_some Ps ncaps p k :
  first_match Ps ncaps p = Some k <->
  (exists P, nth_error Ps k = Some P /\ spec_in_polygon P ncaps p = true) /\
  (forall j Pj, (j < k)%nat -> nth_error Ps j = Some Pj -> spec_in_polygon Pj ncaps p = false).
Proof.
  unfold first_match. rewrite first_match_from_spec. rewrite Nat.sub_0_r.
  split; [intros (_ & H); exact H | intro H; split; [lia|exact H]].
Qed.

Lemma first_match_none Ps ncaps p :
  first_match Ps ncaps p = None <->
  (forall j Pj, nth_error Ps j = Some Pj -> spec_in_polygon Pj ncaps p = false).
Proof. apply first_match_from_none. Qed.

(* the vectorised loop of is_in_window computes, for each point, the first match *)
Definition idx_of (o : option nat) : Z := match o with Some k => Z.of_nat k | None => -1 end.

Definition wf_poly (P : polygon) : Prop := (pn P <= length (pcaps P))%nat.

Lemma window_loop ncaps pts : forall Ps k0 assigned,
  Forall wf_poly Ps ->
  length assigned = length pts ->
  fst (fold_left (window_step ncaps pts) Ps (assigned, Z.of_nat k0))
  = map (fun ap : Z * vec => let '(a, p) := ap in
                             if a =? -1 then idx_of (first_match_from k0 Ps ncaps p) else a)
        (combine assigned pts).
Proof.
  induction Ps as [|P Ps IH]; intros k0 assigned Hwf Hlen; cbn [fold_left first_match_from].
  - cbn [fst]. revert pts Hlen. induction assigned as [|a assigned IHa]; intros [|p pts] Hlen; try discriminate; [reflexivity|].
    cbn [combine map]. rewrite <- IHa by (cbn in Hlen; lia).
    destruct (a =? -1) eqn:E; [apply Z.eqb_eq in E; subst; reflexivity | reflexivity].
  - inversion Hwf as [|? ? HP HPs]; subst.
    unfold window_step at 2. unfold gen_window_next, gen_window_unassigned, gen_window_assign.
    replace (Z.of_nat k0 + 1) with (Z.of_nat (S k0)) by lia.
    rewrite IH; [|exact HPs|rewrite map_length, combine_length; lia].
    clear IH. revert pts Hlen. induction assigned as [|a assigned IHa]; intros [|p pts] Hlen; try discriminate; [reflexivity|].
    cbn [combine map]. f_equal; [|apply IHa; cbn in Hlen; lia].
    rewrite (in_polygon_refines P ncaps p HP).
    destruct (a =? -1) eqn:E.
    + destruct (spec_in_polygon P ncaps p) eqn:I.
      * assert (Z.of_nat k0 =? -1 = false) as -> by (apply Z.eqb_neq; lia). reflexivity.
      * rewrite E. reflexivity.
    + rewrite E. reflexivity.
Qed.

Lemma in_window_refines Ps ncaps pts : Forall wf_poly Ps ->
  in_window Ps ncaps pts = spec_window Ps ncaps pts.
Proof.
  intro Hwf. unfold in_window, in_window_idx, spec_window.
  unfold gen_window_start, gen_window_default. change (0 - 1) with (-1).
  pose proof (window_loop ncaps pts Ps 0 (map (fun _ => -1) pts) Hwf (map_length _ _)) as W.
  cbn [Z.of_nat] in W. rewrite W. clear W.
  fold (first_match Ps ncaps).
  induction pts as [|p pts IH]; [reflexivity|].
  cbn [map combine]. rewrite IH. f_equal.
  unfold first_match. rewrite Z.eqb_refl. unfold gen_window_flag.
  destruct (first_match_from 0 Ps ncaps p); cbn [idx_of]; [|reflexivity].
  assert (0 <=? Z.of_nat n = true) as -> by (apply Z.leb_le; lia). reflexivity.
Qed.

(* what is_in_window returns for point number i *)
Lemma in_window_first Ps ncaps pts i p : Forall wf_poly Ps -> nth_error pts i = Some p ->
  forall r, nth_error (in_window Ps ncaps pts) i = Some r ->
  (forall k, r = (true, Z.of_nat k) <->
     (exists P, nth_error Ps k = Some P /\ in_polygon P ncaps p = true) /\
     (forall j Pj, (j < k)%nat -> nth_error Ps j = Some Pj -> in_polygon Pj ncaps p = false)) /\
  (r = (false, -1) <-> (forall j Pj, nth_error Ps j = Some Pj -> in_polygon Pj ncaps p = false)) /\
  (r = (false, -1) \/ exists k, r = (true, Z.of_nat k)).
Proof.
  intros Hwf Hp r Hr. rewrite (in_window_refines Ps ncaps pts Hwf) in Hr.
  unfold spec_window in Hr. rewrite nth_error_map, Hp in Hr. cbn [option_map] in Hr. injection Hr as Hr.
  assert (forall j Pj, nth_error Ps j = Some Pj -> in_polygon Pj ncaps p = spec_in_polygon Pj ncaps p) as R.
  { intros j Pj Hj. apply in_polygon_refines. rewrite Forall_forall in Hwf. apply Hwf. eapply nth_error_In; exact Hj. }
  split; [|split].
  - intro k. destruct (first_match Ps ncaps p) as [k'|] eqn:F; subst r.
    + split.
      * intro E. assert (k' = k) as -> by (injection E; lia).
        apply first_match_some in F. destruct F as ((P & HP & Hin) & Hb). split.
        -- exists P. split; [exact HP|]. rewrite (R k P HP). exact Hin.
        -- intros j Pj Hj Hn. rewrite (R j Pj Hn). apply (Hb j Pj Hj Hn).
      * intros ((P & HP & Hin) & Hb).
        assert (first_match Ps ncaps p = Some k) as F'.
        { apply first_match_some. split.
          - exists P. split; [exact HP|]. rewrite <- (R k P HP). exact Hin.
          - intros j Pj Hj Hn. rewrite <- (R j Pj Hn). apply (Hb j Pj Hj Hn). }
        congruence.
    + split; [discriminate|]. intros ((P & HP & Hin) & _).
      rewrite first_match_none in F. rewrite (R k P HP), (F k P HP) in Hin. discriminate.
  - destruct (first_match Ps ncaps p) as [k'|] eqn:F; subst r.
    + split; [discriminate|]. intro H.
      apply first_match_some in F. destruct F as ((P & HP & Hin) & _).
      rewrite <- (R k' P HP), (H k' P HP) in Hin. discriminate.
    + split; [|reflexivity]. intros _ j Pj Hn. rewrite (R j Pj Hn).
      rewrite first_match_none in F. apply (F j Pj Hn).
  - destruct (first_match Ps ncaps p) as [k'|]; subst r; [right; exists k'; reflexivity | left; reflexivity].
Qed.

(* ------------------------------------------------------------------ balkans *)

Lemma nth_error_skipn {A} (l : list A) : forall lo i, nth_error (skipn lo l) i = nth_error l (lo + i).
Proof.
  induction l as [|a l IH]; intros lo i.
  - rewrite skipn_nil. destruct i, (lo + 0)%nat, lo; reflexivity.
  - destruct lo; [reflexivity|]. cbn [skipn Nat.add nth_error]. apply IH.
Qed.

Lemma slice_nth {A} (l : list A) lo n i : (i < n)%nat -> nth_error (slice lo n l) i = nth_error l (lo + i).
Proof.
  intro H. unfold slice. rewrite nth_error_firstn.
  destruct (Nat.ltb_spec i n); [|lia]. apply nth_error_skipn.
Qed.

Lemma slice_length {A} (l : list A) lo n : (lo + n <= length l)%nat -> length (slice lo n l) = n.
Proof. intro H. unfold slice. rewrite firstn_length, skipn_length. lia. Qed.

Lemma zip_caps_map l : zip_caps (map cx l) (map ccm l) = l.
Proof. induction l as [|[x c] l IH]; [reflexivity|]. cbn [map zip_caps cx ccm]. rewrite IH. reflexivity. Qed.

Lemma firstn_map' {A B} (f : A -> B) l : forall n, firstn n (map f l) = map f (firstn n l).
Proof. induction l as [|a l IH]; intros [|n]; try reflexivity. cbn [map firstn]. rewrite IH. reflexivity. Qed.

Lemma skipn_map' {A B} (f : A -> B) l : forall n, skipn n (map f l) = map f (skipn n l).
Proof. induction l as [|a l IH]; intros [|n]; try reflexivity. cbn [map skipn]. apply IH. Qed.

(* the generated source/destination bounds are ICAP : ICAP+NCAPS -> 0 : NCAPS for X and for CM alike:
   the assembled polygon holds the slice of the cap table *)
Lemma balkans_poly_caps bcaps icap n : pcaps (balkans_poly bcaps icap n) = slice icap n bcaps.
Proof.
  unfold balkans_poly. cbv zeta. cbn [pcaps].
  unfold gen_x_dst_lo, gen_x_dst_hi, gen_cm_dst_lo, gen_cm_dst_hi, gen_x_src_lo, gen_x_src_hi, gen_cm_src_lo, gen_cm_src_hi.
  rewrite !Z.eqb_refl. cbn [andb].
  unfold pyslice, slice.
  replace (Z.to_nat (Z.of_nat icap + Z.of_nat n - Z.of_nat icap)) with n by lia.
  rewrite Nat2Z.id. rewrite !skipn_map', !firstn_map'. apply zip_caps_map.
Qed.

Lemma balkans_poly_use bcaps icap n : puse (balkans_poly bcaps icap n) = Z.shiftl 1 (Z.of_nat n) - 1.
Proof. reflexivity. Qed.

(* polygon k of the balkans holds exactly caps ICAP_k .. ICAP_k+NCAPS_k-1 in order, all of them in use *)
Lemma balkans_slice_spec bcaps blist k icap n :
  nth_error blist k = Some (icap, n) ->
  exists P, nth_error (balkans_slice bcaps blist) k = Some P /\
    pn P = n /\
    (forall i, (i < n)%nat -> nth_error (pcaps P) i = nth_error bcaps (icap + i)) /\
    (forall i, Z.testbit (puse P) (Z.of_nat i) = (i <? n)%nat) /\
    ((icap + n <= length bcaps)%nat -> length (pcaps P) = n).
Proof.
  intro H. unfold balkans_slice. rewrite nth_error_map, H. cbn [option_map].
  eexists. split; [reflexivity|]. split; [reflexivity|]. split; [|split].
  - intros i Hi. rewrite balkans_poly_caps. apply slice_nth. exact Hi.
  - intro i. rewrite balkans_poly_use. apply all_caps_mask_testbit.
  - rewrite balkans_poly_caps. apply slice_length.
Qed.

Lemma balkans_slice_length bcaps blist : length (balkans_slice bcaps blist) = length blist.
Proof. apply map_length. Qed.

(* consequence: membership in balkan k = inside every one of its NCAPS_k caps of the shared cap table *)
Lemma balkans_membership bcaps blist k icap n P p :
  nth_error blist k = Some (icap, n) -> (icap + n <= length bcaps)%nat ->
  nth_error (balkans_slice bcaps blist) k = Some P ->
  (in_polygon P 0 p = true <->
   forall i c, (i < n)%nat -> nth_error bcaps (icap + i) = Some c -> in_cap c p = true).
Proof.
  intros Hk Hlen HP.
  destruct (balkans_slice_spec bcaps blist k icap n Hk) as (P' & HP' & Hn & Hcaps & Hbits & Hl).
  assert (P' = P) as -> by congruence.
  rewrite in_polygon_spec by (rewrite Hl by exact Hlen; lia).
  rewrite usencaps_zero by lia. rewrite Hn. split.
  - intros H i c Hi Hc. apply (H i c Hi).
    + rewrite Hcaps by exact Hi. exact Hc.
    + rewrite Hbits. apply Nat.ltb_lt. exact Hi.
  - intros H i c Hi Hc _. apply (H i c Hi). rewrite <- Hcaps by exact Hi. exact Hc.
Qed.
