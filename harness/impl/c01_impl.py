"""Runs the real pydl.pydlutils.yanny code for C01/C02 (also usable by C03).

stdin : JSON {'workdir': path, 'jobs': [job, ...]}
stdout: JSON {'pydl_file': ..., 'results': [result, ...]}

job kinds
  {'kind': 'write', 'id': str, 'entry': 'ndarray'|'table_func'|'table_write', 'doc': DOC}
      build numpy record arrays / astropy Tables from DOC, write them with the real writer to
      <workdir>/<id>.par, read the file back in every supported way, dump everything.
  {'kind': 'read', 'id': str, 'text_hex': hex}        (C02)
      write the bytes to <workdir>/<id>.par and read them with yanny(path), yanny(text file object),
      yanny(binary file object), raw and non-raw.

DOC = {'comments': [str], 'hdr': [[key, value]] | None, 'enums': [[col, tname, [labels]]] | None,
       'tables': [{'name': str, 'cols': [{'name': str, 'code': 'i4'|'f8'|'S5'|'U3'|..., 'arr': n|None}],
                   'rows': [[cell]]}]}
cell: int | str | {'f': bits(int)} | list of those.  Floats travel as raw bit patterns of the column's width.
"""
import json
import os
import struct
import sys
import traceback
from collections import OrderedDict

import numpy as np
from astropy.table import Table
from astropy.io.registry import register_identifier, register_reader, register_writer

import pydl
from pydl.pydlutils.yanny import (yanny, write_ndarray_to_yanny, write_table_yanny, read_table_yanny, is_yanny)

try:
    register_identifier('yanny', Table, is_yanny)
    register_reader('yanny', Table, read_table_yanny)
    register_writer('yanny', Table, write_table_yanny)
except Exception:  # already registered
    pass


def bits_to_float(code, bits):
    if code == 'f4':
        return np.frombuffer(struct.pack('<I', bits), dtype='<f4')[0]
    return np.frombuffer(struct.pack('<Q', bits), dtype='<f8')[0]


def float_to_bits(x, width):
    if width == 4:
        return int(np.array([x], dtype='<f4').view('<u4')[0])
    return int(np.array([x], dtype='<f8').view('<u8')[0])


def conv_in(code, v):
    if isinstance(v, dict):
        return bits_to_float(code, v['f'])
    if isinstance(v, str):
        return v if code[0] == 'U' else v.encode('latin-1')
    return v


def build_array(t):
    dt = []
    for c in t['cols']:
        if c.get('arr') is not None:
            dt.append((c['name'], c['code'], (c['arr'],)))
        else:
            dt.append((c['name'], c['code']))
    a = np.zeros((len(t['rows']),), dtype=np.dtype(dt))
    for j, c in enumerate(t['cols']):
        col = []
        for r in t['rows']:
            v = r[j]
            if isinstance(v, list):
                col.append([conv_in(c['code'], x) for x in v])
            else:
                col.append(conv_in(c['code'], v))
        if len(col):
            a[c['name']] = np.array(col, dtype=c['code'])
    return a


def dump_cell(x):
    if isinstance(x, (np.ndarray, list, tuple)):
        return [dump_cell(y) for y in x]
    if isinstance(x, (bytes, np.bytes_)):
        return {'s': bytes(x).decode('latin-1')}
    if isinstance(x, (str, np.str_)):
        return {'s': str(x)}
    if isinstance(x, np.float32):
        return {'f': float_to_bits(x, 4), 'w': 4}
    if isinstance(x, (float, np.floating)):
        return {'f': float_to_bits(float(x), 8), 'w': 8}
    if isinstance(x, (int, np.integer)):
        return int(x)
    return {'other': repr(x)}


def dump_yanny(par, raw=False):
    """Everything observable of a yanny object, JSON-able."""
    out = {'pairs': [[k, par[k] if isinstance(par[k], str) else {'nonstr': repr(par[k])}] for k in par.pairs()],
           'enums': list(par._symbols.get('enum', [])), 'structs': list(par._symbols.get('struct', [])),
           'tables': []}
    for t in par.tables():
        cols = par.columns(t)
        tab = {'name': t, 'cols': [], 'rows': []}
        if not raw:
            dt = par.dtype(t)
            rec = par[t]
            tab['rec_dtype_equal'] = bool(rec.dtype == dt)
            for c in cols:
                f = dt.fields[c][0]
                if f.subdtype is not None:
                    base, shape = f.subdtype
                    tab['cols'].append({'name': c, 'type': par.type(t, c), 'np': base.str, 'arr': int(shape[0]),
                                        'ndim': len(shape)})
                else:
                    tab['cols'].append({'name': c, 'type': par.type(t, c), 'np': f.str, 'arr': None})
            tab['size'] = int(par.size(t))
            for k in range(len(rec)):
                tab['rows'].append([dump_cell(rec[c][k]) for c in cols])
        else:
            for c in cols:
                try:
                    ty = par.type(t, c)
                except Exception as e:  # noqa: BLE001
                    ty = None
                tab['cols'].append({'name': c, 'type': ty})
            n = max([len(par[t][c]) for c in cols]) if cols else 0
            tab['col_lengths'] = [len(par[t][c]) for c in cols]
            for k in range(n):
                tab['rows'].append([dump_cell(par[t][c][k]) for c in cols if k < len(par[t][c])])
        out['tables'].append(tab)
    return out


def dump_table(tb):
    out = {'meta': [[k, tb.meta[k] if isinstance(tb.meta[k], str) else {'nonstr': repr(tb.meta[k])}] for k in tb.meta],
           'cols': [], 'rows': []}
    for c in tb.colnames:
        f = tb[c].dtype
        shape = tb[c].shape[1:]
        out['cols'].append({'name': c, 'np': f.str, 'arr': int(shape[0]) if shape else None})
    for k in range(len(tb)):
        out['rows'].append([dump_cell(tb[c][k]) for c in tb.colnames])
    return out


def guarded(f):
    try:
        return {'ok': f()}
    except BaseException as e:  # noqa: BLE001 - the error class is the observation
        tb = traceback.extract_tb(e.__traceback__)
        where = '%s:%s' % (os.path.basename(tb[-1].filename), tb[-1].name) if tb else ''
        return {'exc': type(e).__name__, 'msg': str(e)[:200], 'where': where}


_SLOT = [0]
_BYSTANDER = {}


def slot_path(workdir, job):
    """Jobs of one process share a few file names, each rewritten again and again with other content: a reader state
    remembered per path (or per process) from an earlier file shows up as a wrong re-read of a later one."""
    if job.get('keep'):
        return os.path.join(workdir, job['id'] + '.par')
    _SLOT[0] += 1
    return os.path.join(workdir, 'slot%d.par' % (_SLOT[0] % 2))


def fingerprint(arrays, hdr, enums):
    """the caller's data, bit for bit: record arrays (dtype + bytes), header and enum dictionaries (order included)"""
    return ([(str(a.dtype.descr), a.shape, a.tobytes().hex()) for a in arrays],
            None if hdr is None else [(k, repr(v)) for k, v in hdr.items()],
            None if enums is None else [(k, repr(v)) for k, v in enums.items()])


def bystander_check():
    """a second object alive in the process must not be influenced by later reads and writes"""
    b = _BYSTANDER.get('obj')
    if b is None:
        return None
    now = json.dumps(guarded(lambda: dump_yanny(b)), sort_keys=True)
    return None if now == _BYSTANDER['dump'] else 'the dump of an earlier, still alive yanny object changed'


def bystander_adopt(par):
    if _BYSTANDER.get('obj') is None and par is not None:
        d = guarded(lambda: dump_yanny(par))
        if 'ok' in d and d['ok'].get('tables'):
            _BYSTANDER['obj'] = par
            _BYSTANDER['dump'] = json.dumps(d, sort_keys=True)


def job_write(job, workdir):
    doc = job['doc']
    path = slot_path(workdir, job)
    if os.path.exists(path):
        os.remove(path)
    res = {'id': job['id']}
    arrays = [build_array(t) for t in doc['tables']]
    names = [t['name'] for t in doc['tables']]
    hdr = None
    if doc.get('hdr') is not None:
        hdr = OrderedDict((k, v) for k, v in doc['hdr'])
    enums = None
    if doc.get('enums') is not None:
        enums = OrderedDict((e[0], (e[1], list(e[2]))) for e in doc['enums'])
    entry = job['entry']

    def do_write():
        if entry == 'ndarray':
            data = arrays[0] if (len(arrays) == 1 and job.get('single')) else tuple(arrays)
            sn = names[0] if (len(arrays) == 1 and job.get('single')) else tuple(names)
            if job.get('default_names'):
                sn = None           # structnames=None: the writer names the tables itself
            par = write_ndarray_to_yanny(path, data, structnames=sn, enums=enums, hdr=hdr, comments=list(doc['comments']))
            return dump_yanny(par)
        tb = Table(arrays[0])
        if hdr:
            tb.meta = hdr
        if entry == 'table_func':
            write_table_yanny(tb, path, tablename=names[0])
        else:
            tb.write(path, format='yanny', tablename=names[0])
        return None
    before = fingerprint(arrays, hdr, enums)
    res['write'] = guarded(do_write)
    after = fingerprint(arrays, hdr, enums)
    res['caller_data_changed'] = None if before == after else 'arrays / hdr / enums handed to the writer differ after the call'
    res['bystander_changed'] = bystander_check()
    if os.path.exists(path):
        with open(path, 'rb') as f:
            res['file_hex'] = f.read().hex()
        keep = {}

        def reread():
            keep['par'] = yanny(path)
            return dump_yanny(keep['par'])
        res['reread'] = guarded(reread)
        bystander_adopt(keep.get('par'))
        if entry != 'ndarray':
            res['table_func'] = guarded(lambda: dump_table(read_table_yanny(path, names[0])))
            res['table_read'] = guarded(lambda: dump_table(Table.read(path, format='yanny', tablename=names[0])))
    else:
        res['file_hex'] = None
    return res


def job_read(job, workdir):
    path = slot_path(workdir, job)
    data = bytes.fromhex(job['text_hex'])
    with open(path, 'wb') as f:
        f.write(data)
    res = {'id': job['id']}
    res['path'] = guarded(lambda: dump_yanny(yanny(path)))
    res['path_raw'] = guarded(lambda: dump_yanny(yanny(path, raw=True), raw=True))

    def textobj(raw):
        with open(path, 'r') as f:
            return dump_yanny(yanny(f, raw=raw), raw=raw)

    def binobj(raw):
        with open(path, 'rb') as f:
            return dump_yanny(yanny(f, raw=raw), raw=raw)
    res['text'] = guarded(lambda: textobj(False))
    res['text_raw'] = guarded(lambda: textobj(True))
    res['bin'] = guarded(lambda: binobj(False))
    res['bin_raw'] = guarded(lambda: binobj(True))
    res['bystander_changed'] = bystander_check()
    if _BYSTANDER.get('obj') is None:
        try:
            bystander_adopt(yanny(path))
        except Exception:  # noqa: BLE001 - a text the reader refuses cannot be the bystander
            pass
    if not job.get('keep'):
        os.remove(path)
    return res


def job_floattext(job, workdir):
    """str(np.float32/64(x)) and float(text) for raw bit patterns (the two float-text oracles, observed)."""
    out = []
    for code, bits in job['values']:
        x = bits_to_float(code, bits)
        t = str(x)
        y = float(t)
        y = np.float32(y) if code == 'f4' else np.float64(y)
        out.append({'text': t, 'back_bits': float_to_bits(y, 4 if code == 'f4' else 8)})
    return {'id': job['id'], 'values': out}


def job_glue(job, workdir):
    """Entry-point glue of write_ndarray_to_yanny / write_table_yanny / read_table_yanny: refusals and options."""
    from pydl.pydlutils import PydlutilsException
    res = {'id': job['id'], 'obs': {}}
    a = np.zeros((2,), dtype=[('x', 'i4'), ('s', 'S3')])
    a['x'] = [1, -2]
    a['s'] = [b'ab', b'c d']
    o = res['obs']

    def path(n):
        p = os.path.join(workdir, 'glue_%s.par' % n)
        if os.path.exists(p):
            os.remove(p)
        return p

    def exc_of(f):
        try:
            f()
            return None
        except BaseException as e:  # noqa: BLE001
            return type(e).__name__
    # 1. more tables than names
    p = path('mismatch')
    o['names_mismatch'] = {'exc': exc_of(lambda: write_ndarray_to_yanny(p, (a, a), structnames=('ONE',))), 'file': os.path.exists(p)}
    # 2. the file exists already: refused, content untouched
    p = path('exists')
    write_ndarray_to_yanny(p, a, structnames='T')
    before = open(p, 'rb').read()
    o['file_exists'] = {'exc': exc_of(lambda: write_ndarray_to_yanny(p, a, structnames='OTHER')), 'same': open(p, 'rb').read() == before}
    o['table_exists'] = {'exc': exc_of(lambda: write_table_yanny(Table(a), p, tablename='OTHER')), 'same': open(p, 'rb').read() == before}
    # 3. overwrite=True replaces the file and the new one reads back
    b = a.copy()
    b['x'] = [7, 8]
    o['overwrite'] = {'exc': exc_of(lambda: write_table_yanny(Table(b), p, tablename='NEW', overwrite=True))}
    try:
        par = yanny(p)
        o['overwrite']['tables'] = par.tables()
        o['overwrite']['x'] = [int(v) for v in par['NEW']['x']]
    except BaseException as e:  # noqa: BLE001
        o['overwrite']['reread_exc'] = type(e).__name__
    # 4. read_table_yanny: the table name is required, an unknown one is a KeyError
    o['read_noname'] = {'exc': exc_of(lambda: read_table_yanny(p))}
    o['read_unknown'] = {'exc': exc_of(lambda: read_table_yanny(p, 'NOSUCH'))}
    o['read_lowercase'] = {'exc': exc_of(lambda: read_table_yanny(p, 'new'))}
    # 5. unsupported column types through the Table route: refused, nothing written
    for code in ('b1', 'u2', 'i1', 'f2', 'c8'):
        p = path('unsup_' + code)
        t = Table(np.zeros((1,), dtype=[('x', 'i4'), ('q', code)]))
        o['table_unsupported_' + code] = {'exc': exc_of(lambda: write_table_yanny(t, p, tablename='U')), 'file': os.path.exists(p)}
        p = path('unsupw_' + code)
        o['tablewrite_unsupported_' + code] = {'exc': exc_of(lambda: t.write(p, format='yanny', tablename='U')), 'file': os.path.exists(p)}
    o['exception_class'] = PydlutilsException.__name__
    return res


def main():
    req = json.load(sys.stdin)
    workdir = req['workdir']
    os.makedirs(workdir, exist_ok=True)
    results = []
    for job in req['jobs']:
        if job['kind'] == 'write':
            results.append(job_write(job, workdir))
        elif job['kind'] == 'read':
            results.append(job_read(job, workdir))
        elif job['kind'] == 'floattext':
            results.append(job_floattext(job, workdir))
        elif job['kind'] == 'glue':
            results.append(job_glue(job, workdir))
        else:
            results.append({'id': job.get('id'), 'error': 'bad job'})
    json.dump({'pydl_file': pydl.__file__, 'numpy': np.__version__, 'results': results}, sys.stdout)


if __name__ == '__main__':
    import warnings
    warnings.simplefilter('ignore')
    main()
