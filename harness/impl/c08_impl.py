"""Runs bspline construction / evaluation of the repository under test (stdin JSON -> stdout JSON).

call = {'xs': [...], 'nord': k, 'opt': {'kind': 'bkpt'|'placed'|'bkspace'|'nbkpts'|'everyn', 'value': ...},
        'bkspread': float, 'coeff': [long list], 'xe': [...], 'keys': [...]}
Evaluation points = xe (from the harness) + every knot + knots -/+ a small offset, ordered by `keys`
(sorted when keys is None).  All floats are returned as Python floats (exact doubles).
"""
import json
import os
import sys
import warnings

import numpy as np


def _globals_snapshot():
    return {'geterr': dict(np.geterr()), 'printoptions': {k: repr(v) for k, v in np.get_printoptions().items()},
            'warnings.filters': len(warnings.filters), 'environ': hash(tuple(sorted(os.environ.items())))}


# the third-party packages pydl builds on are imported first: what is measured is what importing pydl itself changes
import scipy.linalg, scipy.special, scipy.interpolate, scipy.optimize                                        # noqa: E401,E402
import astropy, astropy.io.fits, astropy.units, astropy.table, astropy.utils.data, astropy.wcs, astropy.time  # noqa: E401,E402
try:
    with warnings.catch_warnings():
        warnings.simplefilter('ignore')
        import astropy.tests.runner                                                                          # noqa: F401
except Exception:  # noqa: BLE001
    pass

_G0 = _globals_snapshot()          # before pydl is imported (the import must not change process-global settings)

import pydl                                                    # noqa: E402
from pydl.pydlutils.bspline import bspline                     # noqa: E402

_G1 = _globals_snapshot()


def err(e):
    return {'err': type(e).__name__, 'msg': str(e)[:160]}


def fl(a):
    return [float(v) for v in np.asarray(a).ravel()]


def laid_out(a, layout):
    """the same values as `a` in an array object with another memory layout: every second element of a longer buffer, or a
    reversed-stride view"""
    a = np.asarray(a, dtype='d')
    if layout == 'strided':
        buf = np.zeros(2 * a.size + 1, dtype='d')
        v = buf[1::2]
        v[:] = a
        return v
    if layout == 'reversed':
        buf = np.ascontiguousarray(a[::-1])
        return buf[::-1]
    return a.copy()


def cover_repair(arr, x):
    """what the constructor is documented to do to explicit breakpoints that do not cover the data: the smallest entry
    (first position) becomes x.min(), the largest x.max() (BSpline/Eval.v: cover)"""
    e = np.array(arr, dtype='d', copy=True)
    if e.size:
        i0, i1 = int(e.argmin()), int(e.argmax())
        if x.min() < e[i0]:
            e[i0] = x.min()
        if x.max() > e[i1]:
            e[i1] = x.max()
    return e


def observe(b, xe):
    """value / intrv / bsplvn / action of object b at the points xe (a fresh copy is evaluated)"""
    perm = xe.argsort()
    with warnings.catch_warnings():
        warnings.simplefilter('ignore')
        yy, mask = b.value(xe.copy())
        indx = b.intrv(xe[perm])
        bs = b.bsplvn(xe[perm], indx)
        _a, lower, upper = b.action(xe[perm])
    return {'perm': [int(i) for i in perm], 'yy': fl(yy), 'mask': [bool(v) for v in mask], 'indx': [int(v) for v in indx],
            'bs': [fl(row) for row in np.asarray(bs)], 'lower': [int(v) for v in lower], 'upper': [int(v) for v in upper],
            'finite': bool(np.all(np.isfinite(yy)) and np.all(np.isfinite(bs)))}


def call(c):
    k = int(c['nord'])
    xs = laid_out(c['xs'], c.get('xs_layout'))   # handed to the constructor; compared afterwards
    xs0 = np.array(c['xs'], dtype='d')
    opt = c['opt']
    kw = {'nord': k, 'bkspread': float(c.get('bkspread', 1.0))}
    kind = opt['kind']
    if kind in ('bkpt', 'placed'):
        kw[kind] = np.array(opt['value'], dtype='d')
    elif kind == 'bkspace':
        kw['bkspace'] = float(opt['value'])
    else:
        kw[kind] = int(opt['value'])
    out = {}
    try:
        with warnings.catch_warnings():
            warnings.simplefilter('ignore')
            b = bspline(xs, **kw)
    except Exception as e:  # noqa: BLE001
        r = err(e)
        r['stage'] = 'init'
        return r
    init_mut = []
    if not np.array_equal(xs, xs0):
        init_mut.append('bspline.x')
    if kind in ('bkpt', 'placed'):
        garr, g0 = kw[kind], np.array(opt['value'], dtype='d')
        if not np.array_equal(garr, g0):
            if kind == 'bkpt' and np.array_equal(garr, cover_repair(g0, xs0)):
                out['bkpt_cover_repair_in_place'] = True      # the documented adjustment, written into the caller's array
            else:
                init_mut.append('bspline.' + kind)
        # a second object from the SAME argument objects (a grid shared by many splines) must get the same knots as one
        # built from pristine copies of what the caller holds now
        try:
            with warnings.catch_warnings():
                warnings.simplefilter('ignore')
                b2 = bspline(xs, **kw)
                kwf = dict(kw)
                kwf[kind] = (cover_repair(g0, xs0) if out.get('bkpt_cover_repair_in_place') else g0).copy()
                b3 = bspline(xs0.copy(), **kwf)
            out['second_init_same'] = bool(np.array_equal(b2.breakpoints, b.breakpoints) and np.array_equal(b3.breakpoints, b.breakpoints))
            out['object_keeps_argument'] = bool(np.shares_memory(b.breakpoints, garr) or np.shares_memory(b.breakpoints, xs))
        except Exception as e:  # noqa: BLE001
            out['second_init'] = err(e)
    try:
        bk = np.asarray(b.breakpoints)
        out['bk'] = fl(bk)
        out['bk_dtype'] = str(bk.dtype)
        nc = bk.size - k
        out['nc'] = int(nc)
        out['mask_all_true'] = bool(np.all(b.mask)) and b.mask.size == bk.size
        out['coeff_shape_ok'] = tuple(b.coeff.shape) == (nc,)
        if nc < k:
            return dict(out, err='TooFewKnots', stage='init')
        b.coeff = np.array(c['coeff'][:nc], dtype='d')
        bk64 = bk.astype('d')
        span = float(bk64[nc] - bk64[k - 1])
        eps = span / 1024.0 if span > 0 else 1.0 / 1024
        extra = list(bk64[k - 1:nc + 1]) + [bk64[k - 1] - eps, bk64[nc] + eps] + \
            [float(t) + eps / 8 for t in bk64[k - 1:nc + 1]] + [float(t) - eps / 8 for t in bk64[k - 1:nc + 1]]
        if c.get('sparse'):
            # sparse evaluation set: only the harness's points (placed relative to the real knots when asked)
            pts = list(c['xe'])
            if c['sparse'] == 'one-per-interval':
                pts = [float(0.5 * (bk64[j] + bk64[j + 1])) for j in range(k - 1, nc)][::max(1, int(c.get('stride', 1)))]
            elif c['sparse'] == 'isolated-min':
                j0 = k - 1 + int(c.get('first', 0)) % max(1, nc - k + 1)
                pts = [float(0.25 * bk64[j0] + 0.75 * bk64[j0 + 1])] + \
                    [float(bk64[j] + f * (bk64[j + 1] - bk64[j])) for j in range(j0 + 1, nc) for f in (0.25, 0.5)][:6]
            extra = []
            xe = np.array(pts, dtype='d')
        else:
            xe = np.array(list(c['xe']) + [float(v) for v in extra], dtype='d')
        if c.get('dups') and xe.size > 2:
            xe = np.concatenate([xe, xe[:: max(1, xe.size // int(c['dups']))][:int(c['dups'])]])      # repeated evaluation points
        keys = c.get('keys')
        if keys is None:
            xe = np.sort(xe)
        else:
            kk = np.array((list(keys) * (xe.size // max(len(keys), 1) + 1))[:xe.size])
            xe = xe[np.argsort(kk, kind='stable')]
        out['xe'] = fl(xe)
        perm = xe.argsort()
        out['perm'] = [int(i) for i in perm]
        xarg = laid_out(xe, c.get('xe_layout'))      # the caller's array: must come back bit-identical
        with warnings.catch_warnings():
            warnings.simplefilter('ignore')
            yy, mask = b.value(xarg)
            xsrt = xe[perm]
            indx = b.intrv(xsrt)
            bs = b.bsplvn(xsrt, indx)
            act, lower, upper = b.action(xsrt)
        out['args_mutated'] = init_mut + [nm for nm, a0, a1 in (('value.x', xe, xarg), ('bspline.x', xs0, xs))
                                          if not np.array_equal(a0, a1) and nm not in init_mut]
        out['result_aliases_arg'] = bool(np.shares_memory(yy, xarg) or np.shares_memory(mask, xarg))
        # ---- derived objects: a deep copy and a pickle round trip must evaluate exactly like the object they come from
        try:
            import copy
            import pickle
            with warnings.catch_warnings():
                warnings.simplefilter('ignore')
                dv = [d_.value(xe.copy()) for d_ in (copy.deepcopy(b), pickle.loads(pickle.dumps(b)), copy.copy(b))]
            out['derived_same'] = bool(all(np.array_equal(y_, yy, equal_nan=True) and np.array_equal(m_, mask) for y_, m_ in dv))
        except Exception as e:  # noqa: BLE001
            out['derived_err'] = err(e)
        # ---- the SAME array object evaluated again after the caller changed its contents in place (a reused work buffer),
        #      or handed to a second object on the same grid; knots unchanged, coefficients changed or not
        ru = c.get('reuse')
        if ru:
            try:
                mode = ru['mode']
                rs = np.random.RandomState(int(ru.get('seed', 0)) % (2 ** 31))
                dx = span * float(ru.get('shift', 0.0625))
                target = b
                if mode == 'iadd':
                    xarg += dx
                elif mode == 'assign':
                    xarg[:] = xe[::-1] + dx
                elif mode == 'shuffle':
                    rs.shuffle(xarg)
                elif mode == 'sort':
                    xarg.sort()
                elif mode == 'second-object':
                    with warnings.catch_warnings():
                        warnings.simplefilter('ignore')
                        target = bspline(xs0.copy(), **{k_: (v.copy() if isinstance(v, np.ndarray) else v) for k_, v in kw.items()})
                    target.coeff = np.array(c['coeff'][nc:2 * nc], dtype='d')
                newco = np.array(c['coeff'][nc:2 * nc], dtype='d') if (ru.get('newcoeff') or mode == 'second-object') else np.array(c['coeff'][:nc], dtype='d')
                if target is b and ru.get('newcoeff'):
                    if ru.get('coeff_inplace'):
                        b.coeff[:] = newco
                    else:
                        b.coeff = newco.copy()
                xnow = xarg.copy()
                with warnings.catch_warnings():
                    warnings.simplefilter('ignore')
                    yyr, maskr = target.value(xarg)            # the very same ndarray object as in the first call
                o2 = observe(target, xnow)
                o2.update({'bk': fl(np.asarray(target.breakpoints)), 'coeff': fl(newco), 'xe': fl(xnow), 'yy': fl(yyr),
                           'mask': [bool(v) for v in maskr], 'arg_modified': bool(not np.array_equal(xnow, xarg)),
                           'finite': bool(o2['finite'] and np.all(np.isfinite(yyr)))})
                out['reuse'] = o2
                b.coeff = np.array(c['coeff'][:nc], dtype='d')
            except Exception as e:  # noqa: BLE001
                out['reuse'] = err(e)
        # ---- history on the same object: change knots and coefficients (in place or by assignment), evaluate again
        h = c.get('history')
        if h:
            try:
                shift = span * float(h.get('shift', 0.125))
                newbk = (bk64 + shift).astype(bk.dtype)
                newco = np.array(c['coeff'][nc:2 * nc], dtype='d')
                if h.get('mode') == 'inplace':
                    b.breakpoints[:] = newbk
                    b.coeff[:] = newco
                else:
                    b.breakpoints = newbk.copy()
                    b.coeff = newco.copy()
                xe2 = xe + shift if h.get('follow', True) else xe.copy()
                perm2 = xe2.argsort()
                with warnings.catch_warnings():
                    warnings.simplefilter('ignore')
                    yy2, mask2 = b.value(xe2.copy())
                    indx2 = b.intrv(xe2[perm2])
                    bs2 = b.bsplvn(xe2[perm2], indx2)
                    _a, lower2, upper2 = b.action(xe2[perm2])
                out['hist'] = {'bk': fl(np.asarray(b.breakpoints)), 'coeff': fl(newco), 'xe': fl(xe2), 'perm': [int(i) for i in perm2],
                               'yy': fl(yy2), 'mask': [bool(v) for v in mask2], 'indx': [int(v) for v in indx2],
                               'bs': [fl(row) for row in np.asarray(bs2)], 'lower': [int(v) for v in lower2],
                               'upper': [int(v) for v in upper2],
                               'finite': bool(np.all(np.isfinite(yy2)) and np.all(np.isfinite(bs2)))}
            except Exception as e:  # noqa: BLE001
                out['hist'] = err(e)
        out['yy'] = fl(yy)
        out['mask'] = [bool(v) for v in mask]
        out['indx'] = [int(v) for v in indx]
        out['bs'] = [fl(row) for row in np.asarray(bs)]
        out['lower'] = [int(v) for v in lower]
        out['upper'] = [int(v) for v in upper]
        out['finite'] = bool(np.all(np.isfinite(yy)) and np.all(np.isfinite(bs)))
        return out
    except Exception as e:  # noqa: BLE001
        r = err(e)
        r['stage'] = 'value'
        r.update({k_: v for k_, v in out.items() if k_ in ('bk', 'nc')})
        return r


def call_long(c):
    """A spline with very many intervals (> 100000), evaluated at clusters of points in consecutive intervals.
    call = {'long': True, 'nord': k, 'nbk': N, 'spacing': 'dyadic'|'linspace'|'jitter', 'seed': int,
            'clusters': [[first interval (0-based, counted from the first real breakpoint), number of consecutive intervals], ...],
            'fracs': [positions inside an interval, in (0, 1]], 'sorted': bool}
    Per point the answer carries the WINDOW the value depends on (2k knots, k coefficients around the interval found here with
    numpy.searchsorted on the object's own knots) -- BSpline/WindowProofs.eval1_window: the spline value is that of the window."""
    k = int(c['nord'])
    N = int(c['nbk'])
    rs = np.random.RandomState(int(c['seed']) % (2 ** 31))
    if c['spacing'] == 'dyadic':
        bkpt = float(rs.randint(-64, 64)) / 4.0 + np.arange(N, dtype='d') * 2.0 ** -int(c.get('log2step', 10))
    elif c['spacing'] == 'linspace':
        bkpt = np.linspace(0.0, 1.0, N)
    else:
        bkpt = np.cumsum(rs.randint(1, 4, N).astype('d')) * 2.0 ** -12
    try:
        with warnings.catch_warnings():
            warnings.simplefilter('ignore')
            b = bspline(np.array([bkpt[0], bkpt[-1]]), nord=k, bkpt=bkpt.copy())
    except Exception as e:  # noqa: BLE001
        return dict(err(e), stage='init')
    out = {'long': True}
    try:
        gb = np.asarray(b.breakpoints)
        nc = gb.size - k
        out['nknots'] = int(gb.size)
        out['knots_sorted'] = bool(np.all(np.diff(gb) >= 0))
        out['knots_expected'] = int(N + 2 * (k - 1))
        out['mask_all_true'] = bool(np.all(b.mask)) and b.mask.size == gb.size
        out['coeff_shape_ok'] = tuple(b.coeff.shape) == (nc,)
        coeff = rs.randint(-512, 512, nc).astype('d') / 64.0
        b.coeff = coeff.copy()
        gb64 = gb.astype('d')
        pts = []
        for j0, cnt in c['clusters']:
            for j in range(int(j0), int(j0) + int(cnt)):
                l = min(max(j + k - 1, k - 1), nc - 1)
                for fr in c['fracs']:
                    pts.append(gb64[l] + float(fr) * (gb64[l + 1] - gb64[l]))
        span = gb64[nc] - gb64[k - 1]
        outside = [gb64[k - 1] - span / 1024.0, gb64[nc] + span / 1024.0]
        xe = np.array(pts + outside, dtype='d')
        if not c.get('sorted'):
            xe = xe[rs.permutation(xe.size)]
        xarg = xe.copy()
        with warnings.catch_warnings():
            warnings.simplefilter('ignore')
            yy, mask = b.value(xarg)
            perm = xe.argsort(kind='stable')
            xs = xe[perm]
            indx = b.intrv(xs)
            bs = np.asarray(b.bsplvn(xs, indx))
            _act, lower, upper = b.action(xs)
        out['args_mutated'] = [] if np.array_equal(xarg, xe) else ['value.x']
        out['finite'] = bool(np.all(np.isfinite(yy)) and np.all(np.isfinite(bs)))
        ys, ms = yy[perm], mask[perm]
        lh = np.clip(np.searchsorted(gb64, xs, side='left') - 1, k - 1, nc - 1)      # largest l with gb[l] < x, clamped
        inr = (xs >= gb64[k - 1]) & (xs <= gb64[nc])
        out['points'] = [{'x': float(xs[i]), 'l': int(lh[i]), 'knots': fl(gb64[lh[i] - k + 1:lh[i] + k + 1]),
                          'coeff': fl(coeff[lh[i] - k + 1:lh[i] + 1]), 'y': float(ys[i]), 'mask': bool(ms[i]),
                          'indx': int(indx[i]), 'row': fl(bs[i])} for i in range(xs.size) if inr[i]]
        out['outside_masks'] = [bool(ms[i]) for i in range(xs.size) if not inr[i]]
        used = sorted(set(int(v) for v in indx))
        out['ranges'] = [[v - k + 1, int(lower[v - k + 1]), int(upper[v - k + 1])] for v in used]
        out['indx_all'] = [int(v) for v in indx]
        out['nonempty'] = int((upper >= lower).sum())
        out['nseg'] = int(lower.size)
        return out
    except Exception as e:  # noqa: BLE001
        r = err(e)
        r['stage'] = 'value'
        return r


def main():
    calls = json.load(sys.stdin)
    res = [call_long(c) if c.get('long') else call(c) for c in calls]
    g2 = _globals_snapshot()
    json.dump({'pydl_file': pydl.__file__, 'results': res,
               'globals_changed': {'by_import': [k for k in _G0 if _G0[k] != _G1[k]], 'by_calls': [k for k in _G1 if _G1[k] != g2[k]]}}, sys.stdout)


if __name__ == '__main__':
    main()
