(* C06, round 5: proofs about C06/Unwrap.v.  Facts about GENERATED pieces (record dtypes, typed field expressions,
   input/str conversion types, tag pattern / format / checks, defaults, broadcast constants, shape-check lists) are
   re-established on every run: static checks by vm_compute, erasures by reflexivity. *)
From Coq Require Import ZArith List Bool Lia ZifyBool.
Import ListNotations.
From PV Require Import Lib.Bits Lib.NumpyInt C06.Strings C06.StringProofs Generated.SdssIds C06.Model C06.Proofs
  C06.Typed C06.TypedProofs C06.Unwrap.
Open Scope Z_scope.
Ltac Zify.zify_post_hook ::= Z.to_euclidean_division_equations.

(* ---------------- typed unwrap ---------------- *)

Lemma fits_range t z : fits t z = true -> tmin t <= z <= tmax t.
Proof. unfold fits. intros H. apply andb_prop in H. destruct H as [A B]. apply Z.leb_le in A. apply Z.leb_le in B. lia. Qed.

Lemma fits_I64 z : - 2 ^ 63 <= z < 2 ^ 63 -> fits I64 z = true.
Proof.
  intros H. unfold fits, tmin, tmax; cbn [signed bits]. change (64 - 1) with 63.
  apply andb_true_intro; split; apply Z.leb_le; lia.
Qed.

Lemma fits_U64 z : 0 <= z < 2 ^ 64 -> fits U64 z = true.
Proof.
  intros H. unfold fits, tmin, tmax; cbn [signed bits]. apply andb_true_intro; split; apply Z.leb_le; lia.
Qed.

(* a record accepted by the static check is computed without any wrap, for EVERY value of the ID type *)
Lemma unwrap_typed_ok t rec id : record_check t rec = true -> fits t id = true ->
  unwrap_typed rec (t, id) = map (fun f => TVal (snd (fst f)) (uzeval id (snd f))) rec.
Proof.
  intros H F. induction rec as [|f rec IH]; [reflexivity|].
  cbn [record_check forallb] in H. apply andb_prop in H. destruct H as [H1 H2].
  cbn [unwrap_typed map]. f_equal; [|apply IH; exact H2].
  destruct (ucheck t (tmin t) (tmax t) (snd f)) as [[[T l] h]|] eqn:E; [|discriminate H1].
  apply ity_eqb_eq in H1. subst T.
  destruct (ucheck_sound _ _ _ _ _ _ _ E id F (fits_range _ _ F)) as (Ev & _). exact Ev.
Qed.

Lemma unwrap_objid_record_check : record_check unwrap_objid_intype unwrap_objid_record = true.
Proof. vm_compute. reflexivity. Qed.
Lemma unwrap_spec_record_check : record_check unwrap_spec_intype unwrap_spec_record = true.
Proof. vm_compute. reflexivity. Qed.
Lemma unwrap_spec_NMP_check : exprs_check unwrap_spec_intype unwrap_spec_NMP = true.
Proof. vm_compute. reflexivity. Qed.

Lemma unwrap_input_types :
  unwrap_objid_intype = I64 /\ unwrap_objid_strtype = I64 /\ unwrap_spec_intype = U64 /\ unwrap_spec_strtype = U64.
Proof. repeat split; reflexivity. Qed.

Lemma unwrap_record_dtypes :
  record_names unwrap_objid_record = doc_objid_names /\ record_types unwrap_objid_record = repeat I32 7 /\
  record_names unwrap_spec_record = doc_spec_names /\ record_types unwrap_spec_record = repeat I32 5 /\
  unwrap_spec_line_names = (nth 4 doc_spec_names [], [105; 110; 100; 101; 120]).
Proof. repeat split; reflexivity. Qed.

Lemma unwrap_objid_record_erases id : record_erasure unwrap_objid_record id = unwrap_objid_model id.
Proof. reflexivity. Qed.

Lemma unwrap_spec_record_erases id :
  record_erasure unwrap_spec_record id =
  [unwrap_spec_plate id; unwrap_spec_fiber id; unwrap_spec_mjd id; unwrap_spec_run2d_int id; unwrap_spec_line id].
Proof. reflexivity. Qed.

Lemma unwrap_spec_NMP_erases id :
  map (uzeval id) unwrap_spec_NMP =
  let r := unwrap_spec_run2d_int id in [run2d_N r; run2d_M r; run2d_P r].
Proof. reflexivity. Qed.

Theorem unwrap_objid_typed_any id : fits I64 id = true ->
  unwrap_typed unwrap_objid_record (I64, id) = map (TVal I32) (unwrap_objid_model id).
Proof.
  intros F. rewrite (unwrap_typed_ok I64 _ id unwrap_objid_record_check F). reflexivity.
Qed.

Theorem unwrap_spec_typed_any id : fits U64 id = true ->
  unwrap_typed unwrap_spec_record (U64, id) =
  map (TVal I32) [unwrap_spec_plate id; unwrap_spec_fiber id; unwrap_spec_mjd id; unwrap_spec_run2d_int id; unwrap_spec_line id].
Proof.
  intros F. rewrite (unwrap_typed_ok U64 _ id unwrap_spec_record_check F). reflexivity.
Qed.

(* pack in any integer types, unwrap into the record: the fields that were packed, as 32-bit integers *)
Theorem objid_typed_roundtrip ts vs : length vs = 7%nat -> all_fit ts vs -> objid_doc_ranges vs = true ->
  exists id, objid_typed_row (combine ts vs) = TOk I64 id /\
             unwrap_typed unwrap_objid_record (I64, id) = map (TVal I32) vs.
Proof.
  intros L F R. exists (pack objid_table vs). split; [apply objid_typed_layout; assumption|].
  destruct vs as [|s [|rr [|r [|c [|f [|fi [|o [|x vs]]]]]]]]; try discriminate L.
  assert (C : checks_ok objid_checks [s; rr; r; c; f; fi; o] = true)
    by (rewrite objid_checks_are_documented; exact R).
  rewrite <- (objid_layout _ _ _ _ _ _ _ C).
  pose proof (objid_no_wrap _ _ _ _ _ _ _ C) as B.
  rewrite unwrap_objid_typed_any by (apply fits_I64; lia).
  rewrite unwrap_objid_pack by exact C. reflexivity.
Qed.

Theorem specobjid_typed_roundtrip ts p f m r l i : all_fit ts [p; f; m; r; l; i] ->
  specobjid_doc_ranges [p; f; m - 50000; r; l; i] = true -> l = 0 \/ i = 0 ->
  exists id, specobjid_typed_row (combine ts [p; f; m; r; l; i]) = TOk U64 id /\
             unwrap_typed unwrap_spec_record (U64, id) = map (TVal I32) [p; f; m; r; l + i].
Proof.
  intros F R LI. exists (pack specobjid_table [p; f; m - 50000; r; l + i]).
  split; [apply specobjid_typed_layout; assumption|].
  assert (C : checks_ok specobjid_checks [p; f; m - 50000; r; l; i] = true)
    by (rewrite specobjid_checks_are_documented; exact R).
  rewrite <- (specobjid_layout _ _ _ _ _ _ C LI).
  pose proof (specobjid_no_wrap _ _ _ _ _ _ C LI) as B.
  rewrite unwrap_spec_typed_any by (apply fits_U64; lia).
  destruct (unwrap_specobjid_pack _ _ _ _ _ _ C LI) as (E1 & E2 & E3 & E4 & E5).
  rewrite E1, E2, E3, E4, E5. replace (m - 50000 + 50000) with m by lia. reflexivity.
Qed.

(* sensitivity witnesses: a 16-bit record field is refused by the analysis and really wraps *)
Example narrow_field_wraps :
  ucheck I64 (tmin I64) (tmax I64) (UCast I16 (UAndLit (UShr UVar 32) 65535)) = None /\
  ueval (I64, 40000 * 2 ^ 32) (UCast I16 (UAndLit (UShr UVar 32) 65535)) = TVal I16 (-25536).
Proof. split; vm_compute; reflexivity. Qed.

(* ---------------- decimal-string IDs ---------------- *)

Theorem unwrap_objid_decimal id : 0 <= id < 2 ^ 63 ->
  unwrap_objid_of_string (dec id) = XRows (unwrap_objid_model id).
Proof.
  intros H. unfold unwrap_objid_of_string, str_to_int. rewrite parse_pyint_dec by lia.
  change unwrap_objid_strtype with I64. rewrite fits_I64 by lia. reflexivity.
Qed.

Theorem unwrap_spec_decimal id : 0 <= id < 2 ^ 64 ->
  unwrap_spec_of_string (dec id) = XRows (unwrap_specobjid_model id).
Proof.
  intros H. unfold unwrap_spec_of_string, str_to_int. rewrite parse_pyint_dec by lia.
  change unwrap_spec_strtype with U64. rewrite fits_U64 by lia. reflexivity.
Qed.

(* a decimal string at or beyond the range of the type is an error, never a wrapped ID *)
Theorem unwrap_spec_decimal_overflow z : 2 ^ 64 <= z -> unwrap_spec_of_string (dec z) = XOther.
Proof.
  intros H. unfold unwrap_spec_of_string, str_to_int. rewrite parse_pyint_dec by lia.
  change unwrap_spec_strtype with U64.
  replace (fits U64 z) with false; [reflexivity|].
  symmetry. unfold fits, tmin, tmax; cbn [signed bits]. apply andb_false_intro2. apply Z.leb_gt. lia.
Qed.

(* ---------------- the run2d tag ---------------- *)

Lemma match_lit_step l ps s r : match_pieces ps s = r -> match_pieces (PLit l :: ps) (l ++ s) = r.
Proof. intros H. cbn [match_pieces]. rewrite strip_prefix_app. exact H. Qed.

Lemma match_digits_step ps n rest g t : 0 <= n -> nodigit_head rest ->
  match_pieces ps rest = Some (g, t) -> match_pieces (PDigits :: ps) (dec n ++ rest) = Some (n :: g, t).
Proof.
  intros Hn Hr H. cbn [match_pieces]. rewrite take_digits_dec by assumption. rewrite H.
  pose proof (undec_digits_of n Hn) as U. pose proof (digits_of_nonempty n) as Ne.
  destruct (digits_of n) as [|d ds]; [congruence|]. rewrite U. reflexivity.
Qed.

Lemma tag_shape N M P : 0 <= N -> 0 <= M -> 0 <= P ->
  format_pieces run2d_format [N; M; P] = [118] ++ dec N ++ [95] ++ dec M ++ [95] ++ dec P ++ [].
Proof.
  intros HN HM HP. unfold format_pieces, run2d_format. cbn [flat_map nth].
  rewrite !dec_signed_nonneg by assumption. reflexivity.
Qed.

Lemma tag_is_documented r : 0 <= r < 2 ^ 14 -> run2d_tag r = doc_tag r.
Proof.
  intros H. unfold run2d_tag, doc_tag, run2d_N, run2d_M, run2d_P.
  rewrite tag_shape by lia. rewrite app_nil_r. reflexivity.
Qed.

Theorem run2d_tag_parses a N M P : 0 <= N -> 0 <= M -> 0 <= P ->
  re_match a run2d_pattern (format_pieces run2d_format [N; M; P]) = Some [N; M; P].
Proof.
  intros HN HM HP. rewrite tag_shape by assumption. unfold re_match, run2d_pattern.
  assert (E : match_pieces [PLit [118]; PDigits; PLit [95]; PDigits; PLit [95]; PDigits]
                ([118] ++ dec N ++ [95] ++ dec M ++ [95] ++ dec P ++ []) = Some ([N; M; P], [])).
  { apply match_lit_step. apply match_digits_step; [exact HN | reflexivity |].
    apply match_lit_step. apply match_digits_step; [exact HM | reflexivity |].
    apply match_lit_step. apply match_digits_step; [exact HP | exact I |]. reflexivity. }
  rewrite E. destruct a; reflexivity.
Qed.

Lemma undec_nonneg d : Forall digit d -> 0 <= undec 0 d.
Proof.
  intros F. rewrite <- (rev_involutive d), undec_rev. apply val_le_nonneg. apply Forall_rev. exact F.
Qed.

(* format(parse s) = s: a string of the documented shape whose three numbers have no leading zeros is exactly what
   the format template prints for the numbers it parses to *)
Theorem run2d_tag_canonical d1 d2 d3 : canonical d1 -> canonical d2 -> canonical d3 ->
  let s := [118] ++ chars d1 ++ [95] ++ chars d2 ++ [95] ++ chars d3 in
  re_match true run2d_pattern s = Some [undec 0 d1; undec 0 d2; undec 0 d3] /\
  format_pieces run2d_format [undec 0 d1; undec 0 d2; undec 0 d3] = s.
Proof.
  intros C1 C2 C3 s.
  pose proof (undec_nonneg d1 (proj1 C1)) as N1. pose proof (undec_nonneg d2 (proj1 C2)) as N2.
  pose proof (undec_nonneg d3 (proj1 C3)) as N3.
  assert (E : format_pieces run2d_format [undec 0 d1; undec 0 d2; undec 0 d3] = s).
  { rewrite tag_shape by assumption. unfold dec. rewrite !digits_of_undec by assumption.
    rewrite app_nil_r. reflexivity. }
  split; [|exact E]. rewrite <- E. apply run2d_tag_parses; assumption.
Qed.

Lemma lstrip_app_nonws l c : is_ws c = false -> exists l', lstrip (l ++ [c]) = l' ++ [c].
Proof.
  intros H. induction l as [|a l IH].
  - exists []. cbn. rewrite H. reflexivity.
  - cbn [app lstrip]. destruct (is_ws a); [exact IH | exists (a :: l); reflexivity].
Qed.

(* int() refuses anything that starts with 'v' *)
Lemma parse_pyint_v rest : parse_pyint (118 :: rest) = None.
Proof.
  unfold parse_pyint, strip. change (lstrip (118 :: rest)) with (118 :: rest). cbn [rev].
  destruct (lstrip_app_nonws (rev rest) 118 eq_refl) as [l' E]. rewrite E, rev_app_distr. reflexivity.
Qed.

Lemma parse_pyint_tag N M P : 0 <= N -> 0 <= M -> 0 <= P -> parse_pyint (format_pieces run2d_format [N; M; P]) = None.
Proof. intros. rewrite tag_shape by assumption. exact (parse_pyint_v _). Qed.

(* the tag written for a run2d code is read back as that code, by the function under test *)
Theorem run2d_of_string_tag r : 0 <= r < 2 ^ 14 -> run2d_of_string (run2d_tag r) = R2val r.
Proof.
  intros H. change (2 ^ 14) with 16384 in H. unfold run2d_of_string, run2d_tag.
  assert (BN : 5 <= run2d_N r <= 6) by (unfold run2d_N; lia).
  assert (BM : 0 <= run2d_M r <= 99) by (unfold run2d_M; lia).
  assert (BP : 0 <= run2d_P r <= 99) by (unfold run2d_P; lia).
  rewrite parse_pyint_tag by lia. rewrite run2d_tag_parses by lia.
  assert (C : checks_ok run2d_tag_checks [run2d_N r; run2d_M r; run2d_P r] = true)
    by (unfold checks_ok, run2d_tag_checks; cbn [forallb nth]; lia).
  rewrite C. rewrite run2d_roundtrip_inv by lia.
  change run2d_tag_dtype with U64. rewrite fits_U64 by (change (2 ^ 64) with 18446744073709551616; lia).
  reflexivity.
Qed.

Lemma in_zseq n : forall lo x, lo <= x < lo + Z.of_nat n -> In x (zseq lo n).
Proof.
  induction n as [|n IH]; intros lo x H; [cbn in H; lia|].
  cbn [zseq]. destruct (Z.eq_dec x lo) as [->|Hne]; [left; reflexivity|].
  right. apply IH. rewrite Nat2Z.inj_succ in H. lia.
Qed.

Lemma tag_lengths_check :
  forallb (fun r => Z.of_nat (length (run2d_tag r)) <=? unwrap_spec_run2d_str_width) (zseq 0 (Z.to_nat 16384)) = true.
Proof. vm_compute. reflexivity. Qed.

(* the fixed-width string field of the record holds every tag completely *)
Theorem run2d_tag_fits r : 0 <= r < 2 ^ 14 -> run2d_tag_stored r = run2d_tag r.
Proof.
  intros H. unfold run2d_tag_stored. apply firstn_all2.
  pose proof tag_lengths_check as T. rewrite forallb_forall in T.
  specialize (T r (in_zseq (Z.to_nat 16384) 0 r ltac:(rewrite Z2Nat.id by lia; change (2 ^ 14) with 16384 in H; lia))).
  apply Z.leb_le in T. lia.
Qed.

Lemma run2d_code_bounds id : 0 <= unwrap_spec_run2d_int id < 2 ^ 14.
Proof.
  unfold unwrap_spec_run2d_int. change 16383 with (2 ^ 14 - 1).
  pose proof (land_mask_bounds (Z.shiftr id 10) 14 ltac:(lia)). lia.
Qed.

(* for EVERY 64-bit word: the tag unwrap_specobjid returns packs back to the run2d bits it came from *)
Theorem unwrap_tag_roundtrip id : run2d_of_string (unwrap_spec_tag id) = R2val (unwrap_spec_run2d_int id).
Proof.
  unfold unwrap_spec_tag. pose proof (run2d_code_bounds id) as B.
  rewrite run2d_tag_fits by exact B. apply run2d_of_string_tag. exact B.
Qed.

Lemma checks_eqb_eq a : forall b, checks_eqb a b = true -> a = b.
Proof.
  induction a as [|[[i lo] hi] a IH]; intros [|[[j lo'] hi'] b] H; try discriminate H; [reflexivity|].
  cbn [checks_eqb] in H. apply andb_prop in H. destruct H as [H1 H2].
  unfold check_eqb in H1. cbn [fst snd] in H1.
  apply andb_prop in H1. destruct H1 as [H1 Hc]. apply andb_prop in H1. destruct H1 as [Ha Hb].
  apply Nat.eqb_eq in Ha. apply Z.eqb_eq in Hb. apply Z.eqb_eq in Hc. subst. f_equal. apply IH. exact H2.
Qed.

(* IF the source anchors the pattern and checks the documented N, M, P ranges, every accepted tag is a documented one *)
Theorem tag_ranges_enforced_sound : tag_ranges_enforced = true ->
  forall s z, parse_pyint s = None -> run2d_of_string s = R2val z -> doc_run2d_of_string s = Some z.
Proof.
  intros E s z Hp H. unfold tag_ranges_enforced in E. apply andb_prop in E. destruct E as [Ea Ec].
  apply checks_eqb_eq in Ec. unfold run2d_of_string in H. unfold doc_run2d_of_string. rewrite Hp in *.
  rewrite Ea, Ec in H. change run2d_pattern with doc_tag_pattern in H.
  destruct (re_match true doc_tag_pattern s) as [g|]; [|discriminate H].
  destruct g as [|N [|M [|P [|x g]]]]; try discriminate H.
  unfold checks_ok, doc_tag_checks in H. cbn [forallb nth] in H.
  destruct ((5 <=? N) && (N <=? 6) && ((0 <=? M) && (M <=? 99) && ((0 <=? P) && (P <=? 99) && true))) eqn:R;
    [|discriminate H].
  replace ((5 <=? N) && (N <=? 6) && (0 <=? M) && (M <=? 99) && (0 <=? P) && (P <=? 99)) with true by lia.
  destruct (fits run2d_tag_dtype (run2d_of_NMP N M P)); [|discriminate H].
  rewrite run2d_is_documented in H. inversion H. reflexivity.
Qed.

(* ... and IF it does not, two different tags collide (witness replayed on the real code by the correspondence run) *)
Theorem tag_ranges_not_enforced_collision : tag_ranges_enforced = false ->
  run2d_of_string [118; 53; 95; 49; 48; 48; 95; 48] = R2val 10000 /\      (* 'v5_100_0' *)
  run2d_of_string [118; 54; 95; 48; 95; 48] = R2val 10000 /\              (* 'v6_0_0'   *)
  doc_run2d_of_string [118; 53; 95; 49; 48; 48; 95; 48] = None.
Proof.
  intros E.
  first [ vm_compute in E; discriminate E | repeat split; vm_compute; reflexivity ].
Qed.

(* the source as it stands DOES anchor the pattern and enforce the documented ranges (obligation re-checked on every
   run; false of the code before 0f16a43, where 'v5_100_0' and 'v6_0_0' collided) *)
Lemma tag_ranges_enforced_now : tag_ranges_enforced = true.
Proof. vm_compute. reflexivity. Qed.

Theorem run2d_accepted_strings_documented s z :
  run2d_of_string s = R2val z -> doc_run2d_of_string s = Some z.
Proof.
  intros H. destruct (parse_pyint s) as [v|] eqn:Hp.
  - unfold run2d_of_string in H. unfold doc_run2d_of_string. rewrite Hp in *. inversion H. reflexivity.
  - exact (tag_ranges_enforced_sound tag_ranges_enforced_now s z Hp H).
Qed.

(* a tag whose N is below the documented range is a ValueError, not an OverflowError from the uint64 conversion *)
Example tag_v4_0_0_is_value_error : run2d_of_string [118; 52; 95; 48; 95; 48] = R2ValueError.
Proof. vm_compute. reflexivity. Qed.

(* ---------------- call front-ends ---------------- *)

Definition dflt (a : option arg) (z : Z) : arg := match a with Some x => x | None => Sc z end.

Lemma objid_opt_documented a :
  objid_opt 0 a = Some (dflt a 2) /\ objid_opt 1 a = Some (dflt a 301) /\ objid_opt 4 a = Some (dflt a 0).
Proof. destruct a; repeat split; reflexivity. Qed.

Lemma objid_bcast_documented n a :
  objid_bcast 0 n a = promote_default 2 n a /\ objid_bcast 1 n a = promote_default 301 n a /\
  objid_bcast 4 n a = promote_default 0 n a.
Proof. destruct a; repeat split; reflexivity. Qed.

(* the defaults, None replacements and broadcast constants found in the source are the documented ones *)
Theorem objid_call_defaults run camcol field objnum rerun sky ff :
  objid_call run camcol field objnum rerun sky ff =
  objid_model 2 run camcol field objnum (dflt rerun 301) (dflt sky 2) (dflt ff 0).
Proof.
  unfold objid_call.
  destruct (objid_opt_documented sky) as (-> & _ & _).
  destruct (objid_opt_documented rerun) as (_ & -> & _).
  destruct (objid_opt_documented ff) as (_ & _ & ->).
  unfold objid_model. cbv zeta.
  destruct (objid_bcast_documented (length (promote run)) (dflt sky 2)) as (-> & _ & _).
  destruct (objid_bcast_documented (length (promote run)) (dflt rerun 301)) as (_ & -> & _).
  destruct (objid_bcast_documented (length (promote run)) (dflt ff 0)) as (_ & _ & ->).
  reflexivity.
Qed.

Lemma glue_obligations :
  default_skyversion_value = 2 /\
  covers 7 2 objid_shape_checked = true /\ covers 7 7 objid_scalar_promoted = true /\
  specobjid_line_index_exclusive = true /\ covers 6 0 specobjid_shape_checked = true.
Proof. repeat split; vm_compute; reflexivity. Qed.

Theorem specobjid_call_int p f m z l i : specobjid_call p f m (RInt z) l i = specobjid_model p f m (R2int z) l i.
Proof.
  unfold specobjid_call. change specobjid_line_index_exclusive with true.
  destruct l, i; try reflexivity.
Qed.

(* the string and the integer form of run2d agree, for every code *)
Theorem specobjid_call_tag p f m r l i : 0 <= r < 2 ^ 14 ->
  specobjid_call p f m (RStr (run2d_tag r)) l i = specobjid_call p f m (RInt r) l i.
Proof.
  intros H. unfold specobjid_call. rewrite run2d_of_string_tag by exact H. reflexivity.
Qed.

(* ---------------- the whole call, any mix of scalars and arrays ---------------- *)

Lemma objid_rows_core (cols : list (list Z)) n : length cols = 7%nat ->
  (if forallb (fun c => Nat.eqb (length c) n) cols then
     let rows := zip_rows cols n in
     if forallb (checks_ok objid_checks) rows then Ok (map objid_of rows) else ValueError
   else ValueError)
  =
  (if forallb (fun c => Nat.eqb (length c) n) cols then
     let rows := zip_rows cols n in
     if forallb objid_doc_ranges rows then Ok (map (pack objid_table) rows) else ValueError
   else ValueError).
Proof.
  intros L7. cbv zeta.
  destruct (forallb (fun c => Nat.eqb (length c) n) cols); [|reflexivity].
  set (rows := zip_rows cols n).
  assert (R7 : forall row, In row rows -> exists a b c0 d0 e f0 g, row = [a; b; c0; d0; e; f0; g]).
  { intros row H. apply row7. rewrite (zip_rows_length _ _ _ H). exact L7. }
  assert (EQ : forallb (checks_ok objid_checks) rows = forallb objid_doc_ranges rows).
  { apply forallb_ext_in. intros row H. destruct (R7 row H) as (a & b & c0 & d0 & e & f0 & g & ->).
    apply objid_checks_are_documented. }
  rewrite EQ. destruct (forallb objid_doc_ranges rows) eqn:ER; [|reflexivity].
  f_equal. apply map_ext_in. intros row H. destruct (R7 row H) as (a & b & c0 & d0 & e & f0 & g & ->).
  unfold objid_of. apply objid_layout. rewrite objid_checks_are_documented.
  rewrite forallb_forall in ER. apply ER. exact H.
Qed.

Definition objid_cols d (run camcol field objnum rerun sky ff : arg) : list (list Z) :=
  let n := length (promote run) in
  [promote_default d n sky; promote_default 301 n rerun; promote run; promote camcol;
   promote_default 0 n ff; promote field; promote objnum].

(* sdss_objid, every argument a Python int or an array: ValueError unless all promoted lengths agree and every row is
   in the documented ranges; otherwise exactly the documented layout of every row *)
Theorem objid_model_total d run camcol field objnum rerun sky ff :
  objid_model d run camcol field objnum rerun sky ff =
  let n := length (promote run) in
  let cols := objid_cols d run camcol field objnum rerun sky ff in
  if forallb (fun col => Nat.eqb (length col) n) cols then
    let rows := zip_rows cols n in
    if forallb objid_doc_ranges rows then Ok (map (pack objid_table) rows) else ValueError
  else ValueError.
Proof. unfold objid_model, objid_cols. cbv zeta. apply objid_rows_core. reflexivity. Qed.

Corollary objid_model_ok_iff d run camcol field objnum rerun sky ff ids :
  objid_model d run camcol field objnum rerun sky ff = Ok ids ->
  let n := length (promote run) in
  let rows := zip_rows (objid_cols d run camcol field objnum rerun sky ff) n in
  forallb objid_doc_ranges rows = true /\ ids = map (pack objid_table) rows.
Proof.
  rewrite objid_model_total. cbv zeta.
  destruct (forallb _ (objid_cols _ _ _ _ _ _ _ _)); [|discriminate].
  destruct (forallb objid_doc_ranges _); [|discriminate]. intros H. inversion H. auto.
Qed.

Corollary objid_model_never_other d run camcol field objnum rerun sky ff :
  objid_model d run camcol field objnum rerun sky ff <> OtherError.
Proof.
  rewrite objid_model_total. cbv zeta.
  destruct (forallb _ (objid_cols _ _ _ _ _ _ _ _)); [|discriminate].
  destruct (forallb objid_doc_ranges _); discriminate.
Qed.

(* the call front-end built from the GENERATED defaults, broadcast constants and checks is the documented behaviour *)
Theorem objid_call_documented run camcol field objnum rerun sky ff :
  objid_call run camcol field objnum rerun sky ff = doc_objid_call run camcol field objnum rerun sky ff.
Proof. rewrite objid_call_defaults, objid_model_total. reflexivity. Qed.

Lemma spec_rows_core2 (p f m' r l i : list Z) :
  let n := length p in
  (l = repeat 0 n \/ i = repeat 0 n) ->
  let cols := [p; f; m'; r; l; i] in
  (if forallb (fun c => Nat.eqb (length c) n) cols then
     let rows := zip_rows cols n in
     if forallb (checks_ok specobjid_checks) rows then Ok (map specobjid_of rows) else ValueError
   else ValueError)
  =
  (if forallb (fun c => Nat.eqb (length c) n) cols then
     let rows := zip_rows cols n in
     if forallb specobjid_doc_ranges rows then Ok (map spec_row_pack rows) else ValueError
   else ValueError).
Proof.
  cbv zeta. intros Hz.
  destruct (forallb (fun c => Nat.eqb (length c) (length p)) [p; f; m'; r; l; i]); [|reflexivity].
  set (rows := zip_rows [p; f; m'; r; l; i] (length p)).
  assert (R6 : forall row, In row rows -> exists a b c d e x, row = [a; b; c; d; e; x] /\ (e = 0 \/ x = 0)).
  { intros row H. destruct (row6 row (zip_rows_length _ _ _ H)) as (a & b & c & d & e & x & ->).
    do 6 eexists. split; [reflexivity|].
    destruct Hz as [Hz|Hz].
    - left. destruct (zip_rows_nth _ _ _ 4%nat H) as [Hin|Hz']; cbn [nth] in *;
        [rewrite Hz in Hin; apply in_repeat_zero in Hin; exact Hin | exact Hz'].
    - right. destruct (zip_rows_nth _ _ _ 5%nat H) as [Hin|Hz']; cbn [nth] in *;
        [rewrite Hz in Hin; apply in_repeat_zero in Hin; exact Hin | exact Hz']. }
  assert (EQ : forallb (checks_ok specobjid_checks) rows = forallb specobjid_doc_ranges rows).
  { apply forallb_ext_in. intros row H. destruct (R6 row H) as (a & b & c & d & e & x & -> & _).
    apply specobjid_checks_are_documented. }
  rewrite EQ. destruct (forallb specobjid_doc_ranges rows) eqn:ER; [|reflexivity].
  f_equal. apply map_ext_in. intros row H. destruct (R6 row H) as (a & b & c & d & e & x & -> & Hex).
  unfold specobjid_of, spec_row_pack. apply specobjid_layout; [|exact Hex].
  rewrite specobjid_checks_are_documented. rewrite forallb_forall in ER. apply ER. exact H.
Qed.

Definition r2col (r : r2arg) : list Z :=
  match r with R2int z => [z] | R2str N M P => [(N - 5) * 10000 + M * 100 + P] | R2arr l => l end.

(* sdss_specobjid, every argument a Python int or an array, optional line or index: ValueError when both line and
   index are given, when the promoted lengths differ or when some row is outside the documented ranges (the MJD
   reduced by 50000 on both paths); otherwise exactly the documented layout of every row *)
Theorem specobjid_model_total plate fiber mjd run2d line index :
  specobjid_model plate fiber mjd run2d line index =
  match line, index with
  | Some _, Some _ => ValueError
  | _, _ =>
    let n := length (promote plate) in
    let li := match line with Some a => promote a | None => repeat 0 n end in
    let ix := match index with Some a => promote a | None => repeat 0 n end in
    let cols := [promote plate; promote fiber; map (fun z => z - 50000) (promote mjd); r2col run2d; li; ix] in
    if forallb (fun col => Nat.eqb (length col) n) cols then
      let rows := zip_rows cols n in
      if forallb specobjid_doc_ranges rows then Ok (map spec_row_pack rows) else ValueError
    else ValueError
  end.
Proof.
  unfold specobjid_model.
  assert (PM : promote_mjd mjd = map (fun z => z - 50000) (promote mjd)).
  { unfold promote_mjd. destruct mjd_conventions_agree as [-> ->]. destruct mjd; reflexivity. }
  rewrite PM.
  assert (R2 : match run2d with R2int z => [z] | R2str N M P => [run2d_of_NMP N M P] | R2arr l => l end = r2col run2d).
  { destruct run2d; try reflexivity; cbn [r2col]; rewrite run2d_is_documented; reflexivity. }
  rewrite R2.
  destruct line as [l|], index as [i|]; try reflexivity; cbv zeta; apply spec_rows_core2; auto.
Qed.

Corollary specobjid_model_never_other plate fiber mjd run2d line index :
  specobjid_model plate fiber mjd run2d line index <> OtherError.
Proof.
  rewrite specobjid_model_total.
  destruct line, index; try discriminate; cbv zeta;
    (destruct (forallb (fun col => Nat.eqb (length col) _) _); [|discriminate]);
    (destruct (forallb specobjid_doc_ranges _); discriminate).
Qed.

(* ---------------- round 6: private helpers and scalar forms ---------------- *)

(* _int64_array as read from the source: [v] as int64 when v fits, ValueError otherwise, for ints and bools alike *)
Theorem int64_array_exact k v :
  int64_array_model k v = if fits I64 v then PrArr I64 [v] else PrErr EValueError.
Proof.
  unfold int64_array_model, run_promoter, int64_array_promoter. cbn [pr_dtype pr_handlers].
  unfold np_array1_dtype. destruct (fits I64 v); reflexivity.
Qed.

Lemma checks_reject checks row i lo hi :
  In (i, lo, hi) checks -> nth i row 0 < lo \/ hi < nth i row 0 -> checks_ok checks row = false.
Proof.
  intros HIn Hout. unfold checks_ok. destruct (forallb _ checks) eqn:E; [|reflexivity].
  rewrite forallb_forall in E. specialize (E _ HIn). cbn beta iota zeta in E.
  apply andb_prop in E. destruct E as [E1 E2]. apply Z.leb_le in E1. apply Z.leb_le in E2. lia.
Qed.

Lemma covers_in n l i : covers n n l = true -> (i < n)%nat -> In i l.
Proof.
  unfold covers. intros H Hi. rewrite forallb_forall in H.
  assert (Hs : In i (seq 0 n)) by (apply in_seq; lia). specialize (H _ Hs).
  apply orb_prop in H. destruct H as [H|H].
  - apply Nat.eqb_eq in H. lia.
  - apply existsb_exists in H. destruct H as (x & Hx & Hx2). apply Nat.eqb_eq in Hx2. subst. exact Hx.
Qed.

(* a value that no int64 holds is outside every range check whose bounds are int64 numbers *)
Lemma unfit_rejected n checks row i :
  checks_inside_int64 n checks = true -> (i < n)%nat -> fits I64 (nth i row 0) = false -> checks_ok checks row = false.
Proof.
  unfold checks_inside_int64. intros H Hi Hf. apply andb_prop in H. destruct H as [Hb Hc].
  pose proof (covers_in _ _ _ Hc Hi) as HIn. apply in_map_iff in HIn. destruct HIn as (((j & lo) & hi) & Hj & HIn).
  cbn in Hj. subst j. rewrite forallb_forall in Hb. specialize (Hb _ HIn). cbn beta iota in Hb.
  apply andb_prop in Hb. destruct Hb as [Hlo Hhi].
  apply (checks_reject _ _ _ _ _ HIn).
  unfold fits in *. apply andb_prop in Hlo. apply andb_prop in Hhi. destruct Hlo as [L1 L2]. destruct Hhi as [H1 H2].
  apply Z.leb_le in L1. apply Z.leb_le in L2. apply Z.leb_le in H1. apply Z.leb_le in H2.
  apply andb_false_iff in Hf. destruct Hf as [Hf|Hf]; apply Z.leb_gt in Hf; lia.
Qed.

(* the ValueError of _int64_array is the ValueError the row model gives: the value is outside every documented range *)
Theorem int64_array_rejects_only_out_of_range k row i :
  (i < 7)%nat -> int64_array_model k (nth i row 0) = PrErr EValueError ->
  checks_ok objid_checks row = false /\ objid_doc_ranges row = false.
Proof.
  intros Hi H. rewrite int64_array_exact in H. destruct (fits I64 (nth i row 0)) eqn:Hf; [discriminate H|].
  assert (R : checks_ok objid_checks row = false).
  { apply (unfit_rejected 7 objid_checks row i); [vm_compute; reflexivity | exact Hi | exact Hf]. }
  split; [exact R|].
  destruct (objid_doc_ranges row) eqn:D; [|reflexivity].
  destruct row as [|s [|rr [|r [|c [|f [|fi [|o [|x t]]]]]]]]; try discriminate D.
  rewrite objid_checks_are_documented in R. congruence.
Qed.

(* the scalar promotions of sdss_specobjid (np.array([x]), type inferred) never fail and keep the exact value *)
Theorem specobjid_promotion_exact k v :
  promo_values (specobjid_promotion_model k v) = Some [v] /\ covers 6 6 specobjid_scalar_promoted = true.
Proof.
  split; [|vm_compute; reflexivity].
  unfold specobjid_promotion_model, run_promoter, specobjid_promoter. cbn [pr_dtype pr_handlers].
  pose proof (np_array1_inferred_values k v) as H. destruct (np_array1_inferred k v); exact H.
Qed.

Lemma normaliser_complete_holds : normaliser_complete = true.
Proof. vm_compute; reflexivity. Qed.

(* every spelling of a scalar is an integer for the function body *)
Theorem scalar_forms_are_integers :
  (forall i f, (i < 7)%nat -> form_is_int numpy_scalar_normaliser objid_scalar_normalised i f = true) /\
  (forall i f, (i < 6)%nat -> form_is_int numpy_scalar_normaliser specobjid_scalar_normalised i f = true).
Proof.
  pose proof normaliser_complete_holds as H. unfold normaliser_complete in H.
  destruct numpy_scalar_normaliser as [l|]; [|discriminate H].
  apply andb_prop in H. destruct H as [H H6]. apply andb_prop in H. destruct H as [Hc H7].
  assert (C : forall c, existsb (scalar_class_eqb c) l = true).
  { intros c. rewrite forallb_forall in Hc. apply Hc. destruct c; cbn; auto. }
  assert (X : forall n lst i, covers n n lst = true -> (i < n)%nat -> existsb (Nat.eqb i) lst = true).
  { intros n lst i Hcov Hi. apply existsb_exists. exists i. split; [eapply covers_in; eauto | apply Nat.eqb_refl]. }
  split; intros i f Hi; destruct f as [|c|]; try reflexivity; unfold form_is_int; rewrite C; cbn [andb].
  - exact (X 7%nat _ i H7 Hi).
  - exact (X 6%nat _ i H6 Hi).
Qed.
