(* Yanny/StructFacts.v -- a typedef written by dtype_to_struct is interpreted back: its name, its column
   names (struct_columns) and each column's declared type (find_type). *)
From Coq Require Import NArith ZArith List Bool Lia.
Import ListNotations.
From PV Require Import Yanny.Bytes Yanny.BytesFacts Yanny.Types Yanny.Parse Yanny.Render
  Yanny.TokenFacts Yanny.RowFacts Yanny.TypeFacts Yanny.DocFacts Yanny.LayoutFacts Yanny.ScanFacts.
Open Scope N_scope.

(* ---- text shape of a rendered block of lines ---- *)
Lemma join_nl_lines A ls Z : join [NL] (A :: ls ++ [Z]) = A ++ [NL] ++ unlines ls ++ Z.
Proof.
  revert A. induction ls as [|l ls IH]; intros A.
  - reflexivity.
  - cbn [app]. rewrite join_cons. rewrite IH.
    unfold unlines. cbn [map concat]. rewrite <- !app_assoc. reflexivity.
Qed.

(* ---- a supported column: its type word and its declaration ---- *)
Definition decl_of (es : list enumdecl) (c : column) : bytes := c_name c ++ decl_suffix es c.
(* characters of a declaration suffix: digits and square brackets *)
Definition sfxch (x : N) : bool := is_digit x || (x =? LBRACK) || (x =? RBRACK).

Lemma enum_ok_parts e : enum_ok e = true ->
  ident (e_col e) = true /\ ident (e_tname e) = true /\ e_labels e <> [] /\ forallb ident (e_labels e) = true.
Proof.
  unfold enum_ok. intros H. apply andb_true_iff in H as [H H4]. apply andb_true_iff in H as [H H3].
  apply andb_true_iff in H as [H1 H2]. repeat split; auto.
  - destruct (e_labels e); [discriminate|discriminate].
  - eapply forallb_impl; [|exact H4]. intros l Hl. now apply andb_true_iff in Hl as [Hl _].
Qed.

Lemma enum_ok_labels_no_td e : enum_ok e = true -> forallb no_td (e_labels e) = true.
Proof.
  unfold enum_ok. intros H. apply andb_true_iff in H as [_ H4].
  eapply forallb_impl; [|exact H4]. intros l Hl. now apply andb_true_iff in Hl as [_ Hl].
Qed.

Lemma col_ok_parts c : col_ok c = true ->
  ident (c_name c) = true /\ no_td (c_name c) = true /\ match c_arr c with Some l => 0 <? l = true | None => True end.
Proof.
  unfold col_ok. intros H. apply andb_true_iff in H as [H _]. apply andb_true_iff in H as [H H3].
  apply andb_true_iff in H as [H1 H2]. repeat split; auto. destruct (c_arr c); auto.
Qed.

Lemma brack_sfx n : exists mid, brack n = LBRACK :: mid ++ [RBRACK] /\ forallb sfxch mid = true.
Proof.
  exists (show_N n). split; [reflexivity|]. eapply forallb_impl; [|apply show_N_digits]. intros x Hx. unfold sfxch. now rewrite Hx.
Qed.

Definition sfx_like (t : bytes) : Prop := t = [] \/ exists mid, t = LBRACK :: mid ++ [RBRACK] /\ forallb sfxch mid = true.

Lemma sfx_like_app a t : sfx_like a -> sfx_like t -> sfx_like (a ++ t).
Proof.
  intros [->|[m1 [-> H1]]] [->|[m2 [-> H2]]].
  - now left.
  - right. exists m2. auto.
  - right. exists m1. rewrite app_nil_r. auto.
  - right. exists (m1 ++ [RBRACK] ++ [LBRACK] ++ m2). split.
    + cbn [app]. rewrite <- !app_assoc. reflexivity.
    + rewrite !forallb_app, H1, H2. reflexivity.
Qed.

Lemma sfx_shape es c : sfx_like (decl_suffix es c).
Proof.
  rewrite decl_suffix_eq. apply sfx_like_app.
  - destruct (arr_suffix_cases c) as [[_ ->]|[l [_ [_ ->]]]]; [now left|]. right. apply brack_sfx.
  - destruct (c_type c); try (now left). destruct (enum_for (c_name c) es); [now left|]. right. apply brack_sfx.
Qed.

Lemma col_words es c : forallb enum_ok es = true -> col_ok c = true ->
  exists w, ctype_word es c = Some w /\ w <> [] /\ forallb is_word w = true /\
            typ_of es c = w ++ decl_suffix es c /\
            decl_line es c = Some (S_INDENT ++ w ++ [SP] ++ decl_of es c ++ [SEMI]).
Proof.
  intros Hes Hc. unfold col_ok in Hc. apply andb_true_iff in Hc as [_ Hc].
  unfold typ_of, decl_line, ctype_word, decl_of.
  destruct (c_type c) eqn:Et; try discriminate;
    try (eexists; repeat split; first [reflexivity | discriminate | (cbn [lookup np_code dtmap beq N.eqb Pos.eqb andb]; now rewrite <- app_assoc)]).
  destruct (enum_for (c_name c) es) as [e|] eqn:Ee.
  - rewrite forallb_forall in Hes. pose proof (Hes e (enum_for_In _ _ _ Ee)) as He.
    destruct (enum_ok_parts e He) as [_ [Hn _]]. destruct (ident_word _ Hn) as [Hne Hw].
    exists (upper (e_tname e)). repeat split; try reflexivity; try (now rewrite <- app_assoc).
    + destruct (e_tname e); [congruence|unfold upper; cbn [map]; discriminate].
    + now apply upper_word.
  - eexists; repeat split; first [reflexivity | discriminate | (cbn [lookup np_code dtmap beq N.eqb Pos.eqb andb]; now rewrite <- app_assoc)].
Qed.

(* ---- words of a struct body ---- *)
Lemma words_aux_ws cur c s : is_ws c = true -> cur = [] -> words_aux cur (c :: s) = words_aux [] s.
Proof. intros Hc ->. cbn [words_aux]. now rewrite Hc. Qed.

Lemma words_aux_word w : forall cur c s, forallb not_ws w = true -> is_ws c = true -> rev cur ++ w <> [] ->
  words_aux cur (w ++ c :: s) = (rev cur ++ w) :: words_aux [] s.
Proof.
  induction w as [|x w IH]; intros cur c s Hw Hc Hn.
  - cbn [app words_aux]. rewrite Hc. rewrite app_nil_r in *. destruct cur; [cbn in Hn; congruence|reflexivity].
  - cbn [forallb] in Hw. apply andb_true_iff in Hw as [Hx Hw]. unfold not_ws in Hx. apply negb_true_iff in Hx.
    cbn [app words_aux]. rewrite Hx. rewrite IH; auto.
    + cbn [rev]. now rewrite <- app_assoc.
    + cbn [rev]. rewrite <- app_assoc. cbn [app]. destruct (rev cur); discriminate.
Qed.

Lemma word_all_not_ws' s : forallb is_word s = true -> forallb not_ws s = true.
Proof. apply word_all_not_ws. Qed.

Lemma sfxch_not_ws x : sfxch x = true -> not_ws x = true.
Proof. unfold sfxch, not_ws. intros H. apply negb_true_iff. destruct (is_ws x) eqn:E; auto. exfalso. nclass. Qed.

Lemma decl_suffix_chars es c : forallb sfxch (decl_suffix es c) = true.
Proof.
  destruct (sfx_shape es c) as [->|[mid [-> H]]]; [reflexivity|].
  cbn [forallb]. rewrite forallb_app, H. reflexivity.
Qed.

Lemma decl_of_not_ws es c : forallb is_word (c_name c) = true -> forallb not_ws (decl_of es c ++ [SEMI]) = true.
Proof.
  intros Hn. unfold decl_of. rewrite !forallb_app. rewrite word_all_not_ws by auto.
  assert (forallb not_ws (decl_suffix es c) = true) as ->.
  { eapply forallb_impl; [|apply decl_suffix_chars]. apply sfxch_not_ws. }
  reflexivity.
Qed.

(* one declaration line contributes its two words *)
Lemma words_decl_line w d rest : w <> [] -> forallb not_ws w = true -> forallb not_ws d = true -> d <> [] ->
  words_aux [] ((S_INDENT ++ w ++ [SP] ++ d) ++ NL :: rest) = w :: d :: words_aux [] rest.
Proof.
  intros Hw1 Hw2 Hd1 Hd2. unfold S_INDENT. rewrite <- !app_assoc. cbn [app].
  rewrite !words_aux_ws by reflexivity.
  rewrite (words_aux_word w [] SP) by (first [assumption | reflexivity | (cbn [rev app]; destruct w; [congruence|discriminate])]).
  cbn [rev app]. rewrite (words_aux_word d [] NL) by (first [assumption | reflexivity | (cbn [rev app]; destruct d; [congruence|discriminate])]). reflexivity.
Qed.

Definition col_line (es : list enumdecl) (c : column) (w : bytes) : bytes := S_INDENT ++ w ++ [SP] ++ decl_of es c ++ [SEMI].

(* columns with their type words *)
Definition cols_words (es : list enumdecl) (cols : list column) (ws : list bytes) : Prop :=
  Forall2 (fun c w => ctype_word es c = Some w /\ w <> [] /\ forallb is_word w = true /\ forallb is_word (c_name c) = true /\ c_name c <> []) cols ws.

Lemma cols_words_exist es cols : forallb enum_ok es = true -> forallb col_ok cols = true -> exists ws, cols_words es cols ws.
Proof.
  intros Hes. induction cols as [|c cols IH]; intros Hc; [exists []; constructor|].
  cbn [forallb] in Hc. apply andb_true_iff in Hc as [Hc1 Hc2]. destruct (IH Hc2) as [ws Hws].
  destruct (col_words es c Hes Hc1) as [w [H1 [H2 [H3 _]]]]. exists (w :: ws). constructor; auto.
  destruct (col_ok_parts c Hc1) as [Hi _]. destruct (ident_word _ Hi). auto.
Qed.

Lemma decl_line_col_line es c w : ctype_word es c = Some w -> decl_line es c = Some (col_line es c w).
Proof. intros H. unfold decl_line, col_line, decl_of. rewrite H. now rewrite <- app_assoc. Qed.

Lemma omap_decl_lines es cols ws : cols_words es cols ws ->
  omap (decl_line es) cols = Some (map (fun cw => col_line es (fst cw) (snd cw)) (combine cols ws)).
Proof.
  induction 1 as [|c w cols ws [Hw _] _ IH]; [reflexivity|]. cbn [omap combine map fst snd].
  rewrite (decl_line_col_line es c w Hw). rewrite IH. reflexivity.
Qed.

Lemma words_body es cols ws rest : cols_words es cols ws ->
  words_aux [] (unlines (map (fun cw => col_line es (fst cw) (snd cw)) (combine cols ws)) ++ rest)
  = flat_map (fun cw => [snd cw; decl_of es (fst cw) ++ [SEMI]]) (combine cols ws) ++ words_aux [] rest.
Proof.
  induction 1 as [|c w cols ws [_ [Hn [Hw [Hc Hcn]]]] _ IH]; [reflexivity|].
  cbn [combine map flat_map fst snd]. unfold unlines in *. cbn [map concat]. rewrite <- !app_assoc. cbn [app].
  unfold col_line at 1.
  replace ((S_INDENT ++ w ++ [SP] ++ decl_of es c ++ [SEMI]) ++ NL :: concat (map (fun l => l ++ [NL]) (map (fun cw => col_line es (fst cw) (snd cw)) (combine cols ws))) ++ rest)
    with ((S_INDENT ++ w ++ [SP] ++ (decl_of es c ++ [SEMI])) ++ NL :: (concat (map (fun l => l ++ [NL]) (map (fun cw => col_line es (fst cw) (snd cw)) (combine cols ws))) ++ rest)) by reflexivity.
  rewrite words_decl_line; auto.
  - rewrite IH. reflexivity.
  - now apply word_all_not_ws.
  - now apply decl_of_not_ws.
  - destruct (decl_of es c); discriminate.
Qed.

(* ---- column names ---- *)
Lemma split_def_word_decl d : d <> [] -> mem SEMI d = false -> split_def_word (d ++ [SEMI]) = Some (d, []).
Proof.
  intros Hn Hs. destruct d as [|x d]; [congruence|]. apply mem_cons_false in Hs as [_ Hs].
  cbn [app split_def_word]. rewrite (rsplit_at_last SEMI d []) by reflexivity. reflexivity.
Qed.

Lemma sfxch_mem d s : sfxch d = false -> forallb sfxch s = true -> mem d s = false.
Proof.
  intros Hd H. apply mem_false_forallb. eapply forallb_impl; [|exact H]. intros x Hx. apply negb_true_iff.
  apply N.eqb_neq. intros ->. congruence.
Qed.

Lemma decl_of_no_semi es c : forallb is_word (c_name c) = true -> mem SEMI (decl_of es c) = false.
Proof.
  intros Hn. unfold decl_of. rewrite mem_app. rewrite (word_mem SEMI) by auto.
  now rewrite (sfxch_mem SEMI) by (auto; apply decl_suffix_chars).
Qed.

Lemma remove_all_none c s : mem c s = false -> remove_all c s = s.
Proof.
  induction s as [|x s IH]; intros H; [reflexivity|]. apply mem_cons_false in H as [Hx Hs].
  unfold remove_all in *. cbn [filter]. rewrite Hx. cbn [negb]. now rewrite IH.
Qed.

Lemma cut_array_decl es c : forallb is_word (c_name c) = true -> c_name c <> [] -> cut_array (decl_of es c) = c_name c.
Proof.
  intros Hn Hne. unfold decl_of. destruct (sfx_shape es c) as [->|[mid [-> _]]].
  - rewrite app_nil_r. unfold cut_array, last_byte. destruct (rev (c_name c)) as [|x t] eqn:E.
    + reflexivity.
    + assert (In x (c_name c)) by (apply in_rev; rewrite E; now left).
      rewrite forallb_forall in Hn. specialize (Hn x H). destruct (is_close x) eqn:F; auto. exfalso. nclass.
  - apply cut_array_brackets; auto.
Qed.

Lemma decl_of_nonempty es c : c_name c <> [] -> decl_of es c <> [].
Proof. unfold decl_of. destruct (c_name c); [congruence|discriminate]. Qed.

Lemma defs_cols es cols ws : cols_words es cols ws ->
  match flat_map (fun cw => [snd cw; decl_of es (fst cw) ++ [SEMI]]) (combine cols ws) with
  | [] => []
  | w :: wl => map (fun d => cut_array (remove_all SEMI (snd d))) (defs w wl)
  end = map c_name cols.
Proof.
  induction 1 as [|c w cols ws [_ [_ [_ [Hc Hcn]]]] Hrest IH]; [reflexivity|].
  cbn [combine flat_map app fst snd]. cbn [defs].
  rewrite split_def_word_decl; [|now apply decl_of_nonempty|now apply decl_of_no_semi].
  cbn [map snd]. rewrite remove_all_none by (now apply decl_of_no_semi). rewrite cut_array_decl by auto. f_equal.
  rewrite <- IH.
  match goal with |- context [flat_map ?f ?l] => destruct (flat_map f l) end; reflexivity.
Qed.

Theorem struct_columns_rendered es cols ws : cols_words es cols ws ->
  struct_columns (NL :: unlines (map (fun cw => col_line es (fst cw) (snd cw)) (combine cols ws))) = map c_name cols.
Proof.
  intros H. unfold struct_columns, words. rewrite words_aux_ws by reflexivity.
  rewrite <- (app_nil_r (unlines _)). rewrite (words_body es cols ws [] H). cbn [words_aux]. rewrite app_nil_r.
  now apply defs_cols.
Qed.


(* ---- the declared type of a column: find_type ---- *)
Lemma wsplits_ws c s : is_ws c = true -> word_splits_aux [] (c :: s) = word_splits_aux [] s.
Proof. intros Hc. cbn [word_splits_aux]. now rewrite Hc. Qed.

Lemma wsplits_word w : forall cur c s, forallb not_ws w = true -> is_ws c = true -> rev cur ++ w <> [] ->
  word_splits_aux cur (w ++ c :: s) = (rev cur ++ w, lstrip s) :: word_splits_aux [] s.
Proof.
  induction w as [|x w IH]; intros cur c s Hw Hc Hn.
  - cbn [app word_splits_aux]. rewrite Hc. rewrite app_nil_r in *. destruct cur; [cbn in Hn; congruence|reflexivity].
  - cbn [forallb] in Hw. apply andb_true_iff in Hw as [Hx Hw]. unfold not_ws in Hx. apply negb_true_iff in Hx.
    cbn [app word_splits_aux]. rewrite Hx. rewrite IH; auto.
    + cbn [rev]. now rewrite <- app_assoc.
    + cbn [rev]. rewrite <- app_assoc. cbn [app]. destruct (rev cur); discriminate.
Qed.

Lemma wsplits_end w : forall cur, forallb not_ws w = true -> word_splits_aux cur w = [].
Proof.
  induction w as [|x w IH]; intros cur Hw; [reflexivity|].
  cbn [forallb] in Hw. apply andb_true_iff in Hw as [Hx Hw]. unfold not_ws in Hx. apply negb_true_iff in Hx.
  cbn [word_splits_aux]. rewrite Hx. now apply IH.
Qed.

Definition plainch (x : N) : bool := negb (x =? SEMI) && negb (is_open x).

(* a word that is not a declaration, followed by white space, never matches the declaration pattern *)
Lemma check_decl_word var : forall W c r, forallb is_word var = true -> forallb plainch W = true -> is_ws c = true ->
  check_decl var (W ++ c :: r) = None.
Proof.
  unfold check_decl. induction var as [|v var IH]; intros W c r Hv HW Hc.
  - cbn [prefix]. destruct W as [|x W]; cbn [app].
    + assert (c =? SEMI = false) as -> by (apply N.eqb_neq; intros ->; discriminate).
      assert (is_open c = false) as -> by (destruct (is_open c) eqn:E; auto; exfalso; nclass). reflexivity.
    + cbn [forallb] in HW. apply andb_true_iff in HW as [Hx _]. unfold plainch in Hx. apply andb_true_iff in Hx as [H1 H2].
      apply negb_true_iff in H1, H2. now rewrite H1, H2.
  - cbn [forallb] in Hv. apply andb_true_iff in Hv as [Hv1 Hv2]. destruct W as [|x W]; cbn [app prefix].
    + assert (v =? c = false) as -> by (apply N.eqb_neq; intros ->; rewrite (word_not_ws c Hv1) in Hc; discriminate). reflexivity.
    + destruct (v =? x); [|reflexivity]. cbn [forallb] in HW. apply andb_true_iff in HW as [_ HW]. now apply IH.
Qed.

(* the declaration of another column never matches *)
Lemma check_decl_other var : forall n x t, forallb is_word var = true -> forallb is_word n = true -> var <> n ->
  is_word x = false -> check_decl var (n ++ x :: t) = None.
Proof.
  unfold check_decl. induction var as [|v var IH]; intros n x t Hv Hn Hne Hx.
  - destruct n as [|y n]; [congruence|]. cbn [prefix app]. cbn [forallb] in Hn. apply andb_true_iff in Hn as [Hy _].
    assert (y =? SEMI = false) as -> by (now apply word_not).
    assert (is_open y = false) as -> by (destruct (is_open y) eqn:E; auto; exfalso; nclass). reflexivity.
  - cbn [forallb] in Hv. apply andb_true_iff in Hv as [Hv1 Hv2]. destruct n as [|y n]; cbn [app prefix].
    + assert (v =? x = false) as -> by (apply N.eqb_neq; intros ->; congruence). reflexivity.
    + destruct (v =? y) eqn:E; [|reflexivity]. apply N.eqb_eq in E. subst y.
      cbn [forallb] in Hn. apply andb_true_iff in Hn as [_ Hn]. apply IH; auto. congruence.
Qed.

Lemma last_close_semi_end a c : is_close c = true -> last_close_semi (a ++ [c; SEMI]) = Some (a ++ [c]).
Proof.
  intros Hc. induction a as [|x a IH].
  - cbn [app last_close_semi]. rewrite Hc. reflexivity.
  - cbn [app]. destruct (a ++ [c; SEMI]) as [|d t] eqn:E; [destruct a; discriminate|].
    rewrite last_close_semi_cons. now rewrite IH.
Qed.

Lemma sfxch_not_nl s : forallb sfxch s = true -> forallb (not_c NL) s = true.
Proof. apply forallb_impl. intros x Hx. unfold not_c. apply negb_true_iff. apply N.eqb_neq. intros ->. discriminate. Qed.

Lemma normalise_sfx s : forallb sfxch s = true -> normalise_array s = s.
Proof.
  induction s as [|x s IH]; [reflexivity|]. cbn [forallb]. intros H. apply andb_true_iff in H as [Hx Hs].
  unfold normalise_array in *. cbn [map]. rewrite IH by auto. f_equal.
  assert (x =? LT = false) as -> by (apply N.eqb_neq; intros ->; discriminate).
  assert (x =? GT = false) as -> by (apply N.eqb_neq; intros ->; discriminate). reflexivity.
Qed.

(* its own declaration gives exactly its suffix *)
Lemma check_decl_own n sfx rest : sfx_like sfx -> check_decl n (n ++ sfx ++ SEMI :: NL :: rest) = Some sfx.
Proof.
  intros Hs. unfold check_decl. rewrite prefix_app. destruct Hs as [->|[mid [-> Hm]]].
  - cbn [app]. now rewrite N.eqb_refl.
  - cbn [app]. change (LBRACK =? SEMI) with false. change (is_open LBRACK) with true. cbv iota.
    replace (LBRACK :: (mid ++ [RBRACK]) ++ SEMI :: NL :: rest) with ((LBRACK :: mid ++ [RBRACK; SEMI]) ++ NL :: rest)
      by (cbn [app]; rewrite <- !app_assoc; reflexivity).
    rewrite span_app_stop.
    + cbn [fst]. change (LBRACK :: mid ++ [RBRACK; SEMI]) with ((LBRACK :: mid) ++ [RBRACK; SEMI]).
      now rewrite last_close_semi_end.
    + cbn [forallb]. rewrite forallb_app. rewrite sfxch_not_nl by auto. reflexivity.
    + unfold not_c. now rewrite N.eqb_refl.
Qed.

Definition ftype (var : bytes) (wr : bytes * bytes) : option bytes :=
  option_map (fun a => fst wr ++ normalise_array a) (check_decl var (snd wr)).

Lemma find_type_unfold var text : find_type var text = first_some (ftype var) (word_splits_aux [] text).
Proof. reflexivity. Qed.

Definition lines_of (es : list enumdecl) (cols : list column) (ws : list bytes) : list bytes :=
  map (fun cw => col_line es (fst cw) (snd cw)) (combine cols ws).

(* text whose first word cannot be mistaken for a declaration of var *)
Definition dead_start (var tl : bytes) : Prop := check_decl var (lstrip tl) = None.

Lemma dead_start_lines es var cols ws tl : forallb is_word var = true -> cols_words es cols ws -> dead_start var tl ->
  dead_start var (unlines (lines_of es cols ws) ++ tl).
Proof.
  intros Hv H Htl. destruct H as [|c w cols ws [_ [Hn [Hw _]]] _]; [exact Htl|].
  unfold dead_start, lines_of, unlines. cbn [combine map concat fst snd]. unfold col_line at 1, S_INDENT.
  rewrite <- !app_assoc. cbn [app lstrip]. change (is_ws 32) with true. cbv iota.
  assert (L : forall z, lstrip (w ++ z) = w ++ z).
  { intros z. apply lstrip_id. destruct w as [|x w]; [congruence|]. cbn [app head_not_ws]. cbn [forallb] in Hw.
    apply andb_true_iff in Hw as [Hx _]. now apply word_not_ws. }
  rewrite L. apply check_decl_word; auto.
  eapply forallb_impl; [|exact Hw]. intros x Hx. unfold plainch. rewrite (word_not x SEMI Hx eq_refl).
  destruct (is_open x) eqn:E; auto. exfalso. nclass.
Qed.

Lemma typ_of_word es c w : ctype_word es c = Some w -> typ_of es c = w ++ decl_suffix es c.
Proof. intros H. unfold typ_of. now rewrite H. Qed.

Theorem find_in_lines es var : forallb is_word var = true -> forall cols ws tl, cols_words es cols ws -> dead_start var tl ->
  first_some (ftype var) (word_splits_aux [] (unlines (lines_of es cols ws) ++ tl))
  = match find (fun c => beq (c_name c) var) cols with
    | Some c => Some (typ_of es c)
    | None => first_some (ftype var) (word_splits_aux [] tl)
    end.
Proof.
  intros Hv cols ws tl H. revert tl. induction H as [|c w cols ws [Hcw [Hn [Hw [Hc Hcn]]]] Hrest IH]; intros tl Htl; [reflexivity|].
  pose proof (dead_start_lines es var cols ws tl Hv Hrest Htl) as Hdead.
  unfold lines_of in *. cbn [combine map fst snd]. unfold unlines in *. cbn [map concat].
  rewrite <- app_assoc.
  remember (concat (map (fun l => l ++ [NL]) (map (fun cw => col_line es (fst cw) (snd cw)) (combine cols ws))) ++ tl) as R eqn:ER.
  unfold col_line at 1, S_INDENT. rewrite <- !app_assoc. cbn [app].
  rewrite !wsplits_ws by reflexivity.
  rewrite (wsplits_word w [] SP) by (first [now apply word_all_not_ws | reflexivity | (cbn [rev app]; destruct w; [congruence|discriminate])]).
  cbn [rev app].
  replace (decl_of es c ++ SEMI :: NL :: R) with ((decl_of es c ++ [SEMI]) ++ NL :: R) by (now rewrite <- app_assoc).
  rewrite (wsplits_word (decl_of es c ++ [SEMI]) [] NL)
    by (first [now apply decl_of_not_ws | reflexivity | (cbn [rev app]; destruct (decl_of es c); discriminate)]).
  cbn [rev app first_some find]. unfold ftype at 1. cbn [fst snd].
  rewrite <- app_assoc. cbn [app].
  assert (L : lstrip (decl_of es c ++ SEMI :: NL :: R) = decl_of es c ++ SEMI :: NL :: R).
  { apply lstrip_id. unfold decl_of. destruct (c_name c) as [|x nm]; [congruence|]. cbn [app head_not_ws].
    cbn [forallb] in Hc. apply andb_true_iff in Hc as [Hx _]. now apply word_not_ws. }
  rewrite L. unfold decl_of at 1. rewrite <- app_assoc.
  destruct (beq (c_name c) var) eqn:E.
  - apply beq_eq in E. subst var. rewrite check_decl_own by apply sfx_shape. cbn [option_map].
    rewrite normalise_sfx by apply decl_suffix_chars. now rewrite (typ_of_word es c w Hcw).
  - apply beq_neq in E.
    assert (N1 : check_decl var (c_name c ++ decl_suffix es c ++ SEMI :: NL :: R) = None).
    { destruct (sfx_shape es c) as [->|[mid [-> _]]]; cbn [app]; apply check_decl_other; auto. }
    rewrite N1. cbn [option_map]. unfold ftype at 1. cbn [fst snd]. unfold dead_start in Hdead. rewrite Hdead. cbn [option_map].
    rewrite ER. now apply IH.
Qed.

Definition struct_tail (name : bytes) : bytes := [RBRACE; SP] ++ name ++ [SEMI].

Lemma dead_start_tail var name : forallb is_word var = true -> dead_start var (struct_tail name).
Proof.
  intros Hv. unfold dead_start, struct_tail. cbn [app lstrip]. change (is_ws RBRACE) with false. cbv iota.
  apply (check_decl_word var [RBRACE] SP); auto.
Qed.

(* the struct text as dtype_to_struct writes it *)
Definition struct_text (es : list enumdecl) (cols : list column) (ws : list bytes) (name : bytes) : bytes :=
  td_text KW_STRUCT (NL :: unlines (lines_of es cols ws)) name.

Theorem find_type_rendered es cols ws name c : cols_words es cols ws ->
  find (fun c' => beq (c_name c') (c_name c)) cols = Some c -> forallb is_word (c_name c) = true ->
  find_type (c_name c) (struct_text es cols ws name) = Some (typ_of es c).
Proof.
  intros H Hf Hv. rewrite find_type_unfold.
  set (var := c_name c) in *.
  assert (D : dead_start var (struct_tail name)) by (now apply dead_start_tail).
  change (struct_text es cols ws name)
    with (KW_TYPEDEF ++ SP :: (KW_STRUCT ++ SP :: ([LBRACE] ++ NL :: (unlines (lines_of es cols ws) ++ struct_tail name)))).
  rewrite (wsplits_word KW_TYPEDEF [] SP) by (first [reflexivity | discriminate]).
  cbn [rev app first_some]. unfold ftype at 1. cbn [fst snd].
  assert (N1 : forall z, check_decl var (lstrip (KW_STRUCT ++ SP :: z)) = None).
  { intros z. apply (check_decl_word var KW_STRUCT SP); auto. }
  rewrite N1. cbn [option_map].
  rewrite (wsplits_word KW_STRUCT [] SP) by (first [reflexivity | discriminate]).
  cbn [rev first_some]. unfold ftype at 1. cbn [fst snd].
  assert (N2 : forall z, check_decl var (lstrip (LBRACE :: NL :: z)) = None).
  { intros z. apply (check_decl_word var [LBRACE] NL); auto. }
  change ([] ++ KW_STRUCT) with KW_STRUCT.
  rewrite N2. cbn [option_map].
  change (LBRACE :: NL :: unlines (lines_of es cols ws) ++ struct_tail name)
    with ([LBRACE] ++ NL :: (unlines (lines_of es cols ws) ++ struct_tail name)).
  rewrite (wsplits_word [LBRACE] [] NL) by (first [reflexivity | discriminate]).
  cbn [rev first_some]. unfold ftype at 1. cbn [fst snd].
  pose proof (dead_start_lines es var cols ws (struct_tail name) Hv H D) as D2. unfold dead_start in D2. rewrite D2.
  cbn [option_map]. rewrite (find_in_lines es var Hv cols ws (struct_tail name) H D). now rewrite Hf.
Qed.

Lemma render_struct_text es t ws : cols_words es (t_cols t) ws ->
  render_struct es t = Some (struct_text es (t_cols t) ws (upper (t_name t))).
Proof.
  intros H. unfold render_struct. rewrite (omap_decl_lines es _ _ H).
  cbn [app]. fold (lines_of es (t_cols t) ws).
  rewrite join_nl_lines. reflexivity.
Qed.

(* ---- character classes of a rendered struct body ---- *)
Definition linech (x : N) : bool := is_word x || sfxch x || (x =? SP) || (x =? SEMI) || (x =? NL).

Lemma linech_lines es cols ws : cols_words es cols ws -> forallb linech (unlines (lines_of es cols ws)) = true.
Proof.
  induction 1 as [|c w cols ws [_ [_ [Hw [Hc _]]]] _ IH]; [reflexivity|].
  unfold lines_of, unlines in *. cbn [combine map concat fst snd]. unfold col_line at 1, decl_of.
  rewrite !forallb_app. rewrite IH. cbn [forallb].
  assert (A : forall s, forallb is_word s = true -> forallb linech s = true).
  { intros s. apply forallb_impl. intros x Hx. unfold linech. now rewrite Hx. }
  assert (B : forall s, forallb sfxch s = true -> forallb linech s = true).
  { intros s. apply forallb_impl. intros x Hx. unfold linech. rewrite Hx. now rewrite orb_true_r. }
  rewrite (A w Hw), (A _ Hc), (B _ (decl_suffix_chars es c)). reflexivity.
Qed.

Lemma linech_mem d s : linech d = false -> forallb linech s = true -> mem d s = false.
Proof.
  intros Hd H. apply mem_false_forallb. eapply forallb_impl; [|exact H]. intros x Hx. apply negb_true_iff.
  apply N.eqb_neq. intros ->. congruence.
Qed.

Lemma no_td_word_upper s : no_td (upper s) = true.
Proof. apply no_td_no_t. now apply upper_mem_lower. Qed.

Lemma no_td_sfx s r : forallb sfxch s = true -> no_td r = true -> no_td (s ++ SEMI :: r) = true.
Proof.
  intros Hs Hr. apply no_td_sep; auto. apply no_td_no_t. apply (sfxch_mem 116); auto.
Qed.

(* type words never contain the keyword: C keywords, or upper-cased enum names *)
Definition type_word_ok (w : bytes) : Prop := no_td w = true.

Lemma no_td_lines es cols ws : cols_words es cols ws ->
  Forall (fun w => no_td w = true) ws -> forallb (fun c => no_td (c_name c)) cols = true ->
  no_td (unlines (lines_of es cols ws)) = true.
Proof.
  intros H. induction H as [|c w cols ws [_ [_ [Hw [Hc _]]]] _ IH]; intros Hws Hcs; [reflexivity|].
  inversion Hws as [|? ? Hw1 Hws']; subst. cbn [forallb] in Hcs. apply andb_true_iff in Hcs as [Hc1 Hcs].
  unfold lines_of, unlines in *. cbn [combine map concat fst snd]. unfold col_line at 1, decl_of, S_INDENT.
  rewrite <- !app_assoc. cbn [app].
  repeat (apply no_td_cons; [reflexivity|]).
  apply no_td_sep; [exact Hw1|reflexivity|].
  specialize (IH Hws' Hcs).
  destruct (sfx_shape es c) as [->|[mid [-> Hm]]]; cbn [app].
  - apply no_td_sep; [exact Hc1|reflexivity|]. now apply no_td_cons.
  - apply no_td_sep; [exact Hc1|reflexivity|]. rewrite <- app_assoc. cbn [app].
    apply no_td_sep; [apply no_td_no_t; apply (sfxch_mem 116); auto|reflexivity|].
    apply no_td_cons; [reflexivity|]. now apply no_td_cons.
Qed.

(* the entry the parser makes for a rendered struct *)
Theorem struct_entry_rendered es cols ws name : cols_words es cols ws -> name <> [] -> forallb is_word name = true ->
  struct_entry (struct_text es cols ws name)
  = Some (upper name, NL :: unlines (lines_of es cols ws), struct_text es cols ws name).
Proof.
  intros H Hn Hw. unfold struct_entry, struct_text.
  pose proof (match_typedef_text KW_STRUCT (NL :: unlines (lines_of es cols ws)) name [] (or_introl eq_refl)) as M.
  rewrite app_nil_r in M. rewrite M; auto; [discriminate|].
  change (NL :: unlines (lines_of es cols ws)) with ([NL] ++ unlines (lines_of es cols ws)).
  rewrite mem_app. cbn [mem existsb orb]. change (RBRACE =? NL) with false. cbn [orb].
  apply (linech_mem RBRACE); [reflexivity|now apply linech_lines].
Qed.
