(* Shared B-spline model, part 1: knots, interval search, BSPLVN, evaluation, validity mask,
   and the textbook Cox-de Boor specification.  Executable definitions ONLY (proofs: EvalProofs.v).
   Mirrors /repo/pydl/pydlutils/bspline.py: bspline.__init__, intrv, bsplvn, action, value.
   All arithmetic in exact rationals Q; Qred keeps the representation small (Qred q == q). *)
From Coq Require Import QArith Qround Qabs List Bool Arith Lia.
Import ListNotations.
From PV Require Import Lib.WLS.
Open Scope Q_scope.

Definition nthQ (l : list Q) (i : nat) : Q := nth i l 0.
Definition Qltb (a b : Q) : bool := negb (Qle_bool b a).
Fixpoint sumQ (l : list Q) : Q := match l with [] => 0 | a :: l' => a + sumQ l' end.

(* ------------------------------------------------------------------ interval search (bspline.intrv)
   gb = good knots, n = length gb - nord.  The walk: `while x > gb[ileft+1] and ileft < n-1: ileft += 1`. *)
Fixpoint advance (fuel : nat) (gb : list Q) (n : nat) (x : Q) (ileft : nat) : nat :=
  match fuel with
  | O => ileft
  | S f => if Qltb (nthQ gb (S ileft)) x && (S ileft <? n)%nat then advance f gb n x (S ileft) else ileft
  end.

Fixpoint intrv_walk (gb : list Q) (n : nat) (xs : list Q) (ileft : nat) : list nat :=
  match xs with
  | [] => []
  | x :: xs' => let i := advance (length gb) gb n x ileft in i :: intrv_walk gb n xs' i
  end.

Definition intrv (gb : list Q) (k : nat) (xs : list Q) : list nat :=
  intrv_walk gb (length gb - k) xs (k - 1).

(* the interval of one point, walking from the floor nord-1 *)
Definition intrv1 (gb : list Q) (k : nat) (x : Q) : nat :=
  advance (length gb) gb (length gb - k) x (k - 1).

(* ------------------------------------------------------------------ BSPLVN (bspline.bsplvn)
   one pass of the inner loop `for l in range(j+1)`:
   v = vnikx[0..j], dp = deltap[0..j], dmr = deltam[j], deltam[j-1], ..., deltam[0]; returns vnikx[0..j+1] *)
Fixpoint pass (v dp dmr : list Q) (vmprev : Q) : list Q :=
  match v, dp, dmr with
  | a :: v', p :: dp', m :: dmr' =>
      let vm := Qred (a / (p + m)) in Qred (vm * p + vmprev) :: pass v' dp' dmr' (Qred (vm * m))
  | _, _, _ => [vmprev]
  end.

(* the outer loop `while j < nord-1`; l = ileft *)
Fixpoint bsplvn_loop (steps j : nat) (gb : list Q) (x : Q) (l : nat) (v dp dmr : list Q) : list Q :=
  match steps with
  | O => v
  | S s =>
      let dp' := dp ++ [nthQ gb (l + j + 1) - x] in
      let dmr' := (x - nthQ gb (l - j)) :: dmr in
      bsplvn_loop s (S j) gb x l (pass v dp' dmr' 0) dp' dmr'
  end.

Definition bsplvn (gb : list Q) (k : nat) (x : Q) (l : nat) : list Q :=
  bsplvn_loop (k - 1) 0 gb x l [1] [] [].

(* ------------------------------------------------------------------ action(): lower/upper row ranges
   via uniq(): for every segment value v of the (non-decreasing) index list, first and last position.
   lower defaults to 0, upper to -1 (empty segment), as in the code. *)
Fixpoint first_pos (v : nat) (idx : list nat) (p : nat) : option nat :=
  match idx with [] => None | a :: r => if (a =? v)%nat then Some p else first_pos v r (S p) end.
Fixpoint last_pos (v : nat) (idx : list nat) (p : nat) (acc : option nat) : option nat :=
  match idx with [] => acc | a :: r => last_pos v r (S p) (if (a =? v)%nat then Some p else acc) end.

Definition action_ranges (idx : list nat) (k nseg : nat) : list (Z * Z) :=
  map (fun s => let v := (s + (k - 1))%nat in
                (match first_pos v idx 0 with Some p => Z.of_nat p | None => 0%Z end,
                 match last_pos v idx 0 None with Some p => Z.of_nat p | None => (-1)%Z end))
      (seq 0 nseg).

(* ------------------------------------------------------------------ evaluation (bspline.value) *)
(* value of the spline piece l at x: sum_r coeff[l-k+1+r] * vnikx[r] *)
Definition eval_at (gb : list Q) (k : nat) (coeff : list Q) (x : Q) (l : nat) : Q :=
  Qred (dot (bsplvn gb k x l) (skipn (l - (k - 1)) coeff)).

Definition eval1 (gb : list Q) (k : nat) (coeff : list Q) (x : Q) : Q :=
  eval_at gb k coeff x (intrv1 gb k x).

Definition value_sorted (gb : list Q) (k : nat) (coeff : list Q) (xs : list Q) : list Q :=
  map (fun p => eval_at gb k coeff (fst p) (snd p)) (combine xs (intrv gb k xs)).

(* permutations as index lists: sorted = apply p l;  (unsort p s)[p[i]] = s[i] *)
Definition apply_perm {A} (d : A) (p : list nat) (l : list A) : list A := map (fun i => nth i l d) p.
Fixpoint index_of (j : nat) (p : list nat) : nat :=
  match p with [] => O | a :: r => if (a =? j)%nat then O else S (index_of j r) end.
Definition unsort {A} (d : A) (p : list nat) (s : list A) : list A :=
  map (fun j => nth (index_of j p) s d) (seq 0 (length p)).

Definition is_perm (p : list nat) (n : nat) : bool :=
  (length p =? n)%nat && forallb (fun j => existsb (Nat.eqb j) p) (seq 0 n).

Fixpoint sortedQ (l : list Q) : bool :=
  match l with
  | a :: ((b :: _) as r) => Qle_bool a b && sortedQ r
  | _ => true
  end.

(* good knots / good coefficients from the full breakpoint vector and its mask *)
Fixpoint select {A} (m : list bool) (l : list A) : list A :=
  match m, l with
  | b :: m', a :: l' => if b then a :: select m' l' else select m' l'
  | _, _ => []
  end.

Fixpoint good_positions (m : list bool) (p : nat) : list nat :=
  match m with [] => [] | b :: m' => if b then p :: good_positions m' (S p) else good_positions m' (S p) end.

(* masked-breakpoint gaps: consecutive good positions a, b with b - a > 2 give the interval [bk[a], bk[b-1]] *)
Fixpoint gaps (bk : list Q) (good : list nat) : list (Q * Q) :=
  match good with
  | a :: ((b :: _) as r) => if (2 <? b - a)%nat then (nthQ bk a, nthQ bk (b - 1)) :: gaps bk r else gaps bk r
  | _ => []
  end.

Definition in_range_mask (gb : list Q) (k : nat) (x : Q) : bool :=
  negb (Qltb x (nthQ gb (k - 1)) || Qltb (nthQ gb (length gb - k)) x).

Definition point_mask (bk : list Q) (bmask : list bool) (k : nat) (x : Q) : bool :=
  let gb := select bmask bk in
  in_range_mask gb k x &&
  forallb (fun g => negb (Qle_bool (fst g) x && Qle_bool x (snd g))) (gaps bk (good_positions bmask 0)).

(* bspline.value(x): bk = breakpoints, bmask = mask, coeff = full coefficient vector (length bk - k),
   perm = the sorting permutation numpy.argsort returned (xs[perm] is sorted). *)
Definition value (bk : list Q) (bmask : list bool) (k : nat) (coeff : list Q) (xs : list Q) (perm : list nat)
  : list Q * list bool :=
  let gb := select bmask bk in
  let gc := select (skipn k bmask) coeff in
  (unsort 0 perm (value_sorted gb k gc (apply_perm 0 perm xs)),
   map (point_mask bk bmask k) xs).

(* ------------------------------------------------------------------ breakpoint options (bspline.__init__) *)
Inductive bkopt :=
| OBkpt (b : list Q)            (* explicit bkpt *)
| OPlaced (p : list Q)
| OBkspace (s : Q)
| ONbkpts (nb : nat)
| OEveryn (e : nat).

Fixpoint minQ (a : Q) (l : list Q) : Q := match l with [] => a | b :: r => minQ (if Qltb b a then b else a) r end.
Fixpoint maxQ (a : Q) (l : list Q) : Q := match l with [] => a | b :: r => maxQ (if Qltb a b then b else a) r end.
Definition lminQ (l : list Q) : Q := match l with [] => 0 | a :: r => minQ a r end.
Definition lmaxQ (l : list Q) : Q := match l with [] => 0 | a :: r => maxQ a r end.

(* first position of the minimum / maximum (numpy argmin / argmax) *)
Fixpoint argminQ (l : list Q) (p best : nat) (bv : Q) : nat :=
  match l with [] => best | b :: r => if Qltb b bv then argminQ r (S p) p b else argminQ r (S p) best bv end.
Fixpoint argmaxQ (l : list Q) (p best : nat) (bv : Q) : nat :=
  match l with [] => best | b :: r => if Qltb bv b then argmaxQ r (S p) p b else argmaxQ r (S p) best bv end.

Fixpoint set_nth {A} (i : nat) (v : A) (l : list A) : list A :=
  match l, i with
  | [], _ => []
  | _ :: r, O => v :: r
  | a :: r, S i' => a :: set_nth i' v r
  end.

Definition Qfloor_nat (q : Q) : nat := Z.to_nat (Qfloor q).

(* equally spaced: arange(nb) * (range/(nb-1)) + start *)
Definition equispaced (nb : nat) (startx rangex : Q) : list Q :=
  let nb := if (nb <? 2)%nat then 2%nat else nb in
  let sp := rangex / inject_Z (Z.of_nat (nb - 1)) in
  map (fun i => Qred (inject_Z (Z.of_nat i) * sp + startx)) (seq 0 nb).

(* raw (short) breakpoints of an option; xs = the data abscissae as passed to the constructor
   (sorted for everyn: iterfit passes sorted data).  The every-n positions are clipped to the last
   datum, which is what the IDL original does with an out-of-range subscript. *)
Definition raw_bkpt (o : bkopt) (xs : list Q) : list Q :=
  let startx := lminQ xs in
  let rangex := lmaxQ xs - startx in
  match o with
  | OBkpt b => b
  | OPlaced p =>
      let w := filter (fun t => Qle_bool startx t && Qle_bool t (startx + rangex)) p in
      if (length w <? 2)%nat then [Qred startx; Qred (rangex + startx)] else w
  | OBkspace s => equispaced (Qfloor_nat (rangex / s) + 1) startx rangex
  | ONbkpts nb => equispaced nb startx rangex
  | OEveryn e =>
      let nx := length xs in
      let nb := Nat.max (nx / e) 1 in
      if (nb =? 1)%nat then [nthQ xs 0]
      else let step := (nx / (nb - 1))%nat in
           map (fun i => nthQ xs (Nat.min (step * i) (nx - 1))) (seq 0 nb)
  end.

(* force the extreme breakpoints to cover the data *)
Definition cover (b : list Q) (xmin xmax : Q) : list Q :=
  match b with
  | [] => []
  | a :: r =>
      let imin := argminQ r 1 0 a in
      let imax := argmaxQ r 1 0 a in
      let b1 := if Qltb xmin (nthQ b imin) then set_nth imin xmin b else b in
      if Qltb (nthQ b1 imax) xmax then set_nth imax xmax b1 else b1
  end.

(* nord-1 extra knots on each side at spacing (b[1]-b[0])*bkspread *)
Definition pad (b : list Q) (k : nat) (bkspread : Q) : list Q :=
  let sp := match b with [_] => bkspread | _ => (nthQ b 1 - nthQ b 0) * bkspread end in
  let first := nthQ b 0 in
  let last := nthQ b (length b - 1) in
  map (fun i => Qred (first - sp * inject_Z (Z.of_nat i))) (rev (seq 1 (k - 1)))
  ++ b ++
  map (fun i => Qred (last + sp * inject_Z (Z.of_nat i))) (seq 1 (k - 1)).

Definition knots_of_option (o : bkopt) (xs : list Q) (k : nat) (bkspread : Q) : list Q :=
  pad (cover (raw_bkpt o xs) (lminQ xs) (lmaxQ xs)) k bkspread.

(* ------------------------------------------------------------------ specification: Cox-de Boor
   B t m i x = B-spline number i of ORDER m+1 on the knot vector t; 0/0 := 0 is Q's x/0 = 0. *)
Fixpoint B (t : list Q) (m : nat) (i : nat) (x : Q) : Q :=
  match m with
  | O => if Qle_bool (nthQ t i) x && Qltb x (nthQ t (S i)) then 1 else 0
  | S m' =>
      (x - nthQ t i) / (nthQ t (i + m' + 1) - nthQ t i) * B t m' i x
      + (nthQ t (i + m' + 2) - x) / (nthQ t (i + m' + 2) - nthQ t (S i)) * B t m' (S i) x
  end.

(* the same recursion with the left-open convention (t_i, t_{i+1}] at order 1 *)
Fixpoint Bl (t : list Q) (m : nat) (i : nat) (x : Q) : Q :=
  match m with
  | O => if Qltb (nthQ t i) x && Qle_bool x (nthQ t (S i)) then 1 else 0
  | S m' =>
      (x - nthQ t i) / (nthQ t (i + m' + 1) - nthQ t i) * Bl t m' i x
      + (nthQ t (i + m' + 2) - x) / (nthQ t (i + m' + 2) - nthQ t (S i)) * Bl t m' (S i) x
  end.

(* spline of order k with coefficients c : sum_i c_i B_{i,k}(x) *)
Fixpoint spline_from (Bf : nat -> Q -> Q) (c : list Q) (i : nat) (x : Q) : Q :=
  match c with [] => 0 | a :: c' => a * Bf i x + spline_from Bf c' (S i) x end.
Definition spline (t : list Q) (c : list Q) (k : nat) (x : Q) : Q := spline_from (B t (k - 1)) c 0 x.
Definition spline_left (t : list Q) (c : list Q) (k : nat) (x : Q) : Q := spline_from (Bl t (k - 1)) c 0 x.

(* structural facts of a knot vector, as a boolean checker (used on the implementation's knots) *)
Definition knots_ok (gb : list Q) (k nshort : nat) (xmin xmax tol : Q) : bool :=
  sortedQ gb && (length gb =? nshort + 2 * (k - 1))%nat &&
  Qle_bool (nthQ gb (k - 1)) (xmin + tol) && Qle_bool (xmax - tol) (nthQ gb (length gb - k)).

(* comparisons with tolerance *)
Definition close (tol a b : Q) : bool := Qle_bool (Qabs (a - b)) tol.
Definition close_rel (rtol a b : Q) : bool :=
  Qle_bool (Qabs (a - b)) (rtol * (1 + Qabs b)).
Fixpoint all2 {A B} (f : A -> B -> bool) (l : list A) (r : list B) : bool :=
  match l, r with
  | [], [] => true
  | a :: l', b :: r' => f a b && all2 f l' r'
  | _, _ => false
  end.
