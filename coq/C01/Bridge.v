(* C01/Bridge.v -- the code GENERATED from yanny.py (Generated/YannyWriter.v: protect, dtype_to_struct, write, convert,
   default structure names, translated statement by statement) IS the hand-written writer model Yanny/Render.v the
   theorems are about.  gen_render is the glue of write_ndarray_to_yanny (one dtype_to_struct call per table, the enum
   texts, then write()) over the generated pieces; generated_writer_is_render proves it equal to render_checked. *)
From Coq Require Import String.
From Coq Require Import NArith ZArith List Bool Lia.
Import ListNotations.
From PV Require Import Yanny.Bytes Yanny.BytesFacts Yanny.TokenFacts Yanny.Types Yanny.Parse Yanny.Render C01.PyRt Generated.YannyWriter C01.GenWriter.
Open Scope N_scope.

(* normalise byte-string expressions: evaluate the literals, re-associate, compute the appends *)
Ltac bsnorm :=
  repeat match goal with |- context [bs ?s] => let v := eval vm_compute in (bs s) in change (bs s) with v end;
  unfold brack, py_str_int, S_INDENT, S_CHAR, S_MAGIC, S_TYPEDEF_STRUCT, S_TYPEDEF_ENUM, SP, SEMI, LBRACK, RBRACK, NL, LBRACE, RBRACE, QUOTE, HASH;
  repeat (progress (cbn [app]; rewrite <- ?app_assoc)); rewrite ?app_nil_r; cbn [app].

(* ---- runtime facts ---- *)
Lemma contains_single c s : contains [c] s = mem c s.
Proof.
  induction s as [|x s IH]; [reflexivity|]. cbn [contains]. rewrite IH. unfold starts_with. cbn [prefix mem existsb].
  destruct (c =? x); reflexivity.
Qed.

Lemma needs_quote_split s : needs_quote s = py_len_eq0 s || mem HASH s || existsb is_ws s.
Proof.
  destruct s as [|x s]; [reflexivity|]. unfold needs_quote. cbn [py_len_eq0 orb]. generalize (x :: s) as l. clear.
  induction l as [|y l IH]; [reflexivity|]. cbn [existsb mem]. rewrite IH. unfold mem. rewrite (N.eqb_sym y HASH).
  destruct (HASH =? y), (is_ws y), (existsb (N.eqb HASH) l); reflexivity.
Qed.

Theorem gen_protect_is_protect s : gen_protect s = protect s.
Proof.
  unfold gen_protect, protect, py_find_ge0, py_search_ws. rewrite needs_quote_split.
  change (bs "#"%string) with [HASH]. rewrite contains_single.
  destruct (py_len_eq0 s || mem HASH s || existsb is_ws s); [|reflexivity].
  change (bs """"%string) with [QUOTE]. cbn [app]. reflexivity.
Qed.

Lemma lstrip_commas s : py_lstrip_chars [COMMA] s =
  (fix f (s : bytes) := match s with c :: s' => if c =? COMMA then f s' else s | [] => [] end) s.
Proof.
  induction s as [|c s IH]; [reflexivity|]. cbn [py_lstrip_chars mem existsb]. rewrite orb_false_r. rewrite IH. reflexivity.
Qed.

Lemma strip_chars_commas s : py_strip_chars [COMMA] s = strip_commas s.
Proof. unfold py_strip_chars, strip_commas. now rewrite !lstrip_commas. Qed.

Theorem gen_enum_text_is_render_enum e : gen_enum_text (e_tname e) (e_labels e) = render_enum e.
Proof.
  unfold gen_enum_text, render_enum. cbn [app].
  change (bs "typedef enum {"%string) with S_TYPEDEF_ENUM. change (bs "    "%string) with S_INDENT. change (bs ","%string) with [COMMA].
  unfold py_set_last, py_last. cbv zeta.
  match goal with |- context [rev ?l] => destruct (rev l) as [|x r] end; [reflexivity|]. rewrite strip_chars_commas. reflexivity.
Qed.


Lemma dict_get_enum k es : py_dict_get k (enums_dict es) = option_map (fun e => (e_tname e, e_labels e)) (enum_for k es).
Proof.
  induction es as [|e es IH]; [reflexivity|]. cbn [enums_dict map py_dict_get enum_for]. fold (enums_dict es). rewrite IH.
  destruct (enum_for k es); [reflexivity|]. cbn [option_map]. destruct (beq k (e_col e)); reflexivity.
Qed.

Lemma dict_has_enum k es : py_dict_has k (enums_dict es) = match enum_for k es with Some _ => true | None => false end.
Proof.
  induction es as [|e es IH]; [reflexivity|]. unfold py_dict_has in *. cbn [enums_dict map existsb enum_for fst]. fold (enums_dict es).
  rewrite IH. destruct (enum_for k es); [now rewrite orb_true_r|]. rewrite orb_false_r. destruct (beq k (e_col e)); reflexivity.
Qed.

(* ---- the dtmap dictionary: distinct keys, so "last item wins" and "first item wins" agree ---- *)
Lemma dict_get_absent {A} k (l : list (bytes * A)) : existsb (fun e => beq k (fst e)) l = false -> py_dict_get k l = None.
Proof.
  induction l as [|[k' v] l IH]; [reflexivity|]. cbn [existsb fst py_dict_get]. intros H. apply orb_false_iff in H as [H1 H2].
  rewrite IH by auto. now rewrite H1.
Qed.

Lemma dict_get_lookup k (l : list (bytes * bytes)) : distinct (map fst l) = true -> py_dict_get k l = lookup k l.
Proof.
  induction l as [|[k' v] l IH]; [reflexivity|]. cbn [map fst distinct]. intros H. apply andb_true_iff in H as [H1 H2].
  cbn [py_dict_get lookup]. rewrite IH by auto. destruct (beq k k') eqn:E.
  - apply beq_eq in E. subst k'. rewrite <- IH by auto. rewrite dict_get_absent; [reflexivity|].
    apply negb_true_iff in H1. rewrite <- H1. clear. induction l as [|[a b] l IH]; [reflexivity|]. cbn [existsb map fst]. now rewrite IH.
  - destruct (lookup k l); reflexivity.
Qed.

Lemma gen_dtmap_is_dtmap : gen_dtmap = dtmap.
Proof. reflexivity. Qed.

Lemma dtmap_get k : py_dict_get k gen_dtmap = lookup k dtmap.
Proof. rewrite gen_dtmap_is_dtmap. apply dict_get_lookup. reflexivity. Qed.

(* ---- one declaration line ---- *)

Lemma int_tail_code u w : py_int (py_tail (code_of u (TChar w))) = Some w.
Proof. cbn [code_of py_tail]. unfold py_int. apply parse_digits_show_N. Qed.

Lemma head_in_SU_char u w : py_head_in (code_of u (TChar w)) (bs "SU"%string) = true.
Proof. destruct u; reflexivity. Qed.

Theorem gen_decl_line_is_decl_line es c u : wtype_ok (c_type c) = true ->
  gen_decl_line (enums_dict es) (c_name c) (code_of u (c_type c)) (arr_len c) = decl_line es c.
Proof.
  destruct c as [name ty arr]. cbn [c_name c_type c_arr]. unfold arr_len, decl_line, ctype_word, decl_suffix. cbn [c_name c_type c_arr].
  intros Hty. unfold gen_decl_line.
  destruct ty as [| | | | |w|code|]; try discriminate Hty.
  1-5: cbn [code_of np_code]; rewrite !dtmap_get;
       match goal with |- context [py_head_in ?t ?s] => change (py_head_in t s) with false end; cbn [andb];
       cbv beta iota; (destruct arr as [l|]; [destruct (0 <? l)|]); cbn [lookup dtmap beq N.eqb Pos.eqb andb obind app];
       bsnorm; reflexivity.
  - (* character columns *)
    rewrite head_in_SU_char, dict_has_enum, dict_get_enum. cbn [andb]. rewrite int_tail_code.
    destruct (enum_for name es) as [e|]; cbn [option_map obind negb fst];
      (destruct arr as [l|]; [destruct (0 <? l)|]); bsnorm; reflexivity.
  - (* a code outside dtmap that is not a character code *)
    cbn [code_of np_code wtype_ok] in *. apply negb_true_iff in Hty. rewrite Hty. cbn [andb]. rewrite dtmap_get.
    destruct (lookup code dtmap) as [wd|]; cbn [obind]; [|reflexivity].
    (destruct arr as [l|]; [destruct (0 <? l)|]); bsnorm; reflexivity.
Qed.

(* ---- the struct block ---- *)
Theorem gen_struct_text_is_join name decls :
  gen_struct_text name decls = join [NL] ([S_TYPEDEF_STRUCT] ++ decls ++ [RBRACE :: SP :: upper name ++ [SEMI]]).
Proof. unfold gen_struct_text. cbn [app]. reflexivity. Qed.


Lemma omap_ext_in' {A B} (f g : A -> option B) l : (forall x, In x l -> f x = g x) -> omap f l = omap g l.
Proof.
  induction l as [|x l IH]; intros H; [reflexivity|]. cbn [omap]. rewrite (H x (or_introl eq_refl)), IH; [reflexivity|].
  intros y Hy. apply H. now right.
Qed.

Theorem gen_struct_is_render_struct es t : forallb (fun c => wtype_ok (c_type c)) (t_cols t) = true ->
  gen_struct_of es t = render_struct es t.
Proof.
  intros H. unfold gen_struct_of, render_struct.
  rewrite (omap_ext_in' _ (decl_line es)).
  - destruct (omap (decl_line es) (t_cols t)); [|reflexivity]. cbn [option_map]. now rewrite gen_struct_text_is_join.
  - intros c Hc. rewrite forallb_forall in H. now apply gen_decl_line_is_decl_line, H.
Qed.

(* ---- write(): header, pairs, blocks, rows ---- *)
Theorem gen_header_is_render_header cs : gen_head (gen_comments_list cs) = render_header cs.
Proof.
  unfold gen_head, gen_comments_list, render_header. bsnorm.
  rewrite (map_ext (fun c => 35 :: 32 :: c) (fun c => HASH :: SP :: c)) by reflexivity. reflexivity.
Qed.

(* write_table_yanny passes the single string 'Table': the string branch gives the text of the one-comment list *)
Theorem gen_comments_str_table : gen_comments_str (bs "Table"%string) = gen_comments_list [bs "Table"%string].
Proof. reflexivity. Qed.

Theorem gen_pair_is_render_pair kv : gen_pair (fst kv) (snd kv) = render_pair kv.
Proof. unfold gen_pair, render_pair. bsnorm. reflexivity. Qed.

Theorem gen_blocks_are_render_block texts : gen_block_enum texts = render_block texts /\ gen_block_struct texts = render_block texts.
Proof. unfold gen_block_enum, gen_block_struct, render_block. destruct texts; split; cbn [py_len_gt0]; bsnorm; reflexivity. Qed.


Theorem gen_datum_is_render_cell c : gen_datum (fst (fst (gcell c))) (snd (fst (gcell c))) (snd (gcell c)) = render_cell c.
Proof.
  destruct c as [v|l]; cbn [gcell fst snd gen_datum render_cell].
  - apply gen_protect_is_protect.
  - unfold render_array. rewrite map_map. change (bs "{"%string) with [LBRACE]. change (bs "}"%string) with [RBRACE]. change (bs " "%string) with [SP].
    cbn [app]. f_equal. f_equal. f_equal. apply map_ext. intros v. apply gen_protect_is_protect.
Qed.

Theorem gen_row_is_render_row name r :
  gen_row name (map (fun c => gen_datum (fst (fst c)) (snd (fst c)) (snd c)) (map gcell r)) = render_row name r.
Proof.
  unfold gen_row, render_row, render_row_line. cbn [app]. change (bs " "%string) with [SP]. rewrite map_map.
  rewrite (map_ext _ render_cell) by (intros c; apply gen_datum_is_render_cell). reflexivity.
Qed.

(* ---- the whole writer: write_ndarray_to_yanny over the generated pieces ---- *)

Theorem generated_writer_is_render d : writer_types_ok d = true -> gen_render d = render_checked d.
Proof.
  intros H. unfold gen_render, render_checked.
  rewrite (omap_ext_in' _ (render_struct (d_enums d))).
  2:{ intros t Ht. unfold writer_types_ok in H. rewrite forallb_forall in H. now apply gen_struct_is_render_struct, H. }
  destruct (omap (render_struct (d_enums d)) (d_tables d)) as [structs|]; [|reflexivity]. f_equal.
  unfold gen_write. rewrite gen_header_is_render_header.
  rewrite (map_ext _ render_pair) by apply gen_pair_is_render_pair.
  destruct (gen_blocks_are_render_block (map (fun e => gen_enum_text (e_tname e) (e_labels e)) (d_enums d))) as [-> _].
  destruct (gen_blocks_are_render_block structs) as [_ ->].
  rewrite (map_ext _ render_enum) by apply gen_enum_text_is_render_enum.
  change gen_sep with [NL]. do 5 f_equal. rewrite map_map. f_equal. apply map_ext. intros t. cbn [fst snd]. unfold render_rows, gen_table_key.
  rewrite map_map. f_equal. apply map_ext. intros r. apply gen_row_is_render_row.
Qed.

(* doc_ok documents are inside the hypothesis *)
Lemma doc_ok_writer_types d : doc_ok d = true -> writer_types_ok d = true.
Proof.
  unfold doc_ok, writer_types_ok. intros H. apply andb_true_iff in H as [H _]. apply andb_true_iff in H as [_ H].
  eapply forallb_impl; [|exact H]. intros t Ht. unfold table_ok in Ht.
  apply andb_true_iff in Ht as [Ht _]. apply andb_true_iff in Ht as [Ht _]. apply andb_true_iff in Ht as [_ Ht].
  eapply forallb_impl; [|exact Ht]. intros c Hc. unfold col_ok in Hc. apply andb_true_iff in Hc as [_ Hc].
  destruct (c_type c); try reflexivity; discriminate.
Qed.

(* an unsupported numpy code (KeyError in dtmap) makes the GENERATED writer refuse, whatever else the document holds *)
Theorem generated_writer_refuses d t c code : In t (d_tables d) -> In c (t_cols t) -> c_type c = TUnsup code ->
  py_head_in code (bs "SU"%string) = false -> lookup code dtmap = None -> gen_render d = None.
Proof.
  intros Ht Hc Ety Hh Hl. unfold gen_render.
  assert (E : gen_struct_of (d_enums d) t = None).
  { unfold gen_struct_of.
    assert (E1 : omap (fun c0 => gen_decl_line (enums_dict (d_enums d)) (c_name c0) (code_of false (c_type c0)) (arr_len c0)) (t_cols t) = None).
    { revert Hc. generalize (t_cols t) as cols. induction cols as [|x cols IH]; intros Hin; [destruct Hin|]. cbn [omap].
      destruct Hin as [->|Hin].
      - rewrite (gen_decl_line_is_decl_line (d_enums d) c false) by (rewrite Ety; cbn [wtype_ok]; now rewrite Hh).
        unfold decl_line, ctype_word. rewrite Ety. cbn [np_code]. now rewrite Hl.
      - rewrite (IH Hin). destruct (gen_decl_line _ _ _ _); reflexivity. }
    now rewrite E1. }
  assert (E2 : omap (gen_struct_of (d_enums d)) (d_tables d) = None).
  { revert Ht. generalize (d_tables d) as ts. induction ts as [|x ts IH]; intros Hin; [destruct Hin|]. cbn [omap].
    destruct Hin as [->|Hin]; [now rewrite E|]. rewrite (IH Hin). destruct (gen_struct_of (d_enums d) x); reflexivity. }
  now rewrite E2.
Qed.

(* ---- convert(): the class of conversion chosen from the base type ---- *)
Theorem gen_convert_is_classify typ :
  gen_convert_class (basetype typ) = match classify typ with KInt => 1 | KFloat => 2 | KOther => 0 end.
Proof.
  unfold gen_convert_class, classify, py_in_list, gen_intTypes, gen_floatTypes. cbn [existsb].
  change (bs "short"%string) with KW_SHORT. change (bs "int"%string) with KW_INT. change (bs "long"%string) with KW_LONG.
  change (bs "float"%string) with KW_FLOAT. change (bs "double"%string) with KW_DOUBLE. rewrite !orb_false_r, !orb_assoc.
  destruct (beq (basetype typ) KW_SHORT || beq (basetype typ) KW_INT || beq (basetype typ) KW_LONG); [reflexivity|].
  destruct (beq (basetype typ) KW_FLOAT || beq (basetype typ) KW_DOUBLE); reflexivity.
Qed.

(* ---- default structure names of write_ndarray_to_yanny ---- *)
Lemma default_names_example : default_names 2 = [bs "MYSTRUCT0"%string; bs "MYSTRUCT1"%string].
Proof. reflexivity. Qed.

(* ---- the round trip THROUGH THE GENERATED WRITER: what the statements of the current source assemble, read back by
   the reader model, is the document ---- *)
From PV Require Import Yanny.RoundTrip.
Theorem generated_file_roundtrip d : doc_ok d = true ->
  exists b p, gen_render d = Some b /\ sem d = Some p /\ parse b = Some p /\ parse_binary b = Some p.
Proof.
  intros Hd. destruct (file_roundtrip d Hd) as [b [p [R H]]]. exists b, p. split; [|exact H].
  rewrite generated_writer_is_render; [exact R|]. now apply doc_ok_writer_types.
Qed.
