(* C08 -- correspondence cases: the implementation's knots / values / masks against the algorithmic
   model (BSpline/Eval.v: knots_of_option, intrv, bsplvn, action_ranges, value) and against the
   specification (Cox-de Boor spline, range mask, partition of unity).  Definitions only. *)
From Coq Require Import QArith Qround Qabs List Bool Arith ZArith Lia.
Import ListNotations.
From PV Require Import Lib.WLS BSpline.Eval.
Open Scope Q_scope.

Definition rtol9 : Q := 1 # 1000000000.
Definition knot_rtol : Q := 1 # 1048576.   (* 2^-20: the knot placement runs partly in float32 *)

Definition all_true (n : nat) : list bool := repeat true n.

Record obsv := mkObsv {
  o_bk : list Q;            (* sset.breakpoints *)
  o_xe : list Q;            (* evaluation points, caller order *)
  o_perm : list nat;        (* numpy argsort of o_xe *)
  o_yy : list Q;            (* value(xe)[0] *)
  o_mask : list bool;       (* value(xe)[1] *)
  o_indx : list nat;        (* intrv(sorted xe) *)
  o_bs : list (list Q);     (* bsplvn(sorted xe, indx) *)
  o_lower : list Z; o_upper : list Z   (* action(sorted xe) ranges *)
}.

(* one evaluation point of a LONG spline (> 100000 intervals; the whole knot vector never enters Coq): the window the value
   depends on -- knots t_{l-k+1} .. t_{l+k}, coefficients c_{l-k+1} .. c_l, l = the interval the harness located with
   searchsorted on the object's knots -- and what the implementation returned there.  BSpline/WindowProofs.eval1_window:
   for t_l < x <= t_{l+1} the model value and the Cox-de Boor spline of the whole knot vector are those of the window. *)
Record wpt := mkWpt {
  w_x : Q; w_l : Z; w_knots : list Q; w_coeff : list Q;   (* interval indices as Z: they exceed 10^5 (unary nat is too slow) *)
  w_y : Q;            (* value(x)[0] at this point *)
  w_mask : bool;      (* value(x)[1] *)
  w_indx : Z;         (* intrv *)
  w_row : list Q      (* bsplvn row *)
}.

Inductive case :=
(* pts = the in-range points sorted by x; idx = intrv() of ALL sorted points (incl. the two outside the range); ranges =
   (slot, lower, upper) of action() for every slot that occurs; nonempty = number of slots with upper >= lower;
   outside = the masks returned at the two points outside the breakpoint range *)
| CWin (k : nat) (pts : list wpt) (idx : list Z) (ranges : list (Z * (Z * Z))) (nonempty : nat) (outside : list bool)
| CVal (opt : bkopt) (xs : list Q) (k : nat) (bkspread : Q) (coeff : list Q) (ob : obsv)
  (* a later call in a history on the SAME object: knots / coefficients were changed (in place or by assignment) after
     earlier evaluations; the answer must be the pure one for the current knots and coefficients *)
| CHist (k : nat) (coeff : list Q) (ob : obsv).

(* ---- specification side: depends only on the implementation's own knots and the textbook recursion *)
Definition spec_knots (bk : list Q) (k : nat) (xs : list Q) (computed : bool) : bool :=
  let xmin := lminQ xs in let xmax := lmaxQ xs in
  let scale := Qabs xmin + Qabs xmax + 1 in
  let tol := knot_rtol * scale in
  sortedQ bk && (2 * k <=? length bk)%nat &&
  Qle_bool (nthQ bk (k - 1)) (xmin + tol) && Qle_bool (xmax - tol) (nthQ bk (length bk - k)) &&
  (* computed options start exactly (to rounding) at the data range *)
  (if computed then close tol (nthQ bk (k - 1)) xmin && close tol (nthQ bk (length bk - k)) xmax else true).

Definition in_range (bk : list Q) (k : nat) (x : Q) : bool :=
  Qle_bool (nthQ bk (k - 1)) x && Qle_bool x (nthQ bk (length bk - k)).

(* the Cox-de Boor recursion evaluated with reduced fractions (Qred after every step): Bq == B, Blq == Bl,
   splineq == spline (C08/Proofs.v: Bq_eq, Blq_eq, splineq_eq, splineq_left_eq) -- only faster *)
Definition zmul (r b : Q) : Q := if Qeq_bool b 0 then 0 else r * b.   (* r * b, skipping the ratio when b = 0 *)
Fixpoint Bq (t : list Q) (m : nat) (i : nat) (x : Q) : Q :=
  match m with
  | O => if Qle_bool (nthQ t i) x && Qltb x (nthQ t (S i)) then 1 else 0
  | S m' =>
      Qred (zmul ((x - nthQ t i) / (nthQ t (i + m' + 1) - nthQ t i)) (Bq t m' i x)
            + zmul ((nthQ t (i + m' + 2) - x) / (nthQ t (i + m' + 2) - nthQ t (S i))) (Bq t m' (S i) x))
  end.
Fixpoint Blq (t : list Q) (m : nat) (i : nat) (x : Q) : Q :=
  match m with
  | O => if Qltb (nthQ t i) x && Qle_bool x (nthQ t (S i)) then 1 else 0
  | S m' =>
      Qred (zmul ((x - nthQ t i) / (nthQ t (i + m' + 1) - nthQ t i)) (Blq t m' i x)
            + zmul ((nthQ t (i + m' + 2) - x) / (nthQ t (i + m' + 2) - nthQ t (S i))) (Blq t m' (S i) x))
  end.
Fixpoint splineq_from (Bf : nat -> Q -> Q) (c : list Q) (i : nat) (x : Q) : Q :=
  match c with [] => 0 | a :: c' => Qred (a * Bf i x + splineq_from Bf c' (S i) x) end.
Definition splineq (t c : list Q) (k : nat) (x : Q) : Q := splineq_from (Bq t (k - 1)) c 0 x.
Definition splineq_left (t c : list Q) (k : nat) (x : Q) : Q := splineq_from (Blq t (k - 1)) c 0 x.

(* yy_i is the Cox-de Boor value with the (t_l, t_{l+1}] convention (C08_eval1_is_spline_left / _at_left_end); for k >= 2 on
   distinct knots this is also the textbook right-continuous value (C08_spline_left_eq_spline) *)
(* for orders >= 5 the (exponential, exact) textbook recursion is evaluated on every stride-th point only *)
Fixpoint every_nth {A} (stride phase : nat) (l : list A) : list A :=
  match l with
  | [] => []
  | a :: r => match phase with O => a :: every_nth stride (stride - 1) r | S p => every_nth stride p r end
  end.
Definition spec_stride (k n : nat) : nat := if (k <=? 4)%nat then 1%nat else S (n / 10).

Definition spec_values (bk : list Q) (k : nat) (coeff xe0 yy0 : list Q) : bool :=
  let st := spec_stride k (length xe0) in
  let xe := every_nth st 0 xe0 in let yy := every_nth st 0 yy0 in
  (length xe0 =? length yy0)%nat &&
  all2 (fun x y => if in_range bk k x
                   then (* the half-open convention of the reference implementation (IDL bspline_valu / pydl): segments are
                           (t_l, t_{l+1}], the first one also owns its left end t_{k-1}: left-continuous spline, except at t_{k-1} *)
                        if Qeq_bool x (nthQ bk (k - 1)) then close_rel rtol9 y (splineq bk coeff k x)
                        else close_rel rtol9 y (splineq_left bk coeff k x)
                   else true) xe yy.

Definition spec_mask (bk : list Q) (k : nat) (xe : list Q) (mask : list bool) : bool :=
  all2 (fun x m => Bool.eqb m (in_range bk k x)) xe mask.

(* basis values at in-range points: non-negative, sum to one *)
Definition spec_basis (bk : list Q) (k : nat) (xs_sorted : list Q) (bs : list (list Q)) : bool :=
  all2 (fun x row => if in_range bk k x
                     then close rtol9 (sumQ row) 1 && forallb (fun v => Qle_bool (- rtol9) v) row
                     else true) xs_sorted bs.

(* ---- model side *)
Definition model_knots (opt : bkopt) (xs : list Q) (k : nat) (bkspread : Q) (bk : list Q) : bool :=
  let scale := Qabs (lminQ xs) + Qabs (lmaxQ xs) + 1 in
  all2 (close (knot_rtol * scale)) (knots_of_option opt xs k bkspread) bk.

Definition model_eval (k : nat) (coeff : list Q) (ob : obsv) : bool :=
  let bk := o_bk ob in
  let bm := all_true (length bk) in
  let '(yy, mask) := value bk bm k coeff (o_xe ob) (o_perm ob) in
  let xs_sorted := apply_perm 0 (o_perm ob) (o_xe ob) in
  let idx := intrv bk k xs_sorted in
  sortedQ xs_sorted && is_perm (o_perm ob) (length (o_xe ob)) &&
  all2 (close_rel rtol9) (o_yy ob) yy &&
  all2 Bool.eqb (o_mask ob) mask &&
  all2 Nat.eqb (o_indx ob) idx &&
  all2 (fun row p => all2 (close_rel rtol9) row (bsplvn bk k (fst p) (snd p))) (o_bs ob) (combine xs_sorted idx) &&
  all2 (fun p q => Z.eqb (fst p) (fst q) && Z.eqb (snd p) (snd q))
       (combine (o_lower ob) (o_upper ob)) (action_ranges idx k (length bk - 2 * k + 1)).

Definition is_computed (o : bkopt) : bool :=
  match o with OBkpt _ => false | OPlaced _ => false | _ => true end.

(* ---- long splines, point by point on windows *)
Definition win_ok (k : nat) (p : wpt) : bool :=
  (length (w_knots p) =? 2 * k)%nat && (length (w_coeff p) =? k)%nat && sortedQ (w_knots p) &&
  Qltb (nthQ (w_knots p) (k - 1)) (w_x p) && Qle_bool (w_x p) (nthQ (w_knots p) k) && (Z.of_nat (k - 1) <=? w_l p)%Z.
Definition win_model (k : nat) (p : wpt) : bool :=
  close_rel rtol9 (w_y p) (eval_at (w_knots p) k (w_coeff p) (w_x p) (k - 1)) &&
  all2 (close_rel rtol9) (w_row p) (bsplvn (w_knots p) k (w_x p) (k - 1)) && (w_indx p =? w_l p)%Z.
Definition win_spec (k : nat) (p : wpt) : bool :=
  close_rel rtol9 (w_y p) (splineq_left (w_knots p) (w_coeff p) k (w_x p)) && w_mask p &&
  close rtol9 (sumQ (w_row p)) 1 && forallb (fun v => Qle_bool (- rtol9) v) (w_row p).
Fixpoint first_posZ (v : Z) (idx : list Z) (p : Z) : option Z :=
  match idx with [] => None | a :: r => if (a =? v)%Z then Some p else first_posZ v r (p + 1)%Z end.
Fixpoint last_posZ (v : Z) (idx : list Z) (p : Z) (acc : option Z) : option Z :=
  match idx with [] => acc | a :: r => last_posZ v r (p + 1)%Z (if (a =? v)%Z then Some p else acc) end.
Fixpoint distinct_runs (idx : list Z) : nat :=
  match idx with
  | a :: ((b :: _) as r) => ((if (a =? b)%Z then 0 else 1) + distinct_runs r)%nat
  | [_] => 1%nat
  | [] => 0%nat
  end.
Fixpoint nondecr_natb (idx : list Z) : bool :=
  match idx with a :: ((b :: _) as r) => (a <=? b)%Z && nondecr_natb r | _ => true end.
(* the row ranges of action(): slot s = rows of the points whose interval is s + k - 1 (ActionProofs.action_ranges_spec) *)
Definition win_ranges (k : nat) (idx : list Z) (ranges : list (Z * (Z * Z))) (nonempty : nat) : bool :=
  nondecr_natb idx && (distinct_runs idx =? nonempty)%nat && (length ranges =? nonempty)%nat &&
  forallb (fun r => let v := (fst r + Z.of_nat (k - 1))%Z in
                    match first_posZ v idx 0, last_posZ v idx 0 None with
                    | Some lo, Some hi => Z.eqb (fst (snd r)) lo && Z.eqb (snd (snd r)) hi
                    | _, _ => false
                    end) ranges.

(* verdict: +1 model differs from the implementation; +2 the implementation contradicts the specification;
   4 = (CWin) the harness's windows are not windows (inconsistent case data) *)
Definition run_case (c : case) : Z :=
  match c with
  | CWin k pts idx ranges nonempty outside =>
      if negb (forallb (win_ok k) pts) then 4%Z else
      let m_ok := forallb (win_model k) pts && win_ranges k idx ranges nonempty in
      let s_ok := forallb (win_spec k) pts && forallb negb outside in
      ((if m_ok then 0 else 1) + (if s_ok then 0 else 2))%Z
  | CVal opt xs k bkspread coeff ob =>
      let bk := o_bk ob in
      let xs_sorted := apply_perm 0 (o_perm ob) (o_xe ob) in
      let m_ok := model_knots opt xs k bkspread bk && model_eval k coeff ob in
      let s_ok := spec_knots bk k xs (is_computed opt) &&
                  spec_values bk k coeff (o_xe ob) (o_yy ob) &&
                  spec_mask bk k (o_xe ob) (o_mask ob) &&
                  spec_basis bk k xs_sorted (o_bs ob) in
      ((if m_ok then 0 else 1) + (if s_ok then 0 else 2))%Z
  | CHist k coeff ob =>
      let bk := o_bk ob in
      let xs_sorted := apply_perm 0 (o_perm ob) (o_xe ob) in
      let m_ok := model_eval k coeff ob in
      let s_ok := sortedQ bk && (2 * k <=? length bk)%nat &&
                  spec_values bk k coeff (o_xe ob) (o_yy ob) &&
                  spec_mask bk k (o_xe ob) (o_mask ob) &&
                  spec_basis bk k xs_sorted (o_bs ob) in
      ((if m_ok then 0 else 1) + (if s_ok then 0 else 2))%Z
  end.

Definition run_cases : list case -> list Z := map run_case.

(* diagnostic: which component failed (bit per component), used only in replay output *)
Definition diagnose (c : case) : list bool :=
  match c with
  | CWin k pts idx ranges nonempty outside =>
      [forallb (win_ok k) pts; forallb (win_model k) pts; win_ranges k idx ranges nonempty;
       forallb (win_spec k) pts; forallb negb outside; true]
  | CVal opt xs k bkspread coeff ob =>
      let bk := o_bk ob in
      let xs_sorted := apply_perm 0 (o_perm ob) (o_xe ob) in
      [model_knots opt xs k bkspread bk; model_eval k coeff ob;
       spec_knots bk k xs (is_computed opt); spec_values bk k coeff (o_xe ob) (o_yy ob);
       spec_mask bk k (o_xe ob) (o_mask ob); spec_basis bk k xs_sorted (o_bs ob)]
  | CHist k coeff ob =>
      let bk := o_bk ob in
      let xs_sorted := apply_perm 0 (o_perm ob) (o_xe ob) in
      [true; model_eval k coeff ob; sortedQ bk; spec_values bk k coeff (o_xe ob) (o_yy ob);
       spec_mask bk k (o_xe ob) (o_mask ob); spec_basis bk k xs_sorted (o_bs ob)]
  end.
