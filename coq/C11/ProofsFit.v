(* C11 -- the iterative B-spline fit on CONSTANT data and under a JOINT RESCALING of the data
   (flux * s, inverse variance / s^2).
   Part 1: constant ordinates c0 on strictly increasing knots => every fit of the rejection loop returns
           coefficients == c0 (partition of unity + uniqueness of the certified solve).
   Part 2: rescaling (y, w) -> (y s, w / s^2), 0 < s: coefficients are multiplied by s, the rejection masks
           are unchanged (sigma-clipping is scale free).
   Part 3: the same two facts for `model_fit` of C11/Model.v.
   Nothing about the Gauss-Jordan code is used: only fit_dense_sound / fit_unique / fit_exact_recovery. *)
From Coq Require Import QArith Qround Qabs Lqa List Bool Arith Lia Setoid Morphisms.
Import ListNotations.
From PV Require Import Lib.WLS BSpline.Eval BSpline.EvalProofs BSpline.Fit BSpline.FitProofs BSpline.Iter
  BSpline.IterProofs BSpline.CoxDeBoor BSpline.KnotsProofs C09.Proofs C11.Model.
Open Scope Q_scope.

Local Notation Veq := (Forall2 Qeq).

(* ================================================================== PART 1: constant data *)

(* 1a. every design row reproduces a constant *)
Lemma design_rows_constant gb k xs c0 :
  incr gb -> (1 <= k)%nat -> (2 * k <= length gb)%nat ->
  Forall (fun r : list Q => dot r (repeat c0 (length gb - k)) == c0) (design gb k xs).
Proof.
  intros Hi Hk Hg. unfold design. apply Forall_forall. intros r Hr.
  apply in_map_iff in Hr. destruct Hr as [[x l] [E Hin]]. subst r. cbn [fst snd].
  apply in_combine_r in Hin. unfold intrv in Hin.
  pose proof (intrv_walk_bounds gb (length gb - k) xs (k - 1)) as B.
  rewrite Forall_forall in B. specialize (B ltac:(lia) l Hin).
  apply constant_in_span; try lia.
  - now apply incr_nondecr.
  - apply Hi. lia.
Qed.

Lemma length_design gb k xs : length (design gb k xs) = length xs.
Proof.
  unfold design. rewrite map_length, combine_length, length_intrv. apply Nat.min_id.
Qed.

Lemma Veq_const_rows (c0 : Q) (c : list Q) : forall (ys : list Q) (rows : list (list Q)),
  length ys = length rows ->
  Forall (fun y => y == c0) ys -> Forall (fun r => dot r c == c0) rows ->
  Veq ys (map (fun r => dot r c) rows).
Proof.
  induction ys as [|y ys IH]; intros [|r rows] L Hy Hr; cbn [map length] in *; try discriminate.
  - constructor.
  - inversion Hy; subst. inversion Hr; subst. constructor.
    + rewrite H1, H3. reflexivity.
    + apply IH; [congruence | assumption | assumption].
Qed.

Lemma Veq_repeat_Forall (c0 : Q) : forall (x : list Q) n, Veq x (repeat c0 n) -> Forall (fun a => a == c0) x.
Proof.
  induction x as [|a x IH]; intros [|n] H; cbn [repeat] in H; inversion H; subst; constructor.
  - assumption.
  - eapply IH; eassumption.
Qed.

Lemma Forall_map_dy (P : Q -> Prop) ds : Forall (fun d => P (dy d)) ds -> Forall P (map dy ds).
Proof. induction 1; cbn [map]; constructor; assumption. Qed.

(* 1b *)
Theorem fit_masked_constant gb k ds mask c0 coef :
  incr gb -> (1 <= k)%nat -> (2 * k <= length gb)%nat ->
  Forall (fun d => dy d == c0) ds ->
  fit_masked fit_dense gb k ds mask = Some coef -> Forall (fun a => a == c0) coef.
Proof.
  intros Hi Hk Hg Hc H. unfold fit_masked, fit_coeff_with, fit_obs in H.
  eapply Veq_repeat_Forall with (n := (length gb - k)%nat).
  eapply fit_exact_recovery; [ | | | exact H].
  - now apply design_rows_length.
  - apply repeat_length.
  - apply (Veq_const_rows c0).
    + now rewrite length_design, !map_length.
    + now apply Forall_map_dy.
    + now apply design_rows_constant.
Qed.

(* 1c *)
Theorem iter_loop_constant gb k lower upper ds c0 :
  incr gb -> (1 <= k)%nat -> (2 * k <= length gb)%nat ->
  Forall (fun d => dy d == c0) ds ->
  forall fuel mask coef m,
  iter_loop fit_dense fuel gb k lower upper ds mask = Some (coef, m) -> Forall (fun a => a == c0) coef.
Proof.
  intros Hi Hk Hg Hc. induction fuel as [|f IH]; intros mask coef m H; [discriminate|].
  rewrite iter_loop_S in H.
  destruct (fit_masked fit_dense gb k ds mask) as [c|] eqn:F; [|discriminate].
  destruct (mask_eqb _ mask || (f =? 0)%nat).
  - inversion H; subst. eapply fit_masked_constant; eassumption.
  - eapply IH; eassumption.
Qed.

(* ================================================================== PART 2: joint rescaling *)

Definition scale_datum (s : Q) (d : datum) : datum := mkDatum (dx d) (dy d * s) (dw d / (s * s)).

(* the relation actually needed (the C11 model builds the scaled data with `nthQ (map ..) i`, which is only
   == to the scaled value): same abscissa, y' == y s, w' == w / s^2 *)
Definition srel (s : Q) (d d' : datum) : Prop :=
  dx d' = dx d /\ dy d' == dy d * s /\ dw d' == dw d / (s * s).

Lemma srel_scale_datum s ds : Forall2 (srel s) ds (map (scale_datum s) ds).
Proof.
  induction ds as [|d ds IH]; cbn [map]; constructor; [| exact IH].
  unfold srel, scale_datum; cbn [dx dy dw]. repeat split; reflexivity.
Qed.

Lemma srel_dx s ds ds' : Forall2 (srel s) ds ds' -> map dx ds' = map dx ds.
Proof. induction 1 as [|d d' ds ds' [H _] _ IH]; cbn [map]; [reflexivity | now rewrite H, IH]. Qed.

Lemma srel_dy s ds ds' : Forall2 (srel s) ds ds' ->
  Forall2 (fun y y' => y' == y * s) (map dy ds) (map dy ds').
Proof. induction 1 as [|d d' ds ds' [_ [H _]] _ IH]; cbn [map]; constructor; assumption. Qed.

Lemma srel_masked_weights s ds ds' : Forall2 (srel s) ds ds' -> forall mask,
  Forall2 (fun w w' => w' == w / (s * s))
          (masked_weights (map dw ds) mask) (masked_weights (map dw ds') mask).
Proof.
  unfold masked_weights.
  induction 1 as [|d d' ds ds' [_ [_ H]] _ IH]; intros [|b mask]; cbn [map combine]; try constructor.
  - cbn [fst snd]. destruct b; [exact H | unfold Qdiv; ring].
  - apply IH.
Qed.

Lemma srel_initial_mask s ds ds' : 0 < s -> Forall2 (srel s) ds ds' -> initial_mask ds' = initial_mask ds.
Proof.
  intros Hs. unfold initial_mask.
  induction 1 as [|d d' ds ds' [_ [_ H]] _ IH]; cbn [map]; [reflexivity|].
  rewrite IH. f_equal.
  rewrite (Qltb_comp 0 0 (Qeq_refl 0) _ _ H).
  assert (Hss : 0 < / (s * s)) by (apply Qinv_lt_0_compat; nra).
  unfold Qdiv. revert Hss. generalize (/ (s * s)). intros t Ht.
  destruct (Qltb 0 (dw d)) eqn:E.
  - apply Qltb_lt. apply Qltb_lt in E. nra.
  - apply Qltb_ge. apply Qltb_ge in E. nra.
Qed.

Corollary initial_mask_scale s ds : 0 < s -> initial_mask (map (scale_datum s) ds) = initial_mask ds.
Proof. intro Hs. apply (srel_initial_mask s); [exact Hs | apply srel_scale_datum]. Qed.

(* ---- the gradient of the scaled problem *)
Lemma gcomp_scale s i (x' : list Q) : ~ s == 0 -> forall rows ws ws' ys ys',
  Forall2 (fun w w' => w' == w / (s * s)) ws ws' ->
  Forall2 (fun y y' => y' == y * s) ys ys' ->
  gcomp i (mk_obs rows ws' ys') x' == / s * gcomp i (mk_obs rows ws ys) (vscale (/ s) x').
Proof.
  intros Hs. induction rows as [|r rows IH]; intros ws ws' ys ys' Hw Hy.
  - cbn [mk_obs gcomp]. ring.
  - destruct Hw as [|w w' ws ws' Hw Hws]; [cbn [mk_obs gcomp]; ring|].
    destruct Hy as [|y y' ys ys' Hy Hys]; [cbn [mk_obs gcomp]; ring|].
    cbn [mk_obs gcomp resid]. rewrite (IH ws ws' ys ys' Hws Hys).
    rewrite dot_vscale_r, Hw, Hy. field. exact Hs.
Qed.

Lemma Veq_unscale s : ~ s == 0 -> forall x' x : list Q,
  Veq (vscale (/ s) x') x -> Veq x' (map (fun a => a * s) x).
Proof.
  intros Hs. unfold vscale. induction x' as [|a x' IH]; intros [|b x] H; cbn [map] in *; inversion H; subst;
    constructor.
  - rewrite <- H3. field. exact Hs.
  - now apply IH.
Qed.

(* the certified solve of the scaled problem *)
Lemma fit_dense_scale m s rows ws ws' ys ys' x x' :
  ~ s == 0 -> Forall (fun r : list Q => length r = m) rows ->
  Forall2 (fun w w' => w' == w / (s * s)) ws ws' ->
  Forall2 (fun y y' => y' == y * s) ys ys' ->
  fit_dense m (mk_obs rows ws ys) = Some x -> fit_dense m (mk_obs rows ws' ys') = Some x' ->
  Veq x' (map (fun a => a * s) x).
Proof.
  intros Hs Hr Hw Hy F F'.
  destruct (fit_dense_sound _ _ _ F') as [L' [G' _]].
  apply Veq_unscale; [exact Hs|].
  eapply fit_unique; [ | exact F | | ].
  - now apply rows_len_mk_obs.
  - now rewrite length_vscale.
  - apply grad_zero_of_gcomp; [now apply rows_len_mk_obs|]. intro i.
    pose proof (gcomp_zero_of_grad m _ x' i (rows_len_mk_obs m rows ws' ys' Hr) G') as Z.
    rewrite (gcomp_scale s i x' Hs rows ws ws' ys ys' Hw Hy) in Z.
    apply Qmult_integral in Z. destruct Z as [Z|Z]; [|exact Z].
    exfalso. apply Hs. rewrite <- (Qinv_involutive s), Z. reflexivity.
Qed.

(* 2a, general form *)
Theorem fit_masked_srel gb k s ds ds' mask x x' :
  (1 <= k)%nat -> (2 * k <= length gb)%nat -> ~ s == 0 -> Forall2 (srel s) ds ds' ->
  fit_masked fit_dense gb k ds mask = Some x -> fit_masked fit_dense gb k ds' mask = Some x' ->
  Veq x' (map (fun a => a * s) x).
Proof.
  intros Hk Hg Hs R F F'. unfold fit_masked, fit_coeff_with, fit_obs in F, F'.
  rewrite (srel_dx s ds ds' R) in F'.
  eapply fit_dense_scale; [exact Hs | | | | exact F | exact F'].
  - now apply design_rows_length.
  - now apply srel_masked_weights.
  - now apply srel_dy.
Qed.

(* 2a as stated *)
Corollary fit_masked_scale gb k s ds mask x x' :
  (1 <= k)%nat -> (2 * k <= length gb)%nat -> 0 < s ->
  fit_masked fit_dense gb k ds mask = Some x ->
  fit_masked fit_dense gb k (map (scale_datum s) ds) mask = Some x' ->
  Veq x' (map (fun a => a * s) x).
Proof.
  intros Hk Hg Hs. apply fit_masked_srel; try assumption; [lra | apply srel_scale_datum].
Qed.

(* ---- 2b: the rejection pass is scale free *)
Lemma Qltb_eq_iff a b c d : (a < b <-> c < d) -> Qltb a b = Qltb c d.
Proof.
  intro H. destruct (Qltb c d) eqn:E.
  - apply Qltb_lt. apply H. now apply Qltb_lt.
  - apply Qltb_ge. apply Qltb_ge in E. destruct (Qlt_le_dec a b) as [L|L]; [|exact L].
    apply H in L. lra.
Qed.

Lemma too_high_scale upper s diff diff' w w' :
  0 < s -> diff' == s * diff -> w' == w / (s * s) ->
  too_high upper diff' w' = too_high upper diff w.
Proof.
  intros Hs Hd Hw. unfold too_high. f_equal.
  - apply Qltb_eq_iff. rewrite Hd. split; intro; nra.
  - apply Qltb_comp; [reflexivity|]. rewrite Hd, Hw. field. lra.
Qed.

Lemma too_low_scale lower s diff diff' w w' :
  0 < s -> diff' == s * diff -> w' == w / (s * s) ->
  too_low lower diff' w' = too_low lower diff w.
Proof.
  intros Hs Hd Hw. unfold too_low. f_equal.
  - apply Qltb_eq_iff. rewrite Hd. split; intro; nra.
  - apply Qltb_comp; [reflexivity|]. rewrite Hd, Hw. field. lra.
Qed.

Lemma reject1_srel lower upper s d d' f f' m :
  0 < s -> srel s d d' -> f' == f * s ->
  reject1 lower upper d' f' m = reject1 lower upper d f m.
Proof.
  intros Hs [_ [Hy Hw]] Hf. unfold reject1.
  assert (E : dy d' - f' == s * (dy d - f)) by (rewrite Hy, Hf; ring).
  rewrite (too_low_scale lower s _ _ _ _ Hs E Hw), (too_high_scale upper s _ _ _ _ Hs E Hw).
  reflexivity.
Qed.

Theorem reject_srel lower upper s ds ds' : 0 < s -> Forall2 (srel s) ds ds' ->
  forall yf yf' mask, Veq yf' (map (fun a => a * s) yf) ->
  reject lower upper ds' yf' mask = reject lower upper ds yf mask.
Proof.
  intros Hs. induction 1 as [|d d' ds ds' R _ IH]; intros yf yf' mask H; [reflexivity|].
  destruct yf as [|f yf]; cbn [map] in H; inversion H as [|f' ? yf'' ? Hf Hyf]; subst; [reflexivity|].
  destruct mask as [|m mask]; [reflexivity|]. cbn [reject].
  rewrite (reject1_srel lower upper s d d' f f' m Hs R Hf). f_equal. now apply IH.
Qed.

(* 2b as stated *)
Corollary reject_scale lower upper s ds yf yf' mask :
  0 < s -> Veq yf' (map (fun a => a * s) yf) ->
  reject lower upper (map (scale_datum s) ds) yf' mask = reject lower upper ds yf mask.
Proof. intros Hs. apply reject_srel; [exact Hs | apply srel_scale_datum]. Qed.

(* ---- the fitted curve is linear in the coefficients *)
Lemma dot_map_scale_r s : forall u v : list Q, dot u (map (fun a => a * s) v) == dot u v * s.
Proof.
  induction u as [|a u IH]; intros [|b v]; cbn [map dot]; try ring. rewrite IH. ring.
Qed.

Lemma yfit_of_scale gb k s x xs :
  Veq (yfit_of gb k (map (fun a => a * s) x) xs) (map (fun a => a * s) (yfit_of gb k x xs)).
Proof.
  unfold yfit_of, value_sorted. induction (combine xs (intrv gb k xs)) as [|p l IH]; cbn [map];
    constructor; [| exact IH].
  unfold eval_at. rewrite !Qred_correct, skipn_map. apply dot_map_scale_r.
Qed.

(* 2c, general form *)
Theorem iter_loop_srel gb k lower upper s ds ds' :
  (1 <= k)%nat -> (2 * k <= length gb)%nat -> 0 < s -> Forall2 (srel s) ds ds' ->
  forall fuel mask x m x' m',
  iter_loop fit_dense fuel gb k lower upper ds mask = Some (x, m) ->
  iter_loop fit_dense fuel gb k lower upper ds' mask = Some (x', m') ->
  m' = m /\ Veq x' (map (fun a => a * s) x).
Proof.
  intros Hk Hg Hs R. induction fuel as [|f IH]; intros mask x m x' m' H H'; [discriminate|].
  rewrite iter_loop_S in H, H'.
  destruct (fit_masked fit_dense gb k ds mask) as [c|] eqn:F; [|discriminate].
  destruct (fit_masked fit_dense gb k ds' mask) as [c'|] eqn:F'; [|discriminate].
  assert (Hc : Veq c' (map (fun a => a * s) c)).
  { eapply fit_masked_srel; try eassumption. lra. }
  assert (E : reject lower upper ds' (yfit_of gb k c' (map dx ds')) mask
              = reject lower upper ds (yfit_of gb k c (map dx ds)) mask).
  { apply (reject_srel lower upper s); try assumption.
    rewrite (srel_dx s ds ds' R).
    eapply Veq_trans; [apply yfit_of_Veq; exact Hc | apply yfit_of_scale]. }
  rewrite E in H'.
  destruct (mask_eqb _ mask || (f =? 0)%nat).
  - inversion H; inversion H'; subst. split; [reflexivity | exact Hc].
  - eapply IH; eassumption.
Qed.

(* 2c as stated *)
Corollary iter_loop_scale gb k lower upper s ds :
  (1 <= k)%nat -> (2 * k <= length gb)%nat -> 0 < s ->
  forall fuel mask x m x' m',
  iter_loop fit_dense fuel gb k lower upper ds mask = Some (x, m) ->
  iter_loop fit_dense fuel gb k lower upper (map (scale_datum s) ds) mask = Some (x', m') ->
  m' = m /\ Veq x' (map (fun a => a * s) x).
Proof.
  intros Hk Hg Hs. apply iter_loop_srel; try assumption. apply srel_scale_datum.
Qed.

(* ================================================================== PART 3: model_fit of C11/Model.v *)

(* the data model_fit hands to the loop for the group ss *)
Definition mdata (c : cin) (ss : list nat) : list datum :=
  map (fun i => mkDatum (nthQ (c_inloglam c) i) (nthQ (c_flux c) i) (nthQ (weights c) i)) ss.

Lemma model_fit_eq sv maxiter lower upper bkspace k c ss :
  model_fit sv maxiter lower upper bkspace k c ss =
  let ds := mdata c ss in
  let gb := knots_of_option (OBkspace bkspace) (map dx ds) k 1 in
  match iter_loop sv (S maxiter) gb k lower upper ds (initial_mask ds) with
  | Some (coef, m) => Some (mkGfit gb (map (fun _ => true) gb) coef m)
  | None => None
  end.
Proof. reflexivity. Qed.

Lemma mdata_dx c ss : map dx (mdata c ss) = map (nthQ (c_inloglam c)) ss.
Proof. unfold mdata. rewrite map_map. apply map_ext. reflexivity. Qed.

(* constant fluxes on the group, strictly increasing knots: constant coefficients *)
Theorem model_fit_constant maxiter lower upper bkspace k c ss c0 g :
  let gb := knots_of_option (OBkspace bkspace) (map (nthQ (c_inloglam c)) ss) k 1 in
  incr gb -> (1 <= k)%nat -> (2 * k <= length gb)%nat ->
  Forall (fun i => nthQ (c_flux c) i == c0) ss ->
  model_fit fit_dense maxiter lower upper bkspace k c ss = Some g ->
  Forall (fun a => a == c0) (g_coeff g).
Proof.
  intros gb Hi Hk Hg Hc H. rewrite model_fit_eq in H. cbv zeta in H. rewrite mdata_dx in H. fold gb in H.
  destruct (iter_loop fit_dense (S maxiter) gb k lower upper (mdata c ss) (initial_mask (mdata c ss)))
    as [[coef m]|] eqn:E; [|discriminate].
  inversion H; subst g. cbn [g_coeff].
  eapply (iter_loop_constant gb k lower upper (mdata c ss) c0); try eassumption.
  unfold mdata. clear -Hc. induction Hc; cbn [map]; constructor; assumption.
Qed.

(* agreement of two optional fits up to == on the coefficients *)
Definition fit_equiv (f1 f2 : option gfit) : Prop :=
  match f1, f2 with
  | Some g1, Some g2 => g_bk g1 = g_bk g2 /\ g_bkmask g1 = g_bkmask g2 /\ g_bmask g1 = g_bmask g2 /\
                        Veq (g_coeff g1) (g_coeff g2)
  | None, None => True
  | _, _ => False
  end.

Lemma nthQ_map0 (f : Q -> Q) : f 0 == 0 -> forall l i, nthQ (map f l) i == f (nthQ l i).
Proof.
  intros H0. unfold nthQ. induction l as [|a l IH]; intros [|i]; cbn [map nth]; try reflexivity;
    try (symmetry; exact H0). apply IH.
Qed.

(* general form: whenever the weights of the scaled input are the weights / s^2 on the group *)
Theorem model_fit_scale_gen s maxiter lower upper bkspace k c ss g g' :
  let gb := knots_of_option (OBkspace bkspace) (map (nthQ (c_inloglam c)) ss) k 1 in
  (1 <= k)%nat -> (2 * k <= length gb)%nat -> 0 < s ->
  (forall i, In i ss -> nthQ (weights (scale_cin s c)) i == nthQ (weights c) i / (s * s)) ->
  model_fit fit_dense maxiter lower upper bkspace k c ss = Some g ->
  model_fit fit_dense maxiter lower upper bkspace k (scale_cin s c) ss = Some g' ->
  fit_equiv (Some g') (scale_fit s (Some g)).
Proof.
  intros gb Hk Hg Hs Hw H H'. rewrite model_fit_eq in H, H'. cbv zeta in H, H'.
  rewrite mdata_dx in H, H'. change (c_inloglam (scale_cin s c)) with (c_inloglam c) in H'.
  fold gb in H, H'.
  assert (R : Forall2 (srel s) (mdata c ss) (mdata (scale_cin s c) ss)).
  { unfold mdata. clear -Hw. induction ss as [|i ss IH]; cbn [map]; constructor.
    - unfold srel; cbn [dx dy dw]. split; [reflexivity|]. split.
      + change (c_flux (scale_cin s c)) with (map (fun f => f * s) (c_flux c)).
        apply (nthQ_map0 (fun f => f * s)). ring.
      + apply Hw. now left.
    - apply IH. intros j Hj. apply Hw. now right. }
  rewrite (srel_initial_mask s _ _ Hs R) in H'.
  destruct (iter_loop fit_dense (S maxiter) gb k lower upper (mdata c ss) (initial_mask (mdata c ss)))
    as [[x m]|] eqn:E; [|discriminate].
  destruct (iter_loop fit_dense (S maxiter) gb k lower upper (mdata (scale_cin s c) ss) (initial_mask (mdata c ss)))
    as [[x' m']|] eqn:E'; [|discriminate].
  inversion H; inversion H'; subst g g'. cbn [scale_fit fit_equiv g_bk g_bkmask g_bmask g_coeff].
  destruct (iter_loop_srel gb k lower upper s _ _ Hk Hg Hs R _ _ _ _ _ _ E E') as [Em Ex].
  repeat split; try reflexivity; assumption.
Qed.

(* a single spectrum with inverse variances: the weights are the inverse variances themselves *)
Corollary model_fit_scale_single s maxiter lower upper bkspace k c ss iv g g' :
  let gb := knots_of_option (OBkspace bkspace) (map (nthQ (c_inloglam c)) ss) k 1 in
  (1 <= k)%nat -> (2 * k <= length gb)%nat -> 0 < s ->
  c_ivar c = Some iv -> c_stacked c = false ->
  model_fit fit_dense maxiter lower upper bkspace k c ss = Some g ->
  model_fit fit_dense maxiter lower upper bkspace k (scale_cin s c) ss = Some g' ->
  fit_equiv (Some g') (scale_fit s (Some g)).
Proof.
  intros gb Hk Hg Hs Hiv Hn. apply model_fit_scale_gen; try assumption.
  intros i _. unfold weights. cbn [scale_cin c_ivar c_nspec c_stacked]. rewrite Hiv, Hn.
  apply (nthQ_map0 (fun v => v / (s * s))). unfold Qdiv. ring.
Qed.

Print Assumptions iter_loop_constant.
Print Assumptions iter_loop_scale.
Print Assumptions model_fit_constant.
Print Assumptions model_fit_scale_single.
