"""C14 -- IDL built-in replacements (smooth, median, uniq, rebin) follow IDL semantics."""
import fractions
import os
import re

from harness import common as C
from translate import c14 as T

ID = 'C14'
PROPS_V = 'C14/Props.v'
LEVEL = 'proof'
TRUSTED = [
    'translate/c14.py (+ find_function/zlit of translate/pyexpr.py): Python ast -> Gallina for the integer index arithmetic of smooth.py '
    '(parity rule, width<3 test, istart/iend/w2, branch tests, slice bounds, edge multipliers; the arithmetic shape of the three stores is matched structurally) '
    'and for rebin.py\'s integer parts (rank test, per-axis % tests, expand/keep/shrink selectors, shrink factor / pick / block bounds; '
    'the integer-kind -> rr//f else rr/f shape is matched structurally)',
    'rebin.py axis loop (round 5): number of passes, the list position used in pass k for d / d0 / new_shape / the three slice lists / the block sum, '
    'scratch lists re-created per pass, xx = r, dtype kept -- GENERATED as an axis plan; Model.axis_plan_ok compares it with the reference plan '
    '(pass k acts on nesting level k) that rebin_nd_axes implements; C14_rebin_axis_plan proves the comparison for every rank',
    'hand-written in C14/Model.v (tied by correspondence): numpy/scipy primitives (np.median, medfilt/medfilt2d as zero-padded window medians, roll, nonzero, '
    'fancy indexing, sum), Python slice clamping and the map over range(n) of smooth.py, nested lists for n-D arrays',
    'pydl/__init__.py re-exports: not modelled; every call is made through one import route (package / defining module, drawn per call) and repeated through the other, the answers must be identical',
    'numpy semantics exercised, not modelled: ndarray.sum/copy/flatten/argsort/roll/nonzero, fancy indexing, float->integer truncation on store, '
    'np.median; scipy.signal.medfilt/medfilt2d modelled as zero-padded window medians',
    'exact rationals stand for IEEE doubles: inputs are short dyadic rationals, results compared at 1e-12 (float64) / 1e-5 (float32) / exactly (integers, medians, uniq)',
    'non-finite / near-overflow data (round 6): decided on the Python side by judge_nonfinite -- the rule of the property evaluated with exact Fractions '
    'for finite samples and Python float arithmetic (IEEE 754) for +-inf / NaN; window sums beyond the largest finite number of the type are +-inf '
    '(all huge samples of one array share a sign, so every summation order agrees); not part of the Coq model (Q has no infinities)',
    'process-global state: np.geterr / np.geterrcall / np.get_printoptions / warnings.filters / os.environ compared before and after `import pydl` '
    '(numpy, scipy, astropy imported first) in every fresh runner process and after every call; the runner does not override numpy error handling',
    'Coq stdlib ZArith, QArith, Lia, Lqa (theorems closed under the global context)',
]
ASSUMPTIONS = [
    'smooth / uniq: 1-D input, or column-like input (n,), (n,1), (n,1,1) which numpy indexing treats as 1-D; other multi-dimensional shapes ((1,n), (2,1,4)) are outside '
    '(smooth is 1-D code and raises IndexError there) -- observed only, both import routes must agree',
    'smooth: float64 input, scalar integer width; bit-exact comparison (every output sample = the double nearest to the exact mean) for arrays whose window sums are exact in doubles, 1e-12 relative otherwise; the specification (clamped boxcar) is claimed for widths not exceeding the length '
    '(owidth <= n, as the property says); for wider windows with edge_truncate the code is NOT a clamped boxcar (model M still corresponds)',
    'non-finite data: +inf / -inf anywhere (all four functions), NaN in smooth and rebin only (IDL medians treat NaN as missing data, numpy does not: outside); '
    'near-overflow values only where the exact window / block sum is clearly below or clearly above the largest finite number; expansion of near-overflow data not generated',
    'median: float64 input without NaN; running median for odd 1 <= width <= length (1-D) / odd 1 <= width <= number of elements (2-D, incl. one-row / one-column images: no interior point, unchanged); an even kernel min(width, size) raises ValueError in scipy (modelled: C14_median_filter1_rejects; outside the property); 3-D with a width -> ValueError',
    'uniq: non-empty input; with an index: subscripts in range; the specification is claimed for input sorted ascending (through the index); '
    'for a constant array with an index the result is [n-1] as in IDL uniq.pro (not index[n-1])',
    'rebin: extents >= 1 (size 0 only model M), any rank >= 1 (correspondence runs ranks 1..5); integer dtypes: values small enough that no integer overflow occurs in sums; integer results: truncation toward zero '
    'of the interpolant, floor of the block mean (as the code does; IDL integer rounding for negative values is not documented -- pydl issue #60); '
    'integer sums/products stay below 2^53 (generated values are small)',
]

HEADER = '''From Coq Require Import ZArith QArith List. Import ListNotations.
From PV Require Import C14.Model. Open Scope Z_scope.'''

TOL = {'f8': '(1 # 1000000000000)', 'f4': '(1 # 100000)'}
INT_DTYPES = ['i4', 'i2', 'i8', 'u1', 'u2']


def translate(ctx):
    res = {}
    for name, gen, src in (('Smooth', T.generate, 'pydl/smooth.py'), ('Rebin', T.generate_rebin, 'pydl/rebin.py'),
                           ('Uniq', T.generate_uniq, 'pydl/uniq.py'), ('Median', T.generate_median, 'pydl/median.py')):
        text, info = gen(C.REPO)
        path = os.path.join(C.COQ, 'Generated', name + '.v')
        if text is not None:
            info['changed'] = C.write_if_changed(path, text)
        else:
            info['note'] = ('%s not recognised; the previous Generated/%s.v is kept and the correspondence run '
                            'alone ties the model to the code' % (src, name))
        res[name] = info
    return res


# ---------------------------------------------------------------- value generators

def values(rng, n, style=None, lo=-8, hi=8, bits=6):
    style = style or rng.choice(['dyadic', 'dyadic', 'dyadic', 'few', 'ramp', 'spike', 'const'])
    if style == 'dyadic':
        return [C.dyadic(rng, lo, hi, bits) for _ in range(n)]
    if style == 'few':
        pool = [C.dyadic(rng, lo, hi, 2) for _ in range(rng.randint(1, 4))]
        return [rng.choice(pool) for _ in range(n)]
    if style == 'ramp':
        a, b = C.dyadic(rng, lo, hi, 3), C.dyadic(rng, -1, 1, 3)
        return [a + b * k for k in range(n)]
    if style == 'spike':
        v = [C.dyadic(rng, -1, 1, 4) for _ in range(n)]
        v[rng.randrange(n)] = C.dyadic(rng, 64, 128, 2) * rng.choice([-1, 1])
        return v
    c = C.dyadic(rng, lo, hi, 4)
    return [c] * n


def qlist(v):
    return C.coq_list([C.qlit(x) for x in v])


def qlist2(v):
    return C.coq_list([qlist(r) for r in v])


def qlist3(v):
    return C.coq_list([qlist2(r) for r in v])


def zlist(v):
    return C.coq_list([C.zlit(x) for x in v])


def reshape(flat, shape):
    if len(shape) == 1:
        return list(flat)
    step = 1
    for s in shape[1:]:
        step *= s
    return [reshape(flat[i * step:(i + 1) * step], shape[1:]) for i in range(shape[0])]


# ---------------------------------------------------------------- call generators

def smooth_zone(n, w, et):
    """'dom'  : inside the property's quantifier (owidth <= n) -- the width made odd is then <= n+1;
       'edge' : owidth = n+1 odd (width-1 = n, still inside the theorem's hypothesis width-1 <= n), or any wider
                window without edge_truncate (theorem holds for all widths there);
       'wide' : edge_truncate with width_made_odd - 1 > n: outside (the code is not a clamped boxcar there)."""
    wodd = w + 1 if w % 2 == 0 else w
    if w <= n:
        return 'dom'
    if not et or wodd - 1 <= n:
        return 'edge'
    return 'wide'


def gen_smooth(ctx, calls):
    rng = ctx.rng
    nmax = 40
    for n in range(1, nmax + 1):
        xs = values(rng, n)
        widths = list(range(0, n + 4))
        if not ctx.thorough and n > 16:
            # quick tier: all widths for n <= 16; above, the boundary widths and a sample of the others
            keep = {0, 1, 2, 3, 4, 5, n - 2, n - 1, n, n + 1, n + 2, n + 3}
            keep.update(rng.sample(range(6, n - 2), 5))
            widths = sorted(keep)
        for w in widths:
            for et in (False, True):
                for rep in range(ctx.n(1, 3)):
                    if ctx.thorough:
                        xs = values(rng, n)
                    calls.append(('smooth-%s-%s' % ('et' if et else 'plain', smooth_zone(n, w, et)),
                                  {'f': 'smooth', 'x': xs, 'w': w, 'et': et}))
    for n in range(1, nmax + 1):
        for w in (n - 1, n, n + 1, n + 2):
            for et in (False, True):
                calls.append(('smooth-boundary-%s-%s' % ('et' if et else 'plain', smooth_zone(n, w, et)),
                              {'f': 'smooth', 'x': values(rng, n), 'w': w, 'et': et}))
    for w in (-3, -2, -1):
        calls.append(('smooth-negwidth', {'f': 'smooth', 'x': values(rng, 7), 'w': w, 'et': True}))
    # edge_truncate omitted (default False); the other defaults (median: width/axis/even, rebin: sample, uniq: index)
    # are exercised by every call that does not set them -- the impl passes a keyword only when it is set
    for n in (1, 2, 3, 4, 5, 6, 7, 9, 12, 17, 24):
        for w in sorted({3, 4, max(2, n // 2), n}):
            calls.append(('smooth-default-et', {'f': 'smooth', 'x': values(rng, n), 'w': w, 'et': None}))


def gen_median(ctx, calls):
    rng = ctx.rng
    for n in range(1, 41):
        for even in (False, True):
            for rep in range(ctx.n(2, 10)):
                xs = values(rng, n, rng.choice(['dyadic', 'few', 'few', 'spike']))
                calls.append(('median-%s-%s' % ('oddcount' if n % 2 else 'evencount', 'even' if even else 'plain'),
                              {'f': 'median', 'x': xs, 'even': even}))
    for rep in range(ctx.n(24, 200)):
        r, c = rng.randint(1, 6), rng.randint(1, 6)
        x = reshape(values(rng, r * c, 'few' if rep % 2 else 'dyadic'), (r, c))
        calls.append(('median-2d', {'f': 'median', 'x': x, 'even': bool(rep % 3 == 0)}))
        calls.append(('median-axis', {'f': 'median_axis', 'x': x, 'axis': rep % 2}))
    # running median, 1-D
    for n in range(1, 41):
        odd = list(range(1, n + 1, 2))
        if not ctx.thorough and len(odd) > 8:
            keep = {1, 3, 5, odd[-1], odd[-2]}
            keep.update(rng.sample(odd[3:-2], 3))
            odd = sorted(keep)
        for w in odd:
            xs = values(rng, n, rng.choice(['dyadic', 'few', 'spike', 'dyadic']))
            calls.append(('medfilt1-dom', {'f': 'medfilt', 'x': xs, 'w': w}))
        # beyond the domain: width > n (odd), and even widths (scipy raises)
        wide = n + 1 if n % 2 == 0 else n + 2
        calls.append(('medfilt1-wide', {'f': 'medfilt', 'x': values(rng, n), 'w': wide}))
        if n % 4 == 0:
            calls.append(('medfilt1-evenwidth', {'f': 'medfilt', 'x': values(rng, n), 'w': rng.randrange(2, n + 1, 2)}))
    # running median, 2-D
    for rep in range(ctx.n(70, 500)):
        r, c = rng.randint(1, 9), rng.randint(1, 9)
        x = reshape(values(rng, r * c, rng.choice(['dyadic', 'few', 'spike'])), (r, c))
        m = min(r, c)
        if rep % 6 == 5:
            w = m + 1 if m % 2 == 0 else m + 2
            tag = 'medfilt2-wide'
        else:
            w = rng.randrange(1, m + 1, 2)
            tag = 'medfilt2-dom'
        calls.append((tag, {'f': 'medfilt', 'x': x, 'w': w}))


def sorted_runs(rng, n, floats):
    """sorted array of length n made of runs"""
    out = []
    v = C.dyadic(rng, -8, 0, 3) if floats else rng.randint(-20, 5)
    while len(out) < n:
        out.extend([v] * rng.randint(1, 4))
        v = v + (C.dyadic(rng, 0.125, 2, 3) if floats else rng.randint(1, 5))
    return out[:n]


def gen_uniq(ctx, calls):
    rng = ctx.rng
    for n in range(1, 41):
        for rep in range(ctx.n(3, 30)):
            floats = rep % 3 == 2
            dt = 'f8' if floats else rng.choice(['i8', 'i4', 'i2'])
            calls.append(('uniq-sorted-' + ('float' if floats else 'int'),
                          {'f': 'uniq', 'x': sorted_runs(rng, n, floats), 'dtype': dt, 'idx': None}))
        # constant arrays
        calls.append(('uniq-constant', {'f': 'uniq', 'x': [rng.randint(-3, 3)] * n, 'dtype': 'i8', 'idx': None}))
        calls.append(('uniq-constant', {'f': 'uniq', 'x': [C.dyadic(rng, -2, 2, 3)] * n, 'dtype': 'f8', 'idx': None}))
        # index arrays: x unsorted, idx a sorting permutation (ties broken randomly)
        for rep in range(ctx.n(3, 12)):
            floats = rep % 3 == 2
            srt = sorted_runs(rng, n, floats)
            perm = list(range(n))
            rng.shuffle(perm)
            x = [None] * n
            for pos, j in enumerate(perm):
                x[j] = srt[pos]
            # perm is a sorting index of x; idx_dtype varies
            calls.append(('uniq-indexed-' + ('float' if floats else 'int'),
                          {'f': 'uniq', 'x': x, 'dtype': 'f8' if floats else 'i8', 'idx': perm,
                           'idx_dtype': rng.choice(['i8', 'i4'])}))
        # constant array through a permuted index
        perm = list(range(n))
        rng.shuffle(perm)
        calls.append(('uniq-indexed-constant', {'f': 'uniq', 'x': [rng.randint(-3, 3)] * n, 'dtype': 'i8', 'idx': perm,
                                                'idx_dtype': rng.choice(['i8', 'i4'])}))
        # index selecting a subset / with repeats (still sorted through the index)
        if n >= 2:
            srt = sorted_runs(rng, n, False)
            sub = sorted(rng.choice(range(n)) for _ in range(rng.randint(1, n)))
            calls.append(('uniq-indexed-subset', {'f': 'uniq', 'x': srt, 'dtype': 'i8', 'idx': sub, 'idx_dtype': 'i8'}))
        # outside the domain: unsorted input (model M only)
        if n >= 2 and n % 3 == 0:
            calls.append(('uniq-unsorted', {'f': 'uniq', 'x': [rng.randint(0, 3) for _ in range(n)], 'dtype': 'i8', 'idx': None}))


def close_sorted(rng, n, floats):
    """Sorted array with genuine runs mixed with DISTINCT neighbours that are relatively very close:
    large integers differing by 1 (incl. 64-bit ids near 2^60..2^62), adjacent doubles (nextafter chains),
    magnitudes below 1e-8 and above 1e8.  uniq must end a run at every one of them (exact comparison)."""
    import math
    out = []
    if floats:
        starts = [0.0, 1e-300, 3e-12, 7.5e-9, 1.0, 1.0 + 2.0 ** -30, 1234.5, 1e5, 86400.0 * 55000, 1e8, 1e8 + 1.0,
                  1e15, 2.0 ** 60, -1e-9, -2.0 ** -40, -1.0, -1e9]
        v = rng.choice([s for s in starts if s <= 1.0]) if rng.random() < 0.6 else rng.choice(starts)
        while len(out) < n:
            out.extend([v] * rng.randint(1, 3))
            t = rng.random()
            if t < 0.4:
                for _ in range(rng.randint(1, 3)):
                    v = math.nextafter(v, math.inf)            # adjacent double
            elif t < 0.6:
                v = v + abs(v) * 2.0 ** -rng.randint(20, 40) if v != 0 else 2.0 ** -rng.randint(40, 1000)
            elif t < 0.75:
                v = v + 2.0 ** -rng.randint(30, 60) if abs(v) < 1 else v + 1.0   # tiny absolute step / +1 on a large value
            else:
                bigger = [s for s in starts if s > v]
                v = rng.choice(bigger) if bigger else v * 2 + 1
        out = out[:n]
        assert all(a <= b for a, b in zip(out, out[1:]))
        return out
    starts = [-(2 ** 62) + 5, -10 ** 12, -100000, -3, 0, 99999, 10 ** 5, 10 ** 6, 10 ** 9, 2 ** 31 - 2, 2 ** 53 - 1,
              1237648720693755904, 2 ** 62 - 40]
    v = rng.choice(starts)
    while len(out) < n:
        out.extend([v] * rng.randint(1, 3))
        t = rng.random()
        if t < 0.65:
            v += 1
        elif t < 0.8:
            v += rng.randint(2, 9)
        else:
            bigger = [s for s in starts if s > v]
            v = rng.choice(bigger) if bigger else v + 1
    return out[:n]


def gen_uniq_close(ctx, calls):
    rng = ctx.rng
    for n in list(range(2, 25)) + [30, 40]:
        for rep in range(ctx.n(4, 16)):
            floats = rep % 2 == 1
            srt = close_sorted(rng, n, floats)
            dt = 'f8' if floats else 'i8'
            if rep % 4 < 2:
                calls.append(('uniq-close-sorted-' + ('float' if floats else 'int'),
                              {'f': 'uniq', 'x': srt, 'dtype': dt, 'idx': None}))
            else:
                perm = list(range(n))
                rng.shuffle(perm)
                x = [None] * n
                for pos, j in enumerate(perm):
                    x[j] = srt[pos]
                calls.append(('uniq-close-indexed-' + ('float' if floats else 'int'),
                              {'f': 'uniq', 'x': x, 'dtype': dt, 'idx': perm, 'idx_dtype': rng.choice(['i8', 'i4'])}))


def float_index_inexact(d0, d):
    """does the double computation floor((d0/d)*i) differ from (i*d0)//d for some i?  (classification only)"""
    if d <= d0:
        return False
    f = d0 / d
    import math
    return any(int(math.floor(f * i)) != (i * d0) // d for i in range(d))


def rebin_values(rng, n, dtype):
    if dtype in ('f8', 'f4'):
        return values(rng, n, rng.choice(['dyadic', 'dyadic', 'ramp', 'few']), bits=4)
    if dtype.startswith('u'):
        return [rng.randint(0, 200) for _ in range(n)]
    return [rng.randint(-100, 100) for _ in range(n)]


def axis_target(rng, d0, mode, int_dtype):
    """new extent for an axis of extent d0"""
    if mode == 'keep':
        return d0
    if mode == 'expand':
        m = rng.choice([2, 3, 4, 5, 7, 8] if int_dtype else [2, 3, 4, 5, 6, 7, 8])
        return d0 * m
    divs = [k for k in range(1, d0) if d0 % k == 0]
    return rng.choice(divs) if divs else d0


def gen_rebin(ctx, calls):
    rng = ctx.rng
    # 1-D: every pair (d0, d) with d0, d <= 24 and an integral factor; float64 + one more dtype each
    for d0 in range(1, 25):
        for d in range(1, 25):
            if d % d0 and d0 % d:
                continue
            for sample in (False, True):
                dts = ['f8', rng.choice(['f4'] + INT_DTYPES)]
                for dt in dts:
                    isint = dt not in ('f8', 'f4')
                    npot = isint and d > d0 and (d // d0) & (d // d0 - 1)
                    calls.append(('rebin1-%s-%s%s%s' % ('expand' if d > d0 else ('keep' if d == d0 else 'shrink'),
                                                        'int' if isint else 'float', '-npot' if npot else '',
                                                        '-sample' if sample else ''),
                                  {'f': 'rebin', 'x': rebin_values(rng, d0, dt), 'dtype': dt, 'd': [d], 'sample': sample}))
    # larger expansion factors, incl. those whose reciprocal is not exact in doubles (49, 98, 103, 107 ...)
    for m in (16, 32, 33, 47, 49, 64, 93, 98, 103, 107):
        for d0 in (2, 3, 5):
            for sample in (False, True):
                calls.append(('rebin1-bigfactor' + ('-sample' if sample else ''),
                              {'f': 'rebin', 'x': rebin_values(rng, d0, 'f8'), 'dtype': 'f8', 'd': [d0 * m], 'sample': sample}))
    # integer dtypes, interpolation with factors that are not powers of two (exact interpolants that are integers)
    for m in (3, 5, 6, 7, 9, 10, 12, 13):
        for d0 in (2, 4, 6):
            dt = rng.choice(INT_DTYPES)
            calls.append(('rebin1-expand-int-npot', {'f': 'rebin', 'x': rebin_values(rng, d0, dt), 'dtype': dt,
                                                     'd': [d0 * m], 'sample': False}))
    # 2-D: all 9 combinations of expand/keep/shrink
    modes = ['expand', 'keep', 'shrink']
    for m0 in modes:
        for m1 in modes:
            for rep in range(ctx.n(8, 120)):
                dt = ['f8', 'f4', rng.choice(INT_DTYPES), 'f8'][rep % 4]
                isint = dt not in ('f8', 'f4')
                shape = [rng.choice([1, 2, 3, 4, 6, 8]), rng.choice([1, 2, 3, 4, 6, 9])]
                if m0 == 'shrink' and shape[0] == 1:
                    shape[0] = 4
                if m1 == 'shrink' and shape[1] == 1:
                    shape[1] = 6
                d = [axis_target(rng, shape[0], m0, isint), axis_target(rng, shape[1], m1, isint)]
                x = reshape(rebin_values(rng, shape[0] * shape[1], dt), shape)
                calls.append(('rebin2-%s-%s' % (m0, m1), {'f': 'rebin', 'x': x, 'dtype': dt, 'd': d, 'sample': rep % 3 == 2}))
    # 3-D: all 27 combinations
    for m0 in modes:
        for m1 in modes:
            for m2 in modes:
                for rep in range(ctx.n(3, 40)):
                    dt = ['f8', rng.choice(INT_DTYPES), 'f4'][rep % 3]
                    isint = dt not in ('f8', 'f4')
                    shape = [rng.choice([1, 2, 4]), rng.choice([2, 3, 4]), rng.choice([1, 2, 6])]
                    for ax, md in enumerate((m0, m1, m2)):
                        if md == 'shrink' and shape[ax] == 1:
                            shape[ax] = 2
                    d = [axis_target(rng, shape[a], md, isint) if md != 'expand' else shape[a] * rng.choice([2, 3, 4])
                         for a, md in enumerate((m0, m1, m2))]
                    x = reshape(rebin_values(rng, shape[0] * shape[1] * shape[2], dt), shape)
                    calls.append(('rebin3-%s-%s-%s' % (m0, m1, m2),
                                  {'f': 'rebin', 'x': x, 'dtype': dt, 'd': d, 'sample': rep % 4 == 3}))
    # out of domain: non-integral factors and rank changes must raise ValueError
    for rep in range(ctx.n(60, 400)):
        nd = rng.randint(1, 3)
        shape = [rng.randint(2, 7) for _ in range(nd)]
        dt = rng.choice(['f8', 'i4'])
        n = 1
        for s in shape:
            n *= s
        x = reshape(rebin_values(rng, n, dt), shape)
        if rep % 3 == 0:
            # rank change
            d = list(shape)
            if rng.random() < 0.5 and nd > 1:
                d = d[:-1]
            else:
                d = d + [rng.randint(1, 3)]
            tag = 'rebin-rankchange'
        else:
            d = list(shape)
            ax = rng.randrange(nd)
            bad = [k for k in range(1, 3 * shape[ax]) if k % shape[ax] and shape[ax] % k]
            d[ax] = rng.choice(bad)
            for a in range(nd):
                if a != ax and rng.random() < 0.5:
                    d[a] = shape[a] * 2
            tag = 'rebin-nonintegral'
        calls.append((tag, {'f': 'rebin', 'x': x, 'dtype': dt, 'd': d, 'sample': rep % 2 == 0}))


NP_NAME = {'f8': 'float64', 'f4': 'float32', 'i4': 'int32', 'i2': 'int16', 'i8': 'int64', 'u1': 'uint8', 'u2': 'uint16'}


def mixed_values(rng, n):
    """O(1) dyadic values with one huge sample (1e300 / -1e200) and/or a block offset by 1e17 early in the array;
    the later part holds ordinary values only, so later windows must come out exactly as for an ordinary array"""
    v = [C.dyadic(rng, -8, 8, 4) for _ in range(n)]
    kind = rng.choice(['huge', 'neg', 'block', 'both'])
    k = rng.randrange(0, max(1, n // 3))
    # 1e300 / -1e200 themselves in about one case out of eight (1000-bit integers are slow in Coq's binary Z);
    # otherwise magnitudes that swamp O(1) values just as completely in double arithmetic
    if kind in ('huge', 'both'):
        v[k] = 1e300 if rng.random() < 0.125 else rng.choice([2.0 ** 80, 1e30, 3.0 * 2.0 ** 100])
    if kind == 'neg':
        v[k] = -1e200 if rng.random() < 0.125 else rng.choice([-(2.0 ** 70), -1e25])
    if kind in ('block', 'both'):
        lo = rng.randrange(0, max(1, n // 3))
        for j in range(lo, min(n, lo + rng.randint(1, 3))):
            if abs(v[j]) < 1e100:
                v[j] = 1e17 + v[j]          # rounded to a double here; that double is the input
    return v


def gen_mixed(ctx, calls):
    rng = ctx.rng
    for rep in range(ctx.n(70, 400)):
        n = rng.randint(8, 40)
        xs = mixed_values(rng, n)
        w = rng.choice([3, 4, 5, 7, 9, min(n, 11)])
        calls.append(('smooth-mixedmag-%s' % ('et' if rep % 2 else 'plain'),
                      {'f': 'smooth', 'x': xs, 'w': w, 'et': bool(rep % 2)}))
        if rep % 3 == 0:
            calls.append(('medfilt1-mixedmag', {'f': 'medfilt', 'x': xs, 'w': rng.choice([3, 5, 7])}))
            calls.append(('median-mixedmag', {'f': 'median', 'x': xs, 'even': bool(rep % 2)}))


def gen_dtypes(ctx, calls):
    """float32 / integer inputs for smooth (float32), median and the running median"""
    rng = ctx.rng
    for rep in range(ctx.n(60, 300)):
        n = rng.randint(1, 30)
        dt = rng.choice(['f4', 'i4', 'i8', 'i2', 'u1'])
        if dt == 'f4':
            xs = values(rng, n, rng.choice(['dyadic', 'few', 'ramp']), bits=4)
            calls.append(('smooth-float32', {'f': 'smooth', 'x': xs, 'w': rng.randint(0, n + 1), 'et': bool(rep % 2), 'dtype': 'f4'}))
        elif dt == 'u1':
            xs = [rng.randint(0, 200) for _ in range(n)]
        else:
            xs = [rng.randint(-50, 50) for _ in range(n)]
        calls.append(('median-' + ('float32' if dt == 'f4' else 'int'), {'f': 'median', 'x': xs, 'even': bool(rep % 3 == 0), 'dtype': dt}))
        calls.append(('medfilt1-' + ('float32' if dt == 'f4' else 'int'),
                      {'f': 'medfilt', 'x': xs, 'w': rng.randrange(1, n + 1, 2), 'dtype': dt}))
        if rep % 4 == 0 and dt in ('f4', 'u1'):
            r, c = rng.randint(3, 6), rng.randint(3, 6)
            x2 = reshape([rng.randint(0, 200) for _ in range(r * c)], (r, c))
            calls.append(('medfilt2-' + ('float32' if dt == 'f4' else 'int'), {'f': 'medfilt', 'x': x2, 'w': 3, 'dtype': dt}))


def gen_histories(ctx, calls):
    """several calls in one process on the SAME array object; every result is compared with the model's answer
    on the ORIGINAL values"""
    rng = ctx.rng
    for rep in range(ctx.n(60, 300)):
        if rep % 3 < 2:
            n = rng.choice([4, 6, 8, 9, 10, 12, 15, 16, 20, 24])
            xs = values(rng, n, rng.choice(['dyadic', 'few', 'spike']))
            divs = [k for k in range(1, n) if n % k == 0]
            pool = [
                {'f': 'median', 'even': False}, {'f': 'median', 'even': True},
                {'f': 'medfilt', 'w': rng.randrange(1, n + 1, 2)},
                {'f': 'smooth', 'w': rng.randint(2, n), 'et': False}, {'f': 'smooth', 'w': rng.randint(2, n), 'et': True},
                {'f': 'rebin', 'd': [n], 'sample': False}, {'f': 'rebin', 'd': [n * 2], 'sample': False},
                {'f': 'rebin', 'd': [rng.choice(divs)], 'sample': bool(rng.getrandbits(1))},
                {'f': 'uniq'},
            ]
            layout = rng.choice(['c', 'c', 'c', 'strided', 'rev', 'be'])
        else:
            r, c = rng.choice([2, 3, 4, 6]), rng.choice([2, 4, 5, 6])
            xs = reshape(values(rng, r * c, rng.choice(['dyadic', 'few'])), (r, c))
            pool = [
                {'f': 'median', 'even': False}, {'f': 'median', 'even': True},
                {'f': 'median_axis', 'axis': 0}, {'f': 'median_axis', 'axis': 1},
                {'f': 'medfilt', 'w': rng.choice([1, 3])},
                {'f': 'rebin', 'd': [r, c], 'sample': False}, {'f': 'rebin', 'd': [r * 2, c], 'sample': False},
                {'f': 'rebin', 'd': [r, c * 3], 'sample': True},
            ]
            layout = rng.choice(['c', 'c', 'f', 't', 'strided', 'be'])
        steps = [dict(rng.choice(pool)) for _ in range(rng.randint(3, 6))]
        if rep % 2 == 0:
            steps.insert(0, {'f': 'median', 'even': False})      # a plain median first, then everything else
        if rep % 3 != 1:
            # the CALLER refills the same buffer in place between calls (x[...] = new / x += delta); the steps after it
            # repeat earlier calls and must answer for the NEW contents (nothing may be remembered per array object)
            shp = shape_of(xs)
            nn = 1
            for a_ in shp:
                nn *= a_
            new = reshape(values(rng, nn, rng.choice(['dyadic', 'few', 'spike'])), shp)
            k_ = rng.randint(1, len(steps))
            steps = steps[:k_] + [{'f': 'mutate', 'x': new, 'how': rng.choice(['assign', 'iadd'])}] + \
                [dict(st) for st in steps[:k_]][-3:] + steps[k_:]
        calls.append(('history', {'f': 'history', 'x': xs, 'dtype': 'f8', 'layout': layout, 'steps': steps}))



DEGENERATE_2D = [(1, 1), (1, 2), (2, 1), (1, 3), (3, 1), (1, 4), (4, 1), (1, 7), (7, 1), (1, 12), (12, 1)]
DEGENERATE_3D = [(2, 1, 4), (1, 3, 1), (1, 1, 5), (1, 1, 1), (3, 1, 1), (1, 2, 3), (2, 3, 1)]


def gen_degenerate(ctx, calls):
    """arrays with axes of length one -- (1,n), (n,1), (1,1), (2,1,4), (1,) -- and of size 0 / 1, for all four functions.
    What the right answer is:
      rebin    : the ordinary per-axis rule (an axis of length one can only be kept or expanded; expanding it repeats
                 the single sample); exactly the requested shape -- rebin1/2/3_spec, rebin_nd_spec;
      median   : plain: the median of all elements whatever the shape; axis: per line; with a width: 2-D arrays with an
                 axis of length one have no interior point for width >= 3, so every sample is an edge sample and
                 stays untouched (median_filter2_spec; C14_median_filter2_refines_spec_size); 3-D -> ValueError;
      smooth / uniq : (n,), (n,1), (1,1) behave as the 1-D array of the same values (numpy leading-axis indexing;
                 IDL skips dimensions of length one) and keep their shape; (1,n), (2,1,4) are outside the model
                 (smooth is 1-D code: IndexError) -- observed only, both import routes must agree."""
    rng = ctx.rng
    reps = ctx.n(1, 4)
    for rep in range(reps):
        for shape in DEGENERATE_2D + DEGENERATE_3D + [(1,), (2,), (1, 2, 1, 3), (2, 1, 1, 2, 1)]:
            n = 1
            for s_ in shape:
                n *= s_
            nd = len(shape)
            # ---- rebin: every axis kept / expanded / (if longer than one) shrunk
            for k in range(ctx.n(3, 8)):
                dt = ['f8', rng.choice(INT_DTYPES), 'f4'][k % 3]
                isint = dt not in ('f8', 'f4')
                d = []
                for a in shape:
                    md = rng.choice(['keep', 'expand', 'expand', 'shrink'] if a > 1 else ['keep', 'expand', 'expand'])
                    d.append(axis_target(rng, a, md, isint))
                x = reshape(rebin_values(rng, n, dt), shape)
                c = {'f': 'rebin', 'x': x, 'dtype': dt, 'd': d, 'sample': k % 4 == 3}
                if nd <= 3 and k % 3 == 2:
                    c['anyrank'] = True
                calls.append(('rebin%s-degenerate' % ('N' if nd > 3 or c.get('anyrank') else str(nd)), c))
            # requested shape that drops / squeezes the axis of length one: rank change -> ValueError
            if nd >= 2 and 1 in shape:
                x = reshape(rebin_values(rng, n, 'f8'), shape)
                calls.append(('rebin-degenerate-rankchange', {'f': 'rebin', 'x': x, 'dtype': 'f8', 'd': [a for a in shape if a != 1] or [1],
                                                              'sample': False}))
            if nd > 3:
                continue
            # ---- median
            xs = reshape(values(rng, n, rng.choice(['dyadic', 'few', 'spike'])), shape)
            for even in (False, True):
                calls.append(('median-degenerate', {'f': 'median', 'x': xs, 'even': even}))
            if nd == 2:
                for ax in (0, 1):
                    calls.append(('median-axis-degenerate', {'f': 'median_axis', 'x': xs, 'axis': ax}))
            if nd <= 2:
                for w in sorted({1, 3, 5, n if n % 2 else n - 1, n + 2 if n % 2 else n + 1, rng.randrange(1, n + 4, 2)}):
                    if w >= 1:
                        calls.append(('medfilt%d-degenerate' % nd, {'f': 'medfilt', 'x': xs, 'w': w}))
            else:
                calls.append(('medfilt3-degenerate', {'f': 'medfilt', 'x': xs, 'w': rng.choice([1, 3, 5])}))
            # ---- smooth / uniq
            col = column_like(shape)
            for w in (2, 3, 5, n, n + 1):
                for et in (False, True):
                    c = {'f': 'smooth', 'x': reshape(values(rng, n), shape), 'w': w, 'et': et}
                    if not col:
                        c['observe'] = True
                    calls.append(('smooth-degenerate' + ('' if col else '-observed'), c))
            srt = sorted_runs(rng, n, rep % 2 == 1)
            c = {'f': 'uniq', 'x': reshape(srt, shape), 'dtype': 'f8' if rep % 2 == 1 else 'i8', 'idx': None}
            if not col:
                c['observe'] = True
            calls.append(('uniq-degenerate' + ('' if col else '-observed'), c))
    # ---- size 0 (outside the property: lengths 1..N; the model M must still correspond) and size 1
    for rep in range(2):
        calls.append(('smooth-size0', {'f': 'smooth', 'x': [], 'w': rng.choice([1, 3, 4]), 'et': bool(rep)}))
        calls.append(('uniq-size0', {'f': 'uniq', 'x': [], 'dtype': ('i8', 'f8')[rep], 'idx': None}))
        calls.append(('rebin1-size0', {'f': 'rebin', 'x': [], 'dtype': ('f8', 'i4')[rep], 'd': [0], 'sample': bool(rep)}))
        calls.append(('median-size0-observed', {'f': 'median', 'x': [], 'even': bool(rep), 'observe': True}))
        calls.append(('medfilt-size0-observed', {'f': 'medfilt', 'x': [], 'w': 3, 'observe': True}))
        calls.append(('rebin-size0-observed', {'f': 'rebin', 'x': [], 'dtype': 'f8', 'd': [2], 'sample': False, 'observe': True}))
        one = [C.dyadic(rng, -8, 8, 4)]
        for w in (0, 1, 2, 3, 5):
            calls.append(('smooth-size1', {'f': 'smooth', 'x': one, 'w': w, 'et': bool(rep)}))
        calls.append(('uniq-size1', {'f': 'uniq', 'x': [rng.randint(-5, 5)], 'dtype': 'i8', 'idx': None}))
        calls.append(('uniq-size1', {'f': 'uniq', 'x': one, 'dtype': 'f8', 'idx': [0], 'idx_dtype': 'i8'}))
        calls.append(('median-size1', {'f': 'median', 'x': one, 'even': bool(rep)}))
        for w in (1, 3):
            calls.append(('medfilt1-size1', {'f': 'medfilt', 'x': one, 'w': w}))
        for d in (1, 2, 5):
            calls.append(('rebin1-size1', {'f': 'rebin', 'x': one, 'dtype': 'f8', 'd': [d], 'sample': bool(rep)}))


def gen_anyrank(ctx, calls):
    """rebin beyond 3-D (ranks 4 and 5) and a sample of ranks 1-3 through the any-rank model rebin_nd"""
    rng = ctx.rng
    modes = ['expand', 'keep', 'shrink']
    for rep in range(ctx.n(40, 300)):
        nd = rng.choice([4, 4, 5, 1, 2, 3])
        dt = ['f8', rng.choice(INT_DTYPES), 'f4'][rep % 3]
        isint = dt not in ('f8', 'f4')
        shape = [rng.choice([1, 2, 2, 3, 4]) for _ in range(nd)]
        d = []
        for a in shape:
            md = rng.choice(modes if a > 1 else modes[:2])
            d.append(a * rng.choice([2, 3]) if md == 'expand' else axis_target(rng, a, md, isint))
        n = 1
        for a in shape:
            n *= a
        x = reshape(rebin_values(rng, n, dt), shape)
        calls.append(('rebinN-rank%d' % nd, {'f': 'rebin', 'x': x, 'dtype': dt, 'd': d, 'sample': rep % 4 == 3, 'anyrank': True}))
    for rep in range(ctx.n(6, 30)):
        nd = rng.choice([4, 5])
        shape = [rng.randint(1, 3) for _ in range(nd)]
        n = 1
        for a in shape:
            n *= a
        x = reshape(rebin_values(rng, n, 'f8'), shape)
        d = list(shape)
        if rep % 2:
            d = d[:-1]
        else:
            ax = rng.randrange(nd)
            d[ax] = shape[ax] * 2 + 1 if shape[ax] > 1 else shape[ax]
            if d == list(shape):
                d = d + [1]
        calls.append(('rebinN-rejected', {'f': 'rebin', 'x': x, 'dtype': 'f8', 'd': d, 'sample': False, 'anyrank': True}))

# ---------------------------------------------------------------- non-finite and near-overflow data (IEEE 754)

INF = float('inf')
TOK = {'inf': INF, '-inf': -INF, 'nan': float('nan')}
FMAX = {'f8': fractions.Fraction(1.7976931348623157e308), 'f4': fractions.Fraction(3.4028234663852886e38)}


def fval(v):
    return TOK[v] if isinstance(v, str) else float(v)


def is_nan(v):
    return v != v


def ev(v):
    """value of the reference evaluator: exact Fraction for a finite sample, float for inf / -inf / nan"""
    if isinstance(v, fractions.Fraction):
        return v
    v = fval(v)
    return v if (v != v or abs(v) == INF) else fractions.Fraction(v)


def ext_sum(vals, dt):
    """IEEE sum of a window, whatever the order of the additions: NaN if a NaN is present or both infinities are;
    an infinity if one is present; otherwise the exact sum, +-inf if it exceeds the largest finite number of the
    type (the generated arrays keep all huge samples of one array on the same sign, so that every order of partial
    sums overflows or none does)"""
    nf = [v for v in vals if isinstance(v, float)]
    if any(is_nan(v) for v in nf) or (INF in nf and -INF in nf):
        return float('nan')
    if nf:
        return nf[0]
    s_ = sum(vals)
    if abs(s_) > FMAX[dt]:
        return INF if s_ > 0 else -INF
    return s_


def ext_div(s_, k):
    return s_ if isinstance(s_, float) else s_ / k


def ieee_smooth(xs, w, et, dt):
    """the property's rule evaluated in IEEE arithmetic: centred boxcar mean of the width made odd; edge samples
    untouched, or (edge_truncate) out-of-range samples replaced by the nearest edge value"""
    wodd = w + 1 if w % 2 == 0 else w
    n = len(xs)
    if wodd < 3:
        return list(xs)
    h = wodd // 2
    out = list(xs)
    for i in range(n):
        if h <= i <= n - 1 - h or et:
            out[i] = ext_div(ext_sum([xs[min(max(j, 0), n - 1)] for j in range(i - h, i + h + 1)], dt), wodd)
    return out


def ieee_rebin_axis(xs, d, sample, dt):
    """IDL's rule along one axis on a list of samples: integer-factor block mean / x0 + frac*(x1 - x0) with the last
    sample held / nearest-neighbour picks"""
    d0 = len(xs)
    if d == d0:
        return list(xs)
    if d > d0:
        m = d // d0
        out = []
        for i in range(d):
            lo = i // m
            if sample or lo >= d0 - 1:
                out.append(xs[lo])
                continue
            x0, x1 = xs[lo], xs[lo + 1]
            fr = fractions.Fraction(i % m, m)
            if isinstance(x0, float) or isinstance(x1, float):
                # IEEE: x0 + frac*(x1 - x0) with Python floats (which follow IEEE 754 silently): 0*inf = nan etc.
                out.append(ev(float(x0) + float(fr) * (float(x1) - float(x0))))
            else:
                out.append(x0 + fr * (x1 - x0))      # near-overflow data are not generated for expansion
        return out
    f = d0 // d
    if sample:
        return [xs[f * i] for i in range(d)]
    return [ext_div(ext_sum(xs[f * i:f * (i + 1)], dt), f) for i in range(d)]


def along_axis(x, k, fn):
    """apply fn to every 1-D line along axis k of a nested list"""
    if k == 0:
        if not isinstance(x[0], list):
            return fn(x)
        # transpose the leading axis inwards
        cols = [along_axis([row[j] for row in x], 0, fn) for j in range(len(x[0]))]
        return [[cols[j][i] for j in range(len(cols))] for i in range(len(cols[0]))]
    return [along_axis(row, k - 1, fn) for row in x]


def ieee_rebin(x, d, sample, dt):
    out = x
    for k in range(len(d)):
        out = along_axis(out, k, lambda line, k=k: ieee_rebin_axis(line, d[k], sample, dt))
    return out


def ext_key(v):
    return (0, 0) if v == -INF else ((2, 0) if v == INF else (1, v))        # no NaN in the median families


def ieee_median(xs, even):
    s_ = sorted(xs, key=ext_key)
    n = len(s_)
    if n % 2 == 1 or not even:
        return s_[n // 2]
    a, b = s_[n // 2 - 1], s_[n // 2]
    if isinstance(a, float) or isinstance(b, float):
        return (float(a) + float(b)) / 2.0           # Python floats: -inf + inf = nan, inf + x = inf
    return (a + b) / 2


def ieee_medfilt1(xs, w):
    n = len(xs)
    h = w // 2
    return [sorted(xs[i - h:i + h + 1], key=ext_key)[h] if h <= i <= n - 1 - h else xs[i] for i in range(n)]


def ieee_medfilt2(x, w):
    r_, c_ = len(x), len(x[0])
    h = w // 2
    out = [list(row) for row in x]
    for i in range(h, r_ - h):
        for j in range(h, c_ - h):
            win = [x[a][b] for a in range(i - h, i + h + 1) for b in range(j - h, j + h + 1)]
            out[i][j] = sorted(win, key=ext_key)[len(win) // 2]
    return out


def ieee_uniq(xs):
    n = len(xs)
    out = [i for i in range(n) if xs[i] != xs[(i + 1) % n]]
    return out or [n - 1]


def same_ext(got, want, rel):
    """got: implementation's sample (float or token); want: IEEE expectation (non-finite float, or exact Fraction)"""
    g = fval(got)
    if isinstance(want, float):
        return (is_nan(g) and is_nan(want)) or g == want
    if is_nan(g) or abs(g) == INF:
        return False
    return abs(fractions.Fraction(g) - want) <= rel * max(1, abs(want))


def judge_nonfinite(c, r):
    """-> None (the result is what IEEE arithmetic gives for the property's rule) or a description of the problem"""
    f = c['f']
    dt = c.get('dtype', 'f8')
    if 'ok' not in r:
        return '%s raised %s on data with non-finite / near-overflow samples (IEEE arithmetic gives a result)' % (f, r.get('err'))
    if not protected(r):
        return '%s: argument modified / read-only copy / other import route / global state differ (%s)' % (
            f, [k for k in ('input_unchanged', 'readonly_ok', 'route_ok') if r.get(k) is False] + list(r.get('state_changed', [])))
    x = c['x']
    xv = [ev(v) for v in flatten(x)]
    rel = fractions.Fraction(1, 10 ** 12) if dt == 'f8' else fractions.Fraction(1, 10 ** 5)
    if f == 'smooth':
        want = ieee_smooth(xv, c['w'], bool(c['et']), dt)
    elif f == 'rebin':
        want = flatten(ieee_rebin(reshape(xv, shape_of(x)), c['d'], c['sample'], dt))
        if r['shape'] != list(c['d']) or r['dtype'] != NP_NAME[dt]:
            return 'rebin returned shape %s dtype %s, requested %s of %s' % (r['shape'], r['dtype'], c['d'], NP_NAME[dt])
    elif f == 'median':
        want = [ieee_median(xv, c['even'])]
    elif f == 'medfilt':
        want = ieee_medfilt1(xv, c['w']) if ndim(x) == 1 else flatten(ieee_medfilt2(reshape(xv, shape_of(x)), c['w']))
    elif f == 'uniq':
        want = ieee_uniq(xv)
        return None if r['ok'] == want else 'uniq returned %s, the runs end at %s' % (r['ok'], want)
    else:
        raise ValueError(f)
    got = flatten(r['ok']) if isinstance(r['ok'], list) else [r['ok']]
    if len(got) != len(want):
        return '%s returned %d samples, expected %d' % (f, len(got), len(want))
    badk = [k for k, (g, w_) in enumerate(zip(got, want)) if not same_ext(g, w_, rel)]
    if badk:
        k = badk[0]
        return '%s differs from the IEEE result of the rule at flat subscripts %s: got %s, expected %s' % (
            f, badk[:6], got[k], want[k] if isinstance(want[k], float) else float(want[k]))
    return None


def spoil(rng, vals, dt, nan_ok=True):
    """put non-finite / near-overflow samples into a list of ordinary values -> (values with tokens, kind)"""
    n = len(vals)
    v = list(vals)
    kind = rng.choice(['inf', '-inf', 'both', 'both-near', 'two-inf', 'nan', 'nan+inf', 'huge', 'huge'] if nan_ok else
                      ['inf', '-inf', 'both', 'both-near', 'two-inf', 'huge'])
    big = {'f8': 1.5e308, 'f4': 3.0e38}[dt]
    if kind == 'huge':
        sgn = rng.choice([-1, 1])
        k0 = rng.randrange(n)
        for j in range(k0, min(n, k0 + rng.choice([1, 2, 2, 3]))):
            v[j] = sgn * big
        if rng.random() < 0.5:
            v[rng.randrange(n)] = sgn * big
    else:
        toks = {'inf': ['inf'], '-inf': ['-inf'], 'both': ['inf', '-inf'], 'both-near': ['inf', '-inf'], 'two-inf': ['inf', 'inf'],
                'nan': ['nan'], 'nan+inf': ['nan', 'inf']}[kind]
        k0 = rng.randrange(n)
        for j, t in enumerate(toks):
            pos = (k0 + j * (rng.choice([1, 2]) if kind in ('both-near', 'two-inf') else rng.randrange(n))) % n
            v[pos] = t
        if rng.random() < 0.25:
            v[rng.choice([0, n - 1])] = toks[0]           # at an edge (edge_truncate replicates it)
    return v, kind


def gen_nonfinite(ctx, calls):
    """float data with +inf / -inf / NaN pixels or values whose window sum overflows the type, through all four
    functions.  IEEE 754 says what every output sample is (inf / NaN in the samples whose window holds the bad pixel,
    the ordinary value everywhere else); the call must RETURN that (numpy's default error state warns and goes on).
    Judged on the Python side (judge_nonfinite) against the rule of the property evaluated in IEEE arithmetic."""
    rng = ctx.rng
    for rep in range(ctx.n(150, 900)):
        dt = 'f4' if rep % 4 == 3 else 'f8'
        n = rng.choice([2, 3, 4, 5, 6, 8, 9, 12, 16, 24])
        base = values(rng, n, rng.choice(['dyadic', 'few', 'ramp']), bits=4)
        which = rep % 6
        if which == 0:
            x, kind = spoil(rng, base, dt)
            w = rng.randint(2, n) if n > 2 else 2
            calls.append(('nonfinite-smooth-' + kind, {'f': 'smooth', 'x': x, 'w': w, 'et': bool(rng.getrandbits(1)), 'dtype': dt,
                                                       'nonfinite': kind}))
        elif which == 1:
            x, kind = spoil(rng, base, dt)
            divs = [k for k in range(1, n) if n % k == 0]
            d = rng.choice(divs) if divs else n
            calls.append(('nonfinite-rebin-shrink-' + kind, {'f': 'rebin', 'x': x, 'dtype': dt, 'd': [d], 'sample': rep % 5 == 4,
                                                             'nonfinite': kind}))
        elif which == 2:
            x, kind = spoil(rng, base, dt)
            if kind == 'huge':
                x, kind = spoil(rng, base, dt) if False else ([('inf' if abs(fval(v)) > 1e30 else v) for v in x], 'inf')
            calls.append(('nonfinite-rebin-expand-' + kind, {'f': 'rebin', 'x': x, 'dtype': dt, 'd': [n * rng.choice([2, 3, 4, 8])],
                                                             'sample': rep % 5 == 4, 'nonfinite': kind}))
        elif which == 3:
            r_, c_ = rng.choice([2, 3, 4]), rng.choice([2, 4, 6])
            x, kind = spoil(rng, values(rng, r_ * c_, 'dyadic', bits=4), dt)
            if kind == 'huge':
                x, kind = [('-inf' if abs(fval(v)) > 1e30 else v) for v in x], '-inf'
            md = [rng.choice(['expand', 'keep', 'shrink']) for _ in range(2)]
            d = [axis_target(rng, a, m_, False) for a, m_ in zip((r_, c_), md)]
            calls.append(('nonfinite-rebin2-' + kind, {'f': 'rebin', 'x': reshape(x, (r_, c_)), 'dtype': dt, 'd': d, 'sample': False,
                                                       'nonfinite': kind}))
        elif which == 4:
            x, kind = spoil(rng, base, dt, nan_ok=False)
            if rep % 12 == 4:
                x = ['-inf', 'inf'] if rep % 24 == 4 else ['inf', '-inf', 'inf', '-inf']
                kind = 'both'
            calls.append(('nonfinite-median-' + kind, {'f': 'median', 'x': x, 'even': bool(rng.getrandbits(1)) or len(x) in (2, 4), 'dtype': dt,
                                                       'nonfinite': kind}))
            if n >= 3:
                calls.append(('nonfinite-medfilt1-' + kind, {'f': 'medfilt', 'x': x, 'w': rng.randrange(1, len(x) + 1, 2), 'dtype': dt,
                                                             'nonfinite': kind}))
        else:
            if (rep // 6) % 2:
                srt = sorted_runs(rng, n, True)
                k_lo, k_hi = rng.randint(0, 2), rng.randint(0, 2)
                x = ['-inf'] * k_lo + srt + ['inf'] * k_hi
                calls.append(('nonfinite-uniq', {'f': 'uniq', 'x': x, 'dtype': 'f8', 'idx': None, 'nonfinite': 'sorted-inf'}))
            else:
                r_, c_ = rng.choice([3, 4, 5]), rng.choice([3, 5, 6])
                x, kind = spoil(rng, values(rng, r_ * c_, 'dyadic', bits=4), dt, nan_ok=False)
                calls.append(('nonfinite-medfilt2-' + kind, {'f': 'medfilt', 'x': reshape(x, (r_, c_)), 'w': 3, 'dtype': dt,
                                                             'nonfinite': kind}))


ARGSTYLES = {'smooth': ['npint', 'npint32', 'intflag', 'npbool', 'positional'],
             'median': ['intflag', 'npbool', 'explicit'],
             'medfilt': ['npint', 'npint32', 'explicit'],
             'rebin': ['list', 'npint', 'intflag', 'npbool', 'explicit']}


def gen_argstyles(ctx, calls):
    """the same calls with the scalar / option arguments in the other forms a caller may use: numpy integer widths,
    int 0/1 or numpy.bool_ flags, keywords given explicitly with their default values, positional edge_truncate,
    the new shape as a list / tuple of numpy integers.  The answer must not depend on it."""
    rng = ctx.rng
    pool = [(t, c) for t, c in calls if c['f'] in ARGSTYLES and not c.get('observe') and not c.get('nonfinite')]
    for tag, c in rng.sample(pool, min(len(pool), ctx.n(90, 1200))):
        c2 = dict(c)
        c2['argstyle'] = rng.choice(ARGSTYLES[c['f']])
        calls.append((tag, c2))


LAYOUTS_1D = ['c', 'c', 'c', 'strided', 'rev', 'ro', 'be']
LAYOUTS_ND = ['c', 'c', 'f', 't', 'strided', 'ro', 'be']


def gen_calls(ctx):
    calls = []
    gen_smooth(ctx, calls)
    gen_median(ctx, calls)
    gen_uniq(ctx, calls)
    gen_uniq_close(ctx, calls)
    gen_rebin(ctx, calls)
    gen_mixed(ctx, calls)
    gen_dtypes(ctx, calls)
    gen_degenerate(ctx, calls)
    gen_anyrank(ctx, calls)
    gen_histories(ctx, calls)
    gen_nonfinite(ctx, calls)
    gen_argstyles(ctx, calls)
    # memory layout of the array argument: drawn for every call (contiguous / strided view / reversed view /
    # Fortran order / transposed view / read-only)
    for _, c in calls:
        if 'layout' not in c and 'x' in c:
            c['layout'] = ctx.rng.choice(LAYOUTS_1D if ndim(c['x']) <= 1 else LAYOUTS_ND)
        # import route of the call (the other route is called as well and must agree)
        c['route'] = ctx.rng.choice(['package', 'module'])
    return calls


# ---------------------------------------------------------------- case terms

def ndim(x):
    n = 0
    while isinstance(x, list):
        n += 1
        x = x[0] if x else None
    return n


def size_of(x):
    return len(flatten(x))


def flatten(x):
    if isinstance(x, list):
        out = []
        for r in x:
            out.extend(flatten(r))
        return out
    return [x]


def nested(x, nd):
    return {1: qlist, 2: qlist2, 3: qlist3}[nd](x)


def shape_of(x):
    s = []
    while isinstance(x, list):
        s.append(len(x))
        x = x[0] if x else None
    return s


def nestedn(x, nd):
    """nested list literal of any depth"""
    if nd == 1:
        return qlist(x)
    return C.coq_list([nestedn(r, nd - 1) for r in x])


def rres_term(r):
    if 'ok' in r:
        nd = len(r['shape'])
        if nd in (1, 2, 3) and (all(s > 0 for s in r['shape']) or r['shape'] == [0]):
            return '(R%d %s)' % (nd, nested(r['ok'], nd))
        return 'ROther'
    return 'RValueError' if r.get('err') == 'ValueError' else 'ROther'


def rresn_term(r, n):
    """result of rebin as a term of type rresN n (any rank); a result of another rank is RNOther"""
    if 'ok' in r:
        if len(r['shape']) == n and all(s > 0 for s in r['shape']):
            return '(RN (n:=%d) %s)' % (n, nestedn(r['ok'], n))
        return 'RNOther'
    return 'RNValueError' if r.get('err') == 'ValueError' else 'RNOther'


def protected(r):
    """generic bookkeeping of every call: arguments bit-identical afterwards, same answer on a read-only input"""
    return (bool(r.get('input_unchanged', True)) and bool(r.get('readonly_ok', True)) and bool(r.get('route_ok', True))
            and not r.get('state_changed'))


def smooth_tols(xs, w, rel):
    """per-sample tolerance rel * max(1, largest magnitude inside the sample's (clamped) window)"""
    n = len(xs)
    wodd = w + 1 if w % 2 == 0 else w
    h = max(wodd // 2, 0)
    ax = [abs(v) for v in xs]
    out = []
    for i in range(n):
        lo, hi = max(0, min(n - 1, i - h)), max(0, min(n - 1, i + h))
        out.append(rel * fractions.Fraction(max(1.0, max(ax[lo:hi + 1]))))    # exact, short literal for ordinary arrays
    return out


def sums_exact(xs, w):
    """True when every partial sum smooth() can form on xs is exact in double arithmetic: all values are multiples
    of 2^-b and (sum |x| + width * max |x|) * 2^b < 2^52.  Then the only rounding in an output sample is the final
    division by float(width) (correctly rounded by IEEE 754), so the sample must be the double nearest to the exact
    mean -- equal to it when the exact mean is a double (1.0, an integer, a short dyadic)."""
    if not xs:
        return True
    fr = [fractions.Fraction(v) for v in xs]
    b = max(f_.denominator for f_ in fr)
    if b & (b - 1) or b > 2 ** 40:
        return False
    tot = sum(abs(f_) for f_ in fr) + (abs(w) + 2) * max(abs(f_) for f_ in fr)
    return tot * b < 2 ** 52


def column_like(shape):
    """shape (n,), (n, 1), (n, 1, 1) ... : numpy's leading-axis indexing makes these behave as 1-D arrays of length n"""
    return len(shape) >= 1 and all(s == 1 for s in shape[1:])


def case_term(c, r):
    """-> (coq term or None, direct problem or None)"""
    f = c['f']
    dt = c.get('dtype', 'f8')
    if c.get('observe'):
        return None, None          # outside the modelled domain: outcome recorded, both import routes must agree
    if c.get('nonfinite'):
        return None, judge_nonfinite(c, r)      # IEEE expectations, decided on the Python side
    if f == 'smooth':
        if 'ok' not in r:
            return None, 'smooth raised %s' % r.get('err')
        shp = shape_of(c['x']) if c['x'] else [0]
        if r['shape'] != shp:
            return None, 'smooth returned shape %s for an input of shape %s' % (r['shape'], shp)
        xs, out = flatten(c['x']), flatten(r['ok'])
        meta = r['dtype'] == NP_NAME[dt] and protected(r)
        if dt == 'f8' and sums_exact(xs, c['w']):
            return '(CSmoothX %s %s %s %s %s)' % (qlist(xs), C.zlit(c['w']), C.boollit(bool(c['et'])),
                                                 C.boollit(meta), qlist(out)), None
        tols = smooth_tols(xs, c['w'], fractions.Fraction(1, 10 ** 12) if dt == 'f8' else fractions.Fraction(1, 10 ** 5))
        return '(CSmooth %s %s %s %s %s %s)' % (qlist(xs), C.zlit(c['w']), C.boollit(bool(c['et'])), qlist(tols),
                                                C.boollit(meta), qlist(out)), None
    if f == 'median':
        if 'ok' not in r:
            return None, 'median raised %s' % r.get('err')
        if not r['ndim0']:
            return None, 'median did not return a scalar (shape %s)' % r.get('shape')
        return '(CMedian %s %s %s %s)' % (qlist(flatten(c['x'])), C.boollit(c['even']), C.boollit(protected(r)), C.qlit(r['ok'])), None
    if f == 'median_axis':
        if 'ok' not in r:
            return None, 'median(axis) raised %s' % r.get('err')
        shp = shape_of(c['x'])
        want = [shp[1 - c['axis']]]
        if r['shape'] != want:
            return None, 'median(axis=%d) returned shape %s for an input of shape %s' % (c['axis'], r['shape'], shp)
        return '(CMedianAxis %s %s %s %s)' % (qlist2(c['x']), C.zlit(c['axis']), C.boollit(protected(r)), qlist(r['ok'])), None
    if f == 'medfilt':
        nd = ndim(c['x'])
        if nd >= 3:
            # median.py: only 1-D and 2-D arrays can be filtered, everything else is a ValueError
            if r.get('err') == 'ValueError' and protected(r):
                return None, None          # checked here, nothing to evaluate in Coq
            return None, 'median(width) of a %d-D array: %s instead of ValueError' % (nd, r.get('err', 'a result of shape %s' % r.get('shape')))
        if 'ok' in r:
            good = r['dtype'] == NP_NAME[dt] and r['shape'] == shape_of(c['x']) and protected(r)
            e = '(F%dOk %s)' % (nd, nested(r['ok'], nd)) if good else 'F%dOther' % nd
        else:
            e = 'F%dValueError' % nd if r.get('err') == 'ValueError' and protected(r) else 'F%dOther' % nd
        return '(CMedFilt%d %s %s %s)' % (nd, nested(c['x'], nd), C.zlit(c['w']), e), None
    if f == 'uniq':
        if 'ok' not in r:
            return None, 'uniq raised %s' % r.get('err')
        want_dt = 'int64' if c.get('idx') is None else {'i8': 'int64', 'i4': 'int32'}[c.get('idx_dtype', 'i8')]
        meta = r['dtype'] == want_dt and len(r['shape']) == 1 and protected(r)
        idx = C.optlit(c.get('idx'), zlist)
        xs = flatten(c['x'])
        if c['dtype'] == 'f8':
            return '(CUniqQ %s %s %s %s)' % (qlist(xs), idx, C.boollit(meta), zlist(r['ok'])), None
        return '(CUniqZ %s %s %s %s)' % (zlist(xs), idx, C.boollit(meta), zlist(r['ok'])), None
    if f == 'rebin':
        nd = ndim(c['x'])
        isint = dt not in ('f8', 'f4')
        tol = '0' if isint else TOL[dt]
        meta = protected(r)
        if 'ok' in r:
            meta = meta and r['dtype'] == NP_NAME[dt] and r['shape'] == list(c['d']) and r['is_ndarray']
        if nd >= 4 or c.get('anyrank'):
            # the model for every rank (rebin_nd, induction over the list of axes)
            return '(CRebinN %d %s %s %s %s %s %s %s)' % (nd, 'DInt' if isint else 'DFloat', C.boollit(c['sample']),
                                                          nestedn(c['x'], nd), zlist(c['d']), tol, C.boollit(meta),
                                                          rresn_term(r, nd)), None
        return '(CRebin%d %s %s %s %s %s %s %s)' % (nd, 'DInt' if isint else 'DFloat', C.boollit(c['sample']), nested(c['x'], nd),
                                                    zlist(c['d']), tol, C.boollit(meta), rres_term(r)), None

    raise ValueError(f)


def history_steps(c, r):
    """the steps of a history as ordinary (call, result) pairs on the ORIGINAL values"""
    out = []
    cur = c['x']
    for st, o in zip(c['steps'], r.get('steps', [])):
        if st['f'] == 'mutate':
            cur = st['x']          # the caller overwrote the array in place: later steps are judged on these values
            continue
        ck = dict(st)
        ck['x'] = cur
        ck['dtype'] = c.get('dtype', 'f8')
        if ck['f'] == 'uniq':
            ck['idx'] = None
        out.append((ck, o))
    return out


def signature(tag, c, r, verdict):
    f = c['f']
    what = 'property' if verdict & 2 else 'model'
    if not protected(r):
        what = ('argument-modified:' if not r.get('input_unchanged', True) else
                'readonly-differs:' if not r.get('readonly_ok', True) else
                'global-state-changed:' if r.get('state_changed') else 'import-routes-differ:') + what
    if f == 'rebin':
        dt = c['dtype']
        kind = 'f' if dt in ('f8', 'f4') else ('u' if dt.startswith('u') else 'i')
        shp = shape_of(c['x'])
        if len(shp) == len(c['d']):
            inexact = any(float_index_inexact(a, b) for a, b in zip(shp, c['d']))
            ops = 'expand' if any(b > a for a, b in zip(shp, c['d'])) else 'noexpand'
            if kind != 'f' and not c['sample'] and any(b > a and (b // a) & (b // a - 1) for a, b in zip(shp, c['d'])):
                ops += '-npot'     # integer dtype, interpolation with a factor that is not a power of two
        else:
            inexact, ops = False, 'rankchange'
        out = 'ok' if 'ok' in r else r.get('err', '?')
        return 'C14:rebin:%s:%s:%s%s:impl=%s:%s' % (kind, ops, 'floatidx' if inexact else 'exactidx',
                                                   ':sample' if c['sample'] else '', out, what)
    if f == 'smooth':
        return 'C14:smooth:%s:%s:%s' % ('et' if c['et'] else 'plain', smooth_zone(len(c['x']), c['w'], bool(c['et'])), what)
    if f == 'uniq':
        return 'C14:uniq:%s:%s' % (tag.split('-', 1)[1], what)
    if f == 'medfilt':
        return 'C14:%s:impl=%s:%s' % (tag, 'ok' if 'ok' in r else r.get('err', '?'), what)
    return 'C14:%s:%s' % (tag, what)


MEANING = ('verdict bit 1: the transliterated model M (C14/Model.v) differs from the implementation; bit 2: the '
           "implementation's output contradicts the IDL-rule specification S (smooth_spec / median_spec / runs_last / rebin*_spec) "
           'or the dtype/shape bookkeeping')


def correspond(ctx, proof_ok=True):
    ok, log = C.coq_make(['C14/Model.vo'])
    if not ok:
        raise RuntimeError('C14/Model.v does not build:\n' + log[-2000:])
    calls = gen_calls(ctx)
    nb = 8
    batches = [calls[i::nb] for i in range(nb)]
    outs = C.run_impl_parallel('c14_impl.py', [[c for _, c in b] for b in batches])
    results = [None] * len(calls)
    for bi, o in enumerate(outs):
        for k, r in enumerate(o['results']):
            results[bi + k * nb] = r
    ctx.coverage['pydl_file'] = outs[0]['pydl_file']
    ctx.coverage['numpy'] = outs[0]['numpy']
    # process-global settings: snapshot before `import pydl` (third-party packages already loaded) vs after it, in every
    # one of the fresh interpreters; and before the first call vs after the last
    imp = sorted(set(k for o in outs for k in o.get('import_changed', [])))
    end = sorted(set(k for o in outs for k in o.get('state_changed_at_end', [])))
    ctx.coverage['global_state'] = {'interpreters': len(outs), 'changed_by_import': imp, 'changed_by_calls': end,
                                    'watched': ['np.geterr', 'np.geterrcall', 'np.printoptions', 'warnings.filters', 'os.environ']}
    if imp:
        o = next(o for o in outs if o.get('import_changed'))
        ctx.violation('C14:import:global-state:' + '+'.join(imp),
                      '`import pydl` changes process-global settings %s: %s -> %s (data with non-finite samples then no longer '
                      'give the IEEE result; see the nonfinite-* cases)' % (imp, o.get('state_before_import'), o.get('state_after_import')),
                      {'kind': 'broken-correspondence', 'item': 'pydl/__init__.py import-time side effects', 'changed': imp,
                       'before': o.get('state_before_import'), 'after': o.get('state_after_import')}, False)
    terms = []   # (call index, term)   -- a history contributes one term per step (hstep[len(terms)] = step number)
    direct = []
    checked_here = []      # calls decided on the Python side (3-D running median -> ValueError) or only observed
    hstep = {}
    for ci, ((tag, c), r) in enumerate(zip(calls, results)):
        if c['f'] == 'history':
            for k, (c_k, r_k) in enumerate(history_steps(c, r)):
                t, problem = case_term(c_k, r_k)
                if t is None:
                    direct.append((ci, 'step %d: %s' % (k, problem)))
                else:
                    hstep[len(terms)] = k
                    terms.append((ci, t))
            continue
        t, problem = case_term(c, r)
        if t is None and problem is None:
            checked_here.append(ci)
        elif t is None:
            direct.append((ci, problem))
        else:
            terms.append((ci, t))
    cc = C.CoqCases(ctx.work, HEADER, 'run_cases', shard=ctx.n(80, 200))
    verdicts = cc.run([t for _, t in terms], tag='cases')
    ctx.coverage['coq_eval_s'] = round(cc.coq_seconds, 1)

    dist = {}
    for (tag, c), r in zip(calls, results):
        k = tag + ':' + ('ok' if ('ok' in r or 'steps' in r) else r.get('err', '?'))
        dist[k] = dist.get(k, 0) + 1
    bad = [(ci, t, v, hstep.get(k)) for k, ((ci, t), v) in enumerate(zip(terms, verdicts)) if v != 0]
    fams = {}
    for tag, _ in calls:
        fams[tag.split('-')[0]] = fams.get(tag.split('-')[0], 0) + 1
    ctx.coverage.update({
        'evaluations': len(terms),
        'distinct_nontrivial': len(set(t for _, t in terms)),
        'rule': 'one evaluation = one call of pydl.smooth/median/uniq/rebin on a generated array, its result compared inside Coq '
                '(vm_compute) with the transliterated model M and with the IDL-rule specification S; floats are passed as exact rationals '
                'and compared at 1e-12 (float64) / 1e-5 (float32) relative to the largest magnitude in the sample\'s window, '
                'integers/medians/subscripts exactly; on the Python side, for every call: result dtype/shape, every array argument '
                '(in a random memory layout: contiguous / strided / reversed / Fortran / transposed / read-only) bit-identical after the call, '
                'same answer on a read-only copy -- these enter the spec bit; a history = several calls on ONE array object, each step '
                'compared with the model on the original values (one evaluation per step); distinct = distinct Coq case terms',
        'cases_by_family': fams,
        'cases_by_kind_and_outcome': dist,
        'model_disagreements': sum(1 for b in bad if b[2] & 1),
        'spec_violations': sum(1 for b in bad if b[2] & 2),
        'direct_problems': len(direct),
        'samples': [{'call': calls[ci][1], 'impl': results[ci], 'coq_case': t[:400]}
                    for ci, t in (terms[:1] + terms[len(terms) // 2:len(terms) // 2 + 1] + terms[-1:])],
    })
    # informational only: results that share memory with their argument (on the good tree: smooth() with width < 3
    # returns its argument; the C14 statement constrains values / shape / dtype, not object identity)
    alias = {}
    for (tag, c), r in zip(calls, results):
        pairs = history_steps(c, r) if c['f'] == 'history' else [(c, r)]
        for ck, o in pairs:
            if o.get('aliases_input'):
                alias[ck['f']] = alias.get(ck['f'], 0) + 1
    ctx.coverage['aliasing_results'] = sum(alias.values())
    ctx.coverage['aliasing_by_function'] = alias
    ctx.coverage['layouts'] = {}
    for _, c in calls:
        ctx.coverage['layouts'][c.get('layout', '-')] = ctx.coverage['layouts'].get(c.get('layout', '-'), 0) + 1
    seen = set()
    for ci, t, v, step in bad:
        tag, c = calls[ci]
        if step is not None:
            c_k, r_k = history_steps(c, results[ci])[step]
            mutated = not all(o.get('input_unchanged', True) for o in results[ci]['steps'][:step + 1])
            sig = 'C14:history:%s:%s:%s' % (c_k['f'], 'argument-modified' if mutated else 'argument-intact',
                                            'property' if v & 2 else 'model')
            if sig in seen:
                continue
            seen.add(sig)
            ctx.violation(sig, 'step %d (%s) of a multi-call history on one array object does not give the answer for the '
                          'original values%s' % (step, c_k['f'], ' (an earlier call modified its argument)' if mutated else ''),
                          {'kind': 'failing-input', 'call': c, 'step': step, 'step_call': {k_: v_ for k_, v_ in c_k.items() if k_ != 'x'},
                           'impl_result': r_k, 'all_steps': results[ci]['steps'], 'coq_case': t, 'verdict': v, 'meaning': MEANING},
                          bool(v & 2))
            continue
        sig = signature(tag, c, results[ci], v)
        if sig in seen:
            continue
        seen.add(sig)
        if v & 2:
            ctx.violation(sig, 'implementation contradicts the IDL rule on %s' % tag,
                          {'kind': 'failing-input', 'call': c, 'impl_result': results[ci], 'coq_case': t, 'verdict': v,
                           'meaning': MEANING}, True)
        else:
            ctx.violation(sig, 'model and implementation disagree on %s (the specification accepts the output or does not apply)' % tag,
                          {'kind': 'broken-correspondence', 'item': 'C14.Model.run_case', 'call': c, 'impl_result': results[ci],
                           'coq_case': t, 'verdict': v, 'meaning': MEANING}, False)
    for ci, why in direct:
        tag, c = calls[ci]
        sig = 'C14:%s:%s' % (c['f'], re.sub(r'[\[(][0-9, ]*[\])]', 'S', why.split(' raised ')[-1])[:60])
        if sig in seen:
            continue
        seen.add(sig)
        ctx.violation(sig, '%s on %s' % (why, tag),
                      {'kind': 'failing-input', 'call': c, 'impl_result': results[ci]}, True)
    # calls outside the modelled domain: the outcome is recorded; the two import routes, the read-only repeat and the
    # argument bytes must still agree (a disagreement is reported without a failing input: no specification there)
    observed = {}
    for ci in checked_here:
        tag, c = calls[ci]
        r = results[ci]
        if not c.get('observe'):
            continue
        k = '%s %s: %s' % (c['f'], 'x'.join(str(a) for a in (shape_of(c['x']) if c['x'] else [0])),
                           'ok' if 'ok' in r else r.get('err', '?'))
        observed[k] = observed.get(k, 0) + 1
        if not protected(r):
            sig = 'C14:observed:%s:%s' % (c['f'], 'argument-modified' if not r.get('input_unchanged', True) else
                                          'readonly-differs' if not r.get('readonly_ok', True) else 'import-routes-differ')
            if sig not in seen:
                seen.add(sig)
                ctx.violation(sig, 'outside the modelled domain (%s): the call does not give the same answer through both import '
                              'routes / on a read-only copy, or modifies its argument' % tag,
                              {'kind': 'broken-correspondence', 'item': 'pydl.%s via pydl/__init__.py vs pydl/%s.py' % (c['f'] if c['f'] != 'medfilt' else 'median', c['f'] if c['f'] != 'medfilt' else 'median'),
                               'call': c, 'impl_result': r}, False)
    ctx.coverage['observed_outside_model'] = observed
    ctx.coverage['decided_on_python_side'] = len(checked_here) - sum(observed.values())
    routes = {}
    for _, c in calls:
        routes[c.get('route', '-')] = routes.get(c.get('route', '-'), 0) + 1
    ctx.coverage['import_routes'] = routes
    ctx.coverage['import_route_disagreements'] = sum(1 for r in results if r.get('route_ok') is False)


def replay(ctx, rep):
    c = rep.get('call')
    if not c:
        print('replay file has no call (kind=%s, item=%s)' % (rep.get('kind'), rep.get('item')))
        return 2
    out = C.run_impl('c14_impl.py', [c])
    r = out['results'][0]
    if c['f'] == 'history':
        print('history on one array object, layout %s, values %s' % (c.get('layout'), c['x']))
        C.coq_make(['C14/Model.vo'])
        cc = C.CoqCases(ctx.work, HEADER, 'run_cases', shard=50)
        pairs = history_steps(c, r)
        ts = [case_term(ck, rk) for ck, rk in pairs]
        vs = cc.run([t for t, _ in ts if t is not None], tag='replay') if any(t for t, _ in ts) else []
        vi = iter(vs)
        for k, ((ck, rk), (t, problem)) in enumerate(zip(pairs, ts)):
            print(' step %d %s -> %s | argument intact: %s | verdict %s' % (
                k, {a_: b_ for a_, b_ in ck.items() if a_ not in ('x', 'dtype')}, rk.get('ok', rk.get('err')),
                rk.get('input_unchanged'), next(vi) if t is not None else problem))
        print('(verdict 0 = the answer for the ORIGINAL values; +1 model differs; +2 specification violated)')
        return 0
    print('call   :', c)
    print('impl   :', r)
    print('before :', rep.get('impl_result'))
    t, problem = case_term(c, r)
    if t is not None:
        ok, log = C.coq_make(['C14/Model.vo'])
        cc = C.CoqCases(ctx.work, HEADER, 'run_cases', shard=10)
        v = cc.run([t], tag='replay')[0]
        print('verdict:', v, '(0 = agrees with model and specification; +1 model differs; +2 specification violated)')
        if c['f'] == 'rebin' and c['x']:
            nd = ndim(c['x'])
            kind = 'DFloat' if c['dtype'] in ('f8', 'f4') else 'DInt'
            if nd > 3 or c.get('anyrank'):
                print('spec   :', cc.show('rebin_nd_spec %s %s %d %s %s' % (kind, C.boollit(c['sample']), nd, nestedn(c['x'], nd),
                                                                            zlist(c['d'])))[:700])
            else:
                print('spec   :', cc.show('rebin%d_spec %s %s %s %s' % (nd, kind, C.boollit(c['sample']), nested(c['x'], nd),
                                                                       zlist(c['d'])))[:700])
        if not protected(r):
            print('routes :', 'route %s gave the result above; the other import route gave %s' % (r.get('route'), r.get('other_route_result')))
    else:
        print('direct :', problem)
    return 0
