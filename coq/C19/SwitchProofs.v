(* C19 -- air <-> vacuum across the 2000 A switch: the round trip for every wavelength up to 30 um, the gap of the second
   direction just above the switch, monotonicity. *)
From Coq Require Import Reals Lra Lia.
From Interval Require Import Tactic.
From PV Require Import Generated.AstroConsts C19.Model C19.AirVacProofs.
Open Scope R_scope.

(* vactoair(airtovac(a)) = a to 1e-6 A for EVERY a up to 30 um: below the switch both functions are the identity, and from
   2000 A on airtovac(a) > a >= 2000 so that vactoair takes its conversion branch *)
Lemma roundtrip_all : forall a, a <= 300000 -> Rabs (vactoair_R (airtovac_R a) - a) <= 1 / 1000000.
Proof.
  intros a H. destruct (Rlt_le_dec a 2000) as [L|L].
  - destruct (below_2000_unchanged a L) as [E1 E2]. rewrite E1, E2.
    replace (a - a) with 0 by ring. rewrite Rabs_R0. lra.
  - apply vactoair_airtovac. lra.
Qed.

(* the restriction "wherever vactoair(v) >= 2000 A" of the other direction is necessary: a vacuum wavelength just above the
   switch goes to an air wavelength below it, which airtovac hands back unchanged -- off by more than half an Angstrom *)
Lemma second_direction_gap : forall v, 2000 <= v <= 2000 + 1 / 2 ->
  vactoair_R v < 2000 /\ airtovac_R (vactoair_R v) = vactoair_R v /\ 1 / 2 < v - airtovac_R (vactoair_R v).
Proof.
  intros v H.
  assert (A : v / g (sg v) < 2000 - 1 / 10).
  { unfold airtovac_fact_R, airtovac_sigma2_R. interval with (i_prec 50). }
  assert (A2 : 6 / 10 < v - v / g (sg v)).
  { unfold airtovac_fact_R, airtovac_sigma2_R. interval with (i_bisect v, i_prec 50). }
  rewrite vactoair_R_above by lra.
  assert (B : v / g (sg v) < 2000) by lra.
  destruct (below_2000_unchanged (v / g (sg v)) B) as [E _].
  rewrite E. split; [lra|]. split; [reflexivity|]. lra.
Qed.

(* ---------- monotonicity ---------- *)
Lemma Qd_range : forall s t, 0 <= s <= 26 -> 0 <= t <= 26 -> 0 < Qd s t <= 3 / 1000000.
Proof.
  intros s t Hs Ht. unfold Qd. split.
  - apply Rplus_lt_0_compat; apply Rdiv_lt_0_compat; try lra; apply Rmult_lt_0_compat; lra.
  - (* without Interval: each denominator is at least its value at s = t = 26 *)
    assert (D1 : (476037 / 2000 - 26) * (476037 / 2000 - 26) <= (476037 / 2000 - s) * (476037 / 2000 - t)) by nra.
    assert (D2 : (28681 / 500 - 26) * (28681 / 500 - 26) <= (28681 / 500 - s) * (28681 / 500 - t)) by nra.
    pose proof (div_between (1158421 / 20000000) ((476037 / 2000 - 26) * (476037 / 2000 - 26)) ((476037 / 2000) * (476037 / 2000))
                  ((476037 / 2000 - s) * (476037 / 2000 - t)) ltac:(lra) ltac:(lra) D1 ltac:(nra)) as [_ A].
    pose proof (div_between (167917 / 100000000) ((28681 / 500 - 26) * (28681 / 500 - 26)) ((28681 / 500) * (28681 / 500))
                  ((28681 / 500 - s) * (28681 / 500 - t)) ltac:(lra) ltac:(lra) D2 ltac:(nra)) as [_ B].
    assert (E1 : 1158421 / 20000000 / ((476037 / 2000 - 26) * (476037 / 2000 - 26)) <= 129 / 100000000) by lra.
    assert (E2 : 167917 / 100000000 / ((28681 / 500 - 26) * (28681 / 500 - 26)) <= 171 / 100000000) by lra.
    lra.
Qed.

Lemma sg_decreasing : forall x y, 2000 <= x -> x < y -> sg y < sg x.
Proof.
  intros x y Hx Hy. unfold airtovac_sigma2_R.
  assert (P : 0 < 10000 / y < 10000 / x).
  { split. apply Rdiv_lt_0_compat; lra. unfold Rdiv. apply Rmult_lt_compat_l. lra. apply Rinv_lt_contravar; nra. }
  nra.
Qed.

(* the factor decreases with wavelength *)
Lemma fact_decreasing : forall x y, 2000 <= x -> x < y -> g (sg y) < g (sg x).
Proof.
  intros x y Hx Hy.
  pose proof (sg_range x Hx) as Sx. pose proof (sg_range y ltac:(lra)) as Sy.
  pose proof (sg_decreasing x y Hx Hy) as D.
  pose proof (g_diff (sg x) (sg y) ltac:(lra) ltac:(lra)) as E.
  pose proof (Qd_range (sg x) (sg y) ltac:(lra) ltac:(lra)) as Q.
  assert (0 < (sg x - sg y) * Qd (sg x) (sg y)) by (apply Rmult_lt_0_compat; lra). lra.
Qed.

(* vactoair is increasing from 2000 A on (and, trivially, below) *)
Lemma vactoair_increasing_above : forall x y, 2000 <= x -> x < y -> vactoair_R x < vactoair_R y.
Proof.
  intros x y Hx Hy. rewrite !vactoair_R_above by lra.
  pose proof (fact_decreasing x y Hx Hy) as D.
  pose proof (g_range (sg x) ltac:(pose proof (sg_range x Hx); lra)) as Gx.
  pose proof (g_range (sg y) ltac:(pose proof (sg_range y ltac:(lra)); lra)) as Gy.
  apply Rlt_trans with (x / g (sg y)).
  - unfold Rdiv. apply Rmult_lt_compat_l. lra. apply Rinv_lt_contravar. nra. exact D.
  - unfold Rdiv. apply Rmult_lt_compat_r. apply Rinv_0_lt_compat. lra. exact Hy.
Qed.

(* ... but NOT across the switch: the threshold is applied to the vacuum wavelength, so 2000 A (converted) lands below
   1999.9 A (not converted) *)
Lemma vactoair_not_monotone_at_switch : vactoair_R 2000 < vactoair_R (2000 - 1 / 10).
Proof.
  destruct (below_2000_unchanged (2000 - 1 / 10) ltac:(lra)) as [_ E]. rewrite E.
  rewrite vactoair_R_above by lra.
  pose proof (g_range (sg 2000) ltac:(pose proof (sg_range 2000 ltac:(lra)); lra)) as G.
  apply Rmult_lt_reg_r with (g (sg 2000)). lra.
  unfold Rdiv. rewrite Rmult_assoc, Rinv_l by lra. nra.
Qed.

(* a multiplier a <= x times the drop of the factor between x and y is a small fraction of y - x *)
Lemma fact_drop_small : forall a x y, 0 < a <= x -> 2000 <= x -> x <= y ->
  0 <= a * (g (sg x) - g (sg y)) <= (y - x) * (15 / 100000).
Proof.
  intros a x y Ha Hx Hy.
  pose proof (sg_range x Hx) as Sx. pose proof (sg_range y ltac:(lra)) as Sy.
  rewrite (g_diff (sg x) (sg y)) by lra.
  pose proof (Qd_range (sg x) (sg y) ltac:(lra) ltac:(lra)) as Q.
  set (q := Qd (sg x) (sg y)) in *.
  assert (E : sg x - sg y = (y - x) * ((x + y) * (100000000 / (x * x * (y * y))))).
  { unfold airtovac_sigma2_R. field. split; lra. }
  rewrite E.
  (* a (x + y) 1e8 / (x^2 y^2) <= 2 sg x <= 50 *)
  set (k := a * ((x + y) * (100000000 / (x * x * (y * y))))).
  assert (K : 0 <= k <= 50).
  { unfold k.
    assert (Px : 0 < x * x) by (apply Rmult_lt_0_compat; lra).
    assert (Py : 0 < y * y) by (apply Rmult_lt_0_compat; lra).
    assert (P : 0 < 100000000 / (x * x * (y * y))) by (apply Rdiv_lt_0_compat; [lra | apply Rmult_lt_0_compat; assumption]).
    split. { apply Rmult_le_pos; [lra|]. apply Rmult_le_pos; lra. }
    assert (Sx' : sg x = 100000000 / (x * x)) by (unfold airtovac_sigma2_R; field; lra).
    assert (B : a * ((x + y) * (100000000 / (x * x * (y * y)))) <= 2 * (100000000 / (x * x))).
    { assert (E2 : 2 * (100000000 / (x * x)) - a * ((x + y) * (100000000 / (x * x * (y * y))))
                   = (100000000 / (x * x * (y * y))) * (2 * (y * y) - a * (x + y))) by (field; split; lra).
      assert (0 <= 2 * (y * y) - a * (x + y)) by nra.
      assert (0 <= (100000000 / (x * x * (y * y))) * (2 * (y * y) - a * (x + y))) by (apply Rmult_le_pos; lra).
      lra. }
    lra. }
  replace (a * ((y - x) * ((x + y) * (100000000 / (x * x * (y * y)))) * q)) with ((y - x) * (k * q)) by (unfold k; ring).
  assert (0 <= k * q <= 15 / 100000) by nra.
  split; [apply Rmult_le_pos; lra|]. apply Rmult_le_compat_l; lra.
Qed.

(* one iteration step v(a) = a * fact(a) is increasing and expands by at most 1.0004 *)
Lemma step_increasing : forall x y, 2000 <= x -> x < y ->
  0 < y * g (sg y) - x * g (sg x) <= (y - x) * (1 + 4 / 10000).
Proof.
  intros x y Hx Hy.
  pose proof (fact_drop_small x x y ltac:(lra) Hx ltac:(lra)) as D.
  pose proof (g_range (sg y) ltac:(pose proof (sg_range y ltac:(lra)); lra)) as Gy.
  replace (y * g (sg y) - x * g (sg x)) with ((y - x) * g (sg y) - x * (g (sg x) - g (sg y))) by ring.
  split; nra.
Qed.

Lemma airtovac_increasing_above : forall x y, 2000 <= x -> x < y -> airtovac_R x < airtovac_R y.
Proof.
  intros x y Hx Hy. rewrite !airtovac_R_above by lra.
  destruct (chain_ranges x Hx) as (_ & Gx & Vx & _ & _ & _). cbv zeta in *.
  destruct (chain_ranges y ltac:(lra)) as (_ & _ & Vy & _ & G1y & _). cbv zeta in *.
  pose proof (step_increasing x y Hx Hy) as S.
  set (vx := x * g (sg x)) in *. set (vy := y * g (sg y)) in *.
  pose proof (fact_drop_small x vx vy ltac:(unfold vx; nra) Vx ltac:(lra)) as D.
  replace (y * g (sg vy) - x * g (sg vx)) with ((y - x) * g (sg vy) - x * (g (sg vx) - g (sg vy))) in * by ring.
  assert (0 < (y - x) * g (sg vy) - x * (g (sg vx) - g (sg vy))) by nra. lra.
Qed.

(* airtovac is strictly increasing on all wavelengths, ACROSS the switch too (it jumps upwards there) *)
Lemma airtovac_increasing : forall x y, x < y -> airtovac_R x < airtovac_R y.
Proof.
  intros x y H. destruct (Rlt_le_dec x 2000) as [Lx|Lx]; destruct (Rlt_le_dec y 2000) as [Ly|Ly].
  - destruct (below_2000_unchanged x Lx) as [-> _]. destruct (below_2000_unchanged y Ly) as [-> _]. exact H.
  - destruct (below_2000_unchanged x Lx) as [-> _]. destruct (vacuum_gt_air y Ly) as [A _]. lra.
  - lra.
  - apply airtovac_increasing_above; assumption.
Qed.
