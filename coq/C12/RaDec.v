(* C12 -- "for Cartesian and RA/Dec input alike".  cap_distance sends two-column input through
   angles_to_x(points, latitude=True) (extracted: Generated/MangleR.v gen_phi, gen_theta_lat, gen_x0..2).
   Over R: that vector is the unit vector (cos dec cos ra, cos dec sin ra, sin dec); its dot product with a unit
   cap centre lies in [-1, 1]; so membership decided on RA/Dec input is the algebraic cap test on that vector.
   (Self-contained: nothing is imported from C18.) *)
From Coq Require Import Reals Lra Lia.
From PV Require Import C12.RBase Generated.MangleR C12.Arccos.
Open Scope R_scope.

Definition vecR := (R * R * R)%type.
Definition dotR (a b : vecR) : R :=
  let '(a0, a1, a2) := a in let '(b0, b1, b2) := b in a0 * b0 + a1 * b1 + a2 * b2.
Definition unitR (a : vecR) : Prop := dotR a a = 1.

(* what angles_to_x(points, latitude=True) computes for a row (ra, dec), both in degrees *)
Definition angles_to_x_lat (ra dec : R) : vecR :=
  let phi := gen_phi ra dec in let theta := gen_theta_lat ra dec in
  (gen_x0 phi theta, gen_x1 phi theta, gen_x2 phi theta).

(* the textbook unit vector of (ra, dec) *)
Definition radec_unit (ra dec : R) : vecR :=
  (cos (radians dec) * cos (radians ra), cos (radians dec) * sin (radians ra), sin (radians dec)).

Lemma theta_lat_is_colatitude ra dec : gen_theta_lat ra dec = PI / 2 - radians dec.
Proof. unfold gen_theta_lat, radians. field. Qed.

Lemma angles_to_x_lat_is_radec_unit ra dec : angles_to_x_lat ra dec = radec_unit ra dec.
Proof.
  unfold angles_to_x_lat, radec_unit, gen_x0, gen_x1, gen_x2, gen_phi. cbv zeta.
  rewrite theta_lat_is_colatitude, sin_shift, cos_shift.
  rewrite (Rmult_comm (cos (radians ra))), (Rmult_comm (sin (radians ra))). reflexivity.
Qed.

Lemma radec_unit_is_unit ra dec : unitR (radec_unit ra dec).
Proof.
  unfold unitR, radec_unit, dotR.
  pose proof (sin2_cos2 (radians ra)) as H1. pose proof (sin2_cos2 (radians dec)) as H2.
  unfold Rsqr in *.
  set (sa := sin (radians ra)) in *. set (ca := cos (radians ra)) in *.
  set (sd := sin (radians dec)) in *. set (cd := cos (radians dec)) in *.
  replace (cd * ca * (cd * ca) + cd * sa * (cd * sa) + sd * sd) with (cd * cd * (sa * sa + ca * ca) + sd * sd) by ring.
  rewrite H1. lra.
Qed.

(* Cauchy-Schwarz for unit 3-vectors *)
Lemma dot_unit_bounds a b : unitR a -> unitR b -> -1 <= dotR a b <= 1.
Proof.
  destruct a as [[a0 a1] a2], b as [[b0 b1] b2]. unfold unitR, dotR. intros Ha Hb.
  pose proof (Rle_0_sqr (a0 - b0)) as S0. pose proof (Rle_0_sqr (a1 - b1)) as S1. pose proof (Rle_0_sqr (a2 - b2)) as S2.
  pose proof (Rle_0_sqr (a0 + b0)) as T0. pose proof (Rle_0_sqr (a1 + b1)) as T1. pose proof (Rle_0_sqr (a2 + b2)) as T2.
  unfold Rsqr in *. split; nra.
Qed.

(* membership decided on RA/Dec input = the property's cap test on the unit vector of (ra, dec) *)
Theorem radec_membership x cm ra dec : unitR x -> -2 <= cm <= 2 ->
  (gen_is_in_cap cm (dotR (angles_to_x_lat ra dec) x) <->
   if Rlt_dec cm 0 then - cm <= 1 - dotR (radec_unit ra dec) x else 1 - dotR (radec_unit ra dec) x <= cm).
Proof.
  intros Hx Hc. rewrite angles_to_x_lat_is_radec_unit.
  apply cap_distance_sign; [|exact Hc].
  apply dot_unit_bounds; [apply radec_unit_is_unit | exact Hx].
Qed.

(* ... and equals membership decided on the same direction given in Cartesian form *)
Theorem radec_and_cartesian_agree x cm ra dec :
  gen_is_in_cap cm (dotR (angles_to_x_lat ra dec) x) <-> gen_is_in_cap cm (dotR (radec_unit ra dec) x).
Proof. rewrite angles_to_x_lat_is_radec_unit. reflexivity. Qed.
