(* C03 -- the invariant of the property for EVERY state and EVERY operation list (no domain of documents):
   as long as no re-parse raises, the file named by the object holds exactly the object's contents and reading those
   contents gives the object's tables and pairs -- after every prefix of the history, whatever the seed text was
   (hand-written files, char x[] / char x[n][] columns whose numpy width grows with the appended rows, files without a
   final newline, trailing comments), whatever is appended, including refused and warned operations, re-reads, copies. *)
From Coq Require Import String.
From Coq Require Import NArith ZArith List Bool Lia.
Import ListNotations.
From PV Require Import Yanny.Bytes Yanny.BytesFacts Yanny.Types Yanny.Parse Yanny.Render
  C03.Model C03.Proofs C03.Invariant C03.Append.
Open Scope N_scope.

(* the only side condition on an operation: `AppendToMissing p` is what its name says (the harness rebinds the object to a
   missing path for the call and restores the name afterwards) *)
Definition op_sane (fs : fsys) (x : op) : Prop :=
  match x with AppendToMissing p _ _ => fs_get fs p = None | _ => True end.
Definition op_saneb (fs : fsys) (x : op) : bool :=
  match x with AppendToMissing p _ _ => match fs_get fs p with None => true | Some _ => false end | _ => true end.

Lemma write_keeps_Inv fs o nf c fs' o' out : Inv fs o -> do_write fs o nf c = (fs', o', out) -> out <> Crashed -> Inv fs' o'.
Proof.
  intros HI E Hc. unfold do_write in E. destruct (match nf with Some q => q | None => o_file o end) as [|t0 t1]; [inversion E; now subst|].
  destruct (fs_get fs (t0 :: t1)); [inversion E; now subst|].
  destruct (parse (render_obj c (o_state o))) as [p'|] eqn:P; inversion E; subst; [|congruence].
  split; cbn [o_file o_contents o_state]; [apply fs_get_set_same|exact P].
Qed.

Lemma append_keeps_Inv fs o d clock fs' o' out : Inv fs o -> do_append fs o d clock = (fs', o', out) -> out <> Crashed -> Inv fs' o'.
Proof.
  intros [HF HP] E Hc. unfold do_append in E. destruct (o_file o) as [|t0 t1] eqn:Ef; [inversion E; subst; split; [now rewrite Ef|exact HP]|].
  rewrite <- Ef in *.
  destruct (append_pairs (o_state o) d) as [ps|], (append_rows (table_names (o_state o)) d) as [rs|];
    try (inversion E; subst; now split).
  destruct (ps ++ rs) as [|b0 body]; [inversion E; subst; now split|].
  rewrite HF in E.
  destruct (parse (o_contents o ++ append_sep (o_contents o) ++ S_APPENDED ++ clock ++ [46; NL] ++ b0 :: body)) as [p'|] eqn:P;
    inversion E; subst; [|congruence].
  split; cbn [o_file o_contents o_state]; [apply fs_get_set_same|exact P].
Qed.

(* one operation, any state *)
Theorem step_keeps_Inv fs o x fs' o' out :
  Inv fs o -> op_sane fs x -> step (fs, o) x = (fs', o', out) -> out <> Crashed -> Inv fs' o'.
Proof.
  intros HI Hs E Hc. destruct x; cbn [step] in E;
    try (now apply (write_keeps_Inv fs o _ _ fs' o' out HI E));
    try (now apply (append_keeps_Inv fs o _ _ fs' o' out HI E)).
  - (* append to a missing file: nothing changes *)
    cbn [op_sane] in Hs. destruct (append_to_missing_refused fs o p d clock Hs) as [out1 [E1 _]]. cbn [step] in E1.
    rewrite E1 in E. inversion E; subst. exact HI.
  - (* a fresh read of the object's file *)
    destruct HI as [HF HP]. unfold do_reread in E. rewrite HF in E.
    destruct (parse (o_contents o)) as [p'|] eqn:P; inversion E; subst; [|congruence].
    split; cbn [o_file o_contents o_state]; [exact HF|exact P].
Qed.

(* a history along which no re-parse raises *)
Fixpoint trace_ok (s : fsys * obj) (ops : list op) : Prop :=
  match ops with
  | [] => True
  | x :: ops' => op_sane (fst s) x /\ let '(fs', o', out) := step s x in out <> Crashed /\ trace_ok (fs', o') ops'
  end.
Fixpoint trace_okb (s : fsys * obj) (ops : list op) : bool :=
  match ops with
  | [] => true
  | x :: ops' => op_saneb (fst s) x &&
                 let '(fs', o', out) := step s x in negb (Z.eqb (out_code out) 4) && trace_okb (fs', o') ops'
  end.

Lemma trace_okb_sound ops : forall s, trace_okb s ops = true -> trace_ok s ops.
Proof.
  induction ops as [|x ops IH]; intros s H; [exact I|]. cbn [trace_okb trace_ok] in *.
  apply andb_true_iff in H as [H1 H2]. split.
  - destruct x; try exact I. cbn [op_saneb op_sane] in *. destruct (fs_get (fst s) p); [discriminate|reflexivity].
  - destruct (step s x) as [[fs' o'] out]. apply andb_true_iff in H2 as [H2 H3]. split; [|now apply IH].
    intros ->. discriminate.
Qed.

(* ... keeps the invariant after EVERY prefix *)
Theorem run_keeps_Inv ops : forall fs o, Inv fs o -> trace_ok (fs, o) ops ->
  forall k, let '(fs', o') := run (fs, o) (firstn k ops) in Inv fs' o'.
Proof.
  induction ops as [|x ops IH]; intros fs o HI Ht k.
  - destruct k; exact HI.
  - destruct k as [|k]; [exact HI|]. cbn [firstn run]. cbn [trace_ok fst] in Ht. destruct Ht as [Hs Ht].
    destruct (step (fs, o) x) as [[fs' o'] out] eqn:E. destruct Ht as [Hc Ht].
    apply IH; [|exact Ht]. exact (step_keeps_Inv fs o x fs' o' out HI Hs E Hc).
Qed.

(* a history that starts from ANY text the reader accepts *)
Lemma init_text_Inv text p0 raw fs o : init_text text p0 raw = Some (fs, o) -> Inv fs o.
Proof.
  unfold init_text. destruct (parse text) as [p|] eqn:P; [|discriminate]. intros H. inversion H; subst.
  split; cbn [o_file o_contents o_state fs_get]; [now rewrite beq_refl|exact P].
Qed.

Definition text_domain (c : case) : bool :=
  match c with
  | CText text p0 raw _ steps => match init_text text p0 raw with Some s => trace_okb s (map fst steps) | None => false end
  | _ => false
  end.

Theorem text_history_Inv text p0 raw init steps : text_domain (CText text p0 raw init steps) = true ->
  exists fs o, init_text text p0 raw = Some (fs, o) /\
  forall k, let '(fs', o') := run (fs, o) (firstn k (map fst steps)) in Inv fs' o'.
Proof.
  cbn [text_domain]. destruct (init_text text p0 raw) as [[fs o]|] eqn:E; [|discriminate]. intros H.
  exists fs, o. split; [reflexivity|]. apply run_keeps_Inv; [now apply (init_text_Inv text p0 raw)|now apply trace_okb_sound].
Qed.

(* the in-domain histories of the strong theorems never crash: the strong invariant at every prefix *)
Lemma hist_ok_firstn ops : forall s d k, hist_ok s d ops -> hist_ok s d (firstn k ops).
Proof.
  induction ops as [|x ops IH]; intros s d k H; [destruct k; exact I|]. destruct k as [|k]; [exact I|].
  cbn [firstn hist_ok] in *. destruct H as [H1 H2]. split; [exact H1|]. destruct (step s x) as [[fs' o'] out]. now apply IH.
Qed.

Theorem every_prefix_content d0 p0 raw ops s : doc_ok d0 = true -> p0 <> [] -> init_state d0 p0 raw = Some s -> hist_ok s d0 ops ->
  forall k, let '(fs', o') := run s (firstn k ops) in
  Inv fs' o' /\ sem (spec_doc d0 (firstn k ops)) = Some (o_state o').
Proof.
  intros Hd Hp Hi Hh k. pose proof (history_content d0 p0 raw (firstn k ops) s Hd Hp Hi (hist_ok_firstn ops s d0 k Hh)) as H.
  destruct (run s (firstn k ops)) as [fs' o']. destruct H as [A [B C]]. repeat split; assumption.
Qed.

(* ---------------------------------------------------------------- a hand-written file: char s[], a keyword with a trailing
   comment as its last line, no final newline; a longer value is appended, the file is copied and re-read *)
Definition tx_text : bytes := Eval compute in bs "#%yanny
typedef struct {
 int a;
 char s[];
} FOO;

FOO 1 x # c
k v # note"%string.
Definition tx_ops : list op :=
  [ AppendRows true (bs "foo"%string) [[Sc (SInt 2); Sc (STok (bs "longer"%string))]] (bs "t1"%string);
    WriteCopy (bs "g.par"%string) [bs "c"%string];
    WriteOverExisting [bs "c"%string];
    AppendPairs [(bs "j"%string, bs "1"%string)] (bs "t2"%string);
    ReRead ].
Definition tx_case : case := CText tx_text (bs "f.par"%string) false ONone (map (fun x => (x, mkobs 0 [] None ONone)) tx_ops).

Lemma tx_in_domain : text_domain tx_case = true.
Proof. vm_compute. reflexivity. Qed.

Definition col_widths (p : pdoc) : list npk := flat_map (fun t => map pc_np (pt_cols t)) (pd_tables p).
(* the width of the char s[] column is the longest value: 1 at the first read, 6 after the append (and in the copy);
   the earlier keyword keeps its value `v` only if append() terminates the unterminated last line first *)
Lemma tx_widths :
  match init_text tx_text (bs "f.par"%string) false with
  | Some s => col_widths (o_state (snd s)) = [NI4; NS 1] /\
              let '(fs, o) := run s tx_ops in
              col_widths (o_state o) = [NI4; NS 6] /\ o_file o = bs "g.par"%string /\
              pd_pairs (o_state o) = [(bs "k"%string, bs "v"%string); (bs "j"%string, bs "1"%string)] /\
              pd_pairs (o_state (snd (run s (firstn 1 tx_ops)))) = [(bs "k"%string, if append_fix then bs "v"%string else bs "v # note"%string)]
  | None => False
  end.
Proof. vm_compute. repeat split. Qed.

(* verdict of run_case, plus 4 when the history is in the domain of NEITHER theorem family (written seeds: the strong
   theorems, Append.in_domain; text seeds: the invariant for every state, text_domain) *)
Definition run_cases_all (l : list case) : list Z :=
  map (fun c => (run_case c + (if in_domain c || text_domain c then 0 else 4))%Z) l.
